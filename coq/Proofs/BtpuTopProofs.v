(** Property-level statements of C20 over the code's own sender
    ([send_transfer], one total-length hint), assembled from the codec, send
    and receive proofs; with non-vacuity examples for every hypothesis. *)
From Coq Require Import ZArith NArith List Bool Lia ZifyBool ZifyN ZifyNat Arith Permutation.
From DTN Require Import Lib.Bytes Model.Btpu Proofs.BtpuProofs Proofs.BtpuSendProofs Proofs.BtpuRecvProofs.
Import ListNotations.
Local Open Scope N_scope.

Ltac Zify.zify_post_hook ::= Z.div_mod_to_equations.

(** * Sizes and tiling *)

Theorem within_mtu mtu xid data :
  mtu_feasible mtu = true \/ fits (Some mtu) (blen data) = true ->
  Forall (fun f => blen f <= mtu) (send_transfer (Some mtu) xid data).
Proof.
  intros [H|H].
  - apply within_mtu_h, mtu_feasible_xfer, H.
  - unfold send_transfer, send_transfer_h. rewrite H. constructor; [|constructor].
    unfold fits in H. apply N.ltb_lt in H.
    unfold encode_frame, encode_msgs. cbn [f_msgs f_pad map concat]. rewrite !app_nil_r, encode_msg_length.
    unfold mk_bundle, mk_msg. cbn [m_hints m_body is_nil encode_hints]. change (blen []) with 0. lia.
Qed.

Example within_mtu_nonvacuous :
  mtu_feasible 19 = true /\ fits (Some 19) (blen (mkdata 1 40)) = false
  /\ length (send_transfer (Some 19) 7 (mkdata 1 40)) = 40%nat.
Proof. vm_compute. repeat split. Qed.

(** The frames of a bundle that does not fit are the segments in index
    order: indices 0,1,2,..., non-empty data, end marker exactly on the
    last, data concatenated in that order = the bundle, at least two. *)
Theorem segmented_send mtu xid data :
  mtu_feasible mtu = true -> fits (Some mtu) (blen data) = false ->
  let hs := xfer_hints (blen data) in
  let segs := segments hs mtu data in
  send_transfer (Some mtu) xid data = map (seg_frame hs xid) segs
  /\ shape 0 segs
  /\ concat (map seg_data segs) = data
  /\ (2 <= length segs)%nat.
Proof.
  intros Hm Hf. cbn zeta. pose proof (mtu_feasible_xfer (blen data) mtu Hm) as Hm'.
  split; [unfold send_transfer, send_transfer_h; rewrite Hf; reflexivity|].
  split; [apply segments_shape, Hm'|]. split; [apply segments_concat, Hm'|apply segments_ge2; assumption].
Qed.

Example segmented_send_nonvacuous :
  mtu_feasible 30 = true /\ fits (Some 30) (blen (mkdata 1 40)) = false
  /\ map (fun s => (seg_idx s, length (seg_data s), seg_last s)) (segments (xfer_hints 40) 30 (mkdata 1 40))
     = [(0, 12%nat, false); (1, 12%nat, false); (2, 12%nat, false); (3, 4%nat, true)].
Proof. vm_compute. repeat split. Qed.

(** * What is sent decodes to what was built *)

Theorem sent_unsegmented mtu xid data :
  fits mtu (blen data) = true -> wf_bytesb data = true -> blen data <? LEN_MOD = true ->
  let f := encode_frame (mkFrame [mk_bundle data] []) in
  send_transfer mtu xid data = [f]
  /\ decode_frame f = Some (mkFrame [mk_bundle data] [])
  /\ declared_len f = Some (blen data) /\ blen f = 4 + blen data
  /\ (data <> [] -> view (mk_bundle data) = CBundle data).
Proof.
  intros Hf Hw Hl. cbn zeta. apply wf_bytesb_spec in Hw. apply N.ltb_lt in Hl.
  assert (Hwf : wf_msg (mk_bundle data)).
  { unfold mk_bundle.
    apply wf_mk_msg; [lia|constructor|unfold MAX_LIST; cbn [length]; lia|exact Hw|].
    cbn [encode_hints]. change (blen []) with 0. lia. }
  split; [unfold send_transfer, send_transfer_h; rewrite Hf; reflexivity|].
  split; [apply single_frame_decode; [exact Hwf|cbn; lia]|].
  assert (E : encode_frame (mkFrame [mk_bundle data] []) = encode_msg (mk_bundle data) ++ [])
    by (unfold encode_frame, encode_msgs; cbn [f_msgs f_pad map concat]; rewrite app_nil_r; reflexivity).
  rewrite E. destruct (declared_len_encode (mk_bundle data) [] (proj2 (wf_msgb_spec _) Hwf)) as [D L].
  split; [rewrite D; cbn [mk_bundle mk_msg m_hints m_body is_nil encode_hints]; change (blen []) with 0; f_equal; lia|].
  split; [rewrite app_nil_r, L; cbn [mk_bundle mk_msg m_hints m_body is_nil encode_hints]; change (blen []) with 0; lia|].
  apply view_mk_bundle.
Qed.

Example sent_unsegmented_nonvacuous :
  fits None (blen (mkdata 3 100)) = true /\ fits (Some 105) (blen (mkdata 3 100)) = true
  /\ wf_bytesb (mkdata 3 100) = true /\ (blen (mkdata 3 100) <? LEN_MOD) = true.
Proof. vm_compute. repeat split. Qed.

Theorem sent_segments mtu xid data :
  send_okb mtu xid data = true ->
  let hs := xfer_hints (blen data) in
  send_transfer (Some mtu) xid data = map (seg_frame hs xid) (segments hs mtu data)
  /\ Forall (fun s =>
       decode_frame (seg_frame hs xid s) = Some (mkFrame [seg_msg hs xid s] [])
       /\ view (seg_msg hs xid s)
          = (if seg_last s then CEnd xid (seg_idx s) (seg_data s) else CSeg xid (seg_idx s) (seg_data s))
       /\ declared_len (seg_frame hs xid s) = Some (blen (seg_frame hs xid s) - 4)
       /\ m_hints (seg_msg hs xid s) = hs)
     (segments hs mtu data).
Proof.
  intros Hok. cbn zeta. unfold send_okb in Hok. apply xfer_okb_spec in Hok. pose proof Hok as (Hm & Hf & _).
  split; [unfold send_transfer, send_transfer_h; rewrite Hf; reflexivity|].
  eapply Forall_impl; [|apply (segments_encodable _ _ _ _ Hok)]. cbn beta. intros s He.
  destruct (seg_frame_decode _ _ _ He) as [Hd Hv]. split; [exact Hd|]. split; [exact Hv|].
  split.
  - destruct s as [[i d] b]. unfold seg_encodable, seg_idx, seg_data in He. cbn [fst snd] in He.
    destruct He as (Hh & Hn & Hx & Hi & Hw & Hl).
    assert (Hwf : wf_msg (seg_msg (xfer_hints (blen data)) xid (i, d, b))).
    { unfold seg_msg, mk_seg. apply wf_mk_msg; try assumption.
      - destruct b; lia.
      - apply wf_bytes_app; split; [apply be_wf|]. apply wf_bytes_app; split; [apply be_wf|exact Hw].
      - rewrite !blen_app. unfold blen in *. rewrite !be_length. lia. }
    unfold seg_frame, encode_frame, encode_msgs. cbn [f_msgs f_pad map concat]. rewrite app_nil_r.
    destruct (declared_len_encode _ [] (proj2 (wf_msgb_spec _) Hwf)) as [D L].
    rewrite D. rewrite app_nil_r, L. f_equal. lia.
  - destruct s as [[i d] b]. reflexivity.
Qed.

Example send_okb_nonvacuous :
  send_okb 30 7 (mkdata 1 40) = true /\ send_okb 19 (4294967295) (mkdata 2 15) = true
  /\ send_okb 1500 0 (mkdata 3 1496) = true.
Proof. vm_compute. repeat split. Qed.

(** * Reassembly *)

Theorem reassembly_any_order_once mtu xid conv st data p :
  send_okb mtu xid data = true ->
  plookup (conv, xid) (r_prog st) = None ->
  Permutation p (send_transfer (Some mtu) xid data) ->
  let fin := fold_left (recv_frame conv) p st in
  r_queue fin = r_queue st ++ [(r_next st, data)]
  /\ r_signals fin = r_signals st ++ [(r_next st, blen data, c_peer conv)]
  /\ plookup (conv, xid) (r_prog fin) = None
  /\ (forall p1 p2, p = p1 ++ p2 -> p2 <> [] ->
        r_queue (fold_left (recv_frame conv) p1 st) = r_queue st
        /\ r_signals (fold_left (recv_frame conv) p1 st) = r_signals st).
Proof. intros Hok. apply reassembly_h. exact Hok. Qed.

Example reassembly_nonvacuous :
  let frames := send_transfer (Some 30) 7 (mkdata 1 40) in
  send_okb 30 7 (mkdata 1 40) = true
  /\ plookup (chan1, 7) (r_prog rx_init) = None
  /\ queued (fold_left (recv_frame chan1) [nth 2 frames []; nth 0 frames []; nth 3 frames []; nth 1 frames []] rx_init)
     = [mkdata 1 40]
  /\ queued (fold_left (recv_frame chan1) [nth 2 frames []; nth 0 frames []; nth 3 frames []] rx_init) = [].
Proof. vm_compute. repeat split. Qed.

(** * Noted behaviour outside the quantifier of C20 (peer-crafted input,
    zero-length bundle): what the guards above exclude, by computation. *)

(** [if xfer.got_end:] -- a peer's single-segment transfer (end marker on
    index 0) is never queued.  This sender never produces one
    ([segmented_send]: at least two segments). *)
Theorem note_end_index_zero_never_completes :
  let f := seg_frame (xfer_hints 3) 9 (0, [1; 2; 3], true) in
  decode_frame f = Some (mkFrame [mk_seg (xfer_hints 3) true 9 0 [1; 2; 3]] [])
  /\ queued (recv_frame chan1 rx_init f) = []
  /\ map (fun e => (fst e, x_end (snd e), x_segs (snd e))) (r_prog (recv_frame chan1 rx_init f))
     = [((chan1, 9), Some 0, [(0, [1; 2; 3])])].
Proof. vm_compute. repeat split. Qed.

(** A zero-length bundle is sent as [02 00 00 00]; the receiver dissects no
    BundlePdu layer from it and queues nothing. *)
Theorem note_zero_length_bundle_not_queued :
  send_transfer None 0 [] = [[2; 0; 0; 0]]
  /\ decode_frame [2; 0; 0; 0] = Some (mkFrame [mk_bundle []] [])
  /\ view (mk_bundle []) = COther
  /\ queued (recv_frame chan1 rx_init [2; 0; 0; 0]) = [].
Proof. vm_compute. repeat split. Qed.

(** A transfer message without data raises in [_recv_msg]. *)
Theorem note_empty_segment_raises :
  snd (recv_frame_r chan1 rx_init (seg_frame [] 9 (1, [], false))) = true.
Proof. vm_compute. reflexivity. Qed.

(** An MTU that leaves no room for data ([mtu <= 18]) with a bundle that does
    not fit: the real loop never ends; the model's fuel runs out after
    [length data] empty segments.  Hence the guard [mtu_feasible]. *)
Theorem note_infeasible_mtu :
  mtu_feasible 18 = false
  /\ map seg_data (segments (xfer_hints 14) 18 (mkdata 1 14)) = repeat [] 14.
Proof. vm_compute. repeat split. Qed.
