''' C09 -- TCPCL termination is graceful, complete and always finishes. '''
import env  # noqa: F401
import json

import tcpcl_corr as TC
import tcpcl_suite as TS

# consequences of one root cause (an endpoint that closes while octets -- a final XFER_ACK or its own
# SESS_TERM reply -- are still in its connection-level TX buffer): the peer never gets them
KNOWN_CONSEQUENCES = (
    'C09 / transfer completed at the receiver but never acknowledged to the sender',
    'C09 / queued transfer silently lost at termination',
    'C09 / transfer in progress at termination neither completed nor reported',
)


def closed_with_buffered_octets(rec):
    ''' Did an endpoint close while octets were still in its connection-level
    TX buffer (only possible after a partial socket write)? '''
    for e in 'AB':
        snaps = rec.runner.snaps[e]
        for (idx, snap) in enumerate(snaps):
            if snap[0][4] == 1:
                if idx > 0 and snaps[idx - 1][3][0] > 0 and snaps[idx - 1][0][3] == 1:
                    return True
                break
    return False


def term_everywhere(chk, base_seed, positions, accept, nread):
    ''' A fixed base workload with terminate() inserted at every position. '''
    import random
    recs = []
    for pos in positions:
        for who in ('A', 'B', 'AB'):
            rng = random.Random(base_seed)
            runner = TC.Runner(cfg_a=dict(segment_size_tx_initial=3), cfg_b=dict(segment_size_tx_initial=4))
            runner.apply(('start', 'A'))
            runner.apply(('start', 'B'))
            if pos > 0:
                TC.drain(runner)
            runner.apply(('send', 'A', ('lit', bytes(range(10)))))
            runner.apply(('send', 'B', ('lit', bytes(range(7)))))
            runner.apply(('send', 'A', ('lit', b'xyz')))
            steps = 0
            while steps < pos:
                ena = TC.enabled_ops(runner, rng)
                if not ena:
                    break
                pick = ena[steps % len(ena)]
                if pick[0] == 'txpump':
                    runner.apply(('txpump', pick[1], pick[2], accept))
                elif pick[0] == 'rxpump':
                    runner.apply(('rxpump', pick[1], nread))
                else:
                    runner.apply(('pq', pick[1]))
                steps += 1
            for e in who:
                runner.apply(('term', e, 0))
            TC.drain(runner, accept=accept, nread=nread)
            recs.append(TS.finish(runner, 'term-at', dict(pos=pos, who=who, accept=accept, nread=nread, quiescent=True)))
    return recs


def agent_level(chk):
    ''' tcpcl.agent.Agent with several contacts: shutdown()/stop() must reach every
    session whatever the order of pre-session and established contacts. '''
    import itertools
    import dbus
    from gi.repository import GLib
    import tcpcl.agent
    import tcpcl.config
    from tcpcl_drive import FakeSock
    fails = []
    ncases = 0
    patterns = [p for n in (1, 2, 3) for p in itertools.product('EP', repeat=n)]  # E established, P pre-session
    for pattern in patterns:
        for action in ('shutdown', 'stop'):
            GLib.CTX.reset()
            del dbus.service.EVENT_LOG[:]
            bus = dbus.bus.BusConnection()
            cfgs = []
            agents = []
            for name in ('a', 'b'):
                cfg = tcpcl.config.Config(tls_enable=False, node_id='dtn://%s/' % name)
                cfg._bus_conn = bus
                cfgs.append(cfg)
                agents.append(tcpcl.agent.Agent(cfg, bus_kwargs=dict(conn=bus, object_path='/ag' + name)))
            stopped = []
            agents[0].set_on_stop(lambda: stopped.append(True))
            pairs = []
            for (idx, kind) in enumerate(pattern):
                sa = FakeSock('a%d' % idx, ('10.0.0.1', 40000 + idx))
                sb = FakeSock('b%d' % idx, ('10.0.0.2', 4556))
                sa.peer = sb
                sb.peer = sa
                ha = agents[0]._bind_handler(config=cfgs[0], sock=sa, toaddr=('10.0.0.2', 4556))
                hb = agents[1]._bind_handler(config=cfgs[1], sock=sb, fromaddr=('10.0.0.1', 40000 + idx))
                ha.start()
                hb.start()
                pairs.append((kind, ha, hb, sa, sb))

            def pump(only=None, limit=3000):
                for _ in range(limit):
                    progress = False
                    for src in list(GLib.CTX.sources.values()):
                        own = src.owner
                        if only is not None and own not in only:
                            continue
                        if src.sid not in GLib.CTX.sources:
                            continue
                        if src.kind == 'idle':
                            if src.name == '_process_queue' and not getattr(own, '_in_sess', True):
                                continue
                            GLib.CTX.run(src)
                            progress = True
                        elif src.kind == 'io' and src.cond == GLib.IO_IN and src.sock is not None and not src.sock.closed \
                                and (src.sock.inbox or src.sock.eof):
                            GLib.CTX.run(src)
                            progress = True
                        elif src.kind == 'io' and src.cond == GLib.IO_OUT and (
                                getattr(own, '_Messenger__tx_buf', b'') or getattr(own, '_Connection__tx_buf', b'')):
                            GLib.CTX.run(src)
                            progress = True
                    if not progress:
                        break

            established = [own for (kind, ha, hb, sa, sb) in pairs if kind == 'E' for own in (ha, hb)]
            pump(only=set(established))
            try:
                getattr(agents[0], action)()
            except Exception as err:
                fails.append(('C09 / Agent.%s raised' % action, '%s: %s %s' % (''.join(pattern), err.__class__.__name__, err)))
            pump()
            ncases += 1
            tag = '%s/%s' % (''.join(pattern), action)
            for (idx, (kind, ha, hb, sa, sb)) in enumerate(pairs):
                if not sa.closed:
                    fails.append(('C09 / Agent.%s left a session open' % action,
                                  'contacts %s: contact #%d (%s) still open' % (''.join(pattern), idx, kind)))
                if not sb.closed:
                    fails.append(('C09 / Agent.%s left the peer of a session half-open' % action,
                                  'contacts %s: contact #%d (%s)' % (''.join(pattern), idx, kind)))
                if action == 'shutdown' and kind == 'E':
                    fa = [f for f in TS.decode_stream(bytes(sa.sent))[0] if f['t'] == 'term']
                    fb = [f for f in TS.decode_stream(bytes(sb.sent))[0] if f['t'] == 'term']
                    if len(fa) != 1 or fa[0]['flags'] & 1 or len(fb) != 1 or not fb[0]['flags'] & 1:
                        fails.append(('C09 / graceful shutdown without exactly one SESS_TERM and one reply',
                                      'contacts %s: contact #%d A %s B %s' % (''.join(pattern), idx, fa, fb)))
            if not stopped and action == 'shutdown' and all(sa.closed for (_k, _a, _b, sa, _sb) in pairs):
                fails.append(('C09 / agent does not stop after its last session closed', tag))
            chk.count('agent_level_pattern', ''.join(pattern))
            chk.case(ident=('agent-level', tag), nontrivial=(len(pattern) >= 2), sample=dict(agent_level=tag))
    return fails


def agent_stop_on_close(chk):
    ''' Several contacts on one agent, one of them closes (its peer terminates it) while another has a transfer
    in progress: the other contact is not touched, whatever stop_on_close says; the agent stops only after its
    last contact closed. '''
    import dbus
    from gi.repository import GLib
    import tcpcl.agent
    import tcpcl.config
    from tcpcl_drive import FakeSock
    fails = []
    for ncontacts in (2, 3):
        for soc in (False, True):
            for closer in ('peer-terminate', 'own-terminate', 'peer-disconnect'):
                GLib.CTX.reset()
                del dbus.service.EVENT_LOG[:]
                bus = dbus.bus.BusConnection()
                cfgs = []
                agents = []
                for name in ('a', 'b'):
                    cfg = tcpcl.config.Config(tls_enable=False, node_id='dtn://%s/' % name, stop_on_close=soc,
                                              segment_size_tx_initial=5)
                    cfg._bus_conn = bus
                    cfgs.append(cfg)
                    agents.append(tcpcl.agent.Agent(cfg, bus_kwargs=dict(conn=bus, object_path='/ag' + name)))
                stopped = []
                agents[0].set_on_stop(lambda: stopped.append(True))
                pairs = []
                for idx in range(ncontacts):
                    sa = FakeSock('a%d' % idx, ('10.0.0.1', 40000 + idx))
                    sb = FakeSock('b%d' % idx, ('10.0.0.2', 4556))
                    sa.peer = sb
                    sb.peer = sa
                    ha = agents[0]._bind_handler(config=cfgs[0], sock=sa, toaddr=('10.0.0.2', 4556))
                    hb = agents[1]._bind_handler(config=cfgs[1], sock=sb, fromaddr=('10.0.0.1', 40000 + idx))
                    ha.start()
                    hb.start()
                    pairs.append((ha, hb, sa, sb))

                def pump(only=None, limit=4000):
                    for _ in range(limit):
                        progress = False
                        for src in list(GLib.CTX.sources.values()):
                            own = src.owner
                            if only is not None and own not in only:
                                continue
                            if src.sid not in GLib.CTX.sources:
                                continue
                            if src.kind == 'idle':
                                if src.name == '_process_queue' and not getattr(own, '_in_sess', True):
                                    continue
                                GLib.CTX.run(src)
                                progress = True
                            elif src.kind == 'io' and src.cond == GLib.IO_IN and src.sock is not None and not src.sock.closed \
                                    and (src.sock.inbox or src.sock.eof):
                                GLib.CTX.run(src)
                                progress = True
                            elif src.kind == 'io' and src.cond == GLib.IO_OUT and (
                                    getattr(own, '_Messenger__tx_buf', b'') or getattr(own, '_Connection__tx_buf', b'')):
                                GLib.CTX.run(src)
                                progress = True
                        if not progress:
                            break

                pump()
                tag = 'contacts=%d/stop_on_close=%s/%s' % (ncontacts, soc, closer)
                # a 60-octet bundle in 5-octet segments on the LAST contact, a few segments under way
                (ha_busy, hb_busy, sa_busy, sb_busy) = pairs[-1]
                payload = bytes(range(60))
                ha_busy.send_bundle_data(payload)
                pump(only={ha_busy, hb_busy}, limit=3)
                # contact #0 closes
                (ha0, hb0, sa0, sb0) = pairs[0]
                try:
                    if closer == 'peer-terminate':
                        hb0.terminate(0)
                    elif closer == 'own-terminate':
                        ha0.terminate(0)
                    else:
                        hb0.close()
                    pump(only={ha0, hb0})
                except Exception as err:
                    fails.append(('C09 / closing one contact raised', '%s: %s %s' % (tag, err.__class__.__name__, err)))
                if not sa0.closed:
                    fails.append(('C09 / terminated contact not closed', tag))
                pump()
                for (idx, (ha, hb, sa, sb)) in enumerate(pairs[1:], 1):
                    if sa.closed or sb.closed:
                        fails.append(('C09 / closing one contact tore down another contact of the same agent',
                                      '%s: contact #%d closed although nobody terminated it' % (tag, idx)))
                got = [bytes(hb_busy.recv_bundle_pop_data(bid)) for bid in list(hb_busy.recv_bundle_get_queue())] \
                    if not sb_busy.closed or hb_busy._rx_bundles else []
                if got != [payload]:
                    fails.append(('C09 / transfer in progress on another contact did not complete when one contact closed',
                                  '%s: received %s' % (tag, [len(x) for x in got])))
                if stopped:
                    fails.append(('C09 / agent stopped while a contact was still open', tag))
                # now the graceful shutdown of what remains
                try:
                    agents[0].shutdown()
                except Exception as err:
                    fails.append(('C09 / Agent.shutdown raised', '%s: %s %s' % (tag, err.__class__.__name__, err)))
                pump()
                for (idx, (ha, hb, sa, sb)) in enumerate(pairs):
                    if not sa.closed or not sb.closed:
                        fails.append(('C09 / Agent.shutdown left a session open', '%s: contact #%d' % (tag, idx)))
                if not stopped:
                    fails.append(('C09 / agent does not stop after its last session closed', tag))
                chk.count('agent_stop_on_close', tag)
                chk.case(ident=('agent-stop-on-close', tag), nontrivial=True, sample=dict(agent_level=tag))
    return fails


def close_with_queue(chk):
    ''' The connection goes down without a SESS_TERM exchange while bundles are queued: terminate() before the session
    is established, close(), the peer closing (end of stream), before and after establishment. '''
    recs = []
    for established in (False, True):
        for how in ('close', 'term', 'peer-close', 'peer-term'):
            for nsend in (1, 3):
                runner = TC.Runner(cfg_a=dict(segment_size_tx_initial=4), cfg_b=dict(segment_size_tx_initial=3))
                runner.apply(('start', 'A'))
                runner.apply(('start', 'B'))
                if established:
                    TC.drain(runner)
                for idx in range(nsend):
                    runner.apply(('send', 'A', ('lit', bytes(range(idx * 5)))))
                runner.apply(('send', 'B', ('lit', b'zz')))
                if established:
                    # let the first transfer start, the others stay queued
                    runner.apply(('pq', 'A'))
                if how == 'close':
                    runner.apply(('close', 'A'))
                elif how == 'term':
                    runner.apply(('term', 'A', 0))
                elif how == 'peer-close':
                    runner.apply(('close', 'B'))
                else:
                    runner.apply(('term', 'B', 0))
                TC.drain(runner)
                recs.append(TS.finish(runner, 'close-with-queue', dict(quiescent=True, established=established, how=how, nsend=nsend)))
    return recs


def build(chk):
    recs = []
    positions = list(range(0, 40, 3)) if chk.quick() else list(range(0, 80))
    recs += term_everywhere(chk, 11, positions, 1 << 30, 1 << 30)
    recs += close_with_queue(chk)
    recs += term_everywhere(chk, 12, positions[::2], 1, 1 << 30)
    recs += term_everywhere(chk, 13, positions[::2], 1 << 30, 2)
    # termination while the peer refuses / acknowledges transfers that are queued, in flight or awaiting their
    # final ack: XFER_REFUSE and XFER_ACK are legal peer messages; both sides must still end closed
    import random
    import check_C17
    for victim in ('A', 'B'):
        for fidx in range(200):
            if chk.quick() and fidx % 2 != 0:
                continue
            res = check_C17.adversarial_run(chk, random.Random(9000 + fidx), phase='terminating', forced=fidx,
                                            victim=victim, inflight=(10, 3, 2))
            if not res[2]:
                break
            if res[2][0][0] not in (2, 3):
                continue
            frame = res[2][0]
            if frame[0] == 3 and int.from_bytes(frame[2:10], 'big') == 2:
                # refusing the transfer that is IN FLIGHT is only consistent if the refusing peer also drops its
                # half-received copy; the real peer endpoint did not refuse (the frame is injected), keeps waiting
                # for the rest and never becomes idle: not a scenario of two conforming endpoints
                continue
            res[0].meta.update(dict(quiescent=True, no_model=(fidx % 3 != 0)))
            res[0].kind = 'term-with-xfer-msg'
            recs.append(res[0])
    nruns = 10 if chk.quick() else 300
    for idx in range(nruns):
        runner = TS.gen_coop(chk.rng, nops=chk.rng.choice([40, 90]), with_term=True)
        TC.drain(runner)
        recs.append(TS.finish(runner, 'coop-term', dict(quiescent=True)))
    return recs


def evaluate(chk, recs):
    for (sig, what) in agent_level(chk) + agent_stop_on_close(chk):
        chk.fail(sig, what, dict(kind='agent-level', what=what))
    for rec in recs:
        terms = sum(1 for e in 'AB' for f in TS.decode_stream(rec.wire[e])[0] if f['t'] == 'term')
        chk.count('sess_term_frames', terms)
        chk.count('kind', rec.kind)
        chk.case(ident=json.dumps(rec.replay_obj(), sort_keys=True), nontrivial=(terms > 0),
                 sample=dict(kind=rec.kind, meta=rec.meta, ops=len(rec.runner.applied), terms=terms,
                             closed={e: rec.snap[e]['closed'] for e in 'AB'}))
        for (sig, what) in TS.oracle_c09(rec, quiescent=rec.meta.get('quiescent', False)):
            if sig in KNOWN_CONSEQUENCES and closed_with_buffered_octets(rec):
                # the known finding: _check_sess_term ignores the connection-level TX buffer
                sig = 'C09 / terminating side closes with the final XFER_ACK still in the connection-level TX buffer (partial socket write)'
            chk.fail(sig, what, rec.replay_obj())


if __name__ == '__main__':
    TS.run_check('C09', build, evaluate,
                 rule='a fixed three-bundle two-way workload with terminate() on A, B or both inserted at every position of a '
                      'round-robin schedule (full writes, 1-octet writes, 2-octet reads), then drained to quiescence; plus random '
                      'cooperative schedules with terminate() at random positions; close(), terminate() before establishment and peer '
                      'disconnect with bundles queued (every accepted bundle that never started must be reported); agent-level: 1-3 contacts in every '
                      'pre-session/established order under shutdown()/stop(), and 2-3 contacts with stop_on_close off/on where one '
                      'contact closes (peer terminates, own terminate, peer disconnect) while another has a transfer in progress; '
                      'non-trivial = a SESS_TERM reached the wire',
                 extra_props=('Props/TcpclTie.v', 'Props/C09agent.v'))
