class HWAddress(bytes):
    size = 48

    def __new__(cls, value=b''):
        if isinstance(value, str):
            value = bytes(int(part, 16) for part in value.replace('-', ':').split(':'))
        elif isinstance(value, int):
            value = value.to_bytes(cls.size // 8, 'big')
        return bytes.__new__(cls, bytes(value))

    def __str__(self):
        return '-'.join('%02X' % b for b in self)


class EUI48(HWAddress):
    size = 48


MAC = EUI48
