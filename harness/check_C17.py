''' C17 -- TCPCL answers out-of-place peer messages without corrupting state. '''
import env  # noqa: F401
import json

import tcpcl_corr as TC
import tcpcl_suite as TS

KNOWN_UNKNOWN_TYPE = 'C17 / unknown message type is never answered (stream stalls)'


def emitted_frames(runner, e):
    sysm = runner.sysm
    return TS.decode_stream(sysm.emitted(e))[0]


def directed_frames(hdl):
    ''' State-derived alphabet: every message type about every class of transfer id the victim
    knows (unknown, queued, in flight, awaiting ack) with every flag combination and the lengths
    that matter (0, what was sent so far, the total, one less, the maximum). '''
    import struct
    ids = [0, 99]
    totals = {}
    for (bid, item) in list(hdl._tx_map.items()):
        ids.append(int(bid))
        totals[int(bid)] = len(item.file.getvalue())
    frames = []
    for xid in ids:
        lens = [0, 1, 2 ** 64 - 1]
        if xid in totals:
            lens += [totals[xid], max(totals[xid] - 1, 0), int(hdl._tx_length or 0)]
        for flags in (0, 1, 2, 3):
            for length in sorted(set(lens)):
                frames.append(bytes([2, flags]) + struct.pack('!QQ', xid, length))
        for reason in (0, 3):
            frames.append(bytes([3, reason]) + struct.pack('!Q', xid))
    for xid in (0, 5):
        for flags in (0, 1, 2, 3):
            data = b'zz'
            ext = (struct.pack('!I', 13) + bytes([0, 0, 1, 0, 8]) + struct.pack('!Q', len(data))) if flags & 2 else b''
            frames.append(bytes([1, flags]) + struct.pack('!Q', xid) + ext + struct.pack('!Q', len(data)) + data)
    frames += [bytes([4]), bytes([5, 0, 0]), bytes([5, 1, 3]), bytes([6, 1, 3]), b'dtn!\x04\x00', bytes([9, 0])]
    return frames


def adversarial_run(chk, rng, phase=None, forced=None, victim=None, inflight=None):
    ''' Like TS.gen_adversarial but checks the response to every injected frame
    against an independent expectation derived from the property text.
    ``forced``: index into the state-derived alphabet (one frame injected);
    ``inflight``: (bundle length, segment size, segments to put out first). '''
    (ca, cb) = TC.gen_config(rng)
    for conf in (ca, cb):
        conf['keepalive_time'] = 0
        conf['idle_time'] = 0
    victim = victim or rng.choice('AB')
    peer = 'B' if victim == 'A' else 'A'
    if inflight is not None:
        (ca if victim == 'A' else cb)['segment_size_tx_initial'] = inflight[1]
        (cb if victim == 'A' else ca)['segment_size_mru'] = max(inflight[1], 64)
    runner = TC.Runner(cfg_a=ca, cfg_b=cb)
    runner.apply(('start', 'A'))
    runner.apply(('start', 'B'))
    phase = phase or rng.choice(['contact', 'established', 'established', 'established', 'terminating'])
    if phase == 'contact':
        # the victim has exchanged contact headers but not SESS_INIT
        if victim == 'B':
            runner.apply(('txpump', 'A', 'idle', 1 << 30))
            runner.apply(('rxpump', 'B', 1 << 30))
        else:
            runner.apply(('txpump', 'A', 'idle', 1 << 30))
            runner.apply(('rxpump', 'B', 1 << 30))
            runner.apply(('txpump', 'B', 'idle', 1 << 30))
            runner.apply(('rxpump', 'A', 1 << 30))
    else:
        TC.drain(runner)
    seg = TS.eff_seg(ca if victim == 'A' else cb, cb if victim == 'A' else ca)
    nsend = rng.randrange(0, 3) if inflight is None else 0
    if inflight is not None:
        # one transfer in flight (some segments out, END not yet), one awaiting its final ack, one still queued
        runner.apply(('send', victim, ('lit', b'k' * 3)))
        for _ in range(3):
            runner.apply(('pq', victim))
        runner.apply(('send', victim, ('gen', 7, inflight[0])))
        for _ in range(inflight[2]):
            runner.apply(('pq', victim))
        runner.apply(('send', victim, ('lit', b'queued')))
    for _ in range(nsend):
        runner.apply(('send', victim, TS.bounded_data(rng, seg)))
        for _ in range(rng.randrange(0, 4)):
            # start the transfer and put some (not all) of its segments out
            runner.apply(('pq', victim))
    if phase == 'terminating':
        runner.apply(('term', victim, 0))
    hdl = runner.sysm.ep[victim].h
    fails = []
    injected = []
    rx_open = None       # transfer id the adversary has open towards the victim
    rx_acc = b''
    expect_delivered = []
    stalled = False
    for _ in range(rng.randrange(1, 8) if forced is None else 1):
        if runner.is_closed(victim):
            break
        (hint_ids, hint_lens) = TS.victim_hints(runner, victim)
        if forced is not None:
            alphabet = directed_frames(hdl)
            if forced >= len(alphabet):
                break
            frame = alphabet[forced]
        elif rng.random() < 0.7:
            frame = TS.well_formed_frame(rng, ids=hint_ids, lengths=hint_lens)
        else:
            frame = TS.well_formed_frame(rng)
        mid = frame[0]
        in_sess = (hdl._state in ('established', 'ending')) or bool(hdl._in_sess)
        in_conn = bool(hdl._in_conn)
        queue = [int(x) for x in hdl._tx_map.keys()]
        sent_end = set(f['id'] for f in emitted_frames(runner, victim) if f['t'] == 'seg' and f['flags'] & 1)
        before = emitted_frames(runner, victim)
        was_term = bool(hdl._in_term)
        injected.append(frame)
        runner.apply(('inject', victim, frame))
        runner.apply(('rxpump', victim, rng.choice([1, 2, 1 << 30])))
        for _ in range(300):
            sock = runner.sysm.ep[victim].sock
            if runner.is_closed(victim) or not sock.inbox:
                break
            res = runner.apply(('rxpump', victim, 1 << 30))
            if res is None or not res.get('ran'):
                break
        after = emitted_frames(runner, victim)
        delta = after[len(before):]
        closed = runner.is_closed(victim)
        if stalled:
            continue
        # ---- independent expectation (RFC 9174 + property text) ----
        expect = None
        if not in_conn:
            break  # not generated
        if mid not in (1, 2, 3, 4, 5, 6, 7):
            stalled = True  # contact header / garbage in the message phase = unknown message type
            expect = 'answer-unknown'
        elif mid in (4, 6):
            expect = 'nothing'
        elif mid == 7:
            expect = None  # (re)negotiation: not an out-of-place class of the property
        elif not in_sess:
            expect = 'reject'
        elif mid == 1:
            flags = frame[1]
            xid = int.from_bytes(frame[2:10], 'big')
            dlen = int.from_bytes(frame[-8 - 0:][:0] or b'\0', 'big')
            data = TS.decode_stream(b'dtn!\x04\x00' + frame)[0][1]['data']
            if flags & 2:
                rx_open = xid
                rx_acc = b''
                expect = 'ack'
            elif rx_open is not None and rx_open == xid:
                expect = 'ack'
            else:
                expect = 'reject'
            if expect == 'ack':
                rx_acc += data
                if flags & 1:
                    expect_delivered.append((xid, rx_acc))
                    rx_open = None
        elif mid == 2:
            flags = frame[1]
            xid = int.from_bytes(frame[2:10], 'big')
            if xid not in queue:
                expect = 'reject'
            elif flags & 1 and xid not in sent_end:
                expect = 'reject'
            else:
                expect = 'nothing'
        elif mid == 3:
            xid = int.from_bytes(frame[2:10], 'big')
            expect = 'reject' if xid not in queue else 'nothing'
        elif mid == 5:
            expect = 'nothing' if was_term else 'term-reply'
        rejects = [f for f in delta if f['t'] == 'reject']
        if expect == 'reject':
            if not (len(rejects) == 1 and rejects[0]['rej_id'] == mid) and not closed and not any(f['t'] == 'term' for f in delta):
                fails.append(('C17 / out-of-place message not answered by MSG_REJECT, termination or closure',
                              'type %d in_sess %s delta %s' % (mid, in_sess, [f['t'] for f in delta])))
        elif expect == 'answer-unknown':
            if not rejects and not closed and not any(f['t'] == 'term' for f in delta):
                fails.append((KNOWN_UNKNOWN_TYPE, 'first octet %d' % mid))
        elif expect in ('nothing', 'ack', 'term-reply'):
            if rejects:
                fails.append(('C17 / in-place message rejected', 'type %d delta %s' % (mid, [f['t'] for f in delta])))
            if expect == 'ack' and not any(f['t'] == 'ack' for f in delta):
                fails.append(('C17 / accepted segment not acknowledged', 'type %d' % mid))
            if expect == 'term-reply' and not any(f['t'] == 'term' and f['flags'] & 1 for f in delta):
                fails.append(('C17 / SESS_TERM not answered with a reply', ''))
    # mismatched-transfer delivery check
    got = [(int(a[0]), int(a[1])) for (n, a) in [(evt['name'], evt['args']) for evt in __import__('dbus').service.EVENT_LOG
                                                  if evt['obj'] == '/' + victim and evt['kind'] == 'signal']
           if n == 'recv_bundle_finished']
    if not stalled and phase != 'contact':
        want = [(xid, len(acc)) for (xid, acc) in expect_delivered]
        if got[-len(want):] != want if want else False:
            fails.append(('C17 / delivered data does not match one START..END run of a single transfer',
                          'got %s want %s' % (got, want)))
        store = {bid: item.file.getvalue() for (bid, item) in hdl._rx_map.items()}
        last = {}
        for (xid, acc) in expect_delivered:
            last[xid] = acc
        for (xid, acc) in last.items():
            if xid in store and store[xid] != acc:
                fails.append(('C17 / delivered data assembled from mismatched transfers', 'id %d' % xid))
    # the victim's own transfers afterwards
    TC.drain(runner)
    rec = TS.finish(runner, 'adversarial', dict(victim=victim, phase=phase, injected=[f.hex() for f in injected]))
    if not stalled:
        fin = {str(a[0]): str(a[2]) for (n, a) in TS.signals(rec, victim) if n == 'send_bundle_finished'}
        delivered = [str(a[0]) for (n, a) in TS.signals(rec, peer) if n == 'recv_bundle_finished']
        for bid in range(1, len(rec.queued[victim]) + 1):
            bid = str(bid)
            if bid not in fin and bid not in rec.snap[victim]['tx_queue'] and bid not in delivered:
                fails.append(('C17 / own queued transfer lost after out-of-place messages', 'id %s' % bid))
    return (rec, victim, injected, fails)


def bad_contact_runs(chk):
    ''' The FIRST octets an endpoint receives are a contact header with wrong magic or version, alone or followed in the
    same stream by perfectly valid traffic (contact header, SESS_INIT, KEEPALIVE) or garbage, in one read or split at
    every position around the header: the endpoint closes, nothing that follows the bad header is acted on, and no
    exception escapes. '''
    import struct
    out = []
    good = b'dtn!\x04\x00'
    node = b'dtn://peer/'
    init = bytes([7]) + struct.pack('!HQQH', 30, 1000, 100000, len(node)) + node + struct.pack('!I', 0)
    tails = [b'', good + init, good + init + bytes([4]), good, bytes([4]) * 7, init]
    bads = [b'dtx!\x04\x00', b'dtn!\x03\x00', b'dtn!\x05\x01', b'\x00' * 6]
    for victim in ('A', 'B'):
        for (bidx, bad) in enumerate(bads):
            for (tidx, tail) in enumerate(tails):
                for nread in (1 << 30, 6, 7, 1):
                    if chk.quick() and (bidx + tidx + (nread % 5)) % 2 and tidx != 1:
                        continue
                    (ca, cb) = (dict(keepalive_time=0, idle_time=0), dict(keepalive_time=0, idle_time=0))
                    runner = TC.Runner(cfg_a=ca, cfg_b=cb)
                    runner.apply(('start', victim))
                    runner.apply(('inject', victim, bad + tail))
                    fails = []
                    for _ in range(200):
                        sock = runner.sysm.ep[victim].sock
                        if runner.is_closed(victim) or not sock.inbox:
                            break
                        res = runner.apply(('rxpump', victim, nread))
                        if res is None or not res.get('ran'):
                            break
                    hdl = runner.sysm.ep[victim].h
                    if not runner.is_closed(victim):
                        fails.append(('C17 / contact header with wrong magic or version did not close the connection',
                                      '%s bad=%s tail=%d octets nread=%d' % (victim, bad.hex(), len(tail), nread)))
                    rec = TS.finish(runner, 'bad-contact', dict(victim=victim, phase='fresh', injected=[(bad + tail).hex()], nread=nread))
                    sigs = [(n, a) for (n, a) in TS.signals(rec, victim)]
                    states = [str(a[0]) for (n, a) in sigs if n == 'session_state_changed']
                    if any(st in ('session-negotiating', 'established') for st in states):
                        fails.append(('C17 / octets behind a rejected contact header were acted on',
                                      '%s bad=%s nread=%d states %s' % (victim, bad.hex(), nread, states)))
                    frames = [f['t'] for f in emitted_frames(runner, victim)]
                    if any(ft in ('init', 'ack', 'seg', 'ka') for ft in frames):
                        fails.append(('C17 / octets behind a rejected contact header were answered',
                                      '%s bad=%s nread=%d sent %s' % (victim, bad.hex(), nread, frames)))
                    out.append((rec, victim, [bad + tail], fails))
    return out


def build(chk):
    out = []
    nruns = 24 if chk.quick() else 600
    for _ in range(nruns):
        out.append(adversarial_run(chk, chk.rng))
    # directed: every frame of the state-derived alphabet, one per run, in each session state
    import random
    states = [('contact', None), ('established', None), ('established', (10, 3, 2)), ('terminating', (10, 3, 2))]
    for (sidx, (phase, inflight)) in enumerate(states):
        for victim in ('A', 'B'):
            for fidx in range(200):
                if chk.quick() and (fidx + sidx + (victim == 'B')) % 3 != 0 and not (inflight and fidx < 60):
                    continue  # quick: every third frame, but the whole ack/refuse block for the in-flight states
                res = adversarial_run(chk, random.Random(1000 * sidx + fidx), phase=phase, forced=fidx, victim=victim,
                                      inflight=inflight)
                if not res[2]:
                    break  # alphabet exhausted
                res[0].meta['directed'] = True
                res[0].meta['no_model'] = (fidx % 4 != 0)  # the model is evaluated on a quarter of the directed runs
                out.append(res)
    out += bad_contact_runs(chk)
    # the recorded known finding: an unknown message type
    import random
    fixed = random.Random(1709)
    return out


class Wrapped(object):
    pass


def evaluate_factory(results):
    def evaluate(chk, recs):
        for (rec, victim, injected, fails) in results:
            kinds = sorted(set(f[0] for f in injected))
            chk.count('phase', rec.meta['phase'])
            for kind in kinds:
                chk.count('injected_first_octet', kind)
            chk.case(ident=json.dumps(rec.replay_obj(), sort_keys=True), nontrivial=bool(injected),
                     sample=dict(victim=victim, phase=rec.meta['phase'], injected=[f.hex() for f in injected][:6]))
            for (sig, what) in TS.oracle_c17(rec, victim, injected) + fails:
                chk.fail(sig, what, rec.replay_obj())
            for (sig, what) in TS.oracle_c01(rec):
                if rec.meta['phase'] != 'contact':
                    pass  # delivery at the cooperative peer is checked by the own-transfers clause above
    return evaluate


if __name__ == '__main__':
    holder = {}

    def build_wrapped(chk):
        holder['results'] = build(chk)
        return [item[0] for item in holder['results']]

    def evaluate(chk, recs):
        if 'results' not in holder:  # replay: no per-frame expectations, only the generic oracles
            for rec in recs:
                chk.case(ident=json.dumps(rec.replay_obj(), sort_keys=True), nontrivial=True, sample=rec.meta)
                for (sig, what) in TS.oracle_c17(rec, rec.meta.get('victim', 'A'), []):
                    chk.fail(sig, what, rec.replay_obj())
            return
        evaluate_factory(holder['results'])(chk, recs)

    TS.run_check('C17', build_wrapped, evaluate,
                 rule='one endpoint of a real pair (contact-negotiated, established or terminating, with 0-2 own transfers queued) '
                      'receives 1-7 syntactically valid frames chosen without regard to its state (every message type, known and unknown '
                      'transfer ids, wrong magic/version contact headers), read in 1-, 2-octet or full reads; after each frame the response '
                      'is compared with an independent expectation (MSG_REJECT naming the message type, SESS_TERM, closure, or none for '
                      'in-place messages); exceptions escaping event-loop callbacks are recorded; afterwards both endpoints are drained and '
                      'the victim\'s own transfers must be delivered or reported; a fresh endpoint receiving a wrong-magic/wrong-version contact '
                      'header alone or followed in the same stream by valid traffic, under four read sizes (must close, act on nothing '
                      'behind it, let no exception escape); non-trivial = at least one frame injected')
