(** C06 -- Fragments reassemble to the original bundle once, in any arrival order.

    "For any set of fragments that together cover a bundle's payload, delivered in any
    order, with any duplicates and interleaved with fragments of other bundles, the
    destination delivers exactly one reassembled bundle whose payload equals the
    original and whose extension blocks are those of the first fragment, and it delivers
    nothing while any payload octet is still missing.  Fragments of different bundles
    (different source or creation timestamp) never mix."

    Model: Model/BpReasm.v ([agent_recv] = Agent.recv_bundle with the seen-identity set
    around Fragment._reassemble, [deliveries init h] = what reaches the application step
    of the receive chain along the arrival history [h] from a fresh agent).  Vocabulary:
    [frag_of k p f]: f is a fragment of bundle k (source, time, sequence) with payload p
    (same identity, total = |p|, data = p[off, off+len)); [covers fs p]: every octet of p
    is carried by some fragment of fs; [deliv_for k ds]: the deliveries with identity k.
    A history "in any order, with any duplicates, interleaved with other bundles" is any
    list h whose fragments of identity k are exactly those of fs as a set -- nothing at
    all is assumed about the fragments of other identities (they may be malformed).

    Full-strength statement (NOT provable: refuted on the unchanged code, see
    [C06_complete_once_refuted]):

      forall k p fs f0 h,
        (forall f, In f fs -> frag_of k p f) -> covers fs p -> In f0 fs -> f_off f0 = 0 ->
        (forall f, In f h -> f_id f = k -> In f fs) -> (forall f, In f fs -> In f h) ->
        deliv_for k (deliveries init h) = [mkDelivered k p (f_blocks f0)]

    What fails: Agent.recv_bundle identifies a fragment by (source, time, sequence,
    offset, TOTAL length); two different fragments with the same offset and different
    lengths (overlapping fragmentations, "overlapping allowed") are the same identity,
    the later one is dropped as already seen, and the octets only it carried never
    arrive (recorded in known_findings.json; witness harness/corpus/C06_same_offset.json).
    [C06_complete_once_partial] adds exactly the hypothesis that excludes this: no two
    distinct fragments of the cover [fs] -- which are exactly the fragments of [k] in the
    history -- have the same offset
      forall f g, In f fs -> In g fs -> f_off f = f_off g -> f = g. *)
From Coq Require Import List NArith.
From DTN Require Import Lib.Bytes Lib.Ivl Gen.ReasmSteps Model.BpReasm Proofs.BpReasmProofs Proofs.BpReasmTie.
Import ListNotations.
Local Open Scope N_scope.

(** Nothing is delivered while a payload octet is missing: if some offset [x] below
    the total is carried by no fragment of [k] in the history, nothing is delivered
    for [k] (applies to every prefix of an arrival history, each being a history). *)
Theorem C06_no_early :
  forall (k : ident3) (total x : N) (h : list frag),
    x < total ->
    (forall f, In f h -> f_id f = k -> f_total f = total /\ ~ carries f x) ->
    deliv_for k (deliveries init h) = [].
Proof. exact no_early. Qed.
Print Assumptions C06_no_early.

(** At most one delivery, and if there is one it is right -- for ANY history whose
    fragments of [k] are consistent fragments of [p]: overlaps, duplicates, several
    fragmentations of the same bundle, late fragments after completion, other bundles
    interleaved. *)
Theorem C06_at_most_once_correct :
  forall (k : ident3) (p : bytes) (h : list frag),
    (forall f, In f h -> f_id f = k -> frag_of k p f) ->
    deliv_for k (deliveries init h) = [] \/
    exists f0, In f0 h /\ f_id f0 = k /\ f_off f0 = 0 /\
               deliv_for k (deliveries init h) = [mkDelivered k p (f_blocks f0)].
Proof. exact safety. Qed.
Print Assumptions C06_at_most_once_correct.

(** The full-strength "exactly one" is false for the code as it is: a consistent cover
    {[0,3), [0,5), [5,10)} of a 10-octet payload is delivered in one arrival order and
    never delivered in another. *)
Theorem C06_complete_once_refuted :
  exists (k : ident3) (p : bytes) (fs : list frag) (f0 : frag) (h h' : list frag),
    (forall f, In f fs -> frag_of k p f) /\ covers fs p /\ In f0 fs /\ f_off f0 = 0 /\
    (forall f, In f h -> In f fs) /\ (forall f, In f fs -> In f h) /\
    (forall f, In f h' -> In f fs) /\ (forall f, In f fs -> In f h') /\
    deliv_for k (deliveries init h) = [] /\
    deliv_for k (deliveries init h') = [mkDelivered k p (f_blocks f0)].
Proof. exact complete_once_refuted. Qed.
Print Assumptions C06_complete_once_refuted.

(** Exactly one delivery, payload = original, blocks = the first fragment's: for every
    consistent cover in which no two distinct fragments start at the same offset
    (uneven and overlapping fragments allowed), in any order, with any duplicates,
    interleaved with arbitrary fragments of other identities. *)
Theorem C06_complete_once_partial :
  forall (k : ident3) (p : bytes) (fs : list frag) (f0 : frag) (h : list frag),
    (forall f, In f fs -> frag_of k p f) ->
    covers fs p ->
    In f0 fs -> f_off f0 = 0 ->
    (forall f g, In f fs -> In g fs -> f_off f = f_off g -> f = g) ->
    (forall f, In f h -> f_id f = k -> In f fs) ->
    (forall f, In f fs -> In f h) ->
    deliv_for k (deliveries init h) = [mkDelivered k p (f_blocks f0)].
Proof. exact complete_once. Qed.
Print Assumptions C06_complete_once_partial.

(** Frame: a fragment of another identity leaves [k]'s table slot and [k]'s seen
    identities untouched and delivers nothing for [k]; whatever it delivers carries its
    own identity. *)
Theorem C06_no_mixing_step :
  forall (k : ident3) (st : state) (f : frag),
    f_id f <> k ->
    (tbl_get k (st_tbl (fst (agent_recv st f))) = tbl_get k (st_tbl st) /\
     forall o, in_seen (k, o) (st_seen (fst (agent_recv st f))) = in_seen (k, o) (st_seen st)) /\
    deliv_for k (snd (agent_recv st f)) = [] /\
    (forall d, In d (snd (agent_recv st f)) -> d_id d = f_id f).
Proof. exact step_other. Qed.
Print Assumptions C06_no_mixing_step.

(** Fragments of different bundles never mix: erasing every fragment of other
    identities from the history changes neither what is delivered for [k] nor [k]'s
    final table slot. *)
Theorem C06_no_mixing :
  forall (k : ident3) (h : list frag),
    deliv_for k (deliveries init h)
      = deliv_for k (deliveries init (filter (fun f => id_eqb (f_id f) k) h)) /\
    tbl_get k (st_tbl (fst (run init h)))
      = tbl_get k (st_tbl (fst (run init (filter (fun f => id_eqb (f_id f) k) h)))).
Proof. exact no_mixing_trace. Qed.
Print Assumptions C06_no_mixing.

(** After any history of consistent fragments the reassembly buffer has the size of the
    payload and agrees with it on every offset marked valid. *)
Theorem C06_buffer_correct :
  forall (k : ident3) (p : bytes) (h : list frag) (e : entry),
    (forall f, In f h -> f_id f = k -> frag_of k p f) ->
    tbl_get k (st_tbl (fst (run init h))) = Some e ->
    e_total e = blen p /\ length (e_buf e) = length p /\
    forall x, mem x (e_valid e) = true ->
              x < blen p /\ nth (N.to_nat x) (e_buf e) 0 = nth (N.to_nat x) p 0.
Proof. exact buffer_correct. Qed.
Print Assumptions C06_buffer_correct.

(** Damaged copies (a block CRC invalid) anywhere in the arrival history contribute nothing
    and suppress nothing: what is delivered, and the final agent state, are those of the
    history of the CRC-valid fragments alone -- so every statement above carries over to
    arrival histories with damaged copies before and after the intact ones, with "the
    fragments of the history" read as "the CRC-valid fragments of the history". *)
Theorem C06_damaged_noop :
  forall (h : list arrival) (st : state),
    deliveries_arr st h = deliveries st (intact_only h) /\
    fst (run_arr st h) = fst (run st (intact_only h)).
Proof. exact damaged_noop. Qed.
Print Assumptions C06_damaged_noop.

(** Translator tie: Gen/ReasmSteps.v is regenerated from Fragment._reassemble
    (bp/app/fragment.py) on every run by translate/targets/reasmsteps.py (fail closed).
    The code's decision structure is the model's: two "not mine" returns before any state
    is touched; the partial reassembly is keyed by the first 3 components of the bundle
    identity (source, time, sequence -- the model's [ident3]); NO return between the key
    and the completion test (a fragment that adds nothing still reaches the test); buffer
    splice then covered-set union; the completion test is "covered = [0, total)"; on
    completion the entry is removed and exactly one bundle is re-injected with the fragment
    flag cleared, the first fragment's blocks and the buffer as payload; and the model's
    slot step [entry_step] / [recv_fragment] is exactly [step_of] over the first-fragment
    rule the code uses ([rs_first]: only a fragment with offset 0 becomes the first). *)
Theorem C06_reasm_structure :
  rs_guards = 2%nat /\ rs_key_parts = 3%nat /\ rs_mid_returns = 0%nat /\
  rs_splice_then_union = true /\ rs_completion_is_cover_eq = true /\
  rs_completion_removes_entry = true /\ rs_clears_fragment_flag = true /\
  rs_blocks_from_first = true /\ rs_payload_from_buffer = true /\
  rs_reinjections = 1%nat /\ rs_fallthrough_clears_actions = true /\
  (forall slot f, entry_step slot f = step_of rs_first slot f) /\
  (forall t f, tbl_get (f_id f) (fst (recv_fragment t f)) = fst (step_of rs_first (tbl_get (f_id f) t) f)) /\
  (forall t f, snd (recv_fragment t f) = snd (step_of rs_first (tbl_get (f_id f) t) f)).
Proof. exact reasm_structure. Qed.
Print Assumptions C06_reasm_structure.
