''' C11 -- Forwarding preserves the bundle and updates only the hop-by-hop blocks.

  1. proofs: coq/Props/C11.v over coq/Model/BpFwd.v (+ Model/Bundle.v), re-checked by coqc; every statement is
     about  decode_bundle (encode_bundle out)  - the OCTETS handed to the convergence layer; plus the translator tie
     translate/targets/fwdsteps.py -> coq/Gen/FwdSteps.v (step structure of Agent._do_fwd, re-read from the source on
     every run) with the C11_tie_* theorems: the model performs exactly the translated steps;
  2. correspondence: generated process histories (1..4 received bundles routed "forward", fed to ONE real
     bp.agent.Agent in a fresh process state) x transmit-route tables; the octets each bundle makes the agent
     hand to a fake convergence layer (or the way it fails to) are compared with BpFwd.run_case evaluated in
     Coq (vm_compute): octet-exact;
  3. the property oracle, written from the property text / RFC 9171 over the TRANSMITTED OCTETS decoded with
     plain cbor2 and bit-wise CRCs (bpdrive.decode_bundle; never bp.encoding, never the model): primary
     fields and payload unchanged, exactly one Previous Node block naming this node, every Hop Count block
     count + 1 (limit kept), at most one Bundle Age block = now - creation, unique block numbers, payload
     block numbered 1 and last, valid CRCs, other extension blocks untouched and in order, exactly one
     transmission on the first matching route.

Received bundles: any mix of previous-node / hop-count / bundle-age / unknown extension blocks (also several of
a kind, also with data that does not dissect), CRC types 0/1/2 per block, arbitrary unique block numbers (small
ones that collide with numbers handed out earlier, gaps, 2^32, 2^64-1), creation time 0 / past / now / future,
lifetime 0, fragments, administrative payloads, dtn / ipn / none EIDs (a few with '?' '#'), payload block not
last / not numbered 1 (rare; such a bundle breaks RFC 9171 4.1 / 4.3.3 itself, the oracle then does not ask for
"payload last, numbered 1" on the way out - the model says it is forwarded in the order it came), duplicate block
numbers (rare; the container raises, nothing is forwarded), own source (rare; ignored).

Clock: the virtual clock ADVANCES between recv_bundle and the dispatch of the deferred _do_fwd (0, 1, 999, 2500 or
60000 ms) and again before the next bundle of the history; 'now' of the model and of the oracle is the time at which
the forwarding queue is processed, i.e. when the octets are handed to the CL ("age reflects time since creation"
as observed on leaving the node, no tolerance under the virtual clock).

Process state: forwarding must not depend on what the process forwarded before (on the original tree the number
given to an inserted block stuck to scapy's class-level overloaded_fields dict; fixed by ed76b97).  Histories are
therefore fed to ONE agent, and each case starts from a "fresh process": that key is deleted from every Packet
subclass's table before a case (a no-op on a tree where nothing sticks), so that cases do not influence each other.
'''
import env  # noqa: F401  (first)
env.shim_oscrypto()

import glob
import hashlib
import json
import os
import re
import sys

import cbor2

from common import Check, CoqError, VERIF, coq_bytes
import bundlegen as bg
import bpdrive as B

# ---------------------------------------------------------------------------------------------- findings
# One signature per defect class (oracle failures outside these classes get 'C11 / <oracle item> / received bundle class {..}').
SIG_TIME0 = "C11 / received creation time 0: forwarded with this node's clock as creation timestamp, Bundle Age block dropped"
SIG_LIFE0 = 'C11 / received lifetime 0: forwarded with lifetime 3600000'
SIG_EID = 'C11 / dtn EID with query or fragment loses it through urlsplit'          # the C02 class, seen on forwarded octets
SIG_EID_ADMIN = SIG_EID                                                              # ... in the subject EID of a forwarded status report
SIG_JUNK = 'C11 / received type-6 or type-7 block whose data does not dissect is kept next to the new one'
SIG_PREVJUNK = SIG_JUNK
SIG_AGEJUNK = SIG_JUNK
SIG_AGENEG = 'C11 / creation time ahead of the local clock: Bundle Age encoded as a negative integer'
# fixed in /repo (df72a19, ed76b97, 1355258; status=fixed in known_findings.json): a tree that shows them again gets a VIOLATION
SIG_HOP_STALE = 'C11 / forwarded hop count unchanged on the wire'
SIG_STICKY = 'C11 / block number of added previous-node/age block sticks across bundles (class-level overloaded_fields)'
SIG_MULTI = 'C11 / two or more received previous-node or age blocks: every second one kept'
SIG_PREV2 = SIG_MULTI
SIG_AGE2 = SIG_MULTI
# Genuine deviations of the current tree found by this check's oracle, shown to the coordinator with their
# witnesses (harness/corpus/C11_*.json), awaiting a decision (fix: commit or known_findings.json).  While a
# signature is listed here and not in known_findings.json the failure is printed as PENDING-FINDING and does not
# fail the run; once listed there it goes through chk.fail() and prints KNOWN-FINDING.
PENDING_FINDINGS = [SIG_TIME0, SIG_LIFE0, SIG_EID, SIG_JUNK, SIG_AGENEG]

NODES = ['dtn://me/', 'dtn://node-7/', 'ipn:9.0', 'ipn:4.1', 'dtn://n/svc']
NODE_UNSTABLE = 'dtn://me'                      # the text conversion turns it into dtn://me/
NOW0 = 800000000000
UNKNOWN_TYPES = [2, 3, 5, 8, 9, 13, 23, 24, 191, 192, 255, 256, 65535, 65536, 2 ** 32, 2 ** 64 - 1]
IMPL_REASONS = list(range(0, 11)) + list(range(12, 17))
QUEUE_DELAYS = [0, 1, 999, 2500, 60000]      # ms between reception and the idle callback that forwards
TX_PATTERNS = ['.*', '^dtn:', '^ipn:', 'dtn://d', 'ipn:5\\.', 'none$', 'x{3}']


# ---------------------------------------------------------------------------------------------- generator

def _blk(btype, num, data, crc_type=0, flags=0, kind='raw'):
    return dict(type=btype, num=num, flags=flags, crc_type=crc_type, data=bytes(data).hex(), crc=None, kind=kind)


def gen_ext_block(rng, num, multi):
    ''' One extension block; ``kind`` names the class for the histogram / oracle. '''
    crc_type = rng.choice([0, 1, 2])
    flags = 0
    for bit in bg.BLOCK_FLAGS:
        if rng.random() < 0.25:
            flags |= bit
    roll = rng.random()
    if roll < 0.22:
        eid = bg.gen_eid(rng, ('dtn', 'ipn', 'none', 'ipn3'))
        return _blk(6, num, cbor2.dumps(bg.eid_to_item(eid)), crc_type, flags, 'prev')
    if roll < 0.44:
        limit = bg.gen_uint(rng)
        count = rng.choice([0, 1, 3, 22, 23, 24, 254, 255, 256, 65534, 65535, 2 ** 32 - 1, 2 ** 32, 2 ** 64 - 2, bg.gen_uint(rng)])
        if count >= 2 ** 64 - 1:
            count = 2 ** 64 - 2
        return _blk(10, num, cbor2.dumps([limit, count]), crc_type, flags, 'hop')
    if roll < 0.62:
        return _blk(7, num, cbor2.dumps(bg.gen_uint(rng)), crc_type, flags, 'age')
    if roll < 0.70:
        # typed blocks whose data does not dissect / dissects leniently
        (btype, data, kind) = rng.choice([
            (6, cbor2.dumps(5), 'prev-junk'), (6, cbor2.dumps([3, 'x']), 'prev-junk'), (6, cbor2.dumps([1, 5]), 'prev-junk'),
            (6, b'', 'prev-empty'),
            (7, cbor2.dumps('x'), 'age-junk'), (7, b'', 'age-empty'), (7, cbor2.dumps(-5), 'age-nint'), (7, cbor2.dumps([1]), 'age-arr'),
            (10, cbor2.dumps(7), 'hop-junk'), (10, cbor2.dumps([30]), 'hop-junk'), (10, cbor2.dumps('ab'), 'hop-junk'),
            (10, bytes.fromhex('82181e1803'), 'hop-nonshortest'), (10, b'', 'hop-empty'),
        ])
        if kind == 'hop-empty' and rng.random() < 0.6:
            (btype, data, kind) = (10, cbor2.dumps(7), 'hop-junk')
        return _blk(btype, num, data, crc_type, flags, kind)
    return _blk(rng.choice(UNKNOWN_TYPES), num, bg.gen_data(rng, (0, 1, 2, 5, 23, 24, 25, 60, 255, 256)), crc_type, flags, 'unknown')


def gen_numbers(rng, count):
    ''' Unique block numbers: mostly small (they collide with numbers handed out earlier in the process),
    sometimes with gaps and head-size boundaries. '''
    pool = list(range(2, 9)) * 3 + list(range(9, 40)) + [23, 24, 25, 255, 256, 65535, 65536, 2 ** 32 - 1, 2 ** 32, 2 ** 64 - 1]
    nums = []
    while len(nums) < count:
        val = rng.choice(pool)
        if val not in nums:
            nums.append(val)
    return nums


def gen_rx_bundle(rng, node, now, seq, klass=None):
    ''' A received bundle (bundlegen spec with per-block ``kind``) and its input class tags. '''
    tags = set()
    eid_kinds = ('dtn', 'ipn', 'none', 'ipn3')
    flags = 0
    for bit in bg.PRIMARY_FLAGS:
        if rng.random() < 0.25:
            flags |= bit
    if rng.random() < 0.1:
        flags |= rng.choice([0x8, 0x80, 0x100000, 2 ** 40])
    admin = rng.random() < 0.12
    flags = (flags | bg.FLAG_PAYLOAD_ADMIN) if admin else (flags & ~bg.FLAG_PAYLOAD_ADMIN)
    roll = rng.random()
    if roll < 0.12:
        ctime = 0
        tags.add('time0')
    elif roll < 0.20:
        ctime = now + rng.choice([1, 1000, 10 ** 9])
        tags.add('future')
    elif roll < 0.27:
        ctime = now
    else:
        ctime = now - rng.choice([1, 23, 24, 255, 256, 65535, 65536, 10 ** 6, 2 ** 32, 10 ** 11, now - 1])
    lifetime = bg.gen_uint(rng)
    if rng.random() < 0.06:
        lifetime = 0
    if lifetime == 0:
        tags.add('life0')
    dest = bg.gen_eid(rng, ('dtn', 'ipn', 'ipn3'))
    src = bg.gen_eid(rng, ('dtn', 'ipn', 'ipn3'))
    while dest in NODES or dest == NODE_UNSTABLE or dest == B.SAND_GROUP_EID:
        dest = bg.gen_eid(rng, ('dtn', 'ipn'))
    while src == node:
        src = bg.gen_eid(rng, ('dtn', 'ipn'))
    report_to = bg.gen_eid(rng, eid_kinds)
    spec = dict(version=7, flags=flags, crc_type=rng.choice([0, 1, 2]), dest=dest, src=src, report_to=report_to,
                time=ctime, seq=seq, lifetime=lifetime,
                frag=([bg.gen_uint(rng), bg.gen_uint(rng)] if flags & bg.FLAG_IS_FRAGMENT else None), crc=None, blocks=[])
    if klass == 'eid-query' or (klass is None and rng.random() < 0.04):
        spec['crc_type'] = 0
        which = rng.choice(['dest', 'src', 'report_to'])
        spec[which] = 'dtn:' + bg.gen_dtn_ssp(rng, query_chars=True)
        tags.add('eid-query')
    if klass == 'own-source' or (klass is None and rng.random() < 0.02):
        spec['src'] = node
        tags.add('own-source')
    n_ext = rng.choice([0, 1, 1, 2, 2, 3, 3, 4, 5, 6])
    nums = gen_numbers(rng, n_ext)
    for num in nums:
        spec['blocks'].append(gen_ext_block(rng, num, False))
    # several blocks of a kind (rare: RFC 9171 allows one previous-node / age / hop-count block per bundle)
    if klass in ('prev2', 'age2', 'hop2') or (klass is None and rng.random() < 0.10):
        kind = klass[:-1] if klass else rng.choice(['prev', 'age', 'hop'])
        extra = rng.choice([1, 1, 2])
        have = set(blk['num'] for blk in spec['blocks'])
        for _ in range(extra + (0 if any(blk['kind'] == kind for blk in spec['blocks']) else 1)):
            num = rng.choice([val for val in range(2, 60) if val not in have])
            have.add(num)
            if kind == 'prev':
                blk = _blk(6, num, cbor2.dumps(bg.eid_to_item(bg.gen_eid(rng, ('dtn', 'ipn')))), rng.choice([0, 1, 2]), 0, 'prev')
            elif kind == 'age':
                blk = _blk(7, num, cbor2.dumps(bg.gen_uint(rng)), rng.choice([0, 1, 2]), 0, 'age')
            else:
                blk = _blk(10, num, cbor2.dumps([rng.choice([5, 30, 255]), rng.choice([0, 3, 23, 255])]), rng.choice([0, 1, 2]), 0, 'hop')
            spec['blocks'].insert(rng.randrange(len(spec['blocks']) + 1), blk)
    if admin:
        rec = bg.gen_admin_record(rng, reasons=IMPL_REASONS, eid_kinds=('none', 'dtn', 'ipn'))
        if rec.get('type') == 1:
            # DTN times the implementation can show as a datetime (recv_bundle evaluates repr(ctr) eagerly and
            # raises OverflowError beyond year 9999)
            rec['status'] = [[flag, (None if when is None else when % 2 ** 47)] for (flag, when) in rec['status']]
            rec['time'] %= 2 ** 47
        if rec.get('type') == 1 and rng.random() < 0.15:
            rec['src'] = 'dtn:' + bg.gen_dtn_ssp(rng, query_chars=True)
            tags.add('admin-eid-query')
        data = bg.encode_admin(rec)
        tags.add('admin')
    else:
        data = bg.gen_data(rng, (0, 1, 2, 5, 23, 24, 25, 60, 255, 256, 300))
    payload = _blk(1, 1, data, rng.choice([0, 1, 2]), rng.choice([0, 0, 0, 1, 4]), 'payload')
    spec['blocks'].append(payload)
    roll = rng.random()
    if klass == 'paypos' or (klass is None and roll < 0.03):
        if spec['blocks'][:-1] and rng.random() < 0.5:
            pos = rng.randrange(len(spec['blocks']) - 1)
            spec['blocks'].insert(pos, spec['blocks'].pop())
        else:
            used = set(blk['num'] for blk in spec['blocks'])
            payload['num'] = rng.choice([val for val in range(2, 50) if val not in used])
        tags.add('paypos')
    elif klass == 'dupnum' or (klass is None and roll < 0.05):
        if len(spec['blocks']) >= 2:
            spec['blocks'][0]['num'] = rng.choice([spec['blocks'][-1]['num'], spec['blocks'][1]['num'], 0])
        else:
            payload['num'] = 0
        tags.add('dupnum')
    kinds = [blk['kind'] for blk in spec['blocks']]
    if kinds.count('prev') + kinds.count('prev-empty') >= 2:
        tags.add('prev2')
    if kinds.count('age') + kinds.count('age-empty') + kinds.count('age-nint') + kinds.count('age-arr') >= 2:
        tags.add('age2')
    if 'prev-junk' in kinds:
        tags.add('prev-junk')
    if 'age-junk' in kinds:
        tags.add('age-junk')
    if 'hop-empty' in kinds:
        tags.add('hop-empty')
    bg.fill_crc(spec)
    return (spec, sorted(tags))


def gen_routes(rng):
    routes = []
    for _ in range(rng.choice([0, 0, 1, 2])):
        routes.append(dict(pattern=rng.choice(TX_PATTERNS), cl_type=rng.choice(['fake', 'alt']), mtu=rng.choice([None, None, 10 ** 6])))
    routes.append(dict(pattern='.*', cl_type=rng.choice(['fake', 'fake', 'alt']), mtu=rng.choice([None, None, 10 ** 6])))
    return routes


def gen_case(rng, klass=None):
    node = rng.choice(NODES) if rng.random() < 0.95 else NODE_UNSTABLE
    length = rng.choice([1, 1, 1, 2, 2, 3, 4])
    hist = []
    recv_now = NOW0 + rng.choice([0, 1, 999, 10 ** 6])
    for idx in range(length):
        # the virtual clock advances between recv_bundle and the dispatch of the deferred _do_fwd: 'now' is the
        # time of FORWARDING (what the model's do_fwd takes and what the age must reflect), 'recv_now' the reception
        now = recv_now + rng.choice(QUEUE_DELAYS)
        (spec, tags) = gen_rx_bundle(rng, node, now, 100 + idx, klass if idx == length - 1 else None)
        hist.append(dict(recv_now=recv_now, now=now, spec=spec, tags=tags))
        recv_now = now + rng.choice([1, 7, 999, 2500, 60000])
    return dict(node=node, tx_routes=gen_routes(rng), hist=hist)


# ---------------------------------------------------------------------------------------------- real code

def fresh_process():
    ''' Forget the block numbers [_fix_blk_num] left in the class-level overloaded_fields tables. '''
    import scapy.packet
    seen = set()
    stack = [scapy.packet.Packet]
    while stack:
        cls = stack.pop()
        for sub in cls.__subclasses__():
            if sub in seen:
                continue
            seen.add(sub)
            stack.append(sub)
            for name in ('_overload_fields', 'overload_fields'):
                table = sub.__dict__.get(name)
                if isinstance(table, dict):
                    for val in table.values():
                        if isinstance(val, dict):
                            val.pop('block_num', None)


def run_impl(case):
    ''' The case through the real agent. :return: list of observations (one per received bundle). '''
    import bp.encoding
    import bp.util
    fresh_process()
    node = case['node']
    drv = B.BpDriver(node_id=node, rx_routes=[('.*', 'forward')],
                     tx_routes=[dict(pattern=item['pattern'], cl_type=item['cl_type'], mtu=item['mtu']) for item in case['tx_routes']],
                     cl_types=('fake', 'alt'), clock=B.Clock(now_ms=case['hist'][0].get('recv_now', case['hist'][0]['now']), tick=0))
    out = []
    for item in case['hist']:
        raw = bg.encode(item['spec'])
        # reception at recv_now (the CL adaptor callback: BundleContainer(Bundle(data)) then Agent.recv_bundle) ...
        drv.clock.now_ms = item.get('recv_now', item['now'])
        ent = dict(raw_hex=raw.hex())
        stage = 'ok'
        try:
            bundle = bp.encoding.Bundle(raw)
        except Exception as err:
            stage = 'undecodable:' + err.__class__.__name__
            bundle = None
        if bundle is not None:
            try:
                bp.util.BundleContainer(bundle)
            except Exception as err:
                stage = 'container:' + err.__class__.__name__
        marks = (len(drv.transmitted), len(drv.recv_calls))
        obs = dict(recv_exc=None)
        if stage == 'ok':
            try:
                drv.agent.recv_bundle(bp.util.BundleContainer(bp.encoding.Bundle(raw)))
            except Exception as err:
                obs['recv_exc'] = err.__class__.__name__
        # ... then the main loop gets round to the deferred work (forwarding queue, reports) at 'now'
        drv.clock.now_ms = item['now']
        obs['escaped'] = drv.drain()
        obs['transmitted'] = drv.transmitted[marks[0]:]
        obs['actions'] = [sorted(ctr.actions.keys()) for ctr in drv.recv_calls[marks[1]:]]
        sent = [tx for tx in obs['transmitted']
                if not (tx['bundle'].get('ok') and tx['bundle']['primary']['src'] == node_text(node))]
        acts = obs['actions'][0] if obs['actions'] else []
        if stage.startswith('undecodable'):
            code = 0
        elif stage.startswith('container'):
            code = 1
        elif sent:
            code = 5
        elif 'delete' in acts:
            code = 4
        elif not acts:
            code = 2          # silently ignored: invalid CRC (2) or own source (3)
        else:
            code = 9          # anything else (no route, ...): not expected in this harness
        ent.update(code=code, stage=stage, actions=acts, escaped=obs['escaped'], recv_exc=obs['recv_exc'],
                   sent=[dict(cl=tx['cl'], route_index=tx['route_index'], raw_hex=tx['raw_hex']) for tx in sent],
                   n_tx=len(obs['transmitted']))
        out.append(ent)
    return out


def node_text(node):
    ''' The node ID as the text conversion renders it on the wire (dtn://me -> dtn://me/). '''
    return 'dtn://me/' if node == NODE_UNSTABLE else node


# ---------------------------------------------------------------------------------------------- model side

def coq_octets(data):
    ''' Octet string as a plain Coq list literal: nothing to compute when the case is evaluated ([unhex] of one
    big literal divides an N repeatedly - cubic in the length - and costs more than the model itself). '''
    data = bytes(data)
    if not data:
        return '(@nil N)'
    return '[' + '; '.join(str(octet) for octet in data) + ']'


def coq_case(case):
    hist = '; '.join('(%d%%N, %s)' % (item['now'], coq_octets(bg.encode(item['spec']))) for item in case['hist'])
    return '(%s, [%s])' % (bg.coq_eid(case['node']), hist)


def canon_impl(obs):
    out = []
    for ent in obs:
        code = ent['code']
        data = ent['sent'][0]['raw_hex'] if (code == 5 and len(ent['sent']) == 1) else ''
        out.append([code, data])
    return out


def canon_model(res):
    out = []
    for (code, data) in res[0]:
        code = 2 if code == 3 else code
        out.append([code, bytes(data).hex()])
    return out


# ---------------------------------------------------------------------------------------------- the oracle

def first_route(routes, dest):
    for (idx, item) in enumerate(routes):
        if re.compile(item['pattern']).match(dest) is not None:
            return (idx, item)
    return (None, None)


def _uint(val):
    return isinstance(val, int) and not isinstance(val, bool) and 0 <= val < 2 ** 64


def _loads_one(data):
    ''' exactly one CBOR item (None on anything else) '''
    try:
        import io
        stream = io.BytesIO(bytes(data))
        item = cbor2.CBORDecoder(stream).decode()
        if stream.tell() != len(data):
            return None
        return [item]
    except Exception:
        return None


def good_prev(blk):
    ''' received block data is one CBOR item that is an RFC 9171 EID '''
    one = _loads_one(bytes.fromhex(blk['data']))
    try:
        return one is not None and bg.eid_of_item(one[0]) is not None
    except ValueError:
        return False


def good_age(blk):
    one = _loads_one(bytes.fromhex(blk['data']))
    return one is not None and _uint(one[0])


def survivors_signature(rx_typed, tx_typed, good, junk_sig, new_data=None):
    ''' Which class a surplus of typed blocks belongs to.  ``new_data`` = the data the one legitimately inserted
    block must carry (None: none expected).  ONE transmitted block with that data is set aside as the inserted one
    (it may coincide in number AND data with a received block that was removed: the freed number is handed out again
    and e.g. a received age of 256 ms equals now - creation); every other transmitted block of the type must then be a
    received one found again (same number and data) - a "survivor".  All survivors not what RFC 9171 defines for the
    type -> the does-not-dissect class; a well-formed survivor of two or more received -> the every-second-one
    class; anything else gets a signature of its own (None). '''
    rest = list(tx_typed)
    if new_data is not None:
        for (pos, tx) in enumerate(rest):
            if bytes(tx['data']) == bytes(new_data):
                del rest[pos]
                break
    if not rest:
        return None
    survivors = []
    for tx in rest:
        match = [blk for blk in rx_typed if tx['num'] == blk['num'] and bytes(tx['data']).hex() == blk['data']]
        if not match:
            return None
        survivors.append(match[0])
    if all(not good(blk) for blk in survivors):
        return junk_sig
    return SIG_MULTI if len(rx_typed) >= 2 else None


def rx_class(item):
    ''' Class of the received bundle, from the received octets' description only (RFC 9171 terms). '''
    spec = item['spec']
    blocks = spec['blocks']
    cls = set()
    if spec['time'] == 0:
        cls.add('time0')
    elif spec['time'] > item['now']:
        cls.add('future')
    if spec['lifetime'] == 0:
        cls.add('life0')
    if any(('?' in spec[key] or '#' in spec[key]) for key in ('dest', 'src', 'report_to')):
        cls.add('eid-query')
    prevs = [blk for blk in blocks if blk['type'] == 6]
    ages = [blk for blk in blocks if blk['type'] == 7]

    if any(not good_prev(blk) for blk in prevs):
        cls.add('prev-junk')
    if any(not good_age(blk) for blk in ages):
        cls.add('age-junk')
    if len(prevs) >= 2:
        cls.add('prev2')
    if len(ages) >= 2:
        cls.add('age2')
    if not blocks or blocks[-1]['type'] != 1 or blocks[-1]['num'] != 1 or sum(1 for blk in blocks if blk['type'] == 1) != 1:
        cls.add('paypos')
    nums = [blk['num'] for blk in blocks]
    if len(set(nums)) != len(nums) or 0 in nums:
        cls.add('dupnum')
    if spec['flags'] & bg.FLAG_PAYLOAD_ADMIN:
        for blk in blocks:
            if blk['type'] == 1:
                try:
                    rec = bg.decode_admin(bytes.fromhex(blk['data']))
                    if rec.get('type') == 1 and ('?' in rec['src'] or '#' in rec['src']):
                        cls.add('admin-eid-query')
                except Exception:
                    pass
    return cls


def oracle(case, idx, ent):
    ''' Property C11 on one transmission.  :return: list of (signature, what). '''
    item = case['hist'][idx]
    spec = item['spec']
    node = node_text(case['node'])
    now = item['now']
    cls = rx_class(item)
    bad = []

    def add(what_item, detail, pending=None):
        ''' pending = the pending-finding signature this failure belongs to when the received bundle is in
        the class that signature names; anything else gets a signature of its own '''
        sig = pending if pending else 'C11 / %s / received bundle class {%s}' % (what_item, ','.join(sorted(cls)) or 'plain')
        bad.append((sig, '%s: %s' % (what_item, detail)))

    if len(ent['sent']) != 1:
        add('transmissions', '%d transmissions of the forwarded bundle' % len(ent['sent']))
        if not ent['sent']:
            return bad
    tx = ent['sent'][0]
    (ridx, route) = first_route(case['tx_routes'], spec['dest'])
    if route is None or tx['cl'] != route['cl_type'] or tx['route_index'] != ridx:
        add('route', 'sent on CL %s route %r, first matching route is #%r (%s)' % (tx['cl'], tx['route_index'], ridx, route and route['cl_type']))
    raw = bytes.fromhex(tx['raw_hex'])
    dec = B.decode_bundle(raw)
    if not dec['ok']:
        add('decodable', 'independent decoder rejects the transmitted octets: %s' % dec['error'])
        return bad
    pri = dec['primary']
    blocks = dec['blocks']
    # --- primary block fields
    diffs = []
    for (key, want) in (('version', spec['version']), ('flags', spec['flags']), ('dest', spec['dest']), ('src', spec['src']),
                        ('report_to', spec['report_to']), ('time', spec['time']), ('seq', spec['seq']),
                        ('lifetime', spec['lifetime']), ('frag', tuple(spec['frag']) if spec['frag'] else None),
                        ('crc_type', spec['crc_type'])):
        if pri[key] != want or type(pri[key]) is not type(want):
            diffs.append('%s %r -> %r' % (key, want, pri[key]))
    groups = {}
    for text in diffs:
        key = text.split(' ')[0]
        if key in ('time', 'seq') and 'time0' in cls:
            pend = SIG_TIME0
        elif key == 'lifetime' and 'life0' in cls:
            pend = SIG_LIFE0
        elif key in ('dest', 'src', 'report_to') and spec['crc_type'] == 0 and ('?' in spec[key] or '#' in spec[key]):
            pend = SIG_EID
        else:
            pend = None
        groups.setdefault(pend, []).append(text)
    for (pend, texts) in sorted(groups.items(), key=lambda ent: ent[0] or ''):
        add('primary block changed', '; '.join(texts), pend)
    # --- payload
    rx_pay = [blk for blk in spec['blocks'] if blk['type'] == 1]
    tx_pay = [blk for blk in blocks if blk['type'] == 1]
    if [(blk['num'], blk['flags'], blk['crc_type'], blk['data']) for blk in rx_pay] != \
            [(blk['num'], blk['flags'], blk['crc_type'], bytes(blk['data']).hex()) for blk in tx_pay]:
        add('payload changed', 'payload block(s) received %r transmitted %r' % (
            [(blk['num'], blk['data'][:40]) for blk in rx_pay], [(blk['num'], bytes(blk['data']).hex()[:40]) for blk in tx_pay]),
            SIG_EID_ADMIN if 'admin-eid-query' in cls else None)
    # --- previous node
    prevs = [blk for blk in blocks if blk['type'] == 6]
    named = []
    for blk in prevs:
        one = _loads_one(blk['data'])
        try:
            named.append(bg.eid_of_item(one[0]) if one else None)
        except ValueError:
            named.append(None)
    if len(prevs) != 1:
        add('previous-node count', '%d Previous Node blocks transmitted (%r)' % (len(prevs), named),
            survivors_signature([blk for blk in spec['blocks'] if blk['type'] == 6], prevs, good_prev, SIG_PREVJUNK,
                                cbor2.dumps(bg.eid_to_item(node))))
    if named.count(node) != 1:
        add('previous-node value', 'Previous Node blocks name %r, this node is %s' % (named, node))
    # --- hop count
    rx_hops = [blk for blk in spec['blocks'] if blk['type'] == 10]
    tx_hops = dict((blk['num'], blk) for blk in blocks if blk['type'] == 10)
    if sorted(tx_hops) != sorted(blk['num'] for blk in rx_hops):
        add('hop-count blocks', 'received numbers %r transmitted %r' % (sorted(blk['num'] for blk in rx_hops), sorted(tx_hops)))
    for blk in rx_hops:
        one = _loads_one(bytes.fromhex(blk['data']))
        if one is None or not (isinstance(one[0], list) and len(one[0]) == 2 and _uint(one[0][0]) and _uint(one[0][1])):
            continue      # not a hop count per RFC 9171 4.4.3
        (limit, count) = one[0]
        got = tx_hops.get(blk['num'])
        got_item = _loads_one(got['data']) if got else None
        if got_item is None or got_item[0] != [limit, count + 1]:
            add('hop count', 'block %d received [%d, %d] transmitted %r' % (blk['num'], limit, count, got_item and got_item[0]),
                SIG_HOP_STALE if (got_item and got_item[0] == [limit, count]) else None)
        elif (got['flags'], got['crc_type']) != (blk['flags'], blk['crc_type']):
            add('hop count', 'block %d flags/CRC type changed' % blk['num'])
    # --- bundle age
    ages = [blk for blk in blocks if blk['type'] == 7]
    if len(ages) > 1:
        add('bundle-age count', '%d Bundle Age blocks transmitted' % len(ages),
            survivors_signature([blk for blk in spec['blocks'] if blk['type'] == 7], ages, good_age, SIG_AGEJUNK,
                                (cbor2.dumps(now - spec['time']) if spec['time'] != 0 else None)))
    if spec['time'] != 0:
        want = now - spec['time']
        vals = [(_loads_one(blk['data']) or [None])[0] for blk in ages]
        okay = [val for val in vals if _uint(val) and val == want]
        if len(okay) != 1:
            if want < 0 and want in vals:
                pend = SIG_AGENEG
            elif want in vals:
                pend = survivors_signature([blk for blk in spec['blocks'] if blk['type'] == 7], ages, good_age, SIG_AGEJUNK, cbor2.dumps(want))
            else:
                pend = None
            add('bundle-age value', 'now - creation = %d, Bundle Age blocks carry %r' % (want, vals), pend)
    # --- block numbers, payload position
    nums = [blk['num'] for blk in blocks]
    if len(set(nums)) != len(nums):
        add('block numbers', 'not unique: %r' % nums)
    if 'paypos' in cls:
        # the received bundle itself breaks RFC 9171 4.1 / 4.3.3 (payload block not last / not numbered 1 / not
        # exactly one): the property promises nothing about its position on the way out (the model says: kept)
        pass
    elif not blocks or blocks[-1]['type'] != 1 or blocks[-1]['num'] != 1:
        add('payload position', 'last block is type %r number %r' % (blocks[-1]['type'] if blocks else None, blocks[-1]['num'] if blocks else None))
    # --- CRCs
    if not dec['crc_ok']:
        add('crc', 'invalid CRC on the wire: primary %s blocks %r' % (pri['crc_ok'], [(blk['num'], blk['crc_ok']) for blk in blocks]))
    # --- everything else untouched, in order
    rx_other = [(blk['type'], blk['num'], blk['flags'], blk['crc_type'], blk['data']) for blk in spec['blocks'] if blk['type'] not in (1, 6, 7, 10)]
    tx_other = [(blk['type'], blk['num'], blk['flags'], blk['crc_type'], bytes(blk['data']).hex()) for blk in blocks if blk['type'] not in (1, 6, 7, 10)]
    if rx_other != tx_other:
        add('other blocks', 'unknown extension blocks received %r transmitted %r' % (rx_other, tx_other))
    return bad


# ---------------------------------------------------------------------------------------------- driver

def report(chk, pending, sig, what, replay_obj):
    if sig in PENDING_FINDINGS and chk.known_match(sig) is None:
        if sig not in pending:
            path = os.path.join(VERIF, 'build', 'replay', 'C11_pending_%s.json' % hashlib.sha1(sig.encode()).hexdigest()[:10])
            with open(path, 'w') as out:
                json.dump(dict(property='C11', signature=sig, what=what, replay=replay_obj), out, indent=1)
            pending[sig] = (what, path)
        return
    chk.fail(sig, what, replay_obj)


def strip_case(case):
    ''' JSON-able replay form. '''
    return json.loads(json.dumps(case))


def evaluate(chk, cases, pending, count=True, label='gen'):
    ''' Real code + model + oracle on the cases.  :return: (disagreements, oracle failures) '''
    impl = [run_impl(case) for case in cases]
    try:
        model = chk.coq_eval('fwd_' + label, ['Lib.Cbor', 'Model.Bundle', 'Model.BpFwd'], [coq_case(case) for case in cases],
                             'BpFwd.run_case', chunk=max(40, (len(cases) + 7) // 8 if len(cases) < 1000 else (len(cases) + 15) // 16))
    except CoqError as err:
        model = None
        model_err = str(err)[:600]
    disagree = []
    fails = 0
    flag_names = ['fwd_in', 'eids_stable', 'payload_stable', 'prev_parse', 'age_parse', 'payload_last_num1', 'time!=0', 'lifetime!=0', 'creation<=now']
    for (cidx, (case, obs)) in enumerate(zip(cases, impl)):
        want = canon_impl(obs)
        got = canon_model(model[cidx]) if model is not None else None
        agree = (got == want)
        if model is None:
            disagree.append(dict(index=cidx, case=strip_case(case), why='model evaluation failed: ' + model_err))
        elif not agree:
            first = next((k for k in range(len(want)) if k >= len(got) or got[k] != want[k]), 0)
            disagree.append(dict(index=cidx, case=strip_case(case), input=first, impl=want[first], model=(got[first] if first < len(got) else None),
                                 stage=obs[first]['stage'], actions=obs[first]['actions']))
        for (idx, ent) in enumerate(obs):
            item = case['hist'][idx]
            cls = rx_class(item)
            if count:
                chk.count('outcome', {0: 'undecodable', 1: 'container-raises', 2: 'ignored', 4: 'forward-failed', 5: 'sent', 9: 'other'}[ent['code']])
                for tag in (item.get('tags') or ['plain']):
                    chk.count('rx_class', tag)
                for blk in item['spec']['blocks']:
                    chk.count('block_kind', blk.get('kind', 'raw'))
                    chk.count('crc_type', blk['crc_type'])
                chk.count('history_position', idx)
                chk.count('queue_delay_ms', item['now'] - item.get('recv_now', item['now']))
                if model is not None and idx < len(model[cidx][1]):
                    for (name, flag) in zip(flag_names, model[cidx][1][idx]):
                        if flag:
                            chk.count('hypothesis_true', name)
            if ent['code'] == 9 or ent['escaped'] or ent['recv_exc']:
                report(chk, pending, 'C11 / harness / unexpected agent reaction', 'actions %r escaped %r recv_exc %r stage %s' % (
                    ent['actions'], ent['escaped'], ent['recv_exc'], ent['stage']), dict(kind='case', case=strip_case(case), input=idx))
                fails += 1
            if ent['code'] == 4 and not (cls & {'dupnum'}) and 'hop-empty' not in (item.get('tags') or []):
                # routed "forward", transmit route and CL present, nothing handed to the CL
                fails += 1
                sig = SIG_STICKY if idx > 0 else 'C11 / not transmitted / first bundle of the process, class {%s}' % ','.join(sorted(cls))
                report(chk, pending, sig, 'input %d of the case (node %s): bundle routed forward is not transmitted (actions %r); block numbers received %r' % (
                    idx, case['node'], ent['actions'], [blk['num'] for blk in item['spec']['blocks']]),
                    dict(kind='case', case=strip_case(case), input=idx))
            if ent['code'] == 5:
                for (sig, what) in oracle(case, idx, ent):
                    fails += 1
                    report(chk, pending, sig, 'input %d of the case (node %s, now %d): %s' % (idx, case['node'], item['now'], what),
                           dict(kind='case', case=strip_case(case), input=idx, transmitted=ent['sent']))
            if count:
                nontrivial = ent['code'] == 5 and any(blk['type'] in (6, 7, 10) or blk['type'] not in (1,) for blk in item['spec']['blocks'][:-1])
                chk.case(ident=(ent['raw_hex'], item['now'], case['node'], idx), nontrivial=nontrivial,
                         sample=dict(node=case['node'], received_at=item.get('recv_now', item['now']), now=item['now'], received_hex=ent['raw_hex'][:400],
                                     transmitted_hex=(ent['sent'][0]['raw_hex'][:400] if ent['sent'] else None),
                                     outcome=ent['code'], position_in_history=idx, tags=item.get('tags')))
    return (disagree, fails)


def load_corpus():
    out = []
    for path in sorted(glob.glob(os.path.join(VERIF, 'harness', 'corpus', 'C11_*.json'))):
        with open(path) as infile:
            ent = json.load(infile)
        out.append((os.path.basename(path), ent))
    return out


def directed_cases():
    ''' Boundary-directed histories (always run): the classes named in the model header. '''
    import random
    rng = random.Random(11)
    cases = []
    for klass in ('prev2', 'age2', 'hop2', 'paypos', 'dupnum', 'eid-query', 'own-source'):
        for _ in range(4):
            cases.append(gen_case(rng, klass))
    # number stickiness: first bundle fixes the numbers, the following ones collide with them or not
    for first_time in (0, NOW0 - 5):
        for nums in ([2], [3], [2, 3], [4], [5, 2]):
            node = 'dtn://me/'
            hist = []
            (spec, tags) = gen_rx_bundle(rng, node, NOW0, 1)
            spec.update(time=first_time, lifetime=1000, crc_type=1, flags=0, frag=None, dest='dtn://d/x', src='dtn://s/', report_to='dtn:none')
            spec['blocks'] = [_blk(1, 1, b'first', 2, 0, 'payload')]
            hist.append(dict(recv_now=NOW0 - 2500, now=NOW0, spec=bg.fill_crc(spec), tags=['sticky-first']))
            spec2 = dict(spec, seq=2, time=NOW0 - 7)
            spec2['blocks'] = [_blk(192, num, b'\x01\x02', 1, 0, 'unknown') for num in nums] + [_blk(1, 1, b'second', 0, 0, 'payload')]
            hist.append(dict(recv_now=NOW0 + 1, now=NOW0 + 10, spec=bg.fill_crc(spec2), tags=['sticky-second']))
            spec3 = dict(spec, seq=3, time=NOW0 - 9)
            spec3['blocks'] = [_blk(6, nums[0], cbor2.dumps([1, '//p/']), 0, 0, 'prev'), _blk(7, 9, cbor2.dumps(4), 0, 0, 'age'),
                               _blk(1, 1, b'third', 1, 0, 'payload')]
            hist.append(dict(recv_now=NOW0 + 20, now=NOW0 + 20, spec=bg.fill_crc(spec3), tags=['sticky-third']))
            cases.append(dict(node=node, tx_routes=[dict(pattern='.*', cl_type='fake', mtu=None)], hist=hist))
    return cases


def main():
    chk = Check('C11', level='proof', description=__doc__)
    pending = {}
    if chk.args.replay:
        with open(chk.args.replay) as infile:
            ent = json.load(infile)
        rep = ent.get('replay', ent)
        if rep.get('kind') != 'case':
            print('C11 replay: nothing to re-run in %s (%s)' % (chk.args.replay, ent.get('what', '')[:300]))
            chk.obligation('replay:' + os.path.basename(chk.args.replay), False, 'no concrete input in the replay file')
            chk.finish(rule='replay of a file without a concrete input')
        case = rep['case']
        (disagree, fails) = evaluate(chk, [case], pending, label='replay')
        chk.obligation('correspondence:replay', not disagree, json.dumps(disagree[:1])[:600])
        for (sig, (what, path)) in sorted(pending.items()):
            print('PENDING-FINDING: property=C11 %s -- %s (witness %s)' % (sig, what[:300], path))
        chk.finish(rule='replay of one recorded case (real agent, model, oracle)')

    props_ok = chk.coq_props()
    # translator tie: the step structure of Agent._do_fwd is re-read from the source on every run (Gen/FwdSteps.v);
    # the C11_tie_* theorems of Props/C11.v are stated over it.  A failed translation is a broken tie.
    (tr_ok, tr_err) = chk.translate_ok('fwdsteps')
    chk.obligation('translator:fwdsteps', tr_ok, tr_err)
    props_ok = props_ok and tr_ok

    # corpus first (witnesses of the pending / known / fixed findings), then directed, then random; evaluated as
    # one batch (one wave of parallel coqc shards)
    corpus = load_corpus()
    corpus_cases = [ent['replay']['case'] for (_name, ent) in corpus if ent.get('replay', {}).get('kind') == 'case']
    directed = directed_cases()
    count = 400 if chk.quick() else 12000      # thorough: ~24 000 received bundles, under 15 min on a loaded 16-core box
    cases = [gen_case(chk.rng) for _ in range(count)]
    everything = corpus_cases + directed + cases
    all_dis = []
    for start in range(0, len(everything), 4000):
        (dis, _f) = evaluate(chk, everything[start:start + 4000], pending, label='b%d' % (start // 4000))
        for ent in dis:
            ent['index'] += start
        all_dis.extend(dis)
    dis_c = [ent for ent in all_dis if ent['index'] < len(corpus_cases)]
    dis_d = [ent for ent in all_dis if len(corpus_cases) <= ent['index'] < len(corpus_cases) + len(directed)]
    disagree = [ent for ent in all_dis if ent['index'] >= len(corpus_cases) + len(directed)]
    chk.obligation('correspondence:corpus', not dis_c, json.dumps(dis_c[:1])[:600])
    chk.obligation('correspondence:directed', not dis_d, json.dumps(dis_d[:1])[:600])
    # every corpus witness must still show its finding (or the finding has disappeared: say so)
    for (name, ent) in corpus:
        sig = ent.get('signature')
        if sig in PENDING_FINDINGS and sig not in pending and chk.known_match(sig) is None and sig not in chk.known_hits:
            print('NOTE: corpus witness %s no longer shows "%s"' % (name, sig))
    if (all_dis or not props_ok) and not chk.violations:
        # broken tie: search harder for a concrete failing input (10x budget) before giving up
        extra = [gen_case(chk.rng) for _ in range(count * (10 if chk.quick() else 2))]
        for start in range(0, len(extra), 2000):
            evaluate(chk, extra[start:start + 2000], pending, count=False, label='search%d' % (start // 2000))
            if chk.violations:
                break
    chk.obligation('correspondence:generated', not disagree,
                   ('%d of %d cases differ; first: ' % (len(disagree), len(cases)) + json.dumps(disagree[:1])[:900]) if disagree else '')
    if all_dis:
        path = os.path.join(VERIF, 'build', 'replay', 'C11_disagreement.json')
        with open(path, 'w') as out:
            json.dump(dict(property='C11', signature='correspondence', what='model and implementation differ',
                           replay=dict(kind='case', case=all_dis[0]['case']), detail=all_dis[:5]), out, indent=1)

    for (sig, (what, path)) in sorted(pending.items()):
        print('PENDING-FINDING: property=C11 %s -- %s (witness %s)' % (sig, what[:300], path))
    chk.coverage['pending_findings'] = sorted(pending)
    chk.coverage['refuted_partial_theorems'] = [name for name in chk.coverage.get('theorems', []) if name.endswith('_refuted') or '_refuted_' in name or name.endswith('_partial')]
    chk.finish(
        rule='cases = process histories of 1..4 received bundles (any mix of previous-node / hop-count / age / unknown blocks, also '
             'several of a kind and non-dissecting data; CRC types 0/1/2 per block; unique block numbers small/gapped/2^32/2^64-1; '
             'creation time 0/past/now/future; lifetime 0; fragments; administrative payloads; dtn/ipn/none EIDs) x 1..3 transmit '
             'routes x 6 node IDs, all from the seeded PRNG, plus %d directed histories and the corpus; one evaluation = one '
             'received bundle (real agent + model + oracle); non-trivial = the bundle was transmitted and carried at least one '
             'extension block; distinct by (received octets, clock, node, position in history)' % len(directed),
        assumptions=['harness stubs (dbus, GLib virtual loop, crcmod replacement) and bpdrive\'s frozen datetime are trusted',
                     'a fresh process is emulated by deleting block_num from scapy\'s class-level overloaded_fields tables before each case',
                     'TX chain with no BPSec policy and route MTU None or 10^6 (fragmentation: C05); block types 11/12 not generated (C12)',
                     'typed block data outside the model\'s domain (see Model/BpFwd.v header) is not generated',
                     'each bundle is received at recv_now and forwarded at now >= recv_now (virtual clock advanced before the idle callbacks run); forwarding times strictly increase within a history (the Timestamper then yields sequence number 0)'])


if __name__ == '__main__':
    main()
