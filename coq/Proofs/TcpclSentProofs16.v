(** TCPCL endpoint model: the channel property with its sender-side hypotheses
    discharged -- what one endpoint has handled is a prefix of what the other
    has sent, given only the network hypothesis and bounds on the inputs. *)
From Coq Require Import ZArith NArith List Bool Lia ZifyBool ZifyN ZifyNat Arith.
From DTN Require Import Lib.Bytes Model.TcpclMsg Model.TcpclSess Proofs.TcpclSessBasics
  Proofs.TcpclSentProofs5 Proofs.TcpclSentProofs7 Proofs.TcpclSentProofs11 Proofs.TcpclSentProofs15.
From DTN Require Proofs.TcpclChannelProofs.
Import ListNotations.
Local Open Scope N_scope.

(** The network delivers to B a prefix of the octets A wrote to its socket
    ([TcpclChannelProofs.received]: the octets of the reads of B that take
    effect).  Then B has handled a prefix of the frames A sent. *)
Theorem channel_closed cA opsA cB opsB :
  (exists rest, wire (run cA opsA) = TcpclChannelProofs.received (init cB) opsB ++ rest) ->
  cfg_ok cA -> Forall op_ok opsA ->
  1 + N.of_nat (length opsA) <= 2^64 -> N.of_nat (rx_total opsA) < 2^64 ->
  exists more, sent (run cA opsA) = handled (run cB opsB) ++ more.
Proof.
  intros Hnet Hc Hops Hl Hr.
  apply (TcpclChannelProofs.channel cA opsA cB opsB Hnet).
  - apply (sent_accounting cA opsA).
  - apply sent_wf; assumption.
  - apply (contact_first_map cA opsA).
Qed.

(** The composition for an active endpoint A and a passive endpoint B: both
    send a prefix of a legal sequence (grammar without the clause on START
    segments after SESS_TERM; with it under the segment-size guard, see
    [C04_pair_partial]). *)
Theorem C04_pair_closed cA opsA cB opsB :
  c_passive cA = false -> c_passive cB = true ->
  (exists rest, wire (run cA opsA) = TcpclChannelProofs.received (init cB) opsB ++ rest) ->
  cfg_ok cA -> Forall op_ok opsA ->
  1 + N.of_nat (length opsA) <= 2^64 -> N.of_nat (rx_total opsA) < 2^64 ->
  legal_prefix_weak (sent (run cA opsA)) = true /\ legal_prefix_weak (sent (run cB opsB)) = true.
Proof.
  intros Ha Hb Hnet Hc Hops Hl Hr. apply C04_pair_weak; [exact Ha|exact Hb|].
  apply channel_closed; assumption.
Qed.
