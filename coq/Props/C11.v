(** Property C11 - Forwarding preserves the bundle and updates only the hop-by-hop blocks.

    "A forwarded bundle leaves the node with its primary block fields (version, flags, destination, source,
     report-to, creation timestamp, lifetime) and payload unchanged, exactly one Previous Node block naming
     this node, every Hop Count block's count one greater than received, at most one Bundle Age block whose
     age reflects time since creation, unique block numbers with the payload block numbered 1 and last, and
     valid CRCs.  The bytes actually transmitted, not just the in-memory objects, show these values."

    Model: [Model/BpFwd.v] ([do_fwd node now b] = what [_do_fwd] + [send_bundle] make of the received bundle
    [b] at clock [now]; [encode_bundle (do_fwd node now b)] = the octets handed to the convergence layer;
    [recv_fwd] = the whole path from the CL callback), tied to /repo on every run by harness/check_C11.py.
    Every statement below is about [w] with  decode_bundle (encode_bundle (do_fwd node now b)) = Some w :
    the OCTETS, decoded again.

    Common hypothesis [fwd_inb node now b = true] (boolean, [Model/BpFwd.v]): field ranges of the received
    bundle (as [recv_bundle] lets it through), distinct block numbers none of which is 0 (otherwise the
    container raises out of the CL callback and nothing is forwarded: [C11_duplicate_numbers_not_forwarded]),
    fewer than 2^32 blocks, hop counts below 2^64-1, no hop-count block without data, clock below 2^64, a
    well-formed node ID.  [ex_bundle_hyps] shows a bundle with one block of each kind satisfying it and every
    other guard used here.

    Proved at full strength for the code as it is now (after the fix commits df72a19, ed76b97, 1355258):
      C11_wire_decodes, C11_forwarded_in_any_process_state, C11_hop_count, C11_block_numbers_unique,
      C11_payload_last_num1, C11_crcs_valid, C11_other_blocks_untouched, C11_primary_characterised.
    [_partial] + [_refuted] pairs (the faithful model of the unchanged code violates the full statement; the
    guard of the partial theorem excludes exactly the refuting class; witnesses replayed on the real agent
    by the check, harness/corpus/C11_*.json):
      primary block unchanged   - refuted for a received creation time 0, a received lifetime 0
                                  ([_apply_primary] is applied to forwarded bundles) and for an EID with
                                  '?' / '#' in a CRC-less primary block (text conversion, the C02 class);
      payload unchanged         - refuted for a forwarded status report whose subject EID has '?' / '#';
      exactly one previous node - refuted when a received type-6 block's data does not dissect (it stays);
      at most one bundle age    - refuted when a received type-7 block's data does not dissect;
      age = now - creation      - refuted when the creation time is ahead of the local clock (the age is
                                  encoded as a NEGATIVE CBOR integer). *)
From Coq Require Import List NArith Bool.
From DTN Require Import Lib.Bytes Lib.Cbor Model.Bundle Model.BpFwd Proofs.BpFwdProofs.
Import ListNotations.
Local Open Scope N_scope.

(** the transmitted octets decode, with the independent-codec model of C02, to the forwarded bundle *)
Theorem C11_wire_decodes : forall (node : eid) (now : N) (b : bundle),
  fwd_inb node now b = true ->
  decode_bundle (encode_bundle (do_fwd node now b)) = Some (do_fwd node now b).
Proof. exact c11_wire. Qed.
Print Assumptions C11_wire_decodes.

(** the agent hands exactly these octets to the CL, whatever it forwarded before (no process state) *)
Theorem C11_forwarded_in_any_process_state : forall (node : eid) (now : N) (bs : bytes) (b : bundle),
  decode_bundle bs = Some b -> fwd_inb node now b = true -> recv_crc_ok b = true ->
  eid_eqb (src (prim b)) node = false ->
  recv_fwd node now bs = RxSent (encode_bundle (do_fwd node now b)).
Proof. exact recv_fwd_sent. Qed.
Print Assumptions C11_forwarded_in_any_process_state.

(** ** primary block *)

(** FULL STATEMENT (refuted below): under [fwd_inb] alone, all ten fields of [w] equal those of [b]. *)
Theorem C11_primary_unchanged_partial : forall (node : eid) (now : N) (b w : bundle),
  fwd_inb node now b = true ->
  eids_stableb (prim b) = true ->              (* no EID is changed by the text conversion (C02 class) *)
  (create_time (prim b) =? 0) = false ->       (* creation time not 0 *)
  (lifetime (prim b) =? 0) = false ->          (* lifetime not 0 *)
  decode_bundle (encode_bundle (do_fwd node now b)) = Some w ->
  version (prim w) = version (prim b) /\ flags (prim w) = flags (prim b) /\
  crc_type (prim w) = crc_type (prim b) /\
  dest (prim w) = dest (prim b) /\ src (prim w) = src (prim b) /\ report_to (prim w) = report_to (prim b) /\
  create_time (prim w) = create_time (prim b) /\ create_seq (prim w) = create_seq (prim b) /\
  lifetime (prim w) = lifetime (prim b) /\ frag (prim w) = frag (prim b).
Proof. exact C11_primary_unchanged_partial_holds. Qed.
Print Assumptions C11_primary_unchanged_partial.

(** what the primary block on the wire is, in every case: the received one with the EIDs through the text
    conversion, a zero creation time replaced by (now, 0), a zero lifetime by 3 600 000, CRC recomputed *)
Theorem C11_primary_characterised : forall (node : eid) (now : N) (b w : bundle),
  fwd_inb node now b = true ->
  decode_bundle (encode_bundle (do_fwd node now b)) = Some w ->
  prim w = with_crc_primary (apply_primary now (impl_norm_primary (prim b))) /\
  version (prim w) = version (prim b) /\ flags (prim w) = flags (prim b) /\
  crc_type (prim w) = crc_type (prim b) /\ frag (prim w) = frag (prim b) /\
  (create_time (prim b) <> 0 ->
   create_time (prim w) = create_time (prim b) /\ create_seq (prim w) = create_seq (prim b)) /\
  (lifetime (prim b) <> 0 -> lifetime (prim w) = lifetime (prim b)).
Proof. exact C11_primary_characterised_holds. Qed.
Print Assumptions C11_primary_characterised.

Theorem C11_primary_unchanged_refuted_time0 :
  exists (node : eid) (now : N) (b w : bundle),
    fwd_inb node now b = true /\ eids_stableb (prim b) = true /\ (lifetime (prim b) =? 0) = false /\
    decode_bundle (encode_bundle (do_fwd node now b)) = Some w /\
    create_time (prim b) = 0 /\ create_time (prim w) = now /\
    create_seq (prim b) = 3 /\ create_seq (prim w) = 0 /\
    (* and the received Bundle Age block is gone *)
    filter (fun x => btype x =? 7) (blocks b) <> [] /\ filter (fun x => btype x =? 7) (blocks w) = [].
Proof. exact C11_primary_unchanged_refuted_time0_holds. Qed.
Print Assumptions C11_primary_unchanged_refuted_time0.

Theorem C11_primary_unchanged_refuted_lifetime0 :
  exists (node : eid) (now : N) (b w : bundle),
    fwd_inb node now b = true /\ eids_stableb (prim b) = true /\ (create_time (prim b) =? 0) = false /\
    decode_bundle (encode_bundle (do_fwd node now b)) = Some w /\
    lifetime (prim b) = 0 /\ lifetime (prim w) = 3600000.
Proof. exact C11_primary_unchanged_refuted_lifetime0_holds. Qed.
Print Assumptions C11_primary_unchanged_refuted_lifetime0.

Theorem C11_primary_unchanged_refuted_eid :
  exists (node : eid) (now : N) (b w : bundle),
    fwd_inb node now b = true /\ (create_time (prim b) =? 0) = false /\ (lifetime (prim b) =? 0) = false /\
    recv_crc_ok b = true /\
    decode_bundle (encode_bundle (do_fwd node now b)) = Some w /\ dest (prim w) <> dest (prim b).
Proof. exact C11_primary_unchanged_refuted_eid_holds. Qed.
Print Assumptions C11_primary_unchanged_refuted_eid.

(** ** payload *)

(** FULL STATEMENT (refuted below): without [payload_stableb]. *)
Theorem C11_payload_unchanged_partial : forall (node : eid) (now : N) (b w : bundle),
  fwd_inb node now b = true ->
  payload_stableb b = true ->       (* not a status report whose re-encoding differs (EID with ? / #) *)
  decode_bundle (encode_bundle (do_fwd node now b)) = Some w ->
  (* type, number, flags, CRC type and data of the type-1 block(s) *)
  map core (filter (fun x => btype x =? 1) (blocks w)) = map core (filter (fun x => btype x =? 1) (blocks b)).
Proof. exact C11_payload_unchanged_partial_holds. Qed.
Print Assumptions C11_payload_unchanged_partial.

Theorem C11_payload_unchanged_refuted :
  exists (node : eid) (now : N) (b w : bundle),
    fwd_inb node now b = true /\ recv_crc_ok b = true /\
    decode_bundle (encode_bundle (do_fwd node now b)) = Some w /\
    map btsd (filter (fun x => btype x =? 1) (blocks w)) <> map btsd (filter (fun x => btype x =? 1) (blocks b)).
Proof. exact C11_payload_unchanged_refuted_holds. Qed.
Print Assumptions C11_payload_unchanged_refuted.

(** ** previous node *)

(** FULL STATEMENT (refuted below): without [prev_parseb]. *)
Theorem C11_prev_node_exactly_one_partial : forall (node : eid) (now : N) (b w : bundle),
  fwd_inb node now b = true ->
  prev_parseb b = true ->           (* every received type-6 block is one the implementation dissects *)
  decode_bundle (encode_bundle (do_fwd node now b)) = Some w ->
  exists blk, filter (fun x => btype x =? 6) (blocks w) = [blk] /\ decode_prev_node (btsd blk) = Some node.
Proof. exact C11_prev_node_exactly_one_partial_holds. Qed.
Print Assumptions C11_prev_node_exactly_one_partial.

Theorem C11_prev_node_exactly_one_refuted :
  exists (node : eid) (now : N) (b w : bundle),
    fwd_inb node now b = true /\
    decode_bundle (encode_bundle (do_fwd node now b)) = Some w /\
    length (filter (fun x => btype x =? 6) (blocks w)) = 2%nat.
Proof. exact C11_prev_node_exactly_one_refuted_holds. Qed.
Print Assumptions C11_prev_node_exactly_one_refuted.

(** ** hop count: the received and the transmitted type-10 blocks correspond one to one, in order;
    number, flags and CRC type kept; [limit, count] becomes [limit, count + 1]; a block whose data is not
    a two-uint array is left as it is *)
Theorem C11_hop_count : forall (node : eid) (now : N) (b w : bundle),
  fwd_inb node now b = true ->
  decode_bundle (encode_bundle (do_fwd node now b)) = Some w ->
  Forall2 (fun rb wb =>
             bnum wb = bnum rb /\ bflags wb = bflags rb /\ bcrc_type wb = bcrc_type rb /\
             match decode_hop_count (btsd rb) with
             | Some (l, c) => decode_hop_count (btsd wb) = Some (l, c + 1)
             | None => btsd wb = btsd rb
             end)
          (filter (fun x => btype x =? 10) (blocks b)) (filter (fun x => btype x =? 10) (blocks w)).
Proof. exact C11_hop_count_holds. Qed.
Print Assumptions C11_hop_count.

(** ** bundle age *)

(** FULL STATEMENT (refuted below): without [age_parseb], and with the value for every clock. *)
Theorem C11_age_at_most_one_partial : forall (node : eid) (now : N) (b w : bundle),
  fwd_inb node now b = true ->
  age_parseb b = true ->            (* every received type-7 block is one the implementation dissects *)
  decode_bundle (encode_bundle (do_fwd node now b)) = Some w ->
  (create_time (prim b) = 0 -> filter (fun x => btype x =? 7) (blocks w) = []) /\
  (create_time (prim b) <> 0 ->
   exists blk, filter (fun x => btype x =? 7) (blocks w) = [blk] /\
               (create_time (prim b) <= now ->
                decode_bundle_age (btsd blk) = Some (now - create_time (prim b)))).
Proof. exact C11_age_at_most_one_partial_holds. Qed.
Print Assumptions C11_age_at_most_one_partial.

Theorem C11_age_at_most_one_refuted :
  exists (node : eid) (now : N) (b w : bundle),
    fwd_inb node now b = true /\
    decode_bundle (encode_bundle (do_fwd node now b)) = Some w /\
    length (filter (fun x => btype x =? 7) (blocks w)) = 2%nat.
Proof. exact C11_age_at_most_one_refuted_holds. Qed.
Print Assumptions C11_age_at_most_one_refuted.

Theorem C11_age_value_refuted :
  exists (node : eid) (now : N) (b w : bundle) (blk : cblock),
    fwd_inb node now b = true /\ age_parseb b = true /\ now < create_time (prim b) /\
    decode_bundle (encode_bundle (do_fwd node now b)) = Some w /\
    filter (fun x => btype x =? 7) (blocks w) = [blk] /\
    decode_bundle_age (btsd blk) = None /\                                    (* not an unsigned integer *)
    btsd blk = encode (CNint (create_time (prim b) - now - 1)).             (* the integer now - creation < 0 *)
Proof. exact C11_age_value_refuted_holds. Qed.
Print Assumptions C11_age_value_refuted.

(** ** block numbers *)

Theorem C11_block_numbers_unique : forall (node : eid) (now : N) (b w : bundle),
  fwd_inb node now b = true ->      (* includes: the received numbers are distinct and none is 0 *)
  decode_bundle (encode_bundle (do_fwd node now b)) = Some w ->
  NoDup (map bnum (blocks w)) /\ ~ In 0 (map bnum (blocks w)).
Proof. exact C11_block_numbers_unique_holds. Qed.
Print Assumptions C11_block_numbers_unique.

(** a received bundle with a repeated block number (or a block numbered 0) never reaches [_do_fwd]:
    [BundleContainer.reload] raises out of the CL callback *)
Theorem C11_duplicate_numbers_not_forwarded : forall (node : eid) (now : N) (bs : bytes) (b : bundle),
  decode_bundle bs = Some b -> nodupb (0 :: map bnum (blocks b)) = false ->
  recv_fwd node now bs = RxContainerRaises.
Proof. exact recv_fwd_duplicate_numbers. Qed.
Print Assumptions C11_duplicate_numbers_not_forwarded.

(** the new blocks go in front of the last block: a payload block that came last with number 1 leaves
    last with number 1.  (A received bundle whose payload block is NOT last / NOT numbered 1 violates
    RFC 9171 4.1 / 4.3.3 itself; it is forwarded in the order it came - [paypos_example] in
    Proofs/BpFwdProofs.v - and is outside what the property promises.) *)
Theorem C11_payload_last_num1 : forall (node : eid) (now : N) (b w : bundle),
  fwd_inb node now b = true ->
  payload_last_num1b (blocks b) = true ->
  decode_bundle (encode_bundle (do_fwd node now b)) = Some w ->
  exists pre pl, blocks w = pre ++ [pl] /\ btype pl = 1 /\ bnum pl = 1.
Proof. exact C11_payload_last_num1_holds. Qed.
Print Assumptions C11_payload_last_num1.

(** ** CRCs: every block on the wire (CRC types as received, none on the two new blocks) checks *)
Theorem C11_crcs_valid : forall (node : eid) (now : N) (b w : bundle),
  fwd_inb node now b = true ->
  decode_bundle (encode_bundle (do_fwd node now b)) = Some w ->
  crc_ok_bundle w = true.
Proof. exact C11_crcs_valid_holds. Qed.
Print Assumptions C11_crcs_valid.

(** ** everything else: blocks that are neither payload, nor of type 10, nor a previous-node / age block
    the implementation recognises, keep type, number, flags, CRC type, data and relative order *)
Theorem C11_other_blocks_untouched : forall (node : eid) (now : N) (b w : bundle),
  fwd_inb node now b = true ->
  decode_bundle (encode_bundle (do_fwd node now b)) = Some w ->
  map core (filter untouchedb (blocks w)) = map core (filter untouchedb (blocks b)).
Proof. exact C11_other_blocks_untouched_holds. Qed.
Print Assumptions C11_other_blocks_untouched.

(** ** non-vacuity: one received bundle with a previous-node, a hop-count, an age, an unknown and the
    payload block satisfies every hypothesis used above (and the guards of the [_partial] theorems); the
    model forwards it as shown in [ex_bundle_forwarded] *)
Theorem C11_nonvacuous :
  fwd_inb ex_node ex_now ex_bundle = true /\ eids_stableb (prim ex_bundle) = true /\
  payload_stableb ex_bundle = true /\ prev_parseb ex_bundle = true /\ age_parseb ex_bundle = true /\
  payload_last_num1b (blocks ex_bundle) = true /\
  (create_time (prim ex_bundle) =? 0) = false /\ (lifetime (prim ex_bundle) =? 0) = false /\
  create_time (prim ex_bundle) <= ex_now /\ recv_crc_ok ex_bundle = true /\
  eid_eqb (src (prim ex_bundle)) ex_node = false /\
  decode_bundle (encode_bundle ex_bundle) = Some ex_bundle /\
  map core (blocks (do_fwd ex_node ex_now ex_bundle)) =
  [(10, 3, 0, 1, [130; 24; 30; 4]); (192, 5, 1, 2, [1; 2; 3]);
   (6, 2, 0, 0, [130; 1; 101; 47; 47; 109; 101; 47]);
   (7, 4, 0, 0, [27; 0; 0; 0; 23; 72; 118; 232; 0]);
   (1, 1, 0, 2, [104; 105])].
Proof. exact C11_nonvacuous_holds. Qed.
Print Assumptions C11_nonvacuous.

(** ** Translator tie: the step structure of [_do_fwd] read from the source on every run
    ([Gen/FwdSteps.v] by translate/targets/fwdsteps.py; meaning of the steps: [Proofs/BpFwdTie.run_step]).
    An edit of [_do_fwd] that iterates the live list again, drops the hop-count re-encoding, changes the
    increment, the order of the steps, the guard of the age block or the age expression changes the generated
    definitions and breaks one of these theorems (or makes the translator fail closed). *)
From Coq Require Import ZArith.
From DTN Require Import Gen.FwdSteps Proofs.BpFwdTie.
Local Open Scope N_scope.

(** what the source does, in order: remove every Previous Node block (iterating over a copy), add this
    node's, increment every hop count by 1 and re-encode it, remove every Bundle Age block (over a copy),
    add the new age under the guard *)
Theorem C11_tie_steps :
  fwd_steps = [StRemoveAll 6 true; StAddPrevNode; StBumpHop 1 true; StRemoveAll 7 true; StAddAge].
Proof. exact tie_steps_shape. Qed.
Print Assumptions C11_tie_steps.

(** the model of the theorems above is the interpretation of exactly those steps, for every bundle *)
Theorem C11_tie_model_performs_the_steps : forall (node : eid) (now ctime : N) (bl : list cblock),
  fwd_blocks node now ctime bl = run_steps fwd_steps node now ctime bl.
Proof. exact tie_fwd_blocks. Qed.
Print Assumptions C11_tie_model_performs_the_steps.

(** the age block is added iff the received creation time is not 0, and carries now - creation as an integer *)
Theorem C11_tie_age : forall (now ctime : N),
  fwd_age_guard ctime = negb (ctime =? 0) /\
  cbor_int (age_item now ctime) = Some (fwd_age (Z.of_N now) (Z.of_N ctime)).
Proof. intros now ctime. exact (conj (tie_age_guard ctime) (tie_age_value now ctime)). Qed.
Print Assumptions C11_tie_age.
