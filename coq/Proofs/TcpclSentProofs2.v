(** TCPCL endpoint model: what handling one received message does, field by field (part 1). *)
From Coq Require Import ZArith NArith List Bool Lia ZifyBool ZifyN ZifyNat Arith.
From RecordUpdate Require Import RecordSet.
From DTN Require Import Lib.Bytes Model.TcpclMsg Model.TcpclSess Proofs.TcpclSessBasics Proofs.TcpclSentProofs1.
Import ListNotations RecordSetNotations.
Ltac Zify.zify_post_hook ::= Z.div_mod_to_equations.
Local Open Scope N_scope.

Ltac hm_unfold :=
  c_recv_frame; c_handle_msg; c_merge_session_params; c_send_sess_term;
  unfold check_sess_term, is_sess_idle, raise, ok, send_sess_init, send_contact_header, send_msg, my_sessinit; opq.

(** * What handling one frame does, field by field *)

Definition is_init (m : msg) : bool := match m with MSessInit _ _ _ _ _ => true | _ => false end.
Definition is_term (m : msg) : bool := match m with MSessTerm _ _ => true | _ => false end.

(** The SESS_TERM [send_sess_term] emits, if any. *)
Definition out_term (reason : N) (reply : bool) (s : ep) : list frame :=
  if in_sess s && negb (in_term s) then [FMsg (MSessTerm (if reply then 1 else 0) reason)] else [].

(** The data accumulated for the transfer a segment belongs to, if it is acceptable. *)
Definition seg_acc (flags xid : N) (data : bytes) (s : ep) : option bytes :=
  if has_start flags then Some data
  else match rx_tmp s with
       | Some (cur, acc) => if cur =? xid then Some (acc ++ data) else None
       | None => None
       end.

Definition rej (m : msg) : list frame := [FMsg (MReject (msg_id m) REJ_UNEXPECTED)].

(** Frames sent while handling message [m] in state [s]. *)
Definition out_msg (m : msg) (s : ep) : list frame :=
  match m with
  | MSessInit _ _ _ _ _ => if c_passive (cf s) then [FMsg (sess_init_msg (cf s))] else []
  | MSessTerm _ reason => if in_sess s then out_term reason true s else rej m
  | MXferSeg flags xid _ data =>
      if in_sess s then
        match seg_acc flags xid data s with
        | Some acc => [FMsg (MXferAck flags xid (N.of_nat (length acc)))]
        | None => rej m
        end
      else rej m
  | MXferAck flags xid _ =>
      if in_sess s then
        match dict_get xid (tx_map s) with
        | None => rej m
        | Some _ => if has_end flags && negb (mem_N xid (pend_ack s)) then rej m else []
        end
      else rej m
  | MXferRefuse _ xid =>
      if in_sess s then match dict_get xid (tx_map s) with None => rej m | Some _ => [] end
      else rej m
  | MKeepalive | MReject _ _ => []
  end.

Ltac sum_leaf := rewrite ?app_nil_r, <- ?app_assoc; try reflexivity; try congruence.

Lemma sent_recv_msg m s : sent (fst (recv_frame (FMsg m) s)) = sent s ++ out_msg m s.
Proof.
  hm_unfold. unfold out_msg, out_term, seg_acc, rej, sess_init_msg.
  destruct m; p_split; sum_leaf.
Qed.

Lemma msg_tx_recv_msg m s : msg_tx (fst (recv_frame (FMsg m) s)) = msg_tx s ++ concat (map encode_frame (out_msg m s)).
Proof.
  hm_unfold. unfold out_msg, out_term, seg_acc, rej, sess_init_msg.
  destruct m; p_split; cbn [map concat app]; sum_leaf.
Qed.

Lemma cf_recv_frame f s : cf (fst (recv_frame f s)) = cf s.
Proof. hm_unfold. destruct f as [c|m]; [|destruct m]; p_split; sum_leaf. Qed.
Lemma handled_recv_frame f s : handled (fst (recv_frame f s)) = handled s.
Proof. hm_unfold. destruct f as [c|m]; [|destruct m]; p_split; sum_leaf. Qed.
Lemma wire_recv_frame f s : wire (fst (recv_frame f s)) = wire s.
Proof. hm_unfold. destruct f as [c|m]; [|destruct m]; p_split; sum_leaf. Qed.
Lemma conn_tx_recv_frame f s : conn_tx (fst (recv_frame f s)) = conn_tx s.
Proof. hm_unfold. destruct f as [c|m]; [|destruct m]; p_split; sum_leaf. Qed.
Lemma in_conn_recv_msg m s : in_conn (fst (recv_frame (FMsg m) s)) = in_conn s.
Proof. hm_unfold. destruct m; p_split; sum_leaf. Qed.
Lemma conhead_this_recv_msg m s : conhead_this (fst (recv_frame (FMsg m) s)) = conhead_this s.
Proof. hm_unfold. destruct m; p_split; sum_leaf. Qed.

Lemma in_sess_recv_msg m s : in_sess (fst (recv_frame (FMsg m) s)) = in_sess s || is_init m.
Proof. hm_unfold. unfold is_init. destruct m; p_split; rewrite ?orb_true_r, ?orb_false_r; sum_leaf. Qed.

