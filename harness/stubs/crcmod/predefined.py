''' Table-driven reflected CRCs standing in for crcmod.predefined. '''
_DEFN = {
    # name: (width, reflected poly)
    'x-25': (16, 0x8408),
    'crc-32c': (32, 0x82F63B78),
}


def _table(poly):
    tab = []
    for byte in range(256):
        crc = byte
        for _ in range(8):
            crc = (crc >> 1) ^ poly if crc & 1 else crc >> 1
        tab.append(crc)
    return tab


def mkPredefinedCrcFun(name):
    (width, poly) = _DEFN[name.lower()]
    tab = _table(poly)
    mask = (1 << width) - 1

    def crcfun(data, crc=0):
        crc = crc ^ mask
        for octet in bytes(data):
            crc = (crc >> 8) ^ tab[(crc ^ octet) & 0xFF]
        return crc ^ mask
    return crcfun


mkCrcFun = mkPredefinedCrcFun
