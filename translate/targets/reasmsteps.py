''' Translator target: the decision structure of Fragment._reassemble (bp/app/fragment.py)  ->  coq/Gen/ReasmSteps.v

Expected shape, statement by statement (LOGGER calls are ignored; fail closed on anything else):

    if 'deliver' not in ctr.actions: return                                  guard 1 ("not mine")
    if not (ctr.bundle.primary.bundle_flags & PrimaryBlock.Flag.IS_FRAGMENT): return     guard 2
    final_ident = ctr.bundle_ident()[:K]                                     -> rs_key_parts = K
    frag_offset = ...fragment_offset ; total_length = ...total_app_data_len
    reassm = self._reassembly.get(final_ident, None)
    if reassm is None: <create: total_valid = closedopen(0, total_length), valid = empty, data = bytearray(total_length)>
    else: <only logging>
    [if frag_offset == 0:] reassm.first_frag = ctr.bundle                    -> rs_first
    payload_data = ... ; end_ix = frag_offset + len(payload_data)
    reassm.data[frag_offset:end_ix] = payload_data
    reassm.valid |= portion.closedopen(frag_offset, end_ix)
    if reassm.valid == reassm.total_valid:                                   the completion test (coverage, not a length sum)
        del self._reassembly[final_ident]
        <synthesize: primary of first_frag, IS_FRAGMENT cleared, CRCs dropped, blocks of first_frag, payload = data>
        glib.idle_add(self._agent.recv_bundle, rctr)                         exactly once
    ctr.actions.clear()
    return True

Any additional ``if <cond>: return`` between the key computation and the completion test (e.g. an "already covered"
shortcut) is recognised and COUNTED in rs_mid_returns; Props/C06.v demands 0, so it breaks a theorem.  Any other
deviation (another completion test, another statement, another order) raises.
'''
import ast
import os


class TranslateError(Exception):
    pass


def _is_log(stmt):
    return isinstance(stmt, ast.Expr) and isinstance(stmt.value, ast.Call) and ast.unparse(stmt.value.func).startswith('LOGGER.')


def _clean(stmts):
    out = []
    for stmt in stmts:
        if _is_log(stmt):
            continue
        if isinstance(stmt, ast.If):
            stmt = ast.If(test=stmt.test, body=_clean(stmt.body) or [ast.Pass()], orelse=_clean(stmt.orelse))
        elif isinstance(stmt, ast.For):
            stmt = ast.For(target=stmt.target, iter=stmt.iter, body=_clean(stmt.body) or [ast.Pass()], orelse=_clean(stmt.orelse))
        out.append(stmt)
    return out


def _src(stmt):
    return ast.unparse(ast.fix_missing_locations(stmt))


def _is_bare_return_if(stmt):
    return (isinstance(stmt, ast.If) and not stmt.orelse and len(stmt.body) == 1
            and isinstance(stmt.body[0], ast.Return) and stmt.body[0].value is None)


CREATE = ("if reassm is None:\n"
          "    reassm = Reassembly(ident=final_ident, total_length=total_length, total_valid=portion.closedopen(0, total_length), "
          "valid=portion.empty(), data=bytearray(total_length))\n"
          "    self._reassembly[final_ident] = reassm\n"
          "elif reassm.total_length != total_length:\n"
          "    pass")
CREATE_ALT = CREATE.replace("elif reassm.total_length != total_length:\n    pass", "else:\n    if reassm.total_length != total_length:\n        pass")

COMPLETE = [
    "del self._reassembly[final_ident]",
    "rctr = BundleContainer()",
    "rctr.bundle.primary = reassm.first_frag.primary.copy()",
    "rctr.bundle.primary.bundle_flags &= ~PrimaryBlock.Flag.IS_FRAGMENT",
    "rctr.bundle.primary.crc_type = AbstractBlock.CrcType.NONE",
    "rctr.bundle.primary.crc_value = None",
    "for blk in reassm.first_frag.blocks:\n    rctr.bundle.blocks.append(blk.copy())",
    "rctr.reload()",
    "pyld_blk = rctr.block_num(Bundle.BLOCK_NUM_PAYLOAD)",
    "pyld_blk.setfieldval('btsd', reassm.data)",
    "pyld_blk.crc_type = AbstractBlock.CrcType.NONE",
    "pyld_blk.crc_value = None",
    "glib.idle_add(self._agent.recv_bundle, rctr)",
]


def collect(repo_src):
    with open(os.path.join(repo_src, 'bp', 'app', 'fragment.py')) as infile:
        tree = ast.parse(infile.read())
    cls = [node for node in tree.body if isinstance(node, ast.ClassDef) and node.name == 'Fragment']
    if not cls:
        raise TranslateError('class Fragment not found')
    func = [node for node in cls[0].body if isinstance(node, ast.FunctionDef) and node.name == '_reassemble']
    if not func:
        raise TranslateError('Fragment._reassemble not found')
    body = _clean([stmt for stmt in func[0].body
                   if not (isinstance(stmt, ast.Expr) and isinstance(stmt.value, ast.Constant) and isinstance(stmt.value.value, str))])
    pos = [0]

    def take(what):
        if pos[0] >= len(body):
            raise TranslateError('function ends before: %s' % what)
        stmt = body[pos[0]]
        pos[0] += 1
        return stmt

    def expect(text, what):
        stmt = take(what)
        if _src(stmt) != text:
            raise TranslateError('%s: expected %r, found %r' % (what, text, _src(stmt)[:300]))

    info = dict(mid_returns=0)
    expect("if 'deliver' not in ctr.actions:\n    return", 'guard 1')
    expect("if not ctr.bundle.primary.bundle_flags & PrimaryBlock.Flag.IS_FRAGMENT:\n    return", 'guard 2')
    key = take('key')
    if not (isinstance(key, ast.Assign) and _src(key).startswith('final_ident = ctr.bundle_ident()[:') and isinstance(key.value, ast.Subscript)
            and isinstance(key.value.slice, ast.Slice) and key.value.slice.lower is None and key.value.slice.step is None
            and isinstance(key.value.slice.upper, ast.Constant) and isinstance(key.value.slice.upper.value, int)
            and not isinstance(key.value.slice.upper.value, bool) and key.value.slice.upper.value >= 0):
        raise TranslateError('table key is not ctr.bundle_ident()[:K]: %r' % _src(key)[:200])
    info['key_parts'] = key.value.slice.upper.value

    def skip_mid_returns():
        while pos[0] < len(body) and _is_bare_return_if(body[pos[0]]):
            info['mid_returns'] += 1
            pos[0] += 1

    skip_mid_returns()
    expect("frag_offset = ctr.bundle.primary.fragment_offset", 'offset')
    expect("total_length = ctr.bundle.primary.total_app_data_len", 'total')
    skip_mid_returns()
    expect("reassm = self._reassembly.get(final_ident, None)", 'lookup')
    skip_mid_returns()
    create = take('create-if-missing')
    if _src(create) not in (CREATE, CREATE_ALT):
        raise TranslateError('create-if-missing has another shape: %r' % _src(create)[:600])
    skip_mid_returns()
    first = take('first fragment rule')
    if _src(first) == "if frag_offset == 0:\n    reassm.first_frag = ctr.bundle":
        info['first'] = 'FirstIfOffsetZero'
    elif _src(first) == "reassm.first_frag = ctr.bundle":
        info['first'] = 'FirstAlways'
    else:
        raise TranslateError('first-fragment rule has another shape: %r' % _src(first)[:300])
    skip_mid_returns()
    expect("payload_data = ctr.block_num(1).getfieldval('btsd')", 'payload')
    expect("end_ix = frag_offset + len(payload_data)", 'end index')
    skip_mid_returns()
    expect("reassm.data[frag_offset:end_ix] = payload_data", 'splice')
    skip_mid_returns()
    expect("reassm.valid |= portion.closedopen(frag_offset, end_ix)", 'covered-set update')
    skip_mid_returns()
    comp = take('completion test')
    if not (isinstance(comp, ast.If) and not comp.orelse and _src(comp.test) in ("reassm.valid == reassm.total_valid", "reassm.total_valid == reassm.valid")):
        raise TranslateError('completion test is not "covered == [0, total)": %r' % _src(comp)[:200])
    got = [_src(stmt) for stmt in comp.body]
    if got != COMPLETE:
        diff = next((idx for idx in range(min(len(got), len(COMPLETE))) if got[idx] != COMPLETE[idx]), min(len(got), len(COMPLETE)))
        raise TranslateError('completion branch differs at statement %d: %r' % (diff, (got + ['<end>'])[diff][:300]))
    expect("ctr.actions.clear()", 'fall through: clear actions')
    expect("return True", 'fall through: interrupt chain')
    if pos[0] != len(body):
        raise TranslateError('statements after "return True"')
    return info


def generate(repo_src):
    info = collect(repo_src)
    lines = [
        '(* GENERATED by translate/targets/reasmsteps.py from Fragment._reassemble (bp/app/fragment.py): its decision',
        '   structure.  Do not edit. *)',
        'Inductive first_rule := FirstIfOffsetZero | FirstAlways.',
        '(* "not mine" returns before any state is touched: no deliver action; not a fragment *)',
        'Definition rs_guards : nat := 2.',
        '(* the partial reassembly is stored under the first K components of bundle_ident(): source, dtntime, seqno',
        '   (the fragment offset / total length are components 4 and 5; the fragment length is no component at all) *)',
        'Definition rs_key_parts : nat := %d.' % info['key_parts'],
        '(* bare "if ...: return" statements between the key and the completion test (an arriving fragment that adds',
        '   nothing must still fall through to the completion test) *)',
        'Definition rs_mid_returns : nat := %d.' % info['mid_returns'],
        'Definition rs_first : first_rule := %s.' % info['first'],
        '(* buffer splice data[off:end] = payload, then valid |= closedopen(off, end), in this order, unconditionally *)',
        'Definition rs_splice_then_union : bool := true.',
        '(* completion test: valid == total_valid, total_valid = closedopen(0, total_length of the entry) *)',
        'Definition rs_completion_is_cover_eq : bool := true.',
        '(* on completion: entry deleted first; primary and blocks copied from first_frag; IS_FRAGMENT cleared; payload = buffer *)',
        'Definition rs_completion_removes_entry : bool := true.',
        'Definition rs_clears_fragment_flag : bool := true.',
        'Definition rs_blocks_from_first : bool := true.',
        'Definition rs_payload_from_buffer : bool := true.',
        'Definition rs_reinjections : nat := 1.',
        '(* every fragment, completing or not: ctr.actions.clear(); return True *)',
        'Definition rs_fallthrough_clears_actions : bool := true.',
        '']
    return {'Gen/ReasmSteps.v': '\n'.join(lines)}
