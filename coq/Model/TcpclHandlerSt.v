(** The abstract state on which the transfer-message handlers of
    tcpcl/session.py (class ContactHandler: recv_xfer_ack, recv_xfer_refuse,
    recv_sess_term, recv_xfer_data, with the Messenger base guards they call
    first, _tx_teardown, _rx_setup and _rx_teardown) are
    translated by translate/targets/tcpclhandlers.py into Gen/TcpclHandlers.v,
    and the abstraction [habs] from the endpoint model's state.  Definitions
    only.

    A BundleItem object is represented by its transfer id.  [_tx_map] maps an
    id to the item's [ack_length]; an item's [total_length] is kept with the
    entry of [_tx_pend_start] (it is None until _process_queue starts the
    transfer, so every queued item has None).  Membership of an item in
    [_tx_pend_ack] / [_tx_pend_start] is membership of its id.  A collection of
    items never contains a bare integer: the translator turns
    [discard]/[remove]/[in] applied to something that is not an item variable
    into a no-op / [false].  The transfer being received is (id, octets written
    to its file so far); a received bundle is (id, length); the octet string of
    a segment is represented by its length.  The decision types at the end are
    the results of the control functions of Gen/TcpclControl.v. *)
From Coq Require Import List NArith Bool.
From DTN Require Import Lib.Bytes Model.TcpclMsg Model.TcpclSess.
Import ListNotations.
Local Open Scope N_scope.

Record hst := mkH {
  h_in_sess : bool                           (* _in_sess *);
  h_in_conn : bool                           (* _in_conn *);
  h_ack_final : bool                         (* _do_send_ack_final *);
  h_ack_inter : bool                         (* _do_send_ack_inter *);
  h_modulate : bool                          (* config.modulate_target_ack_time is not None *);
  h_tx_map : list (N * N)                    (* _tx_map: id -> item.ack_length, insertion order *);
  h_pend_start : list (N * option N)         (* _tx_pend_start: (id, item.total_length) *);
  h_pend_ack : list N                        (* _tx_pend_ack: ids *);
  h_tx_tmp : option N                        (* _tx_tmp: id of the transfer in progress *);
  h_tx_len : N                               (* _tx_length (None as 0) *);
  h_pq : bool                                (* _process_queue_pend is not None *);
  h_rx_tmp : option (N * N)                  (* _rx_tmp: (id, octets written to its file so far) *);
  h_rx_map : list (N * N)                    (* _rx_map: id -> length of the received bundle, insertion order *);
  h_sent : list msg                          (* messages handed to send_message by the handler, in order *);
  h_events : list event                      (* D-Bus signals emitted by the handler, in order *);
  h_check : bool                             (* _check_sess_term() was called *)
}.

Definition set_h_tx_map v h := mkH (h_in_sess h) (h_in_conn h) (h_ack_final h) (h_ack_inter h) (h_modulate h) v (h_pend_start h) (h_pend_ack h) (h_tx_tmp h) (h_tx_len h) (h_pq h) (h_rx_tmp h) (h_rx_map h) (h_sent h) (h_events h) (h_check h).
Definition set_h_pend_start v h := mkH (h_in_sess h) (h_in_conn h) (h_ack_final h) (h_ack_inter h) (h_modulate h) (h_tx_map h) v (h_pend_ack h) (h_tx_tmp h) (h_tx_len h) (h_pq h) (h_rx_tmp h) (h_rx_map h) (h_sent h) (h_events h) (h_check h).
Definition set_h_pend_ack v h := mkH (h_in_sess h) (h_in_conn h) (h_ack_final h) (h_ack_inter h) (h_modulate h) (h_tx_map h) (h_pend_start h) v (h_tx_tmp h) (h_tx_len h) (h_pq h) (h_rx_tmp h) (h_rx_map h) (h_sent h) (h_events h) (h_check h).
Definition set_h_tx_tmp v h := mkH (h_in_sess h) (h_in_conn h) (h_ack_final h) (h_ack_inter h) (h_modulate h) (h_tx_map h) (h_pend_start h) (h_pend_ack h) v (h_tx_len h) (h_pq h) (h_rx_tmp h) (h_rx_map h) (h_sent h) (h_events h) (h_check h).
Definition set_h_tx_len v h := mkH (h_in_sess h) (h_in_conn h) (h_ack_final h) (h_ack_inter h) (h_modulate h) (h_tx_map h) (h_pend_start h) (h_pend_ack h) (h_tx_tmp h) v (h_pq h) (h_rx_tmp h) (h_rx_map h) (h_sent h) (h_events h) (h_check h).
Definition set_h_pq v h := mkH (h_in_sess h) (h_in_conn h) (h_ack_final h) (h_ack_inter h) (h_modulate h) (h_tx_map h) (h_pend_start h) (h_pend_ack h) (h_tx_tmp h) (h_tx_len h) v (h_rx_tmp h) (h_rx_map h) (h_sent h) (h_events h) (h_check h).
Definition set_h_rx_tmp v h := mkH (h_in_sess h) (h_in_conn h) (h_ack_final h) (h_ack_inter h) (h_modulate h) (h_tx_map h) (h_pend_start h) (h_pend_ack h) (h_tx_tmp h) (h_tx_len h) (h_pq h) v (h_rx_map h) (h_sent h) (h_events h) (h_check h).
Definition set_h_rx_map v h := mkH (h_in_sess h) (h_in_conn h) (h_ack_final h) (h_ack_inter h) (h_modulate h) (h_tx_map h) (h_pend_start h) (h_pend_ack h) (h_tx_tmp h) (h_tx_len h) (h_pq h) (h_rx_tmp h) v (h_sent h) (h_events h) (h_check h).
Definition set_h_check v h := mkH (h_in_sess h) (h_in_conn h) (h_ack_final h) (h_ack_inter h) (h_modulate h) (h_tx_map h) (h_pend_start h) (h_pend_ack h) (h_tx_tmp h) (h_tx_len h) (h_pq h) (h_rx_tmp h) (h_rx_map h) (h_sent h) (h_events h) v.
Definition h_emit (e : event) h := mkH (h_in_sess h) (h_in_conn h) (h_ack_final h) (h_ack_inter h) (h_modulate h) (h_tx_map h) (h_pend_start h) (h_pend_ack h) (h_tx_tmp h) (h_tx_len h) (h_pq h) (h_rx_tmp h) (h_rx_map h) (h_sent h) (h_events h ++ [e]) (h_check h).
Definition h_send (m : msg) h := mkH (h_in_sess h) (h_in_conn h) (h_ack_final h) (h_ack_inter h) (h_modulate h) (h_tx_map h) (h_pend_start h) (h_pend_ack h) (h_tx_tmp h) (h_tx_len h) (h_pq h) (h_rx_tmp h) (h_rx_map h) (h_sent h ++ [m]) (h_events h) (h_check h).

(** Python expressions on items and collections. *)
Definition is_none {A} (o : option A) : bool := match o with None => true | Some _ => false end.
(** [item.ack_length] of the item fetched from the map. *)
Definition item_ack (o : option N) : N := match o with Some a => a | None => 0 end.
(** [x or 0] for an optional integer. *)
Definition opt_or0 (o : option N) : N := match o with Some x => x | None => 0 end.
(** [item in self._tx_pend_start]. *)
Definition pend_has (id : N) (l : list (N * option N)) : bool := existsb (fun it => fst it =? id) l.
(** [self._tx_tmp.transfer_id == id] (false when _tx_tmp is None). *)
Definition tmp_is (id : N) (o : option N) : bool := match o with Some c => c =? id | None => false end.
(** [self._rx_tmp.transfer_id], [self._rx_tmp.transfer_id == id], [self._rx_tmp.file.tell()],
    [self._rx_tmp.file.write(data)] with [n = len(data)]. *)
Definition rx_id (o : option (N * N)) : N := match o with Some (i, _) => i | None => 0 end.
Definition rx_is (id : N) (o : option (N * N)) : bool := match o with Some (c, _) => c =? id | None => false end.
Definition rx_len (o : option (N * N)) : N := match o with Some (_, l) => l | None => 0 end.
Definition rx_write (n : N) (o : option (N * N)) : option (N * N) :=
  match o with Some (i, l) => Some (i, l + n) | None => None end.

(** The endpoint model's state as a handler state.  The model runs with both
    acknowledgement switches on and the segment-size controller off. *)
Definition habs (s : ep) : hst :=
  mkH (in_sess s) (in_conn s) true true false
      (tx_map s) (map (fun it => (fst it, @None N)) (pend_start s)) (pend_ack s)
      (match tx_tmp s with Some (i, _) => Some i | None => None end)
      (tx_len s) (pq_set s)
      (match rx_tmp s with Some (i, a) => Some (i, N.of_nat (length a)) | None => None end)
      (map (fun it => (fst it, N.of_nat (length (snd it)))) (rx_map s))
      [] [] false.

(** Outcome of a handler as the generated code reports it: None = handled,
    Some r = RejectError with reason r. *)
Definition outcome_code (o : outcome) : option N :=
  match o with Done => None | Reject r => Some r | Escaped k => Some (1000 + k) end.

(** ** Control decisions translated from the code (Gen/TcpclControl.v) *)

(** What the entry guards of ContactHandler._process_queue decide, before any
    segment is produced: return (the value tells glib whether to keep the idle
    source), start the transfer at the head of the queue and go on to its
    first segment, or go on with the transfer in progress. *)
Inductive pq_dec := PqReturn (keep : bool) | PqStart | PqContinue.

(** What Messenger._idle_timeout does: close the connection, send SESS_TERM
    with the given reason and reply flag, or nothing. *)
Inductive idle_dec := IdleClose | IdleTerm (reason : N) (reply : bool) | IdleNothing.

(** What ContactHandler.terminate does. *)
Inductive term_dec := TermClose | TermSend (reason : N) (reply : bool) | TermNothing.
