(** Tie between the endpoint model's handling of XFER_ACK, XFER_REFUSE and
    SESS_TERM ([handle_msg] in Model/TcpclSess.v) and the functions that
    translate/targets/tcpclhandlers.py regenerates from
    ContactHandler.recv_xfer_ack / recv_xfer_refuse / recv_sess_term of
    tcpcl/session.py on every run (Gen/TcpclHandlers.v): for EVERY endpoint
    state, the abstraction of the model's result is the generated function's
    result on the abstraction of the state -- outcome, every field of the
    abstract handler state, and the D-Bus signals emitted.  If a guard, a
    collection update or a signal of the code changes, the regenerated
    definitions change and these lemmas stop checking. *)
From Coq Require Import ZArith NArith List Bool Lia ZifyBool ZifyN ZifyNat Arith.
From RecordUpdate Require Import RecordSet.
From DTN Require Import Lib.Bytes Model.TcpclMsg Model.TcpclSess Model.TcpclHandlerSt Gen.TcpclHandlers
  Proofs.TcpclSessBasics Proofs.TcpclSentProofs1.
Import ListNotations RecordSetNotations.
Local Open Scope N_scope.

Ltac h_cbn := cbn [h_in_sess h_in_conn h_ack_final h_ack_inter h_modulate h_tx_map h_pend_start h_pend_ack
  h_tx_tmp h_tx_len h_pq h_events h_check set_h_tx_map set_h_pend_start set_h_pend_ack set_h_tx_tmp set_h_tx_len
  set_h_pq set_h_check h_emit habs is_none item_ack tmp_is outcome_code gen_tx_teardown fst snd app negb andb orb].
Ltac hp_norm := h_cbn; p_norm; h_cbn.
Ltac hp_split := repeat (hp_norm; first [known_step | case_step]); hp_norm.
(** A close decided by _check_sess_term happens on an idle endpoint: the queue of
    unstarted transfers is empty there, so the report-on-close loop adds nothing. *)
Ltac idle_facts :=
  repeat match goal with E : _ && _ = true |- _ =>
           let a := fresh "Ei" in let b := fresh "Ei" in apply andb_true_iff in E; destruct E as [a b] end;
  repeat match goal with E : is_nil ?l = true |- _ => let El := fresh "El" in destruct l eqn:El; [|discriminate E]; clear E end.
Ltac close_norm :=
  unfold close_txmap, close_pend, close_trace; hp_split; idle_facts;
  cbn [flush_map fold_left flush_events map app].
Ltac hh_unfold :=
  c_handle_msg; c_send_sess_term;
  unfold check_sess_term, is_sess_idle, raise, ok, send_msg; opq.
Definition pabs (l : list (N * bytes)) : list (N * option N) := map (fun it => (fst it, @None N)) l.

Lemma pabs_dict_del k l : dict_del k (pabs l) = pabs (dict_del k l).
Proof.
  induction l as [|[k' v] l IH]; [reflexivity|]. cbn [pabs map fst dict_del]. fold (pabs l).
  destruct (k' =? k); [reflexivity|]. cbn [map fst]. fold (pabs (dict_del k l)). rewrite IH. reflexivity.
Qed.

Lemma pabs_absent k l : pend_has k (pabs l) = false -> dict_del k l = l.
Proof.
  induction l as [|[k' v] l IH]; [reflexivity|]. cbn [pabs map fst pend_has existsb dict_del]. fold (pabs l).
  destruct (k' =? k); cbn [orb]; [discriminate|]. intros H. fold (pend_has k (pabs l)) in H. rewrite IH by exact H. reflexivity.
Qed.

Lemma dict_del_absent {V} k (d : list (N * V)) : dict_get k d = None -> dict_del k d = d.
Proof.
  induction d as [|[k' v] d IH]; [reflexivity|]. cbn [dict_get dict_del].
  destruct (k' =? k); [discriminate|]. intros H. rewrite IH by exact H. reflexivity.
Qed.

Ltac tie_leaf := try reflexivity; try congruence;
  try (match goal with E : dict_get _ _ = None |- _ => rewrite (dict_del_absent _ _ E); reflexivity end).


(** ** XFER_ACK *)
Section Ack.
  Variables (s : ep) (fl xid len : N).
  Let g := gen_recv_xfer_ack xid fl len (habs s).
  Let r := handle_msg (MXferAck fl xid len) s.

  Lemma ack_outcome : snd g = outcome_code (snd r).
  Proof. subst g r. unfold gen_recv_xfer_ack, is_none, item_ack, tmp_is. hh_unfold. hp_split; close_norm; tie_leaf. Qed.
  Lemma ack_tx_map : h_tx_map (fst g) = tx_map (fst r).
  Proof. subst g r. unfold gen_recv_xfer_ack, is_none, item_ack, tmp_is. hh_unfold. hp_split; close_norm; tie_leaf. Qed.
  Lemma ack_pend_ack : h_pend_ack (fst g) = pend_ack (fst r).
  Proof. subst g r. unfold gen_recv_xfer_ack, is_none, item_ack, tmp_is. hh_unfold. hp_split; close_norm; tie_leaf. Qed.
  Lemma ack_pend_start : h_pend_start (fst g) = pabs (pend_start (fst r)).
  Proof. subst g r. unfold gen_recv_xfer_ack, pabs, is_none, item_ack, tmp_is. hh_unfold. hp_split; close_norm; tie_leaf. Qed.
  Lemma ack_flags : h_in_sess (fst g) = in_sess (fst r) /\ h_in_conn (fst g) = in_conn (fst r)
    /\ h_tx_len (fst g) = tx_len (fst r) /\ h_pq (fst g) = pq_set (fst r).
  Proof. subst g r. unfold gen_recv_xfer_ack, is_none, item_ack, tmp_is. hh_unfold. hp_split; close_norm; repeat split; tie_leaf. Qed.
  Lemma ack_tx_tmp : h_tx_tmp (fst g) = h_tx_tmp (habs (fst r)).
  Proof. subst g r. unfold gen_recv_xfer_ack, is_none, item_ack, tmp_is. hh_unfold. hp_split; close_norm; tie_leaf. Qed.
  Lemma ack_events : exists tail, trace (fst r) = trace s ++ h_events (fst g) ++ tail
    /\ (tail = [] \/ (tail = [EClosed] /\ h_check (fst g) = true)).
  Proof.
    subst g r. unfold gen_recv_xfer_ack, is_none, item_ack, tmp_is. hh_unfold. hp_split; close_norm;
      first [ exists []; rewrite ?app_nil_r, <- ?app_assoc; split; [reflexivity|left; reflexivity]
            | exists [EClosed]; rewrite ?app_nil_r, <- ?app_assoc; split; [reflexivity|right; split; reflexivity] ].
  Qed.
  Lemma ack_closed : h_check (fst g) = false -> closed (fst r) = closed s.
  Proof. subst g r. unfold gen_recv_xfer_ack, is_none, item_ack, tmp_is. hh_unfold. hp_split; close_norm; intros H; tie_leaf. Qed.
End Ack.

(** ** XFER_REFUSE *)
Ltac pabs_leaf :=
  repeat match goal with
         | |- context [map (fun it : N * bytes => (fst it, @None N)) ?l] =>
             change (map (fun it : N * bytes => (fst it, @None N)) l) with (pabs l)
         end;
  rewrite ?pabs_dict_del; try reflexivity;
  try (match goal with E : pend_has _ _ = false |- _ => rewrite (pabs_absent _ _ E); reflexivity end);
  try congruence;
  try (match goal with E : pend_has _ _ = false, El : dict_del _ ?l = [] |- _ =>
         rewrite (pabs_absent _ _ E) in El; rewrite El; reflexivity end).

Section Refuse.
  Variables (s : ep) (reason xid : N).
  Let g := gen_recv_xfer_refuse xid reason (habs s).
  Let r := handle_msg (MXferRefuse reason xid) s.
  Ltac ref_start := subst g r; unfold gen_recv_xfer_refuse, is_none, item_ack, tmp_is; hh_unfold.

  Lemma refuse_outcome : snd g = outcome_code (snd r).
  Proof. ref_start. hp_split; close_norm; tie_leaf. Qed.
  Lemma refuse_tx_map : h_tx_map (fst g) = tx_map (fst r).
  Proof. ref_start. hp_split; close_norm; tie_leaf. Qed.
  Lemma refuse_pend_ack : h_pend_ack (fst g) = pend_ack (fst r).
  Proof. ref_start. hp_split; close_norm; tie_leaf. Qed.
  Lemma refuse_pend_start : h_pend_start (fst g) = pabs (pend_start (fst r)).
  Proof. ref_start. hp_split; close_norm; pabs_leaf. Qed.
  Lemma refuse_flags : h_in_sess (fst g) = in_sess (fst r) /\ h_in_conn (fst g) = in_conn (fst r)
    /\ h_tx_len (fst g) = tx_len (fst r) /\ h_pq (fst g) = pq_set (fst r).
  Proof. ref_start. hp_split; close_norm; repeat split; tie_leaf. Qed.
  Lemma refuse_tx_tmp : h_tx_tmp (fst g) = h_tx_tmp (habs (fst r)).
  Proof. ref_start. hp_split; close_norm; tie_leaf. Qed.
  Lemma refuse_events : exists tail, trace (fst r) = trace s ++ h_events (fst g) ++ tail
    /\ (tail = [] \/ (tail = [EClosed] /\ h_check (fst g) = true)).
  Proof.
    ref_start. hp_split; close_norm;
      first [ exists []; rewrite ?app_nil_r, <- ?app_assoc; split; [reflexivity|left; reflexivity]
            | exists [EClosed]; rewrite ?app_nil_r, <- ?app_assoc; split; [reflexivity|right; split; reflexivity] ].
  Qed.
  Lemma refuse_closed : h_check (fst g) = false -> closed (fst r) = closed s.
  Proof. ref_start. hp_split; close_norm; intros H; tie_leaf. Qed.
End Refuse.

(** ** SESS_TERM *)
Lemma term_fold reason : forall l h,
  let h' := fold_left (fun h it => gen_recv_sess_term_item reason it h) (pabs l) h in
  h_tx_map h' = flush_map l (h_tx_map h) /\ h_events h' = h_events h ++ flush_events l
  /\ h_in_sess h' = h_in_sess h /\ h_in_conn h' = h_in_conn h /\ h_pend_start h' = h_pend_start h
  /\ h_pend_ack h' = h_pend_ack h /\ h_tx_tmp h' = h_tx_tmp h /\ h_tx_len h' = h_tx_len h
  /\ h_pq h' = h_pq h /\ h_check h' = h_check h.
Proof.
  induction l as [|it l IH]; intros h; cbn [pabs map fold_left flush_map flush_events].
  - rewrite app_nil_r. repeat split; reflexivity.
  - fold (pabs l). destruct (IH (gen_recv_sess_term_item reason (fst it, None) h)) as (A1&A2&A3&A4&A5&A6&A7&A8&A9&A10).
    cbv zeta in *. rewrite A1, A2, A3, A4, A5, A6, A7, A8, A9, A10.
    unfold gen_recv_sess_term_item. h_cbn. cbn [opt_or0]. rewrite <- app_assoc. repeat split; reflexivity.
Qed.

Section Term.
  Variables (s : ep) (fl reason : N).
  Let g := gen_recv_sess_term reason (habs s).
  Let r := handle_msg (MSessTerm fl reason) s.
  Ltac term_start :=
    subst g r; unfold gen_recv_sess_term; hh_unfold; h_cbn;
    destruct (in_sess s) eqn:Es; h_cbn;
    [ destruct (term_fold reason (pend_start s) (set_h_pend_start [] (habs s))) as (A1&A2&A3&A4&A5&A6&A7&A8&A9&A10);
      cbv zeta in *; fold (pabs (pend_start s)) | ].

  Lemma term_outcome : snd g = outcome_code (snd r).
  Proof. term_start; hp_split; close_norm; tie_leaf. Qed.
  Lemma term_tx_map : h_tx_map (fst g) = tx_map (fst r).
  Proof. term_start; [rewrite ?A1|]; hp_split; close_norm; tie_leaf. Qed.
  Lemma term_pend_start : h_pend_start (fst g) = pabs (pend_start (fst r)).
  Proof. term_start; [rewrite ?A5|]; unfold pabs; hp_split; close_norm; tie_leaf. Qed.
  Lemma term_pend_ack : h_pend_ack (fst g) = pend_ack (fst r).
  Proof. term_start; [rewrite ?A6|]; hp_split; close_norm; tie_leaf. Qed.
  Lemma term_flags : h_in_sess (fst g) = in_sess (fst r) /\ h_in_conn (fst g) = in_conn (fst r)
    /\ h_tx_len (fst g) = tx_len (fst r) /\ h_pq (fst g) = pq_set (fst r).
  Proof. term_start; [rewrite ?A3, ?A4, ?A8, ?A9|]; hp_split; close_norm; repeat split; tie_leaf. Qed.
  Lemma term_tx_tmp : h_tx_tmp (fst g) = h_tx_tmp (habs (fst r)).
  Proof. term_start; [rewrite ?A7|]; hp_split; close_norm; tie_leaf. Qed.
  Lemma term_events : exists t1 tail, trace (fst r) = trace s ++ t1 ++ h_events (fst g) ++ tail
    /\ (t1 = [] \/ t1 = [ESig SigState [PStr ST_ENDING]])
    /\ (tail = [] \/ (tail = [EClosed] /\ h_check (fst g) = true)).
  Proof.
    term_start; [rewrite ?A2, ?A10|]; hp_split; unfold state_trace; close_norm;
      first [ exists [], []; cbn [app]; rewrite ?app_nil_r, <- ?app_assoc; split; [reflexivity|]; split; [left; reflexivity|left; reflexivity]
            | exists [], [EClosed]; cbn [app]; rewrite ?app_nil_r, <- ?app_assoc; split; [reflexivity|]; split; [left; reflexivity|right; split; reflexivity]
            | exists [ESig SigState [PStr ST_ENDING]], []; cbn [app]; rewrite ?app_nil_r, <- ?app_assoc; split; [reflexivity|]; split; [right; reflexivity|left; reflexivity]
            | exists [ESig SigState [PStr ST_ENDING]], [EClosed]; cbn [app]; rewrite ?app_nil_r, <- ?app_assoc; split; [reflexivity|]; split; [right; reflexivity|right; split; reflexivity] ].
  Qed.
  Lemma term_closed : h_check (fst g) = false -> closed (fst r) = closed s.
  Proof. term_start; [rewrite ?A10|]; hp_split; close_norm; intros H; tie_leaf. Qed.
End Term.

(** ** The three ties, field by field *)

Theorem tie_xfer_ack s fl xid len :
  let g := gen_recv_xfer_ack xid fl len (habs s) in
  let r := handle_msg (MXferAck fl xid len) s in
  snd g = outcome_code (snd r)
  /\ h_in_sess (fst g) = in_sess (fst r) /\ h_in_conn (fst g) = in_conn (fst r)
  /\ h_tx_map (fst g) = tx_map (fst r)
  /\ h_pend_start (fst g) = map (fun it => (fst it, None)) (pend_start (fst r))
  /\ h_pend_ack (fst g) = pend_ack (fst r)
  /\ h_tx_tmp (fst g) = match tx_tmp (fst r) with Some (i, _) => Some i | None => None end
  /\ h_tx_len (fst g) = tx_len (fst r) /\ h_pq (fst g) = pq_set (fst r)
  /\ (exists tail, trace (fst r) = trace s ++ h_events (fst g) ++ tail
                   /\ (tail = [] \/ (tail = [EClosed] /\ h_check (fst g) = true)))
  /\ (h_check (fst g) = false -> closed (fst r) = closed s).
Proof.
  cbv zeta. destruct (ack_flags s fl xid len) as (F1&F2&F3&F4).
  split; [apply ack_outcome|]. split; [exact F1|]. split; [exact F2|]. split; [apply ack_tx_map|].
  split; [apply ack_pend_start|]. split; [apply ack_pend_ack|]. split; [apply ack_tx_tmp|].
  split; [exact F3|]. split; [exact F4|]. split; [apply ack_events|apply ack_closed].
Qed.

Theorem tie_xfer_refuse s reason xid :
  let g := gen_recv_xfer_refuse xid reason (habs s) in
  let r := handle_msg (MXferRefuse reason xid) s in
  snd g = outcome_code (snd r)
  /\ h_in_sess (fst g) = in_sess (fst r) /\ h_in_conn (fst g) = in_conn (fst r)
  /\ h_tx_map (fst g) = tx_map (fst r)
  /\ h_pend_start (fst g) = map (fun it => (fst it, None)) (pend_start (fst r))
  /\ h_pend_ack (fst g) = pend_ack (fst r)
  /\ h_tx_tmp (fst g) = match tx_tmp (fst r) with Some (i, _) => Some i | None => None end
  /\ h_tx_len (fst g) = tx_len (fst r) /\ h_pq (fst g) = pq_set (fst r)
  /\ (exists tail, trace (fst r) = trace s ++ h_events (fst g) ++ tail
                   /\ (tail = [] \/ (tail = [EClosed] /\ h_check (fst g) = true)))
  /\ (h_check (fst g) = false -> closed (fst r) = closed s).
Proof.
  cbv zeta. destruct (refuse_flags s reason xid) as (F1&F2&F3&F4).
  split; [apply refuse_outcome|]. split; [exact F1|]. split; [exact F2|]. split; [apply refuse_tx_map|].
  split; [apply refuse_pend_start|]. split; [apply refuse_pend_ack|]. split; [apply refuse_tx_tmp|].
  split; [exact F3|]. split; [exact F4|]. split; [apply refuse_events|apply refuse_closed].
Qed.

Theorem tie_sess_term s fl reason :
  let g := gen_recv_sess_term reason (habs s) in
  let r := handle_msg (MSessTerm fl reason) s in
  snd g = outcome_code (snd r)
  /\ h_in_sess (fst g) = in_sess (fst r) /\ h_in_conn (fst g) = in_conn (fst r)
  /\ h_tx_map (fst g) = tx_map (fst r)
  /\ h_pend_start (fst g) = map (fun it => (fst it, None)) (pend_start (fst r))
  /\ h_pend_ack (fst g) = pend_ack (fst r)
  /\ h_tx_tmp (fst g) = match tx_tmp (fst r) with Some (i, _) => Some i | None => None end
  /\ h_tx_len (fst g) = tx_len (fst r) /\ h_pq (fst g) = pq_set (fst r)
  /\ (exists t1 tail, trace (fst r) = trace s ++ t1 ++ h_events (fst g) ++ tail
                      /\ (t1 = [] \/ t1 = [ESig SigState [PStr ST_ENDING]])
                      /\ (tail = [] \/ (tail = [EClosed] /\ h_check (fst g) = true)))
  /\ (h_check (fst g) = false -> closed (fst r) = closed s).
Proof.
  cbv zeta. destruct (term_flags s fl reason) as (F1&F2&F3&F4).
  split; [apply term_outcome|]. split; [exact F1|]. split; [exact F2|]. split; [apply term_tx_map|].
  split; [apply term_pend_start|]. split; [apply term_pend_ack|]. split; [apply term_tx_tmp|].
  split; [exact F3|]. split; [exact F4|]. split; [apply term_events|apply term_closed].
Qed.
