(* C09 -- session termination (safety clauses).

   Model: Model/TcpclSess.v.  All theorems hold for every configuration and
   every operation list (arbitrary received octets included).

   C09_one_term          at most one SESS_TERM is ever sent, and [in_term] says
                         whether one was;
   C09_term_flags        in one operation: a SESS_TERM sent while handling
                         received data carries the REPLY flag (flags = 1); one
                         sent by terminate() (OTerm r) has flags 0 and reason r;
                         one sent by the idle timeout has flags 0 and reason 1;
                         no other operation sends one;
   C09_no_new_transfer_partial / _refuted
                         no START segment follows the SESS_TERM -- FALSE
                         unconditionally (segment size 0: the code repeats empty
                         START segments for ever), proved when the segment size
                         in use is positive, which follows from
                         1 <= segment_size_tx_initial and every handled SESS_INIT
                         announcing a segment MRU >= 1 and an ASCII node id
                         (C09_no_new_transfer_inputs; see C04.v);
   C09_unstarted_reported when a SESS_TERM is handled in session, the queue of
                         not-yet-started transfers is emptied and each of them
                         gets SigSendFinished [id; 0; "terminating"];
   C09_send_refused_when_terminating  on an open endpoint that is terminating,
                         send_bundle_data raises (RuntimeError to the caller)
                         and changes nothing else: nothing is queued, so nothing
                         can be left unreported;
   C09_no_queue_growth_when_terminating  once terminating, no operation makes
                         the queue of unstarted transfers longer;
   C09_close_reports_unstarted  a close that takes effect (close(), terminate()
                         before the session exists, end of stream, send error,
                         bad contact header, _check_sess_term) empties the queue
                         of unstarted transfers, removes them from the transmit
                         map and emits SigSendFinished [id; 0; "session
                         terminating"] for each, before the socket-closed event;
   C09_closed_nothing_unstarted_unreported  in every reachable closed state that
                         queue is empty and every id returned by send_bundle_data
                         has a SigSendFinished or is in the transmit map (started);
   C09_closed_is_final   once the socket is closed, no operation changes
                         anything but the clock.

   C09_queued_never_dropped  after any run, every transfer id returned by
                         send_bundle_data is still in the transmit map (queued,
                         in progress or awaiting its final acknowledgement) or a
                         SigSendFinished signal was emitted for it. *)
From Coq Require Import List NArith Bool.
From RecordUpdate Require Import RecordSet.
Import ListNotations RecordSetNotations.
From DTN Require Import Lib.Bytes Model.TcpclMsg Model.TcpclSess Proofs.TcpclSessBasics Proofs.TcpclSentProofs.
Local Open Scope N_scope.

Theorem C09_one_term : forall (c : cfg) (ops : list op),
  let s := run c ops in
  (length (filter (fun f => match f with FMsg (MSessTerm _ _) => true | _ => false end) (sent s)) <= 1)%nat
  /\ (in_term s = true <-> exists fl r, In (FMsg (MSessTerm fl r)) (sent s)).
Proof. exact sess_term_once. Qed.
Print Assumptions C09_one_term.

Theorem C09_term_flags : forall (s : ep) (o : op),
  exists suf, sent (step s o) = sent s ++ suf
  /\ Forall (fun f => match f with
                      | FMsg (MSessTerm fl r) =>
                          match o with
                          | ORx _ => fl = 1
                          | OTerm r' => fl = 0 /\ r = r'
                          | OFireIdle => fl = 0 /\ r = 1
                          | _ => False
                          end
                      | _ => True
                      end) suf.
Proof. exact term_flags. Qed.
Print Assumptions C09_term_flags.

Theorem C09_no_new_transfer_partial : forall (c : cfg) (ops : list op),
  (forall k, let s := run c (firstn k ops) in in_sess s = true -> 0 < seg_size s) ->
  forall pre fl r post, sent (run c ops) = pre ++ FMsg (MSessTerm fl r) :: post ->
  Forall (fun f => match f with FMsg (MXferSeg flags _ _ _) => has_start flags = false | _ => True end) post.
Proof. exact no_start_after_term_partial. Qed.
Print Assumptions C09_no_new_transfer_partial.

Theorem C09_no_new_transfer_inputs : forall (c : cfg) (ops : list op),
  0 < c_seg_init c ->
  Forall (fun f => match f with FMsg (MSessInit _ smru _ nid _) => 0 < smru /\ ascii nid = true | _ => True end)
         (handled (run c ops)) ->
  forall pre fl r post, sent (run c ops) = pre ++ FMsg (MSessTerm fl r) :: post ->
  Forall (fun f => match f with FMsg (MXferSeg flags _ _ _) => has_start flags = false | _ => True end) post.
Proof. exact no_start_after_term_inputs. Qed.
Print Assumptions C09_no_new_transfer_inputs.

Theorem C09_no_new_transfer_refuted :
  exists c ops pre fl r post, sent (run c ops) = pre ++ FMsg (MSessTerm fl r) :: post
    /\ ~ Forall (fun f => match f with FMsg (MXferSeg flags _ _ _) => has_start flags = false | _ => True end) post.
Proof. exact no_start_after_term_refuted. Qed.
Print Assumptions C09_no_new_transfer_refuted.

Theorem C09_unstarted_reported : forall (fl r : N) (s : ep), in_sess s = true ->
  let s' := fst (handle_msg (MSessTerm fl r) s) in
  pend_start s' = []
  /\ exists t1 t2, trace s' = trace s ++ t1
        ++ map (fun it => ESig SigSendFinished [PStrNum (fst it); PInt 0; PStr RES_TERMINATING]) (pend_start s)
        ++ t2.
Proof. exact unstarted_reported. Qed.
Print Assumptions C09_unstarted_reported.

Theorem C09_queued_never_dropped : forall (c : cfg) (ops : list op),
  let s := run c ops in
  forall id, In (ERet 1 (PStrNum id)) (trace s) ->
    In id (map fst (tx_map s)) \/ exists args, In (ESig SigSendFinished (PStrNum id :: args)) (trace s).
Proof. exact queued_never_dropped. Qed.
Print Assumptions C09_queued_never_dropped.

Theorem C09_send_refused_when_terminating : forall (s : ep) (data : bytes),
  closed s = false -> in_term s = true ->
  step s (OSend data) = emit (EExc EX_RUNTIME) s.
Proof. intros s data. exact (send_refused data s). Qed.
Print Assumptions C09_send_refused_when_terminating.

Theorem C09_no_queue_growth_when_terminating : forall (s : ep) (o : op), in_term s = true ->
  (length (pend_start (step s o)) <= length (pend_start s))%nat.
Proof. exact pend_start_never_grows_when_terminating. Qed.
Print Assumptions C09_no_queue_growth_when_terminating.

Theorem C09_close_reports_unstarted : forall s : ep, closed s = false ->
  pend_start (do_close s) = []
  /\ tx_map (do_close s) = fold_left (fun m it => dict_del (fst it) m) (pend_start s) (tx_map s)
  /\ trace (do_close s)
     = trace s ++ map (fun it => ESig SigSendFinished [PStrNum (fst it); PInt 0; PStr RES_TERMINATING]) (pend_start s)
               ++ [EClosed]
  /\ closed (do_close s) = true.
Proof. exact close_reports_unstarted. Qed.
Print Assumptions C09_close_reports_unstarted.

Theorem C09_closed_nothing_unstarted_unreported : forall (c : cfg) (ops : list op),
  let s := run c ops in
  closed s = true ->
  pend_start s = []
  /\ forall id, In (ERet 1 (PStrNum id)) (trace s) ->
       (exists args, In (ESig SigSendFinished (PStrNum id :: args)) (trace s))
       \/ (In id (map fst (tx_map s)) /\ ~ In id (map fst (pend_start s))).
Proof. exact closed_nothing_unstarted_unreported. Qed.
Print Assumptions C09_closed_nothing_unstarted_unreported.

Theorem C09_closed_is_final : forall (s : ep) (o : op), closed s = true ->
  step s o = match o with OAdvance dt => s <| now := now s + dt |> | _ => s end.
Proof. exact step_closed. Qed.
Print Assumptions C09_closed_is_final.

(* Non-vacuity: a reachable open, terminating state in which a send is refused. *)
Example C09_example_refused :
  let s := run (mkCfg false [100] 30 60 1000 500 None)
               [OStart; ORx (encode_frame (FContact (mkContact MAGIC 4 0)));
                ORx (encode_frame (FMsg (MSessInit 30 100 1000 [100] []))); OSend [1;2;3]; OTerm 0] in
  closed s = false /\ in_term s = true /\ pend_start (step s (OSend [4])) = pend_start s
  /\ tx_map (step s (OSend [4])) = tx_map s.
Proof. vm_compute. repeat split; reflexivity. Qed.

(* Non-vacuity: closing with a queued, unstarted bundle (before the session
   exists) reports it. *)
Example C09_example_close_reports :
  let s := run (mkCfg false [100] 30 60 1000 500 None) [OStart; OSend [1;2;3]; OClose] in
  closed s = true /\ pend_start s = []
  /\ In (ESig SigSendFinished [PStrNum 1; PInt 0; PStr RES_TERMINATING]) (trace s).
Proof. vm_compute. repeat split; auto. Qed.

(* Non-vacuity: a reachable closed state; a reachable state in session with a
   queued transfer that handles a SESS_TERM. *)
Example C09_example_closed :
  closed (run (mkCfg false [100] 30 60 1000 500 None) [OStart; OClose]) = true.
Proof. reflexivity. Qed.

Example C09_example_unstarted :
  let s := run (mkCfg false [100] 30 60 1000 500 None)
               [OStart; ORx (encode_frame (FContact (mkContact MAGIC 4 0)));
                ORx (encode_frame (FMsg (MSessInit 30 100 1000 [100] []))); OSend [1;2;3]] in
  in_sess s = true /\ length (pend_start s) = 1%nat.
Proof. vm_compute. split; reflexivity. Qed.
