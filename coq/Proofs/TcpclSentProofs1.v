(** TCPCL endpoint model: proof engine for statements about [step]/[run].
    Compact record setters, canonical forms of the branching helpers,
    kernel-opaque copies of the constructor-headed helpers, the projection-led
    normalisation tactics, and the generic receive-loop induction. *)
From Coq Require Import ZArith NArith List Bool Lia ZifyBool ZifyN ZifyNat Arith.
From RecordUpdate Require Import RecordSet.
From DTN Require Import Lib.Bytes Model.TcpclMsg Model.TcpclSess Proofs.TcpclSessBasics.
Import ListNotations RecordSetNotations.
Ltac Zify.zify_post_hook ::= Z.div_mod_to_equations.
Local Open Scope N_scope.

(** * Compact setters: the record updates of the model, folded *)
Definition setter_cf : Setter cf := _.
Definition setter_now : Setter now := _.
Definition setter_closed : Setter closed := _.
Definition setter_rx_alive : Setter rx_alive := _.
Definition setter_conn_tx : Setter conn_tx := _.
Definition setter_io_set : Setter io_set := _.
Definition setter_pend_set : Setter pend_set := _.
Definition setter_n_io : Setter n_io := _.
Definition setter_n_idle : Setter n_idle := _.
Definition setter_state : Setter state := _.
Definition setter_in_conn : Setter in_conn := _.
Definition setter_in_sess : Setter in_sess := _.
Definition setter_in_term : Setter in_term := _.
Definition setter_conhead_this : Setter conhead_this := _.
Definition setter_conhead_peer : Setter conhead_peer := _.
Definition setter_sessinit_this : Setter sessinit_this := _.
Definition setter_sessinit_peer : Setter sessinit_peer := _.
Definition setter_rx_buf : Setter rx_buf := _.
Definition setter_msg_tx : Setter msg_tx := _.
Definition setter_keepalive_time : Setter keepalive_time := _.
Definition setter_idle_time : Setter idle_time := _.
Definition setter_ka_due : Setter ka_due := _.
Definition setter_idle_due : Setter idle_due := _.
Definition setter_seg_size : Setter seg_size := _.
Definition setter_next_id : Setter next_id := _.
Definition setter_pend_start : Setter pend_start := _.
Definition setter_pend_ack : Setter pend_ack := _.
Definition setter_tx_map : Setter tx_map := _.
Definition setter_tx_tmp : Setter tx_tmp := _.
Definition setter_tx_len : Setter tx_len := _.
Definition setter_pq_set : Setter pq_set := _.
Definition setter_n_pq : Setter n_pq := _.
Definition setter_rx_tmp : Setter rx_tmp := _.
Definition setter_rx_map : Setter rx_map := _.
Definition setter_sent : Setter sent := _.
Definition setter_handled : Setter handled := _.
Definition setter_t_send : Setter t_send := _.
Definition setter_t_recv : Setter t_recv := _.
Definition setter_wire : Setter wire := _.
Definition setter_trace : Setter trace := _.
#[export] Existing Instances setter_cf setter_now setter_closed setter_rx_alive setter_conn_tx setter_io_set setter_pend_set setter_n_io setter_n_idle setter_state setter_in_conn setter_in_sess setter_in_term setter_conhead_this setter_conhead_peer setter_sessinit_this setter_sessinit_peer setter_rx_buf setter_msg_tx setter_keepalive_time setter_idle_time setter_ka_due setter_idle_due setter_seg_size setter_next_id setter_pend_start setter_pend_ack setter_tx_map setter_tx_tmp setter_tx_len setter_pq_set setter_n_pq setter_rx_tmp setter_rx_map setter_sent setter_handled setter_t_send setter_t_recv setter_wire setter_trace | 0.
Ltac fold_setters := fold setter_cf setter_now setter_closed setter_rx_alive setter_conn_tx setter_io_set setter_pend_set setter_n_io setter_n_idle setter_state setter_in_conn setter_in_sess setter_in_term setter_conhead_this setter_conhead_peer setter_sessinit_this setter_sessinit_peer setter_rx_buf setter_msg_tx setter_keepalive_time setter_idle_time setter_ka_due setter_idle_due setter_seg_size setter_next_id setter_pend_start setter_pend_ack setter_tx_map setter_tx_tmp setter_tx_len setter_pq_set setter_n_pq setter_rx_tmp setter_rx_map setter_sent setter_handled setter_t_send setter_t_recv setter_wire setter_trace.
Ltac fold_setters_in H := fold setter_cf setter_now setter_closed setter_rx_alive setter_conn_tx setter_io_set setter_pend_set setter_n_io setter_n_idle setter_state setter_in_conn setter_in_sess setter_in_term setter_conhead_this setter_conhead_peer setter_sessinit_this setter_sessinit_peer setter_rx_buf setter_msg_tx setter_keepalive_time setter_idle_time setter_ka_due setter_idle_due setter_seg_size setter_next_id setter_pend_start setter_pend_ack setter_tx_map setter_tx_tmp setter_tx_len setter_pq_set setter_n_pq setter_rx_tmp setter_rx_map setter_sent setter_handled setter_t_send setter_t_recv setter_wire setter_trace in H.
Ltac ep_cbn := cbn [cf now closed rx_alive conn_tx io_set pend_set n_io n_idle state in_conn in_sess in_term conhead_this conhead_peer sessinit_this sessinit_peer rx_buf msg_tx keepalive_time idle_time ka_due idle_due seg_size next_id pend_start pend_ack tx_map tx_tmp tx_len pq_set n_pq rx_tmp rx_map sent handled t_send t_recv wire trace setter_cf setter_now setter_closed setter_rx_alive setter_conn_tx setter_io_set setter_pend_set setter_n_io setter_n_idle setter_state setter_in_conn setter_in_sess setter_in_term setter_conhead_this setter_conhead_peer setter_sessinit_this setter_sessinit_peer setter_rx_buf setter_msg_tx setter_keepalive_time setter_idle_time setter_ka_due setter_idle_due setter_seg_size setter_next_id setter_pend_start setter_pend_ack setter_tx_map setter_tx_tmp setter_tx_len setter_pq_set setter_n_pq setter_rx_tmp setter_rx_map setter_sent setter_handled setter_t_send setter_t_recv setter_wire setter_trace set fst snd emit negb andb orb si_keepalive si_seg_mru si_xfer_mru si_nodeid].
Ltac ep_cbn_in H := cbn [cf now closed rx_alive conn_tx io_set pend_set n_io n_idle state in_conn in_sess in_term conhead_this conhead_peer sessinit_this sessinit_peer rx_buf msg_tx keepalive_time idle_time ka_due idle_due seg_size next_id pend_start pend_ack tx_map tx_tmp tx_len pq_set n_pq rx_tmp rx_map sent handled t_send t_recv wire trace setter_cf setter_now setter_closed setter_rx_alive setter_conn_tx setter_io_set setter_pend_set setter_n_io setter_n_idle setter_state setter_in_conn setter_in_sess setter_in_term setter_conhead_this setter_conhead_peer setter_sessinit_this setter_sessinit_peer setter_rx_buf setter_msg_tx setter_keepalive_time setter_idle_time setter_ka_due setter_idle_due setter_seg_size setter_next_id setter_pend_start setter_pend_ack setter_tx_map setter_tx_tmp setter_tx_len setter_pq_set setter_n_pq setter_rx_tmp setter_rx_map setter_sent setter_handled setter_t_send setter_t_recv setter_wire setter_trace set fst snd emit negb andb orb si_keepalive si_seg_mru si_xfer_mru si_nodeid] in H.

Definition send_sess_term_c := ltac:(let t := eval cbv delta [send_sess_term] in send_sess_term in let t := eval fold setter_cf setter_now setter_closed setter_rx_alive setter_conn_tx setter_io_set setter_pend_set setter_n_io setter_n_idle setter_state setter_in_conn setter_in_sess setter_in_term setter_conhead_this setter_conhead_peer setter_sessinit_this setter_sessinit_peer setter_rx_buf setter_msg_tx setter_keepalive_time setter_idle_time setter_ka_due setter_idle_due setter_seg_size setter_next_id setter_pend_start setter_pend_ack setter_tx_map setter_tx_tmp setter_tx_len setter_pq_set setter_n_pq setter_rx_tmp setter_rx_map setter_sent setter_handled setter_t_send setter_t_recv setter_wire setter_trace in t in exact t).
Lemma send_sess_term_c_eq : send_sess_term = send_sess_term_c.
Proof. reflexivity. Qed.
Ltac c_send_sess_term := change send_sess_term with send_sess_term_c; unfold send_sess_term_c.
Definition send_next_c := ltac:(let t := eval cbv delta [send_next] in send_next in let t := eval fold setter_cf setter_now setter_closed setter_rx_alive setter_conn_tx setter_io_set setter_pend_set setter_n_io setter_n_idle setter_state setter_in_conn setter_in_sess setter_in_term setter_conhead_this setter_conhead_peer setter_sessinit_this setter_sessinit_peer setter_rx_buf setter_msg_tx setter_keepalive_time setter_idle_time setter_ka_due setter_idle_due setter_seg_size setter_next_id setter_pend_start setter_pend_ack setter_tx_map setter_tx_tmp setter_tx_len setter_pq_set setter_n_pq setter_rx_tmp setter_rx_map setter_sent setter_handled setter_t_send setter_t_recv setter_wire setter_trace in t in exact t).
Lemma send_next_c_eq : send_next = send_next_c.
Proof. reflexivity. Qed.
Ltac c_send_next := change send_next with send_next_c; unfold send_next_c.
Definition process_queue_c := ltac:(let t := eval cbv delta [process_queue] in process_queue in let t := eval fold setter_cf setter_now setter_closed setter_rx_alive setter_conn_tx setter_io_set setter_pend_set setter_n_io setter_n_idle setter_state setter_in_conn setter_in_sess setter_in_term setter_conhead_this setter_conhead_peer setter_sessinit_this setter_sessinit_peer setter_rx_buf setter_msg_tx setter_keepalive_time setter_idle_time setter_ka_due setter_idle_due setter_seg_size setter_next_id setter_pend_start setter_pend_ack setter_tx_map setter_tx_tmp setter_tx_len setter_pq_set setter_n_pq setter_rx_tmp setter_rx_map setter_sent setter_handled setter_t_send setter_t_recv setter_wire setter_trace in t in exact t).
Lemma process_queue_c_eq : process_queue = process_queue_c.
Proof. reflexivity. Qed.
Ltac c_process_queue := change process_queue with process_queue_c; unfold process_queue_c.
Definition merge_session_params_c := ltac:(let t := eval cbv delta [merge_session_params] in merge_session_params in let t := eval fold setter_cf setter_now setter_closed setter_rx_alive setter_conn_tx setter_io_set setter_pend_set setter_n_io setter_n_idle setter_state setter_in_conn setter_in_sess setter_in_term setter_conhead_this setter_conhead_peer setter_sessinit_this setter_sessinit_peer setter_rx_buf setter_msg_tx setter_keepalive_time setter_idle_time setter_ka_due setter_idle_due setter_seg_size setter_next_id setter_pend_start setter_pend_ack setter_tx_map setter_tx_tmp setter_tx_len setter_pq_set setter_n_pq setter_rx_tmp setter_rx_map setter_sent setter_handled setter_t_send setter_t_recv setter_wire setter_trace in t in exact t).
Lemma merge_session_params_c_eq : merge_session_params = merge_session_params_c.
Proof. reflexivity. Qed.
Ltac c_merge_session_params := change merge_session_params with merge_session_params_c; unfold merge_session_params_c.
Definition handle_msg_c := ltac:(let t := eval cbv delta [handle_msg] in handle_msg in let t := eval fold setter_cf setter_now setter_closed setter_rx_alive setter_conn_tx setter_io_set setter_pend_set setter_n_io setter_n_idle setter_state setter_in_conn setter_in_sess setter_in_term setter_conhead_this setter_conhead_peer setter_sessinit_this setter_sessinit_peer setter_rx_buf setter_msg_tx setter_keepalive_time setter_idle_time setter_ka_due setter_idle_due setter_seg_size setter_next_id setter_pend_start setter_pend_ack setter_tx_map setter_tx_tmp setter_tx_len setter_pq_set setter_n_pq setter_rx_tmp setter_rx_map setter_sent setter_handled setter_t_send setter_t_recv setter_wire setter_trace in t in exact t).
Lemma handle_msg_c_eq : handle_msg = handle_msg_c.
Proof. reflexivity. Qed.
Ltac c_handle_msg := change handle_msg with handle_msg_c; unfold handle_msg_c.
Definition recv_frame_c := ltac:(let t := eval cbv delta [recv_frame] in recv_frame in let t := eval fold setter_cf setter_now setter_closed setter_rx_alive setter_conn_tx setter_io_set setter_pend_set setter_n_io setter_n_idle setter_state setter_in_conn setter_in_sess setter_in_term setter_conhead_this setter_conhead_peer setter_sessinit_this setter_sessinit_peer setter_rx_buf setter_msg_tx setter_keepalive_time setter_idle_time setter_ka_due setter_idle_due setter_seg_size setter_next_id setter_pend_start setter_pend_ack setter_tx_map setter_tx_tmp setter_tx_len setter_pq_set setter_n_pq setter_rx_tmp setter_rx_map setter_sent setter_handled setter_t_send setter_t_recv setter_wire setter_trace in t in exact t).
Lemma recv_frame_c_eq : recv_frame = recv_frame_c.
Proof. reflexivity. Qed.
Ltac c_recv_frame := change recv_frame with recv_frame_c; unfold recv_frame_c.
Definition recv_raw_c := ltac:(let t := eval cbv delta [recv_raw] in recv_raw in let t := eval fold setter_cf setter_now setter_closed setter_rx_alive setter_conn_tx setter_io_set setter_pend_set setter_n_io setter_n_idle setter_state setter_in_conn setter_in_sess setter_in_term setter_conhead_this setter_conhead_peer setter_sessinit_this setter_sessinit_peer setter_rx_buf setter_msg_tx setter_keepalive_time setter_idle_time setter_ka_due setter_idle_due setter_seg_size setter_next_id setter_pend_start setter_pend_ack setter_tx_map setter_tx_tmp setter_tx_len setter_pq_set setter_n_pq setter_rx_tmp setter_rx_map setter_sent setter_handled setter_t_send setter_t_recv setter_wire setter_trace in t in exact t).
Lemma recv_raw_c_eq : recv_raw = recv_raw_c.
Proof. reflexivity. Qed.
Ltac c_recv_raw := change recv_raw with recv_raw_c; unfold recv_raw_c.
Definition tx_proxy_c := ltac:(let t := eval cbv delta [tx_proxy] in tx_proxy in let t := eval fold setter_cf setter_now setter_closed setter_rx_alive setter_conn_tx setter_io_set setter_pend_set setter_n_io setter_n_idle setter_state setter_in_conn setter_in_sess setter_in_term setter_conhead_this setter_conhead_peer setter_sessinit_this setter_sessinit_peer setter_rx_buf setter_msg_tx setter_keepalive_time setter_idle_time setter_ka_due setter_idle_due setter_seg_size setter_next_id setter_pend_start setter_pend_ack setter_tx_map setter_tx_tmp setter_tx_len setter_pq_set setter_n_pq setter_rx_tmp setter_rx_map setter_sent setter_handled setter_t_send setter_t_recv setter_wire setter_trace in t in exact t).
Lemma tx_proxy_c_eq : tx_proxy = tx_proxy_c.
Proof. reflexivity. Qed.
Ltac c_tx_proxy := change tx_proxy with tx_proxy_c; unfold tx_proxy_c.
Definition step_c := ltac:(let t := eval cbv delta [step] in step in let t := eval fold setter_cf setter_now setter_closed setter_rx_alive setter_conn_tx setter_io_set setter_pend_set setter_n_io setter_n_idle setter_state setter_in_conn setter_in_sess setter_in_term setter_conhead_this setter_conhead_peer setter_sessinit_this setter_sessinit_peer setter_rx_buf setter_msg_tx setter_keepalive_time setter_idle_time setter_ka_due setter_idle_due setter_seg_size setter_next_id setter_pend_start setter_pend_ack setter_tx_map setter_tx_tmp setter_tx_len setter_pq_set setter_n_pq setter_rx_tmp setter_rx_map setter_sent setter_handled setter_t_send setter_t_recv setter_wire setter_trace in t in exact t).
Lemma step_c_eq : step = step_c.
Proof. reflexivity. Qed.
Ltac c_step := change step with step_c; unfold step_c.

Lemma ep_eta (s : ep) : s = mkEp (cf s) (now s) (closed s) (rx_alive s) (conn_tx s) (io_set s) (pend_set s)
  (n_io s) (n_idle s) (state s) (in_conn s) (in_sess s) (in_term s) (conhead_this s) (conhead_peer s)
  (sessinit_this s) (sessinit_peer s) (rx_buf s) (msg_tx s) (keepalive_time s) (idle_time s) (ka_due s)
  (idle_due s) (seg_size s) (next_id s) (pend_start s) (pend_ack s) (tx_map s) (tx_tmp s) (tx_len s)
  (pq_set s) (n_pq s) (rx_tmp s) (rx_map s) (sent s) (handled s) (t_send s) (t_recv s) (wire s) (trace s).
Proof. destruct s; reflexivity. Qed.

(** Canonical straight-line forms of the helpers that branch; the field values
    are named so that no [if] is visible before a leaf unfolds them. *)
Definition ka_next (s : ep) : option N :=
  if 0 <? keepalive_time s then Some (now s + keepalive_time s * 1000) else None.
Definition idle_next (s : ep) : option N :=
  if 0 <? idle_time s then Some (now s + idle_time s * 1000) else None.
Definition nio_ready (s : ep) : nat := if io_set s then n_io s else S (n_io s).
Definition nidle_ready (s : ep) : nat := if pend_set s then n_idle s else S (n_idle s).
Definition npq_trig (s : ep) : nat := if pq_set s then n_pq s else S (n_pq s).
Definition state_trace (st : N) (s : ep) : list event :=
  if state s =? st then trace s else trace s ++ [ESig SigState [PStr st]].
Definition close_io (s : ep) : bool := if closed s then io_set s else false.
Definition close_nio (s : ep) : nat := if closed s then n_io s else if io_set s then pred (n_io s) else n_io s.
Definition flush_map (its : list (N * bytes)) (m : list (N * N)) : list (N * N) :=
  fold_left (fun m it => dict_del (fst it) m) its m.
Definition flush_events (its : list (N * bytes)) : list event :=
  map (fun it => ESig SigSendFinished [PStrNum (fst it); PInt 0; PStr RES_TERMINATING]) its.
(** A close that takes effect first reports the transfers never started. *)
Definition close_trace (s : ep) : list event :=
  if closed s then trace s else trace s ++ flush_events (pend_start s) ++ [EClosed].
Definition close_pend (s : ep) : list (N * bytes) := if closed s then pend_start s else [].
Definition close_txmap (s : ep) : list (N * N) :=
  if closed s then tx_map s else flush_map (pend_start s) (tx_map s).
Definition sbd_pq (n : N) (s : ep) : bool := if n <? 5 * seg_size s then true else pq_set s.
Definition sbd_npq (n : N) (s : ep) : nat := if n <? 5 * seg_size s then npq_trig s else n_pq s.

Lemma ka_reset_eq s : ka_reset s = s <| ka_due := ka_next s |>.
Proof. reflexivity. Qed.
Lemma idle_reset_eq s : idle_reset s = s <| idle_due := idle_next s |>.
Proof. reflexivity. Qed.

Lemma set_state_eq st s : set_state st s = s <| state := st |> <| trace := state_trace st s |>.
Proof.
  unfold set_state, emit, state_trace. destruct (N.eqb_spec (state s) st) as [E|E]; [|reflexivity].
  destruct s; cbn in *; subst; reflexivity.
Qed.

Lemma send_ready_eq s : send_ready s =
  s <| io_set := true |> <| n_io := nio_ready s |> <| pend_set := true |> <| n_idle := nidle_ready s |>.
Proof. unfold send_ready, nio_ready, nidle_ready. destruct s; cbn. destruct io_set, pend_set; reflexivity. Qed.

Lemma pq_trigger_eq s : pq_trigger s = s <| pq_set := true |> <| n_pq := npq_trig s |>.
Proof. unfold pq_trigger, npq_trig. destruct s; cbn. destruct pq_set; reflexivity. Qed.

Lemma send_buffer_decreased_eq n s : send_buffer_decreased n s =
  s <| pq_set := sbd_pq n s |> <| n_pq := sbd_npq n s |>.
Proof.
  unfold send_buffer_decreased, sbd_pq, sbd_npq. destruct (n <? 5 * seg_size s); [apply pq_trigger_eq|].
  destruct s; reflexivity.
Qed.

Lemma flush_fold : forall its s,
  fold_left (fun s it =>
               emit (ESig SigSendFinished [PStrNum (fst it); PInt 0; PStr RES_TERMINATING])
                    (s <| tx_map := dict_del (fst it) (tx_map s) |>)) its s
  = s <| tx_map := flush_map its (tx_map s) |> <| trace := trace s ++ flush_events its |>.
Proof.
  induction its as [|it its IH]; intros s; cbn [fold_left flush_map flush_events map].
  - rewrite app_nil_r. destruct s; reflexivity.
  - rewrite IH. unfold emit. ep_cbn. rewrite <- app_assoc. reflexivity.
Qed.

Lemma flush_pend_start_eq s : flush_pend_start s =
  s <| pend_start := [] |> <| tx_map := flush_map (pend_start s) (tx_map s) |>
    <| trace := trace s ++ flush_events (pend_start s) |>.
Proof. unfold flush_pend_start. rewrite flush_fold. reflexivity. Qed.

Lemma do_close_eq s : do_close s =
  s <| ka_due := None |> <| idle_due := None |> <| closed := true |>
    <| io_set := close_io s |> <| n_io := close_nio s |>
    <| pend_start := close_pend s |> <| tx_map := close_txmap s |> <| trace := close_trace s |>.
Proof.
  unfold do_close, close_io, close_nio, close_trace, close_pend, close_txmap. ep_cbn.
  destruct (closed s) eqn:Ec.
  - destruct s; cbn in *; subst; reflexivity.
  - rewrite flush_pend_start_eq. unfold emit. ep_cbn. destruct (io_set s) eqn:Ei; ep_cbn;
      destruct s; cbn in *; subst; rewrite <- ?app_assoc; reflexivity.
Qed.

Lemma send_frame_eq f s : send_frame f s =
  s <| msg_tx := msg_tx s ++ encode_frame f |> <| sent := sent s ++ [f] |> <| t_send := now s |>
    <| io_set := true |> <| n_io := nio_ready s |> <| pend_set := true |> <| n_idle := nidle_ready s |>
    <| ka_due := ka_next s |> <| idle_due := idle_next s |>.
Proof. unfold send_frame. rewrite send_ready_eq. reflexivity. Qed.

(** Kernel-opaque copies of the helpers whose head-normal form is a record
    constructor.  Conversion compares the arguments of a projection before
    unfolding it, and comparing two different chains of record updates takes
    time exponential in their depth; with these copies every chain ends in a
    term the kernel cannot reduce, so such comparisons fail at once. *)
Definition opq_sig : { t : (frame -> ep -> ep) * (ep -> ep) * (ep -> ep)
                     | t = (send_frame, ka_reset, idle_reset) }.
Proof. eexists. reflexivity. Qed.
Definition send_frame' : frame -> ep -> ep := fst (fst (proj1_sig opq_sig)).
Definition ka_reset' : ep -> ep := snd (fst (proj1_sig opq_sig)).
Definition idle_reset' : ep -> ep := snd (proj1_sig opq_sig).
Lemma send_frame'_eq : send_frame = send_frame'.
Proof. unfold send_frame'. destruct opq_sig as [t E]. cbn [proj1_sig]. rewrite E. reflexivity. Qed.
Lemma ka_reset'_eq : ka_reset = ka_reset'.
Proof. unfold ka_reset'. destruct opq_sig as [t E]. cbn [proj1_sig]. rewrite E. reflexivity. Qed.
Lemma idle_reset'_eq : idle_reset = idle_reset'.
Proof. unfold idle_reset'. destruct opq_sig as [t E]. cbn [proj1_sig]. rewrite E. reflexivity. Qed.

Lemma send_frame'_canon f s : send_frame' f s =
  s <| msg_tx := msg_tx s ++ encode_frame f |> <| sent := sent s ++ [f] |> <| t_send := now s |>
    <| io_set := true |> <| n_io := nio_ready s |> <| pend_set := true |> <| n_idle := nidle_ready s |>
    <| ka_due := ka_next s |> <| idle_due := idle_next s |>.
Proof. rewrite <- send_frame'_eq. apply send_frame_eq. Qed.
Lemma ka_reset'_canon s : ka_reset' s = s <| ka_due := ka_next s |>.
Proof. rewrite <- ka_reset'_eq. reflexivity. Qed.
Lemma idle_reset'_canon s : idle_reset' s = s <| idle_due := idle_next s |>.
Proof. rewrite <- idle_reset'_eq. reflexivity. Qed.

(** Replace the transparent helpers by the opaque copies (also under binders). *)
Ltac opq := rewrite ?send_frame'_eq, ?ka_reset'_eq, ?idle_reset'_eq.

Lemma send_msg_eq m s : send_msg m s = send_frame (FMsg m) s.
Proof. reflexivity. Qed.

Definition sess_init_msg (c : cfg) : msg :=
  MSessInit (c_keepalive c) (c_seg_mru c) (2^64 - 1) (c_nodeid c) [].

Lemma send_sess_init_eq s : send_sess_init s =
  (send_frame (FMsg (sess_init_msg (cf s))) s) <| sessinit_this := Some (my_sessinit s) |>.
Proof. reflexivity. Qed.


Lemma emit_eq e s : emit e s = s <| trace := trace s ++ [e] |>.
Proof. reflexivity. Qed.

(** Projection-led normalisation: every state occurs under a projection;
    helpers are brought to canonical form one at a time and [cbn] pushes the
    projections down to the next irreducible state. *)
Ltac ep_rw :=
  first [ rewrite send_frame'_canon | rewrite ka_reset'_canon | rewrite idle_reset'_canon
        | rewrite do_close_eq | rewrite set_state_eq | rewrite pq_trigger_eq
        | rewrite flush_pend_start_eq | rewrite send_buffer_decreased_eq | rewrite send_ready_eq ].
Ltac p_norm := ep_cbn; repeat (ep_rw; ep_cbn).

(** Case analysis on the innermost [if]/[match] scrutinee of the goal. *)
Ltac known_step :=
  match goal with
  | H : ?c = ?v |- context [if ?c then _ else _] => rewrite H
  | H : ?c = ?v |- context [match ?c with _ => _ end] => rewrite H
  end.

Ltac case_step :=
  match goal with
  | |- context [if ?c then _ else _] =>
      lazymatch c with
      | context [if _ then _ else _] => fail
      | context [match _ with _ => _ end] => fail
      | _ => let E := fresh "E" in destruct c eqn:E;
             try (lazymatch type of E with
                  | negb _ = true => apply (proj1 (negb_true_iff _)) in E
                  | negb _ = false => apply (proj1 (negb_false_iff _)) in E
                  end)
      end
  | |- context [match ?c with _ => _ end] =>
      lazymatch c with
      | context [if _ then _ else _] => fail
      | context [match _ with _ => _ end] => fail
      | _ => let E := fresh "E" in destruct c eqn:E
      end
  end.

Ltac p_split := repeat (p_norm; first [known_step | case_step]); p_norm.

(** * Generic plumbing *)

Lemma parse_kind b buf fr rest : parse_frame b buf = Some (fr, rest) ->
  match fr with FContact _ => b = false | FMsg _ => b = true end.
Proof.
  unfold parse_frame. destruct b.
  - destruct (parse_msg buf) as [[m r]|]; intros H; inversion H; reflexivity.
  - destruct (parse_contact buf) as [[c r]|]; intros H; inversion H; reflexivity.
Qed.

(** Any property preserved by handling one parsed frame is preserved by the
    receive loop. *)
Lemma recv_loop_inv (P : ep -> Prop) :
  (forall s fr rest, P s -> closed s = false ->
      parse_frame (in_conn s) (rx_buf s) = Some (fr, rest) ->
      P (fst (recv_frame fr (s <| rx_buf := rest |> <| handled := handled s ++ [fr] |>)))) ->
  forall fuel s, P s -> P (fst (recv_loop fuel s)).
Proof.
  intros Hf fuel. induction fuel as [|fuel IH]; intros s Hs; cbn [recv_loop]; [exact Hs|].
  destruct (is_nil (rx_buf s) || closed s) eqn:E0; [exact Hs|].
  apply orb_false_iff in E0. destruct E0 as [_ Ec].
  destruct (parse_frame (in_conn s) (rx_buf s)) as [[fr rest]|] eqn:Ep; [|exact Hs].
  specialize (Hf s fr rest Hs Ec Ep).
  destruct (recv_frame fr (s <| rx_buf := rest |> <| handled := handled s ++ [fr] |>)) as [s' [k|]] eqn:Er;
    cbn [fst] in *; [exact Hf|]. apply IH, Hf.
Qed.

Lemma recv_raw_inv (P : ep -> Prop) :
  (forall s fr rest, P s -> closed s = false ->
      parse_frame (in_conn s) (rx_buf s) = Some (fr, rest) ->
      P (fst (recv_frame fr (s <| rx_buf := rest |> <| handled := handled s ++ [fr] |>)))) ->
  (forall s b i t, P s -> P (s <| t_recv := t |> <| idle_due := i |> <| rx_buf := b |>)) ->
  forall data s, P s -> P (fst (recv_raw data s)).
Proof.
  intros Hf Hu data s Hs. unfold recv_raw. apply recv_loop_inv; [exact Hf|].
  rewrite idle_reset_eq. apply Hu, Hs.
Qed.
