(* C04 -- the frames an endpoint sends follow the RFC 9174 grammar.

   Model: Model/TcpclSess.v (ep, step, run); [sent s] is the sequence of
   frames given to Messenger.send_message, [handled s] the frames given to
   recv_message, [wire s], [conn_tx s], [msg_tx s] the octets written to the
   socket / buffered in the two transmit buffers.  All theorems hold for EVERY
   configuration and EVERY operation list (every schedule of the event loop,
   chunking of reads, back-pressure pattern of writes, user call position, and
   ARBITRARY received octets) unless a hypothesis says otherwise.

   Group 1
     C04_sent_accounting   the octets written or buffered are exactly the
                           encodings of the frames of [sent s], in order;
     C04_step_mono         [sent], [wire], [trace], [handled] only grow.
   Group 2
     (2a) C04_contact_first / C04_contact_first_map  exactly one contact header, first;
     (2b) C04_sess_term_once   at most one SESS_TERM; [in_term] iff one was sent;
     (2c) no START segment after SESS_TERM.  The FULL-STRENGTH statement
            sent s = pre ++ FMsg (MSessTerm fl r) :: post -> no START segment in post
          is FALSE for the model as for the code: C04_no_start_after_term_refuted
          (segment size 0 -- peer announces segment MRU 0, or
          segment_size_tx_initial = 0, or the merge of the session settings fails
          after _in_sess was set: every _process_queue pass sends another START
          segment with no data and never advances, also after SESS_TERM;
          file.read(0) returns b'').  Proved: C04_no_start_after_term_partial,
          under the hypothesis that the segment size in use is positive in every
          state of the run in which the session is established; and
          C04_no_start_after_term_inputs, the same under hypotheses on the inputs
          only: 1 <= segment_size_tx_initial, and every SESS_INIT handled announces a
          segment MRU >= 1 and a decodable (ASCII) node id -- these imply the guard
          (C04_pos_seg_from_inputs).  A peer announcing segment MRU 0 makes data
          transfer impossible for any implementation, and a SESS_INIT whose node id
          is not valid UTF-8 is not a well-formed message, so this is an input guard;
     (2d) C04_sess_init_active   an active endpoint sends at most one SESS_INIT,
          and it is its second frame, whatever the peer does;
          C04_sess_init_passive  a passive endpoint sends exactly one SESS_INIT per
          SESS_INIT handled, and its first message is SESS_INIT if the first
          message it handled is;
     (2e) the grammar [legal] / [legal_prefix] (Proofs/TcpclSentProofs11.v: contact
          header; SESS_INIT; then XFER_SEGMENT / XFER_ACK / XFER_REFUSE /
          KEEPALIVE / MSG_REJECT, at most one SESS_TERM, no START segment after
          it; and every prefix thereof, C04_legal_prefix_spec).
          C04_grammar_active_weak / C04_grammar_passive_weak / C04_pair_weak: the
          grammar without the START-after-SESS_TERM clause, unconditionally (for the
          passive side: for a cooperating peer, which an active endpoint is);
          C04_grammar_active_partial / C04_grammar_passive_partial / C04_pair_partial:
          the full grammar under the positive-segment-size hypothesis of (2c);
          C04_grammar_active_inputs / C04_grammar_passive_inputs: the same under the
          input hypotheses of (2c);
     (2f) C04_seg_within_mru  if at most one SESS_INIT was handled, every segment
          sent carries at most the announced segment MRU of data octets;
     (2g) C04_ack_echo  UNCONDITIONALLY the XFER_ACKs sent are exactly those owed
          for the handled frames ([ack_spec]: flags octet, transfer id and
          cumulative length of every acceptable segment, in order).
   Well-formedness and the closed channel property
     C04_sent_wf  every frame sent fits its field widths ([wf_frame]), provided the
          configuration does (keepalive < 2^16, segment MRU < 2^64, node id shorter
          than 2^16 octets), reads deliver octets, terminate() reasons are octets,
          bundles are octet strings shorter than 2^64, and fewer than 2^64
          operations are performed / octets received;
     C04_channel_closed  with C04_sent_accounting, C04_sent_wf and
          C04_contact_first_map the channel lemma of C07 needs only the network
          hypothesis: what B has handled is a prefix of what A has sent;
     C04_pair_closed  hence an active A and a passive B connected by such a network
          both send prefixes of legal sequences. *)
From Coq Require Import List NArith Bool.
Import ListNotations.
From DTN Require Import Lib.Bytes Model.TcpclMsg Model.TcpclSess Proofs.TcpclSentProofs Proofs.TcpclSentProofs16.
From DTN Require Proofs.TcpclChannelProofs.
Local Open Scope N_scope.

Theorem C04_sent_accounting : forall (c : cfg) (ops : list op),
  let s := run c ops in
  wire s ++ conn_tx s ++ msg_tx s = concat (map encode_frame (sent s)).
Proof. exact sent_accounting. Qed.
Print Assumptions C04_sent_accounting.

Theorem C04_step_mono : forall (s : ep) (o : op),
  (exists x, sent (step s o) = sent s ++ x) /\ (exists w, wire (step s o) = wire s ++ w)
  /\ (exists t, trace (step s o) = trace s ++ t) /\ (exists h, handled (step s o) = handled s ++ h).
Proof. exact step_mono. Qed.
Print Assumptions C04_step_mono.

Theorem C04_contact_first : forall (c : cfg) (ops : list op),
  let s := run c ops in
  sent s = [] \/ exists rest, sent s = FContact (mkContact MAGIC 4 0) :: rest
                               /\ Forall (fun f => exists m, f = FMsg m) rest.
Proof. exact contact_first. Qed.
Print Assumptions C04_contact_first.

(* The form consumed by the channel lemma of C07. *)
Theorem C04_contact_first_map : forall (c : cfg) (ops : list op),
  let s := run c ops in
  sent s = [] \/ exists h ms, sent s = FContact h :: map FMsg ms.
Proof. exact contact_first_map. Qed.
Print Assumptions C04_contact_first_map.

Theorem C04_sess_term_once : forall (c : cfg) (ops : list op),
  let s := run c ops in
  (length (filter (fun f => match f with FMsg (MSessTerm _ _) => true | _ => false end) (sent s)) <= 1)%nat
  /\ (in_term s = true <-> exists fl r, In (FMsg (MSessTerm fl r)) (sent s)).
Proof. exact sess_term_once. Qed.
Print Assumptions C04_sess_term_once.

Theorem C04_no_start_after_term_partial : forall (c : cfg) (ops : list op),
  (forall k, let s := run c (firstn k ops) in in_sess s = true -> 0 < seg_size s) ->
  forall pre fl r post, sent (run c ops) = pre ++ FMsg (MSessTerm fl r) :: post ->
  Forall (fun f => match f with FMsg (MXferSeg flags _ _ _) => has_start flags = false | _ => True end) post.
Proof. exact no_start_after_term_partial. Qed.
Print Assumptions C04_no_start_after_term_partial.

Theorem C04_no_start_after_term_refuted :
  exists c ops pre fl r post, sent (run c ops) = pre ++ FMsg (MSessTerm fl r) :: post
    /\ ~ Forall (fun f => match f with FMsg (MXferSeg flags _ _ _) => has_start flags = false | _ => True end) post.
Proof. exact no_start_after_term_refuted. Qed.
Print Assumptions C04_no_start_after_term_refuted.

Theorem C04_pos_seg_from_inputs : forall (c : cfg) (ops : list op),
  0 < c_seg_init c ->
  Forall (fun f => match f with FMsg (MSessInit _ smru _ nid _) => 0 < smru /\ ascii nid = true | _ => True end)
         (handled (run c ops)) ->
  forall k, let s := run c (firstn k ops) in in_sess s = true -> 0 < seg_size s.
Proof. exact pos_seg_from_inputs. Qed.
Print Assumptions C04_pos_seg_from_inputs.

Theorem C04_no_start_after_term_inputs : forall (c : cfg) (ops : list op),
  0 < c_seg_init c ->
  Forall (fun f => match f with FMsg (MSessInit _ smru _ nid _) => 0 < smru /\ ascii nid = true | _ => True end)
         (handled (run c ops)) ->
  forall pre fl r post, sent (run c ops) = pre ++ FMsg (MSessTerm fl r) :: post ->
  Forall (fun f => match f with FMsg (MXferSeg flags _ _ _) => has_start flags = false | _ => True end) post.
Proof. exact no_start_after_term_inputs. Qed.
Print Assumptions C04_no_start_after_term_inputs.

Theorem C04_grammar_active_inputs : forall (c : cfg) (ops : list op), c_passive c = false ->
  0 < c_seg_init c ->
  Forall (fun f => match f with FMsg (MSessInit _ smru _ nid _) => 0 < smru /\ ascii nid = true | _ => True end)
         (handled (run c ops)) ->
  legal_prefix (sent (run c ops)) = true.
Proof. exact C04_grammar_active_inputs. Qed.
Print Assumptions C04_grammar_active_inputs.

Theorem C04_grammar_passive_inputs : forall (c : cfg) (ops : list op), c_passive c = true ->
  peer_coop (handled (run c ops)) -> 0 < c_seg_init c ->
  Forall (fun f => match f with FMsg (MSessInit _ smru _ nid _) => 0 < smru /\ ascii nid = true | _ => True end)
         (handled (run c ops)) ->
  legal_prefix (sent (run c ops)) = true.
Proof. exact C04_grammar_passive_inputs. Qed.
Print Assumptions C04_grammar_passive_inputs.

Theorem C04_sess_init_active : forall (c : cfg) (ops : list op), c_passive c = false ->
  let s := run c ops in
  (length (filter (fun f => match f with FMsg (MSessInit _ _ _ _ _) => true | _ => false end) (sent s)) <= 1)%nat
  /\ (forall f1 f2 rest, sent s = f1 :: f2 :: rest ->
        exists ka mru xm nid ext, f2 = FMsg (MSessInit ka mru xm nid ext))
  /\ (forall f1 f2 rest, sent s = f1 :: f2 :: rest ->
        length (filter (fun f => match f with FMsg (MSessInit _ _ _ _ _) => true | _ => false end) rest) = 0%nat).
Proof. exact sess_init_active. Qed.
Print Assumptions C04_sess_init_active.

Theorem C04_sess_init_passive : forall (c : cfg) (ops : list op), c_passive c = true ->
  let s := run c ops in
  length (filter (fun f => match f with FMsg (MSessInit _ _ _ _ _) => true | _ => false end) (sent s))
  = length (filter (fun f => match f with FMsg (MSessInit _ _ _ _ _) => true | _ => false end) (handled s))
  /\ (forall c0 ka mru xm nid ext hs, handled s = c0 :: FMsg (MSessInit ka mru xm nid ext) :: hs ->
      exists f1 ka' mru' xm' nid' ext' rest, sent s = f1 :: FMsg (MSessInit ka' mru' xm' nid' ext') :: rest).
Proof. exact sess_init_passive. Qed.
Print Assumptions C04_sess_init_passive.

Theorem C04_legal_prefix_spec : forall (l : list frame),
  legal_prefix l = true <-> exists l', legal (l ++ l') = true.
Proof. exact (legal_prefix_spec true). Qed.
Print Assumptions C04_legal_prefix_spec.

Theorem C04_grammar_active_weak : forall (c : cfg) (ops : list op),
  c_passive c = false -> legal_prefix_weak (sent (run c ops)) = true.
Proof. exact C04_grammar_active_weak. Qed.
Print Assumptions C04_grammar_active_weak.

Theorem C04_grammar_active_partial : forall (c : cfg) (ops : list op),
  c_passive c = false ->
  (forall k, let s := run c (firstn k ops) in in_sess s = true -> 0 < seg_size s) ->
  legal_prefix (sent (run c ops)) = true.
Proof. exact C04_grammar_active_partial. Qed.
Print Assumptions C04_grammar_active_partial.

Theorem C04_grammar_passive_weak : forall (c : cfg) (ops : list op),
  c_passive c = true -> peer_coop (handled (run c ops)) ->
  legal_prefix_weak (sent (run c ops)) = true.
Proof. exact C04_grammar_passive_weak. Qed.
Print Assumptions C04_grammar_passive_weak.

Theorem C04_grammar_passive_partial : forall (c : cfg) (ops : list op),
  c_passive c = true -> peer_coop (handled (run c ops)) ->
  (forall k, let s := run c (firstn k ops) in in_sess s = true -> 0 < seg_size s) ->
  legal_prefix (sent (run c ops)) = true.
Proof. exact C04_grammar_passive_partial. Qed.
Print Assumptions C04_grammar_passive_partial.

Theorem C04_pair_weak : forall (cA : cfg) (opsA : list op) (cB : cfg) (opsB : list op),
  c_passive cA = false -> c_passive cB = true ->
  (exists more, sent (run cA opsA) = handled (run cB opsB) ++ more) ->
  legal_prefix_weak (sent (run cA opsA)) = true /\ legal_prefix_weak (sent (run cB opsB)) = true.
Proof. exact C04_pair_weak. Qed.
Print Assumptions C04_pair_weak.

Theorem C04_pair_partial : forall (cA : cfg) (opsA : list op) (cB : cfg) (opsB : list op),
  c_passive cA = false -> c_passive cB = true ->
  (exists more, sent (run cA opsA) = handled (run cB opsB) ++ more) ->
  (forall k, let s := run cA (firstn k opsA) in in_sess s = true -> 0 < seg_size s) ->
  (forall k, let s := run cB (firstn k opsB) in in_sess s = true -> 0 < seg_size s) ->
  legal_prefix (sent (run cA opsA)) = true /\ legal_prefix (sent (run cB opsB)) = true.
Proof. exact C04_pair_partial. Qed.
Print Assumptions C04_pair_partial.

Theorem C04_seg_within_mru : forall (c : cfg) (ops : list op),
  let s := run c ops in
  (length (filter (fun f => match f with FMsg (MSessInit _ _ _ _ _) => true | _ => false end) (handled s)) <= 1)%nat ->
  forall p, sessinit_peer s = Some p ->
  Forall (fun f => match f with FMsg (MXferSeg _ _ _ data) => N.of_nat (length data) <= si_seg_mru p | _ => True end)
         (sent s).
Proof. exact seg_within_mru. Qed.
Print Assumptions C04_seg_within_mru.

Theorem C04_ack_echo : forall (c : cfg) (ops : list op),
  let s := run c ops in
  filter (fun f => match f with FMsg (MXferAck _ _ _) => true | _ => false end) (sent s)
  = map FMsg (ack_spec (handled s)).
Proof. exact ack_echo. Qed.
Print Assumptions C04_ack_echo.

Theorem C04_sent_wf : forall (c : cfg) (ops : list op),
  (c_keepalive c < 65536 /\ c_seg_mru c < 2^64 /\ N.of_nat (length (c_nodeid c)) < 65536 /\ wf_bytes (c_nodeid c)) ->
  Forall (fun o => match o with
                   | ORx d => wf_bytes d
                   | OTerm r => r < 256
                   | OSend d => wf_bytes d /\ N.of_nat (length d) < 2^64
                   | _ => True
                   end) ops ->
  1 + N.of_nat (length ops) <= 2^64 -> N.of_nat (rx_total ops) < 2^64 ->
  Forall wf_frame (sent (run c ops)).
Proof. exact sent_wf. Qed.
Print Assumptions C04_sent_wf.

Theorem C04_channel_closed : forall (cA : cfg) (opsA : list op) (cB : cfg) (opsB : list op),
  (exists rest, wire (run cA opsA) = TcpclChannelProofs.received (init cB) opsB ++ rest) ->
  cfg_ok cA -> Forall op_ok opsA ->
  1 + N.of_nat (length opsA) <= 2^64 -> N.of_nat (rx_total opsA) < 2^64 ->
  exists more, sent (run cA opsA) = handled (run cB opsB) ++ more.
Proof. exact channel_closed. Qed.
Print Assumptions C04_channel_closed.

Theorem C04_pair_closed : forall (cA : cfg) (opsA : list op) (cB : cfg) (opsB : list op),
  c_passive cA = false -> c_passive cB = true ->
  (exists rest, wire (run cA opsA) = TcpclChannelProofs.received (init cB) opsB ++ rest) ->
  cfg_ok cA -> Forall op_ok opsA ->
  1 + N.of_nat (length opsA) <= 2^64 -> N.of_nat (rx_total opsA) < 2^64 ->
  legal_prefix_weak (sent (run cA opsA)) = true /\ legal_prefix_weak (sent (run cB opsB)) = true.
Proof. exact C04_pair_closed. Qed.
Print Assumptions C04_pair_closed.

(* ---- Non-vacuity ---- *)
Definition exA : cfg := mkCfg false [100] 30 60 1000 2 None.
Definition exB : cfg := mkCfg true [101] 30 60 1000 2 None.
Definition CHo : bytes := encode_frame (FContact (mkContact MAGIC 4 0)).
Definition exOpsA : list op :=
  [OStart; ORx CHo; ORx (encode_frame (FMsg (MSessInit 30 2 1000 [101] []))); OSend [1;2;3]; OPQ; OTerm 0;
   OSend [4]; OPQ; ORx (encode_frame (FMsg (MXferSeg 3 7 [] [9;9])))].
Definition exOpsB : list op :=
  [OStart; ORx CHo; ORx (encode_frame (FMsg (MSessInit 30 1000 18446744073709551615 [100] [])));
   ORx (encode_frame (FMsg (MXferSeg 2 1 [0; 0; 1; 0; 8; 0; 0; 0; 0; 0; 0; 0; 3] [1;2])))].

(* frames are sent and octets reach the wire *)
Example C04_example_run :
  let s := run exA [OStart; OTxPump true 100; ORx CHo; OTxPump true 100] in
  length (sent s) = 2%nat /\ wire s <> [].
Proof. vm_compute. split; [reflexivity | discriminate]. Qed.

(* the positive-segment-size hypothesis holds on a run that sends SESS_TERM with a
   transfer in progress, segments and an acknowledgement *)
Example C04_partial_nonvacuous :
  forallb (fun k => let s := run exA (firstn k exOpsA) in negb (in_sess s) || (0 <? seg_size s)) (seq 0 10) = true
  /\ existsb (fun f => match f with FMsg (MSessTerm _ _) => true | _ => false end) (sent (run exA exOpsA)) = true
  /\ existsb (fun f => match f with FMsg (MXferAck _ _ _) => true | _ => false end) (sent (run exA exOpsA)) = true
  /\ legal_prefix (sent (run exA exOpsA)) = true.
Proof. vm_compute. repeat split; reflexivity. Qed.

(* the input hypotheses hold on that run *)
Example C04_inputs_nonvacuous :
  0 < c_seg_init exA
  /\ forallb (fun f => match f with FMsg (MSessInit _ smru _ nid _) => (0 <? smru) && ascii nid | _ => true end)
             (handled (run exA exOpsA)) = true
  /\ length (handled (run exA exOpsA)) = 3%nat.
Proof. vm_compute. repeat split; reflexivity. Qed.

(* a passive endpoint with a cooperating peer: one SESS_INIT handled, one sent;
   the handled frames are a prefix of what the active endpoint exA sends *)
Example C04_passive_nonvacuous :
  c_passive exB = true
  /\ length (handled (run exB exOpsB)) = 3%nat
  /\ (exists more, sent (run exA exOpsA) = handled (run exB exOpsB) ++ more)
  /\ length (filter (fun f => match f with FMsg (MSessInit _ _ _ _ _) => true | _ => false end)
                    (handled (run exB exOpsB))) = 1%nat
  /\ sessinit_peer (run exB exOpsB) <> None.
Proof.
  vm_compute. repeat split; try reflexivity; try discriminate.
  eexists. reflexivity.
Qed.

(* the bounds hold for that configuration and operation list, and a network that
   has delivered the first six octets A wrote satisfies the network hypothesis *)
Example C04_bounds_nonvacuous :
  cfg_ok exA /\ Forall op_ok exOpsA
  /\ 1 + N.of_nat (length exOpsA) <= 2^64 /\ N.of_nat (rx_total exOpsA) < 2^64
  /\ (exists rest, wire (run exA [OStart; OTxPump true 100])
                   = TcpclChannelProofs.received (init exB) [OStart; ORx CHo] ++ rest).
Proof.
  split; [unfold cfg_ok; cbn; repeat split; try reflexivity; repeat constructor|].
  split; [repeat constructor|].
  split; [vm_compute; discriminate|]. split; [vm_compute; reflexivity|].
  exists []. vm_compute. reflexivity.
Qed.
