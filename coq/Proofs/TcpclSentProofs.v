(** TCPCL endpoint model: statements about the frames an endpoint sends
    (properties C04 and C09).  This file only gathers the parts. *)
From DTN Require Export Proofs.TcpclSentProofs1 Proofs.TcpclSentProofs2 Proofs.TcpclSentProofs3
  Proofs.TcpclSentProofs4 Proofs.TcpclSentProofs5 Proofs.TcpclSentProofs6 Proofs.TcpclSentProofs7
  Proofs.TcpclSentProofs8 Proofs.TcpclSentProofs9 Proofs.TcpclSentProofs10 Proofs.TcpclSentProofs11
  Proofs.TcpclSentProofs12 Proofs.TcpclSentProofs13 Proofs.TcpclSentProofs14 Proofs.TcpclSentProofs15 Proofs.TcpclSentProofs17 Proofs.TcpclSentProofs18.
