''' Translator target `tlspolicy`: regenerates coq/Gen/TlsPolicy.v from the
CURRENT src/tcpcl/session.py (and the CAN_TLS flag value of contact.py).

Translated fragments (property C15):

 (a) Messenger.merge_contact_params (both flag extractions and their
     combination)                      -> tls_attempt over the two flags octets
 (b) Messenger.recv_message, contact-header branch, everything after the call
     of merge_contact_params()         -> contact_outcome
 (c) the decision tail of match_id()   -> match_id   (3-valued)
 (d) Messenger.merge_session_params: derivation of peer_dnsid, the three
     match_id() calls, any_fail / netname_absent and the raise guard
                                        -> peer_dnsid, authn_results, authn_refuses

FAIL CLOSED: every statement and expression is matched against a whitelisted
shape; anything else raises TranslateError (py2coq.py then records the target
as failed and the C15 check treats the tie as broken).

Python semantics notes (stated once, relied upon below):

 * `x and y` / `x or y` return one of their operands, not a bool.  Every
   BoolOp translated here is consumed in a truthiness position (an `if` test,
   an operand of another and/or/not) -- the translator enforces this by only
   translating the named locals `any_fail`, `netname_absent` (each used only
   in the guard's test) and `self._tls_attempt`.  The latter is additionally
   compared with `!=` against an Optional[bool]: its operands are
   `flags & CAN_TLS`, i.e. 0 or CAN_TLS; the translator checks CAN_TLS == 1 in
   contact.py so the operand value is 0/1 and `v != b` is the same as
   `truth(v) != b` (0 == False, 1 == True in Python).
 * Truthiness per model type (every name used in a boolean context must have
   one of these types, anything else raises): bool -> itself; str references
   (peer_nodeid) -> non-empty (`id_truthy`, the empty string is identifier 0);
   Optional[str] (peer_dnsid) -> not None and non-empty (`optid_truthy`);
   ipaddress objects (peer_ipaddrid) define neither __bool__ nor __len__ and
   cannot be built from an empty string -> always true (the harness re-checks
   this at run time); list-or-None (cert_ids) -> non-empty (None and [] are
   both falsy, so None is modelled as []); a match_id() result -> matched AND
   its reference truthy (a matched result is the reference value itself).
 * `ref_id in cert_ids` with ref_id None is False for the value lists produced
   by cryptography (they never contain None).
 * `is None` / `is False` are identity tests: a match_id() result is Absent iff
   it `is None`, Mismatch iff it `is False`, anything else (the reference value
   itself, even an empty string) is Matched.
'''
import ast
import os


class TranslateError(Exception):
    pass


def _fail(node, msg):
    line = getattr(node, 'lineno', '?')
    raise TranslateError('session.py:%s: %s [%s]' % (line, msg, ast.dump(node)[:200] if isinstance(node, ast.AST) else node))


def dotted(node):
    ''' 'self._config.require_tls' for Name/Attribute chains, else None. '''
    parts = []
    while isinstance(node, ast.Attribute):
        parts.append(node.attr)
        node = node.value
    if isinstance(node, ast.Name):
        parts.append(node.id)
        return '.'.join(reversed(parts))
    return None


def is_const(node, value):
    return isinstance(node, ast.Constant) and node.value is value


def is_call(node, name, nargs=None):
    ''' node is Call of dotted function `name`. '''
    if not isinstance(node, ast.Call) or dotted(node.func) != name or node.keywords:
        return False
    return nargs is None or len(node.args) == nargs


def is_logging(stmt):
    if not isinstance(stmt, ast.Expr) or not isinstance(stmt.value, ast.Call):
        return False
    name = dotted(stmt.value.func) or ''
    return name.startswith('self._logger.') or name.startswith('logger.')


def has_node(stmt, kinds):
    return any(isinstance(sub, kinds) for sub in ast.walk(stmt))


def assigned_names(stmt):
    out = set()
    for sub in ast.walk(stmt):
        if isinstance(sub, (ast.Assign, ast.AugAssign, ast.AnnAssign)):
            targets = sub.targets if isinstance(sub, ast.Assign) else [sub.target]
            for tgt in targets:
                for leaf in ast.walk(tgt):
                    name = dotted(leaf)
                    if name:
                        out.add(name)
        elif isinstance(sub, (ast.For, ast.With, ast.NamedExpr, ast.ExceptHandler)):
            for leaf in ast.walk(sub):
                if isinstance(leaf, ast.Name) and isinstance(leaf.ctx, ast.Store):
                    out.add(leaf.id)
            if isinstance(sub, ast.ExceptHandler) and sub.name:
                out.add(sub.name)
    return out


def calls_of(node, name):
    return [sub for sub in ast.walk(node) if isinstance(sub, ast.Call) and dotted(sub.func) == name]


def single_assign(stmt, target):
    ''' stmt is `target = <value>` (one plain target); returns value. '''
    if not isinstance(stmt, ast.Assign) or len(stmt.targets) != 1 or dotted(stmt.targets[0]) != target:
        _fail(stmt, 'expected assignment to %s' % target)
    return stmt.value


# ------------------------------------------------------------------ expressions
class Expr(object):
    ''' Translates Python expressions used for their truth value into Coq
    boolean terms.  `env`: dotted name -> (coq term, type) with type one of
    bool | optbool | optid | id | obj | list | ('mres', <ast node of the reference passed to match_id>). '''

    def __init__(self, env, calls=None):
        self.env = env
        self.calls = calls or {}

    def lookup(self, node):
        if isinstance(node, ast.Call):
            name = dotted(node.func)
            if name in self.calls and not node.args and not node.keywords:
                return self.calls[name]
            _fail(node, 'call outside the whitelist')
        name = dotted(node)
        if name is None or name not in self.env:
            _fail(node, 'name outside the whitelist')
        return self.env[name]

    def truth(self, node):
        if isinstance(node, ast.BoolOp):
            if isinstance(node.op, ast.And):
                sym = ' && '
            elif isinstance(node.op, ast.Or):
                sym = ' || '
            else:
                _fail(node, 'boolean operator')
            return '(' + sym.join(self.truth(val) for val in node.values) + ')'
        if isinstance(node, ast.UnaryOp):
            if not isinstance(node.op, ast.Not):
                _fail(node, 'unary operator')
            return '(negb %s)' % self.truth(node.operand)
        if isinstance(node, ast.Compare):
            return self.compare(node)
        (term, typ) = self.lookup(node)
        if typ == 'bool':
            return term
        if typ == 'id':
            return '(id_truthy %s)' % term          # str: '' is falsy
        if typ == 'optid':
            return '(optid_truthy %s)' % term       # Optional[str]: None and '' are falsy
        if typ == 'obj':
            return 'true'
        if typ == 'list':
            return '(nonempty %s)' % term
        if isinstance(typ, tuple) and typ[0] == 'mres':
            # a match_id() result used for its truth value: None and False are falsy; a Matched result is
            # the reference value itself, so it is as truthy as that reference (typ[1] = the reference's node)
            if typ[1] is None:
                _fail(node, 'truth value of a match result whose reference is unknown')
            return '((is_matched %s) && %s)' % (term, self.truth(typ[1]))
        _fail(node, 'value of type %s used for its truth value' % typ)

    def compare(self, node):
        if len(node.ops) != 1 or len(node.comparators) != 1:
            _fail(node, 'chained comparison')
        oper = node.ops[0]
        left = node.left
        right = node.comparators[0]
        if isinstance(oper, (ast.Is, ast.IsNot)):
            (term, typ) = self.lookup(left)
            if is_const(right, None):
                if typ in ('optbool', 'optid'):
                    res = '(negb (is_some %s))' % term
                elif isinstance(typ, tuple) and typ[0] == 'mres':
                    res = '(is_absent %s)' % term
                else:
                    _fail(node, '`is None` on type %s' % typ)
            elif is_const(right, False):
                if not (isinstance(typ, tuple) and typ[0] == 'mres'):
                    _fail(node, '`is False` on type %s' % (typ,))
                res = '(is_mismatch %s)' % term
            else:
                _fail(node, 'identity test against something else than None/False')
            if isinstance(oper, ast.IsNot):
                if is_const(right, None) and typ in ('optbool', 'optid'):
                    return '(is_some %s)' % term
                res = '(negb %s)' % res
            return res
        if isinstance(oper, (ast.Eq, ast.NotEq)):
            (lterm, ltyp) = self.lookup(left)
            (rterm, rtyp) = self.lookup(right)
            if ltyp == 'bool' and rtyp == 'optbool':
                res = '(ne_opt %s %s)' % (lterm, rterm)       # Python: l != r
                if isinstance(oper, ast.Eq):
                    res = '(negb %s)' % res
                return res
            if ltyp == 'id' and rtyp == 'id':
                res = '(N.eqb %s %s)' % (lterm, rterm)
                if isinstance(oper, ast.NotEq):
                    res = '(negb %s)' % res
                return res
            _fail(node, 'comparison of %s with %s' % (ltyp, rtyp))
        if isinstance(oper, (ast.In, ast.NotIn)):
            (lterm, ltyp) = self.lookup(left)
            (rterm, rtyp) = self.lookup(right)
            if ltyp != 'optid' or rtyp != 'list':
                _fail(node, 'membership of %s in %s' % (ltyp, rtyp))
            res = '(id_in %s %s)' % (lterm, rterm)
            if isinstance(oper, ast.NotIn):
                res = '(negb %s)' % res
            return res
        _fail(node, 'comparison operator')


# ------------------------------------------------------------------ locating
def find_function(tree, name):
    found = [node for node in tree.body if isinstance(node, ast.FunctionDef) and node.name == name]
    if len(found) != 1:
        raise TranslateError('expected exactly one top-level function %s' % name)
    return found[0]


def find_method(tree, cls_name, name):
    classes = [node for node in tree.body if isinstance(node, ast.ClassDef) and node.name == cls_name]
    if len(classes) != 1:
        raise TranslateError('expected exactly one class %s' % cls_name)
    found = [node for node in classes[0].body if isinstance(node, ast.FunctionDef) and node.name == name]
    if len(found) != 1:
        raise TranslateError('expected exactly one method %s.%s' % (cls_name, name))
    return found[0]


def body_nodoc(func):
    body = list(func.body)
    if body and isinstance(body[0], ast.Expr) and isinstance(body[0].value, ast.Constant) and isinstance(body[0].value.value, str):
        body = body[1:]
    return body


# ------------------------------------------------------------------ (a) tls_attempt
def tr_merge_contact_params(tree, can_tls_value):
    if can_tls_value != 1:
        raise TranslateError('contact.ContactV4.Flag.CAN_TLS is %r, the 0/1 argument for `!=` needs 1' % (can_tls_value,))
    func = find_method(tree, 'Messenger', 'merge_contact_params')
    stmts = [st for st in body_nodoc(func) if not is_logging(st)]
    if len(stmts) != 3:
        _fail(func, 'merge_contact_params: expected 3 statements')
    env = {}
    lets = []
    can = 'contact.ContactV4.Flag.CAN_TLS'
    for (stmt, local, head, coq) in ((stmts[0], 'this_can_tls', 'self._conhead_this.flags', 'this_flags'),
                                     (stmts[1], 'peer_can_tls', 'self._conhead_peer.flags', 'peer_flags')):
        val = single_assign(stmt, local)
        # the offer extracted from a contact-header flags OCTET (an N in the model).  Whitelist:
        #   flags & CAN_TLS   -> 0 or CAN_TLS (= 1, checked above): truthy iff the bit is set
        #   flags == CAN_TLS / flags != CAN_TLS -> a bool
        # both are 0/1-valued, which the later `self._tls_attempt != require_tls` relies on; any other
        # operator (|, ^, >>, <, in, ...) or operand raises.
        if isinstance(val, ast.BinOp) and isinstance(val.op, ast.BitAnd) \
                and sorted([dotted(val.left) or '', dotted(val.right) or '']) == sorted([head, can]):
            term = '(negb (N.eqb (N.land %s can_tls_bit) 0))' % coq
        elif isinstance(val, ast.Compare) and len(val.ops) == 1 and isinstance(val.ops[0], (ast.Eq, ast.NotEq)) \
                and sorted([dotted(val.left) or '', dotted(val.comparators[0]) or '']) == sorted([head, can]):
            term = '(N.eqb %s can_tls_bit)' % coq
            if isinstance(val.ops[0], ast.NotEq):
                term = '(negb %s)' % term
        else:
            _fail(stmt, 'expected %s = (%s & contact.ContactV4.Flag.CAN_TLS)' % (local, head))
        lets.append('let %s := %s in' % (local, term))
        env[local] = (local, 'bool')
    val = single_assign(stmts[2], 'self._tls_attempt')
    if not isinstance(val, (ast.BoolOp, ast.Name, ast.UnaryOp)):
        _fail(val, 'self._tls_attempt must be a boolean combination of the two locals')
    return '\n  '.join(lets + [Expr(env).truth(val)])


def can_tls_flag(contact_tree):
    for node in contact_tree.body:
        if isinstance(node, ast.ClassDef) and node.name == 'ContactV4':
            for sub in node.body:
                if isinstance(sub, ast.ClassDef) and sub.name == 'Flag':
                    for stmt in sub.body:
                        if isinstance(stmt, ast.Assign) and dotted(stmt.targets[0]) == 'CAN_TLS' \
                                and isinstance(stmt.value, ast.Constant) and isinstance(stmt.value.value, int):
                            return stmt.value.value
    raise TranslateError('contact.py: ContactV4.Flag.CAN_TLS not found')


# ------------------------------------------------------------------ (b) contact_outcome
CONTACT_ENV = {
    'self._config.require_tls': ('require_tls', 'optbool'),
    'self._tls_attempt': ('attempt', 'bool'),
    'self._as_passive': ('passive', 'bool'),
}


def is_close_return(stmts):
    ''' [logging]* ; self.close() ; return '''
    stmts = [st for st in stmts if not is_logging(st)]
    return (len(stmts) == 2 and isinstance(stmts[0], ast.Expr) and is_call(stmts[0].value, 'self.close', 0)
            and isinstance(stmts[1], ast.Return) and stmts[1].value is None)


def tr_contact_block(stmts, secured):
    ''' Straight-line guard sequence -> Coq term of type outcome.
    `secured` is the Coq term for what self.is_secure() returns at this point. '''
    expr = Expr(CONTACT_ENV, calls={'self.is_secure': (secured, 'bool')})
    if not stmts:
        raise TranslateError('recv_message: contact branch does not end with the SESS_INIT step')
    stmt = stmts[0]
    rest = stmts[1:]
    if is_logging(stmt):
        return tr_contact_block(rest, secured)
    if isinstance(stmt, ast.Assign) and dotted(stmt.targets[0]) == 'self._in_conn' and is_const(stmt.value, True):
        return tr_contact_block(rest, secured)
    if isinstance(stmt, ast.Expr) and is_call(stmt.value, 'self._update_state', 1) and isinstance(stmt.value.args[0], ast.Constant):
        return tr_contact_block(rest, secured)
    if not isinstance(stmt, ast.If) or stmt.orelse:
        _fail(stmt, 'recv_message contact branch: statement outside the whitelist')
    # terminal: if not self._as_passive: self._sessinit_this = self.send_sess_init().payload
    if (isinstance(stmt.test, ast.UnaryOp) and isinstance(stmt.test.op, ast.Not)
            and dotted(stmt.test.operand) == 'self._as_passive'):
        body = [st for st in stmt.body if not is_logging(st)]
        if len(body) != 1:
            _fail(stmt, 'SESS_INIT step: one statement expected')
        val = single_assign(body[0], 'self._sessinit_this')
        if not (isinstance(val, ast.Attribute) and val.attr == 'payload' and is_call(val.value, 'self.send_sess_init', 0)):
            _fail(stmt, 'SESS_INIT step: expected self.send_sess_init().payload')
        if rest:
            _fail(rest[0], 'statements after the SESS_INIT step')
        return '(Proceed %s)' % secured
    # TLS attempt: if self._tls_attempt: [while tx: flush]; try: self.secure(ctx) except ssl.SSLError: close; return
    body = [st for st in stmt.body if not is_logging(st)]
    if calls_of(stmt, 'self.secure'):
        if dotted(stmt.test) != 'self._tls_attempt':
            _fail(stmt, 'secure() must be guarded by `if self._tls_attempt:`')
        if body and isinstance(body[0], ast.While):
            loop = body[0]
            if not (dotted(loop.test) == 'self.__tx_buf' and len(loop.body) == 1 and isinstance(loop.body[0], ast.Expr)
                    and is_call(loop.body[0].value, 'self._avail_tx_notls', 0) and not loop.orelse):
                _fail(loop, 'unexpected loop before secure()')
            body = body[1:]
        if len(body) != 1 or not isinstance(body[0], ast.Try):
            _fail(stmt, 'expected try: self.secure(...)')
        tri = body[0]
        if tri.orelse or tri.finalbody or len(tri.handlers) != 1 or len(tri.body) != 1:
            _fail(tri, 'try shape')
        call = tri.body[0]
        if not (isinstance(call, ast.Expr) and is_call(call.value, 'self.secure', 1)
                and is_call(call.value.args[0], 'self._config.get_ssl_context', 0)):
            _fail(call, 'expected self.secure(self._config.get_ssl_context())')
        hdl = tri.handlers[0]
        if dotted(hdl.type) != 'ssl.SSLError' or not is_close_return(hdl.body):
            _fail(hdl, 'handshake failure must log, close and return')
        # on success is_secure() is true from here on (Connection.secure sets the TLS socket)
        return '(if attempt then (if secured_ok then %s else Closed) else %s)' % (
            tr_contact_block(rest, 'true'), tr_contact_block(rest, secured))
    # policy guard(s): if A: [if B:] log; self.close(); return
    tests = []
    cur = stmt
    while True:
        tests.append(expr.truth(cur.test))
        inner = [st for st in cur.body if not is_logging(st)]
        if len(inner) == 1 and isinstance(inner[0], ast.If) and not inner[0].orelse:
            cur = inner[0]
            continue
        if not is_close_return(cur.body):
            _fail(cur, 'policy guard must log, close and return')
        break
    return '(if %s then Closed else %s)' % (' && '.join(tests) if len(tests) > 1 else tests[0],
                                            tr_contact_block(rest, secured))


def tr_recv_message(tree):
    func = find_method(tree, 'Messenger', 'recv_message')
    branches = [st for st in body_nodoc(func) if isinstance(st, ast.If)
                and is_call(st.test, 'isinstance', 2) and dotted(st.test.args[0]) == 'pkt'
                and dotted(st.test.args[1]) == 'contact.Head']
    if len(branches) != 1:
        raise TranslateError('recv_message: contact-header branch not found')
    body = branches[0].body
    idx = [pos for (pos, st) in enumerate(body) if isinstance(st, ast.Expr) and is_call(st.value, 'self.merge_contact_params', 0)]
    if len(idx) != 1:
        raise TranslateError('recv_message: exactly one merge_contact_params() call expected in the contact branch')
    before = body[:idx[0]]
    after = body[idx[0] + 1:]
    for stmt in before:
        # (closing on a malformed header before the negotiation is outside the model: no TLS, no SESS_INIT)
        for name in ('self.secure', 'self.send_sess_init'):
            if calls_of(stmt, name):
                _fail(stmt, '%s called before merge_contact_params()' % name)
        if 'self._tls_attempt' in assigned_names(stmt):
            _fail(stmt, 'self._tls_attempt assigned outside merge_contact_params')
    if len(calls_of(func, 'self.secure')) != 1:
        raise TranslateError('recv_message: exactly one secure() call expected')
    # the only other SESS_INIT emission is the passive reply to a received SESS_INIT
    if len(calls_of(func, 'self.send_sess_init')) != 2 or sum(len(calls_of(st, 'self.send_sess_init')) for st in body) != 1:
        raise TranslateError('recv_message: unexpected number of send_sess_init() calls')
    return tr_contact_block(after, 'false')


# ------------------------------------------------------------------ (c) match_id
def tr_match_id(tree):
    func = find_function(tree, 'match_id')
    argnames = [arg.arg for arg in func.args.args]
    if argnames[:2] != ['ref_id', 'cert']:
        raise TranslateError('match_id: unexpected parameters %s' % argnames)
    body = body_nodoc(func)
    if not body or not isinstance(body[-1], ast.Return) or not isinstance(body[-1].value, ast.Name):
        raise TranslateError('match_id: must end with `return <name>`')
    resvar = body[-1].value.id
    env = {'cert_ids': ('cert_ids', 'list'), 'ref_id': ('ref_id', 'optid')}
    expr = Expr(env)
    # the decision statement: the last top-level statement assigning the result
    pos = [idx for (idx, st) in enumerate(body[:-1]) if resvar in assigned_names(st)]
    if len(pos) != 1:
        raise TranslateError('match_id: exactly one top-level statement deciding %s expected' % resvar)
    decide = body[pos[0]]
    for stmt in body[pos[0] + 1:-1]:
        if assigned_names(stmt) & {resvar, 'cert_ids', 'ref_id'} or has_node(stmt, (ast.Return, ast.Raise)):
            _fail(stmt, 'match_id: result modified after the decision')
    for stmt in body[:pos[0]]:
        if 'ref_id' in assigned_names(stmt) or has_node(stmt, (ast.Return,)):
            _fail(stmt, 'match_id: reference modified / early return before the decision')

    def block(stmts):
        stmts = [st for st in stmts if not is_logging(st)]
        if len(stmts) != 1:
            raise TranslateError('match_id: one statement per decision branch expected')
        stmt = stmts[0]
        if isinstance(stmt, ast.If):
            if not stmt.orelse:
                _fail(stmt, 'match_id: decision without else')
            return '(if %s then %s else %s)' % (expr.truth(stmt.test), block(stmt.body), block(stmt.orelse))
        val = single_assign(stmt, resvar)
        if is_const(val, None):
            return 'Absent'
        if is_const(val, False):
            return 'Mismatch'
        if dotted(val) == 'ref_id':
            return '(ret_ref ref_id)'
        _fail(val, 'match_id: result value outside {ref_id, False, None}')

    return block([decide])


# ------------------------------------------------------------------ (d) authn
SAN_KINDS = {
    'x509.IPAddress': 'cert_ip',
    'x509.DNSName': 'cert_dns',
    'x509.UniformResourceIdentifier': 'cert_uri',
}
TRACKED = {'peer_addr_str', 'peer_dnsid', 'peer_ipaddrid', 'peer_nodeid', 'authn_nodeid', 'authn_dnsid',
           'authn_ipaddrid', 'any_fail', 'netname_absent', 'sock_tls', 'cert', 'cert_der'}


def tr_merge_session_params(tree):
    func = find_method(tree, 'Messenger', 'merge_session_params')
    body = [st for st in body_nodoc(func) if not is_logging(st)]

    def take(name):
        found = [st for st in body if name in assigned_names(st)]
        return found

    # peer_addr_str = self.get_app_socket().getpeername()[0]
    found = take('peer_addr_str')
    if len(found) != 1:
        raise TranslateError('merge_session_params: peer_addr_str must be assigned once')
    val = single_assign(found[0], 'peer_addr_str')
    if not (isinstance(val, ast.Subscript)
            and isinstance(val.slice, ast.Constant) and val.slice.value == 0
            and isinstance(val.value, ast.Call) and not val.value.args
            and isinstance(val.value.func, ast.Attribute) and val.value.func.attr == 'getpeername'
            and is_call(val.value.func.value, 'self.get_app_socket', 0)):
        _fail(found[0], 'expected peer_addr_str = self.get_app_socket().getpeername()[0]')

    # if/elif/else chain deciding peer_dnsid
    found = take('peer_dnsid')
    if len(found) != 1 or not isinstance(found[0], ast.If):
        raise TranslateError('merge_session_params: peer_dnsid must be decided by one if-chain')
    env_dns = {
        'self._as_passive': ('passive', 'bool'),
        'self._peer_name': ('peer_name', 'id'),
        'peer_addr_str': ('peer_addr', 'id'),
    }
    expr_dns = Expr(env_dns)

    def dns_chain(stmts):
        stmts = [st for st in stmts if not is_logging(st)]
        if len(stmts) != 1:
            raise TranslateError('peer_dnsid chain: one statement per branch expected')
        stmt = stmts[0]
        if isinstance(stmt, ast.If):
            if not stmt.orelse:
                _fail(stmt, 'peer_dnsid chain: missing else')
            return '(if %s then %s else %s)' % (expr_dns.truth(stmt.test), dns_chain(stmt.body), dns_chain(stmt.orelse))
        val = single_assign(stmt, 'peer_dnsid')
        if is_const(val, None):
            return 'None'
        if dotted(val) == 'self._peer_name':
            return '(Some peer_name)'
        _fail(val, 'peer_dnsid value outside {None, self._peer_name}')

    coq_dnsid = dns_chain([found[0]])

    # peer_ipaddrid = ipaddress.ip_address(peer_addr_str)
    found = take('peer_ipaddrid')
    if len(found) != 1:
        raise TranslateError('merge_session_params: peer_ipaddrid must be assigned once')
    val = single_assign(found[0], 'peer_ipaddrid')
    if not (is_call(val, 'ipaddress.ip_address', 1) and dotted(val.args[0]) == 'peer_addr_str'):
        _fail(found[0], 'expected peer_ipaddrid = ipaddress.ip_address(peer_addr_str)')

    # peer_nodeid = str(self._sessinit_peer.nodeid_data)
    found = take('peer_nodeid')
    if len(found) != 1:
        raise TranslateError('merge_session_params: peer_nodeid must be assigned once')
    val = single_assign(found[0], 'peer_nodeid')
    if not (is_call(val, 'str', 1) and dotted(val.args[0]) == 'self._sessinit_peer.nodeid_data'):
        _fail(found[0], 'expected peer_nodeid = str(self._sessinit_peer.nodeid_data)')

    # sock_tls = self.get_secure_socket() ; if sock_tls: <authn block>
    found = take('sock_tls')
    if len(found) != 1:
        raise TranslateError('merge_session_params: sock_tls must be assigned once')
    val = single_assign(found[0], 'sock_tls')
    if not is_call(val, 'self.get_secure_socket', 0):
        _fail(found[0], 'expected sock_tls = self.get_secure_socket()')
    guards = [st for st in body if isinstance(st, ast.If) and dotted(st.test) == 'sock_tls']
    if len(guards) != 1 or guards[0].orelse:
        raise TranslateError('merge_session_params: exactly one `if sock_tls:` block without else expected')
    guard = guards[0]
    # outside that block: the three results start as None and nothing raises / returns
    for stmt in body:
        if stmt is guard:
            continue
        if has_node(stmt, (ast.Raise, ast.Return)):
            _fail(stmt, 'raise/return outside the `if sock_tls:` block')
        for name in ('authn_nodeid', 'authn_dnsid', 'authn_ipaddrid'):
            if name in assigned_names(stmt):
                if not is_const(single_assign(stmt, name), None):
                    _fail(stmt, '%s must start as None' % name)
        if assigned_names(stmt) & {'any_fail', 'netname_absent', 'cert'}:
            _fail(stmt, 'tracked local assigned outside the TLS block')
    order = [body.index(st) for st in (take('peer_addr_str')[0], take('peer_dnsid')[0])] + [body.index(guard)]
    if order != sorted(order) or body.index(take('peer_ipaddrid')[0]) > body.index(guard) \
            or body.index(take('peer_nodeid')[0]) > body.index(guard):
        raise TranslateError('merge_session_params: references must be derived before the TLS block')

    # inside the TLS block
    # references: how each is passed to match_id (as Optional value) and its Python type for truthiness.
    # peer_ipaddrid is an ipaddress object (ip_address() raises on anything that is not an address; the objects
    # define neither __bool__ nor __len__): always truthy.  peer_dnsid is Optional[str], peer_nodeid is str:
    # None / the empty string are falsy -- the empty string is the identifier [empty_id].
    ref_types = {
        'peer_ipaddrid': ('(Some peer_ipaddrid)', 'obj'),
        'peer_dnsid': ('peer_dnsid', 'optid'),
        'peer_nodeid': ('(Some peer_nodeid)', 'id'),
    }
    ref_nodes = {}
    inner = [st for st in guard.body if not is_logging(st)]
    lets = []
    seen = []
    pos = 0
    # leading statements that do not touch the decision (native reference check, KU/EKU logging, cert loading)
    cert_assigned = 0
    while pos < len(inner):
        stmt = inner[pos]
        names = assigned_names(stmt)
        if names & {'authn_nodeid', 'authn_dnsid', 'authn_ipaddrid', 'any_fail', 'netname_absent'}:
            break
        if has_node(stmt, (ast.Raise, ast.Return, ast.Break, ast.Continue)):
            _fail(stmt, 'control flow before the identifier matching')
        if names & {'peer_addr_str', 'peer_dnsid', 'peer_ipaddrid', 'peer_nodeid', 'sock_tls'}:
            _fail(stmt, 'reference modified inside the TLS block')
        if 'cert' in names:
            val = single_assign(stmt, 'cert')
            if not (is_call(val, 'x509.load_der_x509_certificate') and dotted(val.args[0]) == 'cert_der'):
                _fail(stmt, 'expected cert = x509.load_der_x509_certificate(cert_der, ...)')
            cert_assigned += 1
        if 'cert_der' in names:
            val = single_assign(stmt, 'cert_der')
            if not (is_call(val, 'sock_tls.getpeercert', 1) and is_const(val.args[0], True)):
                _fail(stmt, 'expected cert_der = sock_tls.getpeercert(True)')
        pos += 1
    if cert_assigned != 1:
        raise TranslateError('merge_session_params: the peer certificate must be loaded exactly once')
    # the three match_id() calls
    while pos < len(inner) and isinstance(inner[pos], ast.Assign) and is_call(inner[pos].value, 'match_id'):
        stmt = inner[pos]
        target = dotted(stmt.targets[0])
        if len(stmt.targets) != 1 or target not in ('authn_nodeid', 'authn_dnsid', 'authn_ipaddrid') or target in seen:
            _fail(stmt, 'unexpected match_id() target')
        call = stmt.value
        if len(call.args) != 5:
            _fail(stmt, 'match_id() takes 5 positional arguments here')
        ref = dotted(call.args[0])
        kind = dotted(call.args[2])
        if ref not in ref_types or dotted(call.args[1]) != 'cert' or kind not in SAN_KINDS:
            _fail(stmt, 'match_id() arguments outside the whitelist')
        lets.append((target, '(match_id %s %s)' % (ref_types[ref][0], SAN_KINDS[kind])))
        ref_nodes[target] = call.args[0]
        seen.append(target)
        pos += 1
    if sorted(seen) != ['authn_dnsid', 'authn_ipaddrid', 'authn_nodeid']:
        raise TranslateError('merge_session_params: the three authn_* results must each come from one match_id() call')
    tail = inner[pos:]
    if len(tail) != 3:
        raise TranslateError('merge_session_params: expected any_fail, netname_absent and the guard after the match_id() calls')
    env = {
        'peer_ipaddrid': ('peer_ipaddrid', 'obj'),
        'peer_dnsid': ('peer_dnsid', 'optid'),
        'peer_nodeid': ('peer_nodeid', 'id'),
        'authn_ipaddrid': ('authn_ipaddrid', ('mres', ref_nodes['authn_ipaddrid'])),
        'authn_dnsid': ('authn_dnsid', ('mres', ref_nodes['authn_dnsid'])),
        'authn_nodeid': ('authn_nodeid', ('mres', ref_nodes['authn_nodeid'])),
        'self._config.require_host_authn': ('require_host', 'bool'),
        'self._config.require_node_authn': ('require_node', 'bool'),
    }
    expr = Expr(env)
    bool_lets = []
    for (stmt, name) in ((tail[0], 'any_fail'), (tail[1], 'netname_absent')):
        val = single_assign(stmt, name)
        if not isinstance(val, (ast.BoolOp, ast.Compare, ast.UnaryOp)):
            _fail(stmt, '%s must be a boolean combination' % name)
        bool_lets.append((name, expr.truth(val)))
        env[name] = (name, 'bool')
    final = tail[2]
    if not isinstance(final, ast.If) or final.orelse:
        _fail(final, 'expected the refusal guard')
    rbody = [st for st in final.body if not is_logging(st)]
    if not (len(rbody) == 1 and isinstance(rbody[0], ast.Raise) and rbody[0].cause is None
            and is_call(rbody[0].exc, 'TerminateError', 1)
            and dotted(rbody[0].exc.args[0]) == 'messages.SessionTerm.Reason.CONTACT_FAILURE'):
        _fail(final, 'guard body must be raise TerminateError(messages.SessionTerm.Reason.CONTACT_FAILURE)')
    refuse = expr.truth(final.test)
    return dict(dnsid=coq_dnsid, lets=lets, bool_lets=bool_lets, refuse=refuse)


# ------------------------------------------------------------------ output
TEMPLATE = r'''(* GENERATED by translate/targets/tlspolicy.py from src/tcpcl/session.py -- DO NOT EDIT.
   Regenerated from the current working tree of the repository on every check run.

   Identifiers (IP addresses, DNS names, node-id URIs) are abstract values with
   decidable equality, represented as [N]; each SAN kind has its own list, so
   the namespaces never mix.  A match_id() result is three-valued:
   Matched (the reference value is returned), Mismatch (False), Absent (None).

   Python `and`/`or` return operands; every one translated here is used for its
   truth value only (see the translator's module comment). *)
From Coq Require Import List NArith Bool.
Import ListNotations.

Definition id := N.

Inductive mres : Set := Matched | Mismatch | Absent.
Definition is_mismatch (m : mres) : bool := match m with Mismatch => true | _ => false end.  (* m is False *)
Definition is_absent (m : mres) : bool := match m with Absent => true | _ => false end.      (* m is None  *)
Definition is_matched (m : mres) : bool := match m with Matched => true | _ => false end.   (* bool(m), for a truthy reference *)
Definition is_some {A : Type} (o : option A) : bool := match o with Some _ => true | None => false end.
(* the empty string is the identifier 0; Python truth values of str / Optional[str] references *)
Definition empty_id : id := 0%N.
Definition id_truthy (x : id) : bool := negb (N.eqb x empty_id).
Definition optid_truthy (o : option id) : bool := match o with Some x => id_truthy x | None => false end.
Definition nonempty {A : Type} (l : list A) : bool := match l with [] => false | _ :: _ => true end.
(* ref_id in cert_ids   (None is never a member) *)
Definition id_in (ref : option id) (l : list id) : bool :=
  match ref with Some r => existsb (N.eqb r) l | None => false end.
(* `authn_val = ref_id`: the reference itself; a None reference is the same object as "absent" *)
Definition ret_ref (ref : option id) : mres := match ref with Some _ => Matched | None => Absent end.
(* Python `b != o` for b in {0,1,False,True} and o : Optional[bool] *)
Definition ne_opt (b : bool) (o : option bool) : bool :=
  match o with Some r => negb (Bool.eqb b r) | None => true end.

(* (a) Messenger.merge_contact_params: self._tls_attempt as a function of the flags OCTETS of the two
   contact headers (any value, reserved bits included).  can_tls_bit = contact.ContactV4.Flag.CAN_TLS. *)
Definition can_tls_bit : N := @@CANTLS@@%N.
Definition tls_attempt (this_flags peer_flags : N) : bool :=
  @@ATTEMPT@@.

(* (b) Messenger.recv_message, contact-header branch after merge_contact_params().
   [secured_ok]: whether the TLS handshake inside secure() succeeds (input).
   Closed = self.close(); return.   Proceed s = the branch runs to its end
   (the active side sends SESS_INIT there; the passive side waits for the
   peer's) with is_secure() = s. *)
Inductive outcome : Set := Closed | Proceed (secured : bool).
Definition contact_outcome (require_tls : option bool) (attempt secured_ok : bool) : outcome :=
  @@OUTCOME@@.

(* (c) match_id(): decision tail over the identifiers extracted from the certificate
   ([] stands for both None and the empty list: same truth value). *)
Definition match_id (ref_id : option id) (cert_ids : list id) : mres :=
  @@MATCHID@@.

(* (d) Messenger.merge_session_params under `if sock_tls:` *)
Definition peer_dnsid (passive : bool) (peer_name peer_addr : id) : option id :=
  @@DNSID@@.

Definition authn_results (passive : bool) (peer_name peer_addr peer_nodeid : id)
    (cert_ip cert_dns cert_uri : list id) : mres * (mres * mres) :=
  let peer_dnsid := peer_dnsid passive peer_name peer_addr in
  let peer_ipaddrid := peer_addr in
@@LETS@@
  (authn_ipaddrid, (authn_dnsid, authn_nodeid)).

(* true = raise TerminateError(SessionTerm.Reason.CONTACT_FAILURE) *)
Definition authn_refuses (passive : bool) (peer_name peer_addr peer_nodeid : id)
    (cert_ip cert_dns cert_uri : list id) (require_host require_node : bool) : bool :=
  let peer_dnsid := peer_dnsid passive peer_name peer_addr in
  let peer_ipaddrid := peer_addr in
@@LETS@@
@@BOOLLETS@@
  @@REFUSE@@.

(* printable renderings for the differential evaluation *)
Definition outcome_code (o : outcome) : bool * bool :=
  match o with Closed => (false, false) | Proceed s => (true, s) end.
Definition mres_code (m : mres) : N :=
  match m with Matched => 1%N | Mismatch => 2%N | Absent => 0%N end.
'''


def generate(repo_src):
    path = os.path.join(repo_src, 'tcpcl', 'session.py')
    with open(path, 'r') as infile:
        tree = ast.parse(infile.read(), path)
    with open(os.path.join(repo_src, 'tcpcl', 'contact.py'), 'r') as infile:
        contact_tree = ast.parse(infile.read())
    can_tls_value = can_tls_flag(contact_tree)
    attempt = tr_merge_contact_params(tree, can_tls_value)
    outcome = tr_recv_message(tree)
    matchid = tr_match_id(tree)
    sess = tr_merge_session_params(tree)
    lets = '\n'.join('  let %s := %s in' % item for item in sess['lets'])
    bool_lets = '\n'.join('  let %s := %s in' % item for item in sess['bool_lets'])
    text = (TEMPLATE.replace('@@ATTEMPT@@', attempt).replace('@@CANTLS@@', '%d' % can_tls_value)
            .replace('@@OUTCOME@@', outcome)
            .replace('@@MATCHID@@', matchid)
            .replace('@@DNSID@@', sess['dnsid'])
            .replace('@@LETS@@', lets)
            .replace('@@BOOLLETS@@', bool_lets)
            .replace('@@REFUSE@@', sess['refuse']))
    return {'Gen/TlsPolicy.v': text}
