''' C14 -- TCPCL negotiates parameters correctly and keeps its timers. '''
import env  # noqa: F401
import json

import tcpcl_corr as TC
import tcpcl_suite as TS


def emitted(runner, e):
    return TS.decode_stream(runner.sysm.emitted(e))[0]


def timeline(chk, rng, conf_a, conf_b, steps):
    ''' Establish, then advance virtual time in random steps; after each step
    fire the due timers, and check what was emitted against the property. '''
    runner = TC.Runner(cfg_a=conf_a, cfg_b=conf_b)
    runner.apply(('start', 'A'))
    runner.apply(('start', 'B'))
    TC.drain(runner)
    fails = []
    sysm = runner.sysm
    conf = {'A': conf_a, 'B': conf_b}
    kal = min(conf_a['keepalive_time'], conf_b['keepalive_time'])
    # parameters as reported over D-Bus
    for (e, peer) in (('A', 'B'), ('B', 'A')):
        hdl = sysm.ep[e].h
        if not hdl._in_sess:
            continue
        params = dict(type(hdl).get_session_parameters.__wrapped__(hdl))
        want = dict(keepalive=kal, peer_nodeid=sysm.cfg[peer].node_id,
                    peer_segment_mru=min(2 ** 31 - 1, conf[peer]['segment_size_mru']),
                    peer_transfer_mru=2 ** 31 - 1)
        for (key, val) in want.items():
            if params.get(key) != val:
                fails.append(('C14 / get_session_parameters reports a wrong value', '%s %s=%r want %r' % (e, key, params.get(key), val)))
    last_tx = {e: sysm.ctx.now_ms for e in 'AB'}
    last_rx = {e: sysm.ctx.now_ms for e in 'AB'}
    nframes = {e: len(emitted(runner, e)) for e in 'AB'}

    def note_activity():
        for e in 'AB':
            cur = len(emitted(runner, e))
            if cur != nframes[e]:
                nframes[e] = cur
                last_tx[e] = sysm.ctx.now_ms

    for _ in range(steps):
        roll = rng.random()
        if roll < 0.55:
            runner.apply(('advance', rng.choice([1, 499, 500, 999, 1000, 1001, 2000, 3000, 5000])))
            now = sysm.ctx.now_ms
            for e in 'AB':
                if runner.is_closed(e):
                    continue
                hdl = sysm.ep[e].h
                idle = conf[e]['idle_time']
                ka_elapsed = kal > 0 and now - last_tx[e] >= kal * 1000
                idle_elapsed = idle > 0 and now - max(last_tx[e], last_rx[e]) >= idle * 1000
                was_term = bool(hdl._in_term)
                before = emitted(runner, e)
                # GLib dispatches due timers in order of their deadline
                order = sorted(['keepalive', 'idle'], key=lambda t: ({'keepalive': last_tx[e] + kal * 1000,
                                                                     'idle': max(last_tx[e], last_rx[e]) + idle * 1000}[t]))
                for tmr in order:
                    runner.apply(('fire', e, tmr))
                delta = emitted(runner, e)[len(before):]
                kinds = [f['t'] for f in delta]
                closed = runner.is_closed(e)
                if ka_elapsed and not idle_elapsed and 'keepalive' not in kinds and not closed:
                    fails.append(('C14 / no KEEPALIVE although the negotiated interval elapsed with nothing sent',
                                  '%s now %d last_tx %d k %d' % (e, now, last_tx[e], kal)))
                if not ka_elapsed and 'keepalive' in kinds:
                    fails.append(('C14 / KEEPALIVE sent before the negotiated interval elapsed',
                                  '%s now %d last_tx %d k %d' % (e, now, last_tx[e], kal)))
                if idle_elapsed and not ka_elapsed:
                    if was_term:
                        if not closed:
                            fails.append(('C14 / terminating endpoint that hears nothing further does not close', e))
                    elif not any(f['t'] == 'term' and f['reason'] == 1 for f in delta):
                        fails.append(('C14 / idle time elapsed without SESS_TERM(idle timeout)',
                                      '%s now %d last_tx %d last_rx %d idle %d' % (e, now, last_tx[e], last_rx[e], idle)))
                if not idle_elapsed and any(f['t'] == 'term' for f in delta):
                    fails.append(('C14 / SESS_TERM sent before the idle time elapsed', e))
            note_activity()
        elif roll < 0.7:
            e = rng.choice('AB')
            if not runner.is_closed(e):
                runner.apply(('send', e, TS.bounded_data(rng, TS.eff_seg(conf[e], conf['B' if e == 'A' else 'A']))))
        else:
            ena = TC.enabled_ops(runner, rng)
            if ena:
                pick = rng.choice(ena)
                if pick[0] == 'txpump':
                    runner.apply(('txpump', pick[1], pick[2], 1 << 30))
                elif pick[0] == 'rxpump':
                    sock = sysm.ep[pick[1]].sock
                    had = len(sock.inbox)
                    # partial reads: a message may arrive split over several reads spread over time
                    runner.apply(('rxpump', pick[1], rng.choice([1, 3, 1 << 30])))
                    if had:
                        last_rx[pick[1]] = sysm.ctx.now_ms
                else:
                    runner.apply(('pq', pick[1]))
            note_activity()
    rec = TS.finish(runner, 'timeline', dict(keepalive=kal))
    return (rec, fails)


class FakeDatetimeModule(object):
    ''' Virtual-clock stand-in for the ``datetime`` module inside tcpcl.session
    (the segment-size controller timestamps segments and ACKs). '''

    def __init__(self, ctx):
        import datetime as real
        self._real = real
        self._ctx = ctx
        outer = self

        class _DT(real.datetime):
            @classmethod
            def now(cls, tz=None):
                return real.datetime.fromtimestamp(1000000 + outer._ctx.now_ms / 1000.0, tz)
        self.datetime = _DT
        self.timezone = real.timezone
        self.timedelta = real.timedelta


def modulated(chk, rng, mru, length, target, slow=False):
    ''' The adaptive segment-size controller is ON: whatever it computes, no
    segment may exceed the peer's segment MRU (checked on the wire). '''
    import tcpcl.session
    conf_a = dict(segment_size_tx_initial=rng.choice([100, 1000, 4096]), modulate_target_ack_time=target)
    conf_b = dict(segment_size_mru=mru)
    runner = TC.Runner(cfg_a=conf_a, cfg_b=conf_b)
    saved = tcpcl.session.datetime
    tcpcl.session.datetime = FakeDatetimeModule(runner.sysm.ctx)
    try:
        runner.apply(('start', 'A'))
        runner.apply(('start', 'B'))
        TC.drain(runner)
        runner.apply(('send', 'A', ('gen', rng.randrange(1 << 30), length)))
        for _ in range(4000):
            ena = TC.enabled_ops(runner, rng)
            if not ena:
                break
            pick = ena[0] if rng.random() < 0.5 else rng.choice(ena)
            # fast ACKs let the controller grow the segment size, slow ACKs make it shrink (towards its floor)
            runner.apply(('advance', rng.choice([400, 1500, 3000]) if slow else rng.choice([1, 5, 20])))
            if pick[0] == 'txpump':
                runner.apply(('txpump', pick[1], pick[2], 1 << 30))
            elif pick[0] == 'rxpump':
                runner.apply(('rxpump', pick[1], 1 << 30))
            else:
                runner.apply(('pq', pick[1]))
    finally:
        tcpcl.session.datetime = saved
    rec = TS.finish(runner, 'modulated', dict(no_model=True, mru=mru, length=length, keepalive=0))
    return (rec, [])


def slow_delivery(chk, rng, idle, chunk, gap_ms, length):
    ''' Octets of ONE message trickle in, each read well inside the idle time, for longer than
    the idle time in total: traffic is flowing, so the receiver must not declare the session idle. '''
    conf_a = dict(keepalive_time=0, idle_time=0, segment_size_tx_initial=102400)
    conf_b = dict(keepalive_time=0, idle_time=idle)
    runner = TC.Runner(cfg_a=conf_a, cfg_b=conf_b)
    runner.apply(('start', 'A'))
    runner.apply(('start', 'B'))
    TC.drain(runner)
    fails = []
    runner.apply(('send', 'A', ('gen', rng.randrange(1 << 20), length)))
    runner.apply(('pq', 'A'))
    for _ in range(4):
        runner.apply(('txpump', 'A', 'idle', 1 << 30))
        runner.apply(('txpump', 'A', 'io', 1 << 30))
    sock = runner.sysm.ep['B'].sock
    while sock.inbox and not runner.is_closed('B'):
        runner.apply(('advance', gap_ms))
        before = len(TS.decode_stream(runner.sysm.emitted('B'))[0])
        # GLib dispatches a readable socket and a due timer in the same iteration: the read comes first here
        runner.apply(('rxpump', 'B', chunk))
        runner.apply(('fire', 'B', 'idle'))
        delta = TS.decode_stream(runner.sysm.emitted('B'))[0][before:]
        if any(f['t'] == 'term' for f in delta) or runner.is_closed('B'):
            fails.append(('C14 / SESS_TERM(idle) or close although octets were received within the idle time',
                          'idle %ds, %d octets every %d ms' % (idle, chunk, gap_ms)))
            break
    rec = TS.finish(runner, 'slow-delivery', dict(keepalive=0, idle=idle, chunk=chunk, gap_ms=gap_ms))
    return (rec, fails)


def build_all(chk):
    rng = chk.rng
    out = []
    for (idle, chunk, gap, length) in ([(3, 5, 1000, 60), (2, 1, 900, 40)] if chk.quick()
                                       else [(3, 5, 1000, 60), (2, 1, 900, 40), (10, 100, 5000, 2000), (1, 2, 999, 30)]):
        out.append(slow_delivery(chk, rng, idle, chunk, gap, length))
    for (mru, length) in ([(1000, 30000), (500, 9000), (20000, 90000), (10239, 60000)] if chk.quick()
                          else [(m, n) for m in (1, 100, 1000, 5000, 10239, 10240, 20000) for n in (3000, 30000, 90000)]):
        out.append(modulated(chk, rng, mru, length, rng.choice([1, 2])))
        out.append(modulated(chk, rng, mru, length, 1, slow=True))
    pairs = [(0, 0), (0, 5), (1, 1), (1, 2), (2, 1), (5, 30), (30, 5), (65535, 2), (3, 3)]
    if not chk.quick():
        pairs += [(a, b) for a in (0, 1, 2, 7, 60, 65535) for b in (0, 1, 3, 60, 65535)]
    for (ka_a, ka_b) in pairs:
        for idle in ((0, 0), (4, 0), (2, 7)):
            conf_a = dict(keepalive_time=ka_a, idle_time=idle[0], segment_size_mru=rng.choice([1, 5, 1000, 10 * 1024 ** 2]),
                          segment_size_tx_initial=rng.choice([1, 3, 100, 102400]))
            conf_b = dict(keepalive_time=ka_b, idle_time=idle[1], segment_size_mru=rng.choice([1, 5, 1000, 10 * 1024 ** 2]),
                          segment_size_tx_initial=rng.choice([1, 3, 100, 102400]))
            out.append(timeline(chk, rng, conf_a, conf_b, 30 if chk.quick() else 80))
    return out


if __name__ == '__main__':
    holder = {}

    def build(chk):
        holder['results'] = build_all(chk)
        return [item[0] for item in holder['results']]

    def evaluate(chk, recs):
        results = holder.get('results') or [(rec, []) for rec in recs]
        for (rec, fails) in results:
            kinds = [f['t'] for e in 'AB' for f in TS.decode_stream(rec.wire[e])[0]]
            chk.count('negotiated_keepalive', rec.meta.get('keepalive'))
            chk.count('keepalive_frames', min(kinds.count('keepalive'), 10))
            chk.count('idle_terminations', sum(1 for e in 'AB' for f in TS.decode_stream(rec.wire[e])[0] if f['t'] == 'term' and f['reason'] == 1))
            chk.case(ident=json.dumps(rec.replay_obj(), sort_keys=True),
                     nontrivial=('keepalive' in kinds or 'term' in kinds),
                     sample=dict(cfg_a=rec.runner.cfg_a, cfg_b=rec.runner.cfg_b, ops=len(rec.runner.applied),
                                 keepalives=kinds.count('keepalive'), terms=kinds.count('term')))
            for (sig, what) in fails + TS.oracle_c04(rec):
                chk.fail(sig, what, rec.replay_obj())

    TS.run_check('C14', build, evaluate,
                 rule='pairs of keepalive values (0,1,2,5,30,65535,...) x idle times x MRUs/segment sizes; after establishment virtual '
                      'time advances in steps of 1..5000 ms interleaved with sends and event-loop iterations; after every step the due '
                      'timers are dispatched and the emitted KEEPALIVE / SESS_TERM(idle) / close is compared with an independent account '
                      'of last-transmit and last-receive times; get_session_parameters() is compared with the announced values; '
                      'segment lengths against the peer MRU (C04 oracle); non-trivial = a KEEPALIVE or SESS_TERM was emitted')
