(** TCPCL endpoint model: the segment size in use is positive whenever the
    session is established, under hypotheses on the inputs only; the partial
    theorems of (2c)/(2e) restated under those hypotheses. *)
From Coq Require Import ZArith NArith List Bool Lia ZifyBool ZifyN ZifyNat Arith.
From RecordUpdate Require Import RecordSet.
From DTN Require Import Lib.Bytes Model.TcpclMsg Model.TcpclSess Proofs.TcpclSessBasics
  Proofs.TcpclSentProofs1 Proofs.TcpclSentProofs2 Proofs.TcpclSentProofs3 Proofs.TcpclSentProofs4
  Proofs.TcpclSentProofs5 Proofs.TcpclSentProofs6 Proofs.TcpclSentProofs7 Proofs.TcpclSentProofs8 Proofs.TcpclSentProofs9 Proofs.TcpclSentProofs10 Proofs.TcpclSentProofs11 Proofs.TcpclSentProofs12.
Import ListNotations RecordSetNotations.
Ltac Zify.zify_post_hook ::= Z.div_mod_to_equations.
Local Open Scope N_scope.


Lemma sessinit_this_recv_contact c s : sessinit_this (fst (recv_frame (FContact c) s)) =
  if ch_proceed c s && negb (tls_close s) && negb (c_passive (cf s)) then Some (my_sessinit s) else sessinit_this s.
Proof. hc_unfold. p_split; c_leaf. Qed.

Lemma sessinit_this_recv_msg m s : c_passive (cf s) = false ->
  sessinit_this (fst (recv_frame (FMsg m) s)) = sessinit_this s.
Proof. intros Ha. hm_unfold. rewrite ?Ha. destruct m; p_split; sum_leaf. Qed.

Lemma sessinit_this_step_o o s : not_rx o = true -> sessinit_this (step s o) = sessinit_this s.
Proof. intros Ho. destruct o; try discriminate Ho; st_unfold; p_split; s_leaf. Qed.

Lemma closed_step_o_inv o s : not_rx o = true -> closed (step s o) = false -> closed s = false.
Proof. intros Ho H. destruct (closed s) eqn:Hc; [|reflexivity]. rewrite step_closed in H by exact Hc. destruct o; cbn in H; congruence. Qed.

(** An active endpoint that is past the contact exchange and still open has
    sent its SESS_INIT. *)
Definition SA (s : ep) : Prop :=
  c_passive (cf s) = false -> in_conn s = true -> closed s = false -> sessinit_this s <> None.

Lemma SA_recv_frame fr s : SA s -> kind_ok s fr -> closed s = false -> SA (fst (recv_frame fr s)).
Proof.
  intros H Hk Hc. unfold SA. rewrite cf_recv_frame. destruct fr as [c|m]; cbn [kind_ok] in Hk.
  - rewrite in_conn_recv_contact, closed_recv_contact, sessinit_this_recv_contact, Hk, Hc. cbn [orb].
    intros Ha Hp Hcl. rewrite Hp in Hcl |- *. rewrite Ha. cbn [negb andb].
    destruct (tls_close s); [|discriminate]. cbn [andb] in Hcl. rewrite orb_true_r in Hcl. discriminate.
  - rewrite in_conn_recv_msg. intros Ha Hin _. rewrite (sessinit_this_recv_msg m s Ha). apply H; assumption.
Qed.

Lemma SA_step_o o s : SA s -> closed s = false -> not_rx o = true -> SA (step s o).
Proof.
  intros H Hc Ho. unfold SA. rewrite (cf_step_o o s Ho), (in_conn_step_o o s Ho), (sessinit_this_step_o o s Ho).
  intros Ha Hin _. apply H; assumption.
Qed.

Definition goodinit (f : frame) : Prop :=
  match f with FMsg (MSessInit _ smru _ nid _) => 0 < smru /\ ascii nid = true | _ => True end.

Definition PS (s : ep) : Prop :=
  Forall goodinit (handled s) -> 0 < c_seg_init (cf s) -> in_sess s = true -> 0 < seg_size s.

Lemma PS_recv_frame fr s rest : SA s -> PS s -> kind_ok s fr -> closed s = false ->
  PS (fst (recv_frame fr (s <| rx_buf := rest |> <| handled := handled s ++ [fr] |>))).
Proof.
  intros HS H Hk Hc. unfold PS. rewrite handled_recv_frame, cf_recv_frame. ep_cbn. intros Hg Hi.
  apply Forall_app in Hg. destruct Hg as [Hg Hf]. inversion Hf as [|x y Hfr _]. subst x y.
  destruct fr as [c|m]; cbn [kind_ok] in Hk.
  - rewrite in_sess_recv_contact, seg_size_recv_contact. ep_cbn. apply H; assumption.
  - rewrite in_sess_recv_msg, seg_size_recv_msg. ep_cbn.
    destruct m as [fl xid ext data|fl xid len|r xid| |fl r|a b|ka smru xmru nid ext];
      cbn [is_init]; rewrite ?orb_false_r; try (apply H; assumption).
    intros _. cbn [goodinit] in Hfr. destruct Hfr as [Hm Ha]. unfold init_ok. ep_cbn. rewrite Ha, andb_true_r.
    destruct (c_passive (cf s)) eqn:Hp; cbn [orb].
    + apply N.min_glb_lt; assumption.
    + destruct (sessinit_this s) eqn:Et; [apply N.min_glb_lt; assumption|].
      exfalso. apply (HS Hp Hk Hc). exact Et.
Qed.

Lemma PS_step_o o s : PS s -> not_rx o = true -> PS (step s o).
Proof.
  intros H Ho. unfold PS. rewrite (handled_step_o o s Ho), (cf_step_o o s Ho), (in_sess_step_o o s Ho), (seg_size_step_o o s Ho).
  exact H.
Qed.

Definition InvS (s : ep) : Prop := SA s /\ PS s.

Lemma InvS_step s o : InvS s -> InvS (step s o).
Proof.
  revert s o. apply (step_inv InvS).
  - intros s dt H. exact H.
  - intros s o (H1&H2) Hc Ho. split; [apply SA_step_o; assumption|apply PS_step_o; assumption].
  - intros s fr rest (H1&H2) Hc Hk. split; [apply SA_recv_frame; [exact H1|exact Hk|exact Hc]|].
    apply PS_recv_frame; assumption.
  - intros s b i t H. exact H.
  - intros s k H. exact H.
Qed.

Lemma InvS_run c ops : InvS (run c ops).
Proof.
  apply (run_invariant InvS); [|intros s o; apply InvS_step].
  split; [intros _ H; discriminate H|intros _ _ H; discriminate H].
Qed.

Lemma Forall_prefix {A} (P : A -> Prop) l x : Forall P (l ++ x) -> Forall P l.
Proof. intros H. apply Forall_app in H. exact (proj1 H). Qed.

Lemma handled_prefix c : forall ops k, exists x, handled (run c ops) = handled (run c (firstn k ops)) ++ x.
Proof.
  intros ops k.
  replace (run c ops) with (fold_left step (skipn k ops) (run c (firstn k ops)))
    by (rewrite <- run_app, firstn_skipn; reflexivity).
  generalize (run c (firstn k ops)) as s0. induction (skipn k ops) as [|o l IH]; intros s0; cbn [fold_left].
  - exists []. rewrite app_nil_r. reflexivity.
  - destruct (IH (step s0 o)) as [x Hx]. destruct (step_mono s0 o) as (_&_&_&[h Hh]).
    exists (h ++ x). rewrite Hx, Hh, <- app_assoc. reflexivity.
Qed.

(** The guard of the partial theorems from hypotheses on the inputs: the local
    initial segment size is at least 1, and every SESS_INIT handled announces a
    segment MRU of at least 1 and a decodable (ASCII) node id. *)
Theorem pos_seg_from_inputs c ops :
  0 < c_seg_init c -> Forall goodinit (handled (run c ops)) ->
  forall k, pos_seg (run c (firstn k ops)).
Proof.
  intros Hc Hg k. destruct (InvS_run c (firstn k ops)) as [_ H]. unfold PS in H. rewrite cf_run in H.
  unfold pos_seg. apply H; [|exact Hc]. destruct (handled_prefix c ops k) as [x Hx]. rewrite Hx in Hg.
  eapply Forall_prefix. exact Hg.
Qed.

Theorem no_start_after_term_inputs c ops :
  0 < c_seg_init c -> Forall goodinit (handled (run c ops)) ->
  forall pre fl r post, sent (run c ops) = pre ++ FMsg (MSessTerm fl r) :: post ->
  Forall (fun f => match f with FMsg (MXferSeg flags _ _ _) => has_start flags = false | _ => True end) post.
Proof. intros Hc Hg. apply no_start_after_term_partial, pos_seg_from_inputs; assumption. Qed.

Theorem C04_grammar_active_inputs c ops : c_passive c = false ->
  0 < c_seg_init c -> Forall goodinit (handled (run c ops)) -> legal_prefix (sent (run c ops)) = true.
Proof. intros Ha Hc Hg. apply C04_grammar_active_partial; [exact Ha|apply pos_seg_from_inputs; assumption]. Qed.

Theorem C04_grammar_passive_inputs c ops : c_passive c = true -> peer_coop (handled (run c ops)) ->
  0 < c_seg_init c -> Forall goodinit (handled (run c ops)) -> legal_prefix (sent (run c ops)) = true.
Proof. intros Hp Hco Hc Hg. apply C04_grammar_passive_partial; [exact Hp|exact Hco|apply pos_seg_from_inputs; assumption]. Qed.
