(** TCPCL endpoint model: (2c) no transfer starts after SESS_TERM (partial, with
    the refutation of the unconditional statement); C09 clauses. *)
From Coq Require Import ZArith NArith List Bool Lia ZifyBool ZifyN ZifyNat Arith.
From RecordUpdate Require Import RecordSet.
From DTN Require Import Lib.Bytes Model.TcpclMsg Model.TcpclSess Proofs.TcpclSessBasics
  Proofs.TcpclSentProofs1 Proofs.TcpclSentProofs2 Proofs.TcpclSentProofs3 Proofs.TcpclSentProofs4
  Proofs.TcpclSentProofs5 Proofs.TcpclSentProofs6 Proofs.TcpclSentProofs7.
Import ListNotations RecordSetNotations.
Ltac Zify.zify_post_hook ::= Z.div_mod_to_equations.
Local Open Scope N_scope.


(** * (2c) No transfer is started after SESS_TERM, provided the segment size is positive *)

Lemma firstn_pos (sz : N) (b : bytes) : 0 < sz -> b <> [] -> 0 < N.of_nat (length (firstn (N.to_nat sz) b)).
Proof.
  intros Hs Hb. destruct b as [|x b]; [contradiction|].
  destruct (N.to_nat sz) as [|k] eqn:Ek; [lia|]. cbn [firstn length]. lia.
Qed.

Lemma txq_step_o o s : closed s = false -> not_rx o = true ->
  (in_sess s = true -> 0 < seg_size s) -> (tx_tmp s <> None -> 0 < tx_len s) ->
  tx_tmp (step s o) <> None -> 0 < tx_len (step s o).
Proof.
  intros Hc Ho Hseg Hlen. destruct o; try discriminate Ho; st_unfold; rewrite ?Hc; p_split; intros H;
    try (apply Hlen; assumption); try congruence;
    try (apply Hlen; discriminate);
    try (assert (0 < tx_len s) by (apply Hlen; discriminate); lia);
    try (exfalso; match goal with E : _ && (0 <? 0) = true |- _ => rewrite andb_comm in E; cbn in E; discriminate E end).
  cbn [N.to_nat skipn] in *. destruct b as [|x b']; [rewrite firstn_nil in E7; cbn in E7; discriminate E7|].
  pose proof (firstn_pos (seg_size s) (x :: b') (Hseg E1) ltac:(discriminate)). lia.
Qed.

Definition nostartf (f : frame) : Prop :=
  match f with FMsg (MXferSeg fl _ _ _) => has_start fl = false | _ => True end.

(** The frames after the first SESS_TERM. *)
Fixpoint after_term (l : list frame) : list frame :=
  match l with
  | [] => []
  | f :: r => if is_sess_term f then r else after_term r
  end.

Lemma after_term_app l x :
  after_term (l ++ x) = if (0 <? nterm l)%nat then after_term l ++ x else after_term x.
Proof.
  induction l as [|f l IH]; [reflexivity|]. cbn [app after_term]. unfold nterm. cbn [filter].
  destruct (is_sess_term f); [reflexivity|]. exact IH.
Qed.

Lemma nostart_out_msg m s : Forall nostartf (out_msg m s) /\ after_term (out_msg m s) = [].
Proof.
  destruct m; unfold out_msg, out_term, rej;
    repeat match goal with |- context [if ?c then _ else _] => destruct c
                      | |- context [match ?c with _ => _ end] => destruct c end;
    split; try reflexivity; repeat constructor.
Qed.

Lemma nostart_out_contact c s : Forall nostartf (out_contact c s) /\ after_term (out_contact c s) = [].
Proof.
  unfold out_contact. repeat match goal with |- context [if ?c then _ else _] => destruct c end;
    split; try reflexivity; repeat constructor.
Qed.

Lemma seg_of_nostart tmp len sz : 0 < len -> Forall nostartf (seg_of tmp len sz).
Proof.
  intros Hl. unfold seg_of. destruct tmp as [[i d]|]; [|constructor]. cbv zeta.
  destruct ((len =? N.of_nat (length d)) && (0 <? len)); [constructor|].
  assert (E : (len =? 0) = false) by (apply N.eqb_neq; lia). rewrite E.
  constructor; [|constructor]. cbn [nostartf].
  destruct (len + N.of_nat (length (firstn (N.to_nat sz) (skipn (N.to_nat len) d))) =? N.of_nat (length d));
    reflexivity.
Qed.

Lemma seg_of_after tmp len sz : after_term (seg_of tmp len sz) = [].
Proof.
  unfold seg_of. destruct tmp as [[i d]|]; [|reflexivity]. cbv zeta.
  destruct ((len =? N.of_nat (length d)) && (0 <? len)); reflexivity.
Qed.

Lemma nostart_out_op o s : (tx_tmp s <> None -> 0 < tx_len s) ->
  after_term (out_op o s) = [] /\ (in_term s = true -> Forall nostartf (out_op o s)).
Proof.
  intros Hlen. destruct o; cbn [out_op]; try (split; [reflexivity|intros; constructor]).
  - destruct ((state s =? ST_CONNECTING) && negb (c_passive (cf s))); split; try reflexivity; intros; repeat constructor.
  - unfold out_term. destruct (in_sess s && negb (in_term s)); split; try reflexivity; intros; repeat constructor.
  - destruct (0 <? n_pq s)%nat; [|split; [reflexivity|intros; constructor]]. unfold out_pq.
    destruct (tx_tmp s) as [p|] eqn:Et.
    { split; [apply seg_of_after|]. intros _. apply seg_of_nostart, Hlen. discriminate. }
    split.
    + destruct (in_sess s && negb (in_term s)); [|reflexivity].
      destruct (pend_start s) as [|[i d] r]; [reflexivity|apply seg_of_after].
    + intros Ht. rewrite Ht, andb_false_r. constructor.
  - destruct (ka_due s) as [due|]; [|split; [reflexivity|intros; constructor]].
    destruct (due <=? now s); split; try reflexivity; intros; repeat constructor.
  - destruct (idle_due s) as [due|]; [|split; [reflexivity|intros; constructor]].
    destruct (due <=? now s); [|split; [reflexivity|intros; constructor]].
    unfold out_term. destruct (in_sess s && negb (in_term s)); split; try reflexivity; intros; repeat constructor.
Qed.

Lemma step_inv_at (P : ep -> Prop) s o :
  (forall s dt, P s -> P (s <| now := now s + dt |>)) ->
  (P s -> closed s = false -> not_rx o = true -> P (step s o)) ->
  (forall s fr rest, P s -> closed s = false -> kind_ok s fr ->
      P (fst (recv_frame fr (s <| rx_buf := rest |> <| handled := handled s ++ [fr] |>)))) ->
  (forall s b i t, P s -> P (s <| t_recv := t |> <| idle_due := i |> <| rx_buf := b |>)) ->
  (forall s k, P s -> P (emit (EExc k) (s <| rx_alive := false |>))) ->
  P s -> P (step s o).
Proof.
  intros Hnow Hop Hfr Hupd Hexc Hs.
  destruct (closed s) eqn:Hc.
  { rewrite step_closed by exact Hc. destruct o; try exact Hs. apply Hnow, Hs. }
  destruct (not_rx o) eqn:Ho; [apply Hop; auto|].
  destruct o; try discriminate Ho. unfold step. rewrite Hc.
  destruct (is_nil data || negb (rx_alive s)); [exact Hs|].
  assert (HP : P (fst (recv_raw data s))).
  { apply recv_raw_inv; [|exact Hupd|exact Hs].
    intros s1 fr rest H1 Hc1 Hp. apply Hfr; [exact H1|exact Hc1|].
    apply parse_kind in Hp. unfold kind_ok. exact Hp. }
  destruct (recv_raw data s) as [s' [k|]]; cbn [fst] in HP; [|exact HP]. apply Hexc, HP.
Qed.

Definition NS (s : ep) : Prop :=
  (tx_tmp s <> None -> 0 < tx_len s) /\ Forall nostartf (after_term (sent s)).

Lemma NS_sent s out : TC s -> Forall nostartf (after_term (sent s)) ->
  after_term out = [] -> (in_term s = true -> Forall nostartf out) ->
  Forall nostartf (after_term (sent s ++ out)).
Proof.
  intros Ht Hs Ha Ho. rewrite after_term_app. unfold TC in Ht. rewrite Ht.
  destruct (in_term s); cbn.
  - apply Forall_app. split; [exact Hs|apply Ho; reflexivity].
  - rewrite Ha. constructor.
Qed.

Lemma NS_recv_frame fr s : TC s -> NS s -> NS (fst (recv_frame fr s)).
Proof.
  intros Ht [N2 N1]. split.
  - destruct fr as [c|m].
    + rewrite tx_tmp_recv_contact, tx_len_recv_contact. exact N2.
    + intros H. rewrite (tx_len_recv_msg m s H). apply N2.
      destruct (tx_tmp_recv_msg m s) as [e|e]; rewrite e in H; [exact H|congruence].
  - destruct fr as [c|m].
    + rewrite sent_recv_contact. destruct (nostart_out_contact c s). apply NS_sent; auto.
    + rewrite sent_recv_msg. destruct (nostart_out_msg m s). apply NS_sent; auto.
Qed.

Definition pos_seg (s : ep) : Prop := in_sess s = true -> 0 < seg_size s.

Lemma NS_step_o o s : pos_seg s -> TC s -> NS s -> closed s = false -> not_rx o = true -> NS (step s o).
Proof.
  intros Hp Ht [N2 N1] Hc Ho. split.
  - apply txq_step_o; assumption.
  - rewrite (sent_step o s Hc Ho). destruct (nostart_out_op o s N2). apply NS_sent; auto.
Qed.

Definition Inv3 (s : ep) : Prop := I2 s /\ TC s /\ NS s.

Lemma Inv3_step s o : pos_seg s -> Inv3 s -> Inv3 (step s o).
Proof.
  intros Hp. apply (step_inv_at Inv3).
  - intros s1 dt H. exact H.
  - intros (H1&H2&H3) Hc Ho. split; [apply I2_step_o; assumption|].
    split; [apply TC_step_o; assumption | apply NS_step_o; assumption].
  - intros s1 fr rest (H1&H2&H3) Hc Hk. split; [apply I2_recv_frame; [exact H1|exact Hk]|].
    split; [apply TC_recv_frame; [exact H2|exact H1] | apply NS_recv_frame; [exact H2|exact H3]].
  - intros s1 b i t H. exact H.
  - intros s1 k H. exact H.
Qed.

Lemma Inv3_init c : Inv3 (init c).
Proof.
  split; [|split; [reflexivity|]].
  - unfold I2, init. cbn. repeat split; intros; try discriminate; try congruence.
  - split; [cbn; congruence|constructor].
Qed.

Lemma firstn_snoc_le {A} (l : list A) x k : (k <= length l)%nat -> firstn k (l ++ [x]) = firstn k l.
Proof. intros H. rewrite firstn_app. replace (k - length l)%nat with 0%nat by lia. cbn. apply app_nil_r. Qed.

Lemma Inv3_run c ops : (forall k, pos_seg (run c (firstn k ops))) -> Inv3 (run c ops).
Proof.
  induction ops as [|o ops IH] using rev_ind; intros H; [apply Inv3_init|].
  rewrite run_snoc. apply Inv3_step.
  - specialize (H (length ops)). rewrite firstn_app, Nat.sub_diag, firstn_all in H. cbn in H.
    rewrite app_nil_r in H. exact H.
  - apply IH. intros k. destruct (Nat.le_gt_cases k (length ops)) as [Hk|Hk].
    + rewrite <- (firstn_snoc_le ops o k Hk). apply H.
    + rewrite firstn_all2 by lia. specialize (H (length ops)).
      rewrite firstn_app, Nat.sub_diag, firstn_all in H. cbn in H. rewrite app_nil_r in H. exact H.
Qed.

(** (2c) FULL STATEMENT (false for the model as for the code, see
    [no_start_after_term_refuted]):
      sent s = pre ++ FMsg (MSessTerm fl r) :: post -> no START segment in post.
    Proved: the same under the hypothesis that the segment size in use is
    positive in every state of the run in which the session is established
    ([pos_seg]); it is [min segment_size_tx_initial peer_segment_mru], so the
    hypothesis fails exactly when the peer announces a segment MRU of 0, the
    local initial segment size is 0, or the merge of the session settings
    fails after [in_sess] was set (non-ASCII peer node id). *)
Theorem no_start_after_term_partial c ops :
  (forall k, pos_seg (run c (firstn k ops))) ->
  forall pre fl r post, sent (run c ops) = pre ++ FMsg (MSessTerm fl r) :: post ->
  Forall (fun f => match f with FMsg (MXferSeg flags _ _ _) => has_start flags = false | _ => True end) post.
Proof.
  intros H pre fl r post E. destruct (Inv3_run c ops H) as (_&_&_&N1). rewrite E, after_term_app in N1.
  cbn [after_term is_sess_term] in N1. destruct (0 <? nterm pre)%nat; [|exact N1].
  apply Forall_app in N1. destruct N1 as [_ N1]. inversion N1; assumption.
Qed.

(** The refutation: an active endpoint whose peer announces a segment MRU of 0
    sends START segments for ever, also after its SESS_TERM (the second bundle
    is queued BEFORE terminate(): its pending queue run fires afterwards; once
    terminating, send_bundle_data is refused). *)
Definition refute_cfg : cfg := mkCfg false [100] 30 60 1000 500 None.
Definition refute_ops : list op :=
  [OStart; ORx (encode_frame (FContact (mkContact MAGIC 4 0)));
   ORx (encode_frame (FMsg (MSessInit 30 0 1000 [100] []))); OSend [1;2;3]; OPQ; OSend [4]; OTerm 0; OPQ].

Theorem no_start_after_term_refuted :
  exists c ops pre fl r post, sent (run c ops) = pre ++ FMsg (MSessTerm fl r) :: post
    /\ ~ Forall (fun f => match f with FMsg (MXferSeg flags _ _ _) => has_start flags = false | _ => True end) post.
Proof.
  exists refute_cfg, refute_ops.
  exists [FContact (mkContact MAGIC 4 0); FMsg (MSessInit 30 1000 18446744073709551615 [100] []);
          FMsg (MXferSeg 2 1 [0; 0; 1; 0; 8; 0; 0; 0; 0; 0; 0; 0; 3] [])], 0, 0,
         [FMsg (MXferSeg 2 1 [0; 0; 1; 0; 8; 0; 0; 0; 0; 0; 0; 0; 3] [])].
  split; [vm_compute; reflexivity|]. intros H. inversion H as [|f l H1 H2]. vm_compute in H1. discriminate H1.
Qed.

(** * C09: the REPLY flag of SESS_TERM *)

Definition reply_only (f : frame) : Prop :=
  match f with FMsg (MSessTerm fl _) => fl = 1 | _ => True end.

Definition term_flag_ok (o : op) (f : frame) : Prop :=
  match f with
  | FMsg (MSessTerm fl r) =>
      match o with
      | ORx _ => fl = 1
      | OTerm r' => fl = 0 /\ r = r'
      | OFireIdle => fl = 0 /\ r = 1
      | _ => False
      end
  | _ => True
  end.

Lemma reply_only_out_msg m s : Forall reply_only (out_msg m s).
Proof.
  destruct m; unfold out_msg, out_term, rej;
    repeat match goal with |- context [if ?c then _ else _] => destruct c
                      | |- context [match ?c with _ => _ end] => destruct c end;
    repeat constructor.
Qed.

Lemma reply_only_out_contact c s : Forall reply_only (out_contact c s).
Proof.
  unfold out_contact. repeat match goal with |- context [if ?c then _ else _] => destruct c end;
    repeat constructor.
Qed.

Lemma seg_of_flag o tmp len sz : Forall (term_flag_ok o) (seg_of tmp len sz).
Proof.
  unfold seg_of. destruct tmp as [[i d]|]; [|constructor]. cbv zeta.
  destruct ((len =? N.of_nat (length d)) && (0 <? len)); repeat constructor.
Qed.

Lemma term_flag_out_op o s : Forall (term_flag_ok o) (out_op o s).
Proof.
  destruct o; cbn [out_op]; try constructor.
  - destruct ((state s =? ST_CONNECTING) && negb (c_passive (cf s))); repeat constructor.
  - unfold out_term. destruct (in_sess s && negb (in_term s)); repeat constructor.
  - destruct (0 <? n_pq s)%nat; [|constructor]. unfold out_pq.
    destruct (tx_tmp s); [apply seg_of_flag|].
    destruct (in_sess s && negb (in_term s)); [|constructor].
    destruct (pend_start s) as [|[i d] r]; [constructor|apply seg_of_flag].
  - destruct (ka_due s) as [due|]; [|constructor]. destruct (due <=? now s); repeat constructor.
  - destruct (idle_due s) as [due|]; [|constructor]. destruct (due <=? now s); [|constructor].
    unfold out_term. destruct (in_sess s && negb (in_term s)); repeat constructor.
Qed.

Definition SentExt (Q : frame -> Prop) (s0 s : ep) : Prop :=
  exists suf, sent s = sent s0 ++ suf /\ Forall Q suf.

Lemma SentExt_refl Q s : SentExt Q s s.
Proof. exists []. rewrite app_nil_r. split; [reflexivity|constructor]. Qed.

Lemma SentExt_app Q s0 s s' out : SentExt Q s0 s -> sent s' = sent s ++ out -> Forall Q out -> SentExt Q s0 s'.
Proof.
  intros (suf&H1&H2) H3 H4. exists (suf ++ out). rewrite H3, H1, <- app_assoc. split; [reflexivity|].
  apply Forall_app. split; assumption.
Qed.

Lemma reply_only_recv_raw data s : SentExt reply_only s (fst (recv_raw data s)).
Proof.
  apply (recv_raw_inv (SentExt reply_only s)); [| |apply SentExt_refl].
  - intros s1 fr rest H1 _ _. destruct fr as [c|m].
    + eapply SentExt_app; [exact H1|rewrite sent_recv_contact; reflexivity|apply reply_only_out_contact].
    + eapply SentExt_app; [exact H1|rewrite sent_recv_msg; reflexivity|apply reply_only_out_msg].
  - intros s1 b i t H. exact H.
Qed.

(** C09: a SESS_TERM sent while handling received data carries REPLY; one sent
    by terminate() or by the idle timeout does not, and no other operation
    sends one. *)
Theorem term_flags s o : exists suf, sent (step s o) = sent s ++ suf /\ Forall (term_flag_ok o) suf.
Proof.
  destruct (closed s) eqn:Hc.
  { exists []. rewrite app_nil_r, step_closed by exact Hc. split; [destruct o; reflexivity|constructor]. }
  destruct (not_rx o) eqn:Ho.
  { exists (out_op o s). split; [apply sent_step; assumption|apply term_flag_out_op]. }
  destruct o; try discriminate Ho. unfold step. rewrite Hc.
  destruct (is_nil data || negb (rx_alive s)).
  { exists []. rewrite app_nil_r. split; [reflexivity|constructor]. }
  destruct (reply_only_recv_raw data s) as (suf&H1&H2).
  exists suf. split.
  - destruct (recv_raw data s) as [s' [k|]]; cbn [fst] in H1; exact H1.
  - eapply Forall_impl; [|exact H2]. intros [h|[]]; cbn; auto.
Qed.

(** * C09: transfers not yet started when a SESS_TERM is handled are reported *)

Lemma unstarted_reported fl r s : in_sess s = true ->
  let s' := fst (handle_msg (MSessTerm fl r) s) in
  pend_start s' = []
  /\ exists t1 t2, trace s' = trace s ++ t1 ++ flush_events (pend_start s) ++ t2.
Proof.
  intros Hs. cbv zeta. c_handle_msg. c_send_sess_term.
  unfold check_sess_term, is_sess_idle, raise, ok, send_msg; opq. rewrite Hs. split.
  - p_split; unfold close_pend; p_split; reflexivity.
  - p_split; unfold state_trace, close_trace; p_split; cbn [flush_events map app];
      first [ exists [], []; cbn [app]; rewrite ?app_nil_r, <- ?app_assoc; reflexivity
            | exists [], [EClosed]; cbn [app]; rewrite ?app_nil_r, <- ?app_assoc; reflexivity
            | exists [ESig SigState [PStr ST_ENDING]], []; cbn [app]; rewrite ?app_nil_r, <- ?app_assoc; reflexivity
            | exists [ESig SigState [PStr ST_ENDING]], [EClosed]; cbn [app]; rewrite ?app_nil_r, <- ?app_assoc; reflexivity ].
Qed.
