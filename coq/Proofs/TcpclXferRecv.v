(** C01 / C17, receiver side: what an endpoint of [Model/TcpclSess.v] delivers
    is exactly what the specification fold [deliver_spec] computes from the
    frames it acted on, for every operation list and arbitrary received octets. *)
From Coq Require Import ZArith NArith List Bool Lia ZifyBool ZifyN ZifyNat.
From RecordUpdate Require Import RecordSet.
From DTN Require Import Lib.Bytes Model.TcpclMsg Model.TcpclSess Model.TcpclXferSpec Proofs.TcpclSessBasics.
Import ListNotations RecordSetNotations.
Local Open Scope N_scope.
Ltac Zify.zify_post_hook ::= Z.div_mod_to_equations.

(** ** The receiver view of a state and the helpers that preserve it *)

(** Events that matter to the receiver: "receive finished" signals and pops. *)
Definition quiet (e : event) : bool :=
  match e with
  | ESig SigRecvFinished _ => false
  | EPop _ _ => false
  | _ => true
  end.
Definition loud (e : event) : bool := negb (quiet e).
Definition lt (s : ep) : list event := filter loud (trace s).

Definition rv (s : ep) := (in_sess s, rx_tmp s, handled s, rx_map s, lt s).

Lemma filter_app' {A} (f : A -> bool) a b : filter f (a ++ b) = filter f a ++ filter f b.
Proof. induction a as [|x a IH]; cbn [filter app]; [reflexivity|]. destruct (f x); cbn [app]; rewrite IH; reflexivity. Qed.

Lemma lt_emit e s : lt (emit e s) = lt s ++ (if loud e then [e] else []).
Proof. unfold lt, emit. cbn [trace set]. cbn. rewrite filter_app'. cbn [filter]. destruct (loud e); reflexivity. Qed.

Lemma rv_emit e s : quiet e = true -> rv (emit e s) = rv s.
Proof.
  intros Q. unfold rv. rewrite lt_emit. unfold loud. rewrite Q. cbn [negb]. rewrite app_nil_r. reflexivity.
Qed.

Lemma rv_set_state st s : rv (set_state st s) = rv s.
Proof. unfold set_state. destruct (state s =? st); [reflexivity|]. rewrite rv_emit by reflexivity. reflexivity. Qed.
Lemma rv_ka_reset s : rv (ka_reset s) = rv s. Proof. reflexivity. Qed.
Lemma rv_idle_reset s : rv (idle_reset s) = rv s. Proof. reflexivity. Qed.
Lemma rv_send_ready s : rv (send_ready s) = rv s.
Proof. unfold send_ready. destruct (io_set s); match goal with |- context [if ?c then _ else _] => destruct c end; reflexivity. Qed.
Lemma rv_send_frame f s : rv (send_frame f s) = rv s.
Proof. unfold send_frame. rewrite rv_idle_reset, rv_ka_reset, rv_send_ready. reflexivity. Qed.
Lemma rv_send_msg m s : rv (send_msg m s) = rv s.
Proof. unfold send_msg. exact (rv_send_frame _ _). Qed.
Lemma rv_do_close s : rv (do_close s) = rv s.
Proof.
  unfold do_close. cbv zeta.
  match goal with |- context [if ?c then _ else _] => destruct c end; [reflexivity|].
  rewrite rv_emit by reflexivity.
  match goal with |- context [if ?c then _ else _] => destruct c end; reflexivity.
Qed.
Lemma rv_pq_trigger s : rv (pq_trigger s) = rv s.
Proof. unfold pq_trigger. destruct (pq_set s); reflexivity. Qed.
Lemma rv_sbd n s : rv (send_buffer_decreased n s) = rv s.
Proof. unfold send_buffer_decreased. destruct (_ <? _); [apply rv_pq_trigger|reflexivity]. Qed.
Lemma rv_check_sess_term s : rv (check_sess_term s) = rv s.
Proof. unfold check_sess_term. destruct (_ && _); [apply rv_do_close|reflexivity]. Qed.
Lemma rv_send_contact_header s : rv (send_contact_header s) = rv s.
Proof. unfold send_contact_header. exact (rv_send_frame _ _). Qed.
Lemma rv_send_sess_init s : rv (send_sess_init s) = rv s.
Proof. unfold send_sess_init. cbv zeta. etransitivity; [|apply (rv_send_msg (MSessInit (si_keepalive (my_sessinit s)) (si_seg_mru (my_sessinit s)) (si_xfer_mru (my_sessinit s)) (si_nodeid (my_sessinit s)) []) s)]. reflexivity. Qed.
Lemma rv_send_sess_term r b s : rv (fst (send_sess_term r b s)) = rv s.
Proof.
  unfold send_sess_term. destruct (negb (in_sess s)); [reflexivity|]. destruct (in_term s); [reflexivity|].
  cbv zeta. cbn [fst ok]. rewrite rv_send_msg, rv_set_state. reflexivity.
Qed.
Lemma rv_escape r : rv (escape r) = rv (fst r).
Proof. destruct r as [s [k|]]; cbn [escape fst]; [apply rv_emit|]; reflexivity. Qed.
Lemma rv_send_next s : rv (send_next s) = rv s.
Proof.
  unfold send_next. destruct (tx_tmp s) as [[id data]|]; [|reflexivity].
  cbv zeta. destruct (_ && _); [reflexivity|].
  match goal with |- context [if ?c then _ else _] => destruct c end.
  - rewrite rv_pq_trigger. etransitivity; [|apply (rv_send_msg _ _)]. Time reflexivity.
  - rewrite rv_send_msg. reflexivity.
Time Qed.

Lemma rv_process_queue s : rv (fst (process_queue s)) = rv s.
Proof.
  unfold process_queue. cbv zeta. cbn [tx_tmp in_sess in_term pend_start set].
  destruct (tx_tmp s) as [p|] eqn:T.
  - cbn [fst]. rewrite rv_send_next. reflexivity.
  - destruct (negb (in_sess s)); [reflexivity|]. destruct (in_term s); [reflexivity|].
    destruct (pend_start s) as [|[id data] rest]; [reflexivity|].
    cbn [fst]. rewrite rv_send_next, rv_emit by reflexivity. reflexivity.
Qed.

Lemma rv_merge_session_params s : rv (fst (merge_session_params s)) = rv s.
Proof.
  unfold merge_session_params.
  destruct (sessinit_this s) as [this|]; [|reflexivity].
  destruct (sessinit_peer s) as [peer|]; [|reflexivity].
  destruct (negb (ascii (si_nodeid peer))); reflexivity.
Qed.

Lemma rv_flush_fold l : forall s0,
  rv (fold_left (fun s it =>
               emit (ESig SigSendFinished [PStrNum (fst it); PInt 0; PStr RES_TERMINATING])
                    (s <| tx_map := dict_del (fst it) (tx_map s) |>)) l s0) = rv s0.
Proof.
  induction l as [|it l IH]; intros s0; cbn [fold_left]; [reflexivity|].
  rewrite IH, rv_emit by reflexivity. reflexivity.
Qed.

Lemma rv_flush_pend_start s : rv (flush_pend_start s) = rv s.
Proof. unfold flush_pend_start. rewrite rv_flush_fold. reflexivity. Qed.

Lemma rv_tx_proxy a s : rv (fst (tx_proxy a s)) = rv s.
Proof.
  unfold tx_proxy.
  match goal with |- context [if ?c then ?x else ?y] =>
    assert (H : rv (fst (if c then x else y)) = rv s) end.
  { destruct (_ <? CHUNK); cbn [fst]; [|reflexivity].
    etransitivity; [|apply (rv_sbd (N.of_nat (length (skipn chunk_nat (msg_tx s)))) (s <| msg_tx := skipn chunk_nat (msg_tx s) |>))].
    reflexivity. }
  match goal with |- context [if ?c then ?x else ?y] => destruct (if c then x else y) as [s1 ue] end.
  cbn [fst] in H. destruct (is_nil (conn_tx s1)); [exact H|].
  cbv zeta. destruct (_ =? 0); cbn [fst]; [rewrite rv_do_close; exact H|].
  rewrite <- H. reflexivity.
Qed.
