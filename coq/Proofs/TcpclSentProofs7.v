(** TCPCL endpoint model: invariants of the session flags; C04 (2a) the contact
    header comes first and only once; (2b) at most one SESS_TERM. *)
From Coq Require Import ZArith NArith List Bool Lia ZifyBool ZifyN ZifyNat Arith.
From RecordUpdate Require Import RecordSet.
From DTN Require Import Lib.Bytes Model.TcpclMsg Model.TcpclSess Proofs.TcpclSessBasics
  Proofs.TcpclSentProofs1 Proofs.TcpclSentProofs2 Proofs.TcpclSentProofs3 Proofs.TcpclSentProofs4
  Proofs.TcpclSentProofs5 Proofs.TcpclSentProofs6.
Import ListNotations RecordSetNotations.
Ltac Zify.zify_post_hook ::= Z.div_mod_to_equations.
Local Open Scope N_scope.

(** * Invariants: one operation at a time *)

Definition kind_ok (s : ep) (fr : frame) : Prop :=
  match fr with FContact _ => in_conn s = false | FMsg _ => in_conn s = true end.

(** A property is preserved by every operation if it is preserved by the clock,
    by every operation other than a read on an open endpoint, by handling one
    frame of the kind the receiver expects, and by the bookkeeping around the
    receive loop. *)
Lemma step_inv (P : ep -> Prop) :
  (forall s dt, P s -> P (s <| now := now s + dt |>)) ->
  (forall s o, P s -> closed s = false -> not_rx o = true -> P (step s o)) ->
  (forall s fr rest, P s -> closed s = false -> kind_ok s fr ->
      P (fst (recv_frame fr (s <| rx_buf := rest |> <| handled := handled s ++ [fr] |>)))) ->
  (forall s b i t, P s -> P (s <| t_recv := t |> <| idle_due := i |> <| rx_buf := b |>)) ->
  (forall s k, P s -> P (emit (EExc k) (s <| rx_alive := false |>))) ->
  forall s o, P s -> P (step s o).
Proof.
  intros Hnow Hop Hfr Hupd Hexc s o Hs.
  destruct (closed s) eqn:Hc.
  { rewrite step_closed by exact Hc. destruct o; try exact Hs. apply Hnow, Hs. }
  destruct (not_rx o) eqn:Ho; [apply Hop; assumption|].
  destruct o; try discriminate Ho. unfold step. rewrite Hc.
  destruct (is_nil data || negb (rx_alive s)); [exact Hs|].
  assert (HP : P (fst (recv_raw data s))).
  { apply recv_raw_inv; [|exact Hupd|exact Hs].
    intros s1 fr rest H1 Hc1 Hp. apply Hfr; [exact H1|exact Hc1|].
    apply parse_kind in Hp. unfold kind_ok. exact Hp. }
  destruct (recv_raw data s) as [s' [k|]]; cbn [fst] in HP; [|exact HP]. apply Hexc, HP.
Qed.

(** * The session flags *)

Definition I2 (s : ep) : Prop :=
  (in_sess s = true -> in_conn s = true)
  /\ (tx_tmp s <> None -> in_sess s = true)
  /\ (keepalive_time s <> 0 -> in_sess s = true)
  /\ (ka_due s <> None -> keepalive_time s <> 0)
  /\ (in_term s = true -> in_sess s = true)
  /\ (in_conn s = true -> conhead_this s <> None).

Lemma I2_recv_frame fr s : I2 s -> kind_ok s fr -> I2 (fst (recv_frame fr s)).
Proof.
  intros (F1&F2&F3&F4&F5&F6) Hk. unfold I2. destruct fr as [c|m]; cbn [kind_ok] in Hk.
  - rewrite in_sess_recv_contact, in_conn_recv_contact, in_term_recv_contact, tx_tmp_recv_contact,
      keepalive_time_recv_contact, conhead_this_recv_contact.
    repeat split; auto.
    + intros H. rewrite (F1 H) in Hk. discriminate.
    + rewrite <- (keepalive_time_recv_contact c s). apply ka_due_recv_frame, F4.
    + rewrite Hk. cbn [orb]. unfold ch_proceed. intros H.
      apply andb_true_iff in H. destruct H as [Hok H]. rewrite Hok. cbn [andb].
      destruct (c_passive (cf s)); [discriminate|]. cbn [orb] in H.
      destruct (conhead_this s); [discriminate|discriminate].
  - rewrite in_sess_recv_msg, in_conn_recv_msg, in_term_recv_msg, conhead_this_recv_msg.
    repeat split; auto.
    + intros H. destruct (tx_tmp_recv_msg m s) as [e|e]; rewrite e in H; [|congruence].
      rewrite (F2 H). reflexivity.
    + destruct (is_init m) eqn:Hi; [rewrite orb_true_r; reflexivity|].
      rewrite (keepalive_time_recv_msg m s Hi). intros H. rewrite (F3 H). reflexivity.
    + apply ka_due_recv_frame, F4.
    + intros H. apply orb_true_iff in H. destruct H as [H|H].
      * rewrite (F5 H). reflexivity.
      * apply andb_true_iff in H. destruct H as [_ H]. rewrite H. reflexivity.
Qed.

Lemma I2_step_o o s : I2 s -> closed s = false -> not_rx o = true -> I2 (step s o).
Proof.
  intros (F1&F2&F3&F4&F5&F6) Hc Ho. unfold I2.
  rewrite (in_sess_step_o o s Ho), (in_conn_step_o o s Ho), (keepalive_time_step_o o s Ho),
    (in_term_step_o o s Hc Ho).
  repeat split; auto.
  - intros H. destruct (tx_tmp_step_o o s Ho H); auto.
  - rewrite <- (keepalive_time_step_o o s Ho). apply ka_due_step_o; assumption.
  - intros H. apply orb_true_iff in H. destruct H as [H|H]; [auto|].
    destruct o; try discriminate Ho; cbn [out_op existsb] in H; try discriminate H.
    + destruct ((state s =? ST_CONNECTING) && negb (c_passive (cf s))); cbn in H; discriminate.
    + unfold out_term in H. destruct (in_sess s); [reflexivity|]. cbn in H. discriminate.
    + destruct (0 <? n_pq s)%nat; [|discriminate]. unfold out_pq in H.
      destruct (tx_tmp s) as [[i d]|] eqn:Et; [apply F2; congruence|].
      destruct (in_sess s); [reflexivity|]. cbn in H. discriminate.
    + destruct (ka_due s) as [due|] eqn:Ek; [|discriminate]. apply F3, F4. congruence.
    + destruct (idle_due s) as [due|]; [|discriminate]. destruct (due <=? now s); [|discriminate].
      unfold out_term in H. destruct (in_sess s); [reflexivity|]. cbn in H. discriminate.
  - intros H. destruct (conhead_this_step_o o s Ho) as [e|[e _]]; rewrite e; [auto|discriminate].
Qed.

Lemma I2_step s o : I2 s -> I2 (step s o).
Proof.
  revert s o. apply (step_inv I2).
  - intros s dt H. exact H.
  - intros s o H Hc Ho. apply I2_step_o; assumption.
  - intros s fr rest H Hc Hk. apply I2_recv_frame; [exact H|exact Hk].
  - intros s b i t H. exact H.
  - intros s k H. exact H.
Qed.

Theorem I2_run c ops : I2 (run c ops).
Proof.
  apply run_invariant; [|intros s o; apply I2_step].
  unfold I2, init. cbn. repeat split; intros; try discriminate; try congruence.
Qed.

(** * (2a) The contact header comes first, once *)

Definition AllMsg (l : list frame) : Prop := Forall (fun f => exists m, f = FMsg m) l.

Lemma AllMsg_map l : AllMsg l -> exists ms, l = map FMsg ms.
Proof.
  induction 1 as [|f l [m Hm] _ [ms IH]]; [exists []; reflexivity|].
  exists (m :: ms). cbn. rewrite Hm, IH. reflexivity.
Qed.

Lemma AllMsg_nil : AllMsg [].
Proof. constructor. Qed.
Lemma AllMsg_one m : AllMsg [FMsg m].
Proof. constructor; [eexists; reflexivity|constructor]. Qed.

Definition shape (l : list frame) : Prop := l = [] \/ exists rest, l = CH :: rest /\ AllMsg rest.

Lemma shape_app l out : l <> [] -> shape l -> AllMsg out -> shape (l ++ out).
Proof.
  intros Hne [H|(rest&H&Hr)] Ho; [contradiction|]. right. exists (rest ++ out). rewrite H. split; [reflexivity|].
  apply Forall_app. split; assumption.
Qed.

Lemma app_ne {A} (l out : list A) : l <> [] -> l ++ out <> [].
Proof. destruct l; [contradiction|discriminate]. Qed.

Lemma out_msg_all m s : AllMsg (out_msg m s).
Proof.
  destruct m; unfold out_msg, out_term, rej;
    repeat match goal with |- context [if ?c then _ else _] => destruct c
                      | |- context [match ?c with _ => _ end] => destruct c end;
    first [apply AllMsg_nil | apply AllMsg_one].
Qed.

Lemma seg_of_all tmp len sz : AllMsg (seg_of tmp len sz).
Proof.
  unfold seg_of. destruct tmp as [[i d]|]; [|apply AllMsg_nil].
  cbv zeta. destruct ((len =? N.of_nat (length d)) && (0 <? len)); [apply AllMsg_nil|apply AllMsg_one].
Qed.

(** What an operation other than a read may send, given the flag invariant. *)
Lemma out_op_guard o s : I2 s ->
  out_op o s = []
  \/ (o = OStart /\ out_op o s = [CH] /\ state s = ST_CONNECTING /\ c_passive (cf s) = false)
  \/ (AllMsg (out_op o s) /\ in_sess s = true).
Proof.
  intros (F1&F2&F3&F4&F5&F6). destruct o; cbn [out_op]; auto.
  - destruct (N.eqb_spec (state s) ST_CONNECTING) as [e|e]; cbn [andb]; auto.
    destruct (c_passive (cf s)); cbn [negb]; auto. right; left. auto.
  - unfold out_term. destruct (in_sess s); cbn [andb]; auto. destruct (in_term s); cbn [negb]; auto.
    right; right. split; [apply AllMsg_one|reflexivity].
  - destruct (0 <? n_pq s)%nat; auto. unfold out_pq.
    destruct (tx_tmp s) as [[i d]|] eqn:Et.
    + right; right. split; [apply seg_of_all|apply F2; congruence].
    + destruct (in_sess s); cbn [andb]; auto. destruct (in_term s); cbn [negb]; auto.
      destruct (pend_start s) as [|[i d] r]; auto. right; right. split; [apply seg_of_all|reflexivity].
  - destruct (ka_due s) as [due|] eqn:Ek; auto. destruct (due <=? now s); auto.
    right; right. split; [apply AllMsg_one|]. apply F3, F4. congruence.
  - destruct (idle_due s) as [due|]; auto. destruct (due <=? now s); auto.
    unfold out_term. destruct (in_sess s); cbn [andb]; auto. destruct (in_term s); cbn [negb]; auto.
    right; right. split; [apply AllMsg_one|reflexivity].
Qed.

Definition CF (s : ep) : Prop :=
  shape (sent s)
  /\ (c_passive (cf s) = true -> in_conn s = false -> sent s = [])
  /\ (c_passive (cf s) = false -> state s = ST_CONNECTING -> sent s = [])
  /\ (in_conn s = true -> sent s <> [])
  /\ (conhead_this s <> None -> sent s <> []).

Lemma CF_recv_msg m s : CF s -> in_conn s = true -> CF (fst (recv_frame (FMsg m) s)).
Proof.
  intros (C1&C2&C3&C4&C5) Hk. unfold CF.
  rewrite sent_recv_msg, cf_recv_frame, in_conn_recv_msg, conhead_this_recv_msg.
  pose proof (C4 Hk) as Hne. repeat split.
  - apply shape_app; [exact Hne|exact C1|apply out_msg_all].
  - intros _ H. congruence.
  - intros Ha H. apply state_recv_frame in H. elim Hne. auto.
  - intros _. apply app_ne, Hne.
  - intros _. apply app_ne, Hne.
Qed.

Lemma CF_recv_contact c s : CF s -> in_conn s = false -> CF (fst (recv_frame (FContact c) s)).
Proof.
  intros (C1&C2&C3&C4&C5) Hk. unfold CF.
  rewrite sent_recv_contact, cf_recv_frame, in_conn_recv_contact, conhead_this_recv_contact, Hk.
  cbn [orb]. unfold out_contact, ch_proceed.
  destruct (c_passive (cf s)) eqn:Hp.
  - (* passive *)
    pose proof (C2 eq_refl Hk) as He. rewrite He. cbn [orb negb andb app]. rewrite !andb_false_r, andb_true_r.
    destruct (contact_ok c); cbn [app andb].
    + repeat split; try discriminate; try congruence. right. exists []. split; [reflexivity|apply AllMsg_nil].
    + repeat split; try discriminate; try congruence; auto.
      intros H. elim (C5 H). exact He.
  - (* active *)
    cbn [orb negb andb app]. rewrite !andb_true_r, andb_false_r.
    destruct (contact_ok c); cbn [andb app].
    2: { rewrite app_nil_r. repeat split; auto; try discriminate.
         intros _ H. apply state_recv_frame in H. auto. }
    destruct (conhead_this s) as [x|] eqn:Ec.
    + assert (Hne : sent s <> []) by (apply C5; discriminate).
      cbn [andb]. repeat split; try discriminate.
      * apply shape_app; [exact Hne|exact C1|]. destruct (negb (tls_close s)); [apply AllMsg_one|apply AllMsg_nil].
      * intros _ H. apply state_recv_frame in H. elim Hne. auto.
      * intros _. apply app_ne, Hne.
      * intros _. apply app_ne, Hne.
    + cbn [andb app]. rewrite app_nil_r. repeat split; auto; try discriminate.
      intros _ H. apply state_recv_frame in H. auto.
Qed.

Lemma CF_step_o o s : I2 s -> CF s -> closed s = false -> not_rx o = true -> CF (step s o).
Proof.
  intros HI (C1&C2&C3&C4&C5) Hc Ho. unfold CF.
  rewrite (sent_step o s Hc Ho), (cf_step_o o s Ho), (in_conn_step_o o s Ho).
  destruct (out_op_guard o s HI) as [He|[(Hs&He&Hst&Ha)|(Hall&Hsess)]].
  - rewrite He, app_nil_r. repeat split; auto.
    + intros Hp H. apply (state_step_o o s Ho) in H. auto.
    + intros H. destruct (conhead_this_step_o o s Ho) as [e|[_ e]]; [rewrite e in H; auto|].
      rewrite He in e. discriminate.
  - subst o. rewrite He. pose proof (C3 Ha Hst) as Hnil. rewrite Hnil. cbn [app].
    repeat split; try discriminate.
    + right. exists []. split; [reflexivity|apply AllMsg_nil].
    + intros Hp. congruence.
    + intros _ H. exfalso. revert H. apply state_step_start; [exact Hc|]. rewrite He. discriminate.
  - destruct HI as (F1&_). pose proof (C4 (F1 Hsess)) as Hne. repeat split.
    + apply shape_app; assumption.
    + intros _ H. rewrite (F1 Hsess) in H. discriminate.
    + intros Ha H. apply (state_step_o o s Ho) in H. elim Hne. auto.
    + intros _. apply app_ne, Hne.
    + intros _. apply app_ne, Hne.
Qed.

Definition I2CF (s : ep) : Prop := I2 s /\ CF s.

Lemma I2CF_step s o : I2CF s -> I2CF (step s o).
Proof.
  revert s o. apply (step_inv I2CF).
  - intros s dt H. exact H.
  - intros s o [H1 H2] Hc Ho. split; [apply I2_step_o | apply CF_step_o]; assumption.
  - intros s fr rest [H1 H2] Hc Hk. split; [apply I2_recv_frame; [exact H1|exact Hk]|].
    destruct fr as [c|m]; [apply CF_recv_contact | apply CF_recv_msg]; first [exact H2 | exact Hk].
  - intros s b i t H. exact H.
  - intros s k H. exact H.
Qed.

Theorem CF_run c ops : CF (run c ops).
Proof.
  apply (run_invariant I2CF); [|intros s o; apply I2CF_step].
  split; [|unfold CF, shape, init; cbn; repeat split; auto; intros; congruence].
  unfold I2, init. cbn. repeat split; intros; try discriminate; try congruence.
Qed.

(** (2a) Exactly one contact header, and it comes first. *)
Theorem contact_first c ops : let s := run c ops in
  sent s = [] \/ exists rest, sent s = FContact (mkContact MAGIC 4 0) :: rest
                               /\ Forall (fun f => exists m, f = FMsg m) rest.
Proof. cbv zeta. destruct (CF_run c ops) as (H&_). exact H. Qed.

(** The same in the form used by the channel lemma of C07. *)
Theorem contact_first_map c ops : let s := run c ops in
  sent s = [] \/ exists h ms, sent s = FContact h :: map FMsg ms.
Proof.
  cbv zeta. destruct (contact_first c ops) as [H|(rest&H&Hr)]; [left; exact H|right].
  destruct (AllMsg_map rest Hr) as [ms Hms]. exists (mkContact MAGIC 4 0), ms. rewrite H, Hms. reflexivity.
Qed.

(** * (2b) At most one SESS_TERM *)

Definition nterm (l : list frame) : nat := length (filter is_sess_term l).

Lemma nterm_app a b : nterm (a ++ b) = (nterm a + nterm b)%nat.
Proof. unfold nterm. rewrite filter_app, app_length. reflexivity. Qed.

Lemma nterm_out_msg m s :
  nterm (out_msg m s) = if is_term m && in_sess s && negb (in_term s) then 1%nat else 0%nat.
Proof.
  destruct m; unfold out_msg, out_term, rej, is_term; cbn [andb];
    destruct (in_sess s), (in_term s); cbn [andb negb];
    repeat match goal with |- context [if ?c then _ else _] => destruct c
                      | |- context [match ?c with _ => _ end] => destruct c end;
    reflexivity.
Qed.

Lemma nterm_out_contact c s : nterm (out_contact c s) = 0%nat.
Proof.
  unfold out_contact. repeat match goal with |- context [if ?c then _ else _] => destruct c end; reflexivity.
Qed.

Lemma nterm_seg_of tmp len sz : nterm (seg_of tmp len sz) = 0%nat.
Proof.
  unfold seg_of. destruct tmp as [[i d]|]; [|reflexivity]. cbv zeta.
  destruct ((len =? N.of_nat (length d)) && (0 <? len)); reflexivity.
Qed.

Lemma existsb_seg_of tmp len sz : existsb is_sess_term (seg_of tmp len sz) = false.
Proof.
  unfold seg_of. destruct tmp as [[i d]|]; [|reflexivity]. cbv zeta.
  destruct ((len =? N.of_nat (length d)) && (0 <? len)); reflexivity.
Qed.

Lemma nterm_out_op o s :
  nterm (out_op o s) = (if existsb is_sess_term (out_op o s) then 1%nat else 0%nat)
  /\ (existsb is_sess_term (out_op o s) = true -> in_term s = false).
Proof.
  destruct o; cbn [out_op]; try (split; [reflexivity|discriminate]).
  - destruct ((state s =? ST_CONNECTING) && negb (c_passive (cf s))); split; try reflexivity; discriminate.
  - unfold out_term. destruct (in_sess s), (in_term s); cbn; split; try reflexivity; try discriminate.
  - destruct (0 <? n_pq s)%nat; [|split; [reflexivity|discriminate]]. unfold out_pq.
    destruct (tx_tmp s) as [p|].
    { rewrite nterm_seg_of, existsb_seg_of. split; [reflexivity|discriminate]. }
    destruct (in_sess s && negb (in_term s)); [|split; [reflexivity|discriminate]].
    destruct (pend_start s) as [|[i d] r]; [split; [reflexivity|discriminate]|].
    rewrite nterm_seg_of, existsb_seg_of. split; [reflexivity|discriminate].
  - destruct (ka_due s) as [due|]; [|split; [reflexivity|discriminate]].
    destruct (due <=? now s); split; try reflexivity; discriminate.
  - destruct (idle_due s) as [due|]; [|split; [reflexivity|discriminate]].
    destruct (due <=? now s); [|split; [reflexivity|discriminate]].
    unfold out_term. destruct (in_sess s), (in_term s); cbn; split; try reflexivity; try discriminate.
Qed.

Definition TC (s : ep) : Prop := nterm (sent s) = if in_term s then 1%nat else 0%nat.

Lemma TC_recv_frame fr s : TC s -> I2 s -> TC (fst (recv_frame fr s)).
Proof.
  unfold TC. intros H (_&_&_&_&F5&_). destruct fr as [c|m].
  - rewrite sent_recv_contact, in_term_recv_contact, nterm_app, nterm_out_contact, H. lia.
  - rewrite sent_recv_msg, in_term_recv_msg, nterm_app, nterm_out_msg, H.
    destruct (in_term s) eqn:Et; [rewrite (F5 eq_refl)|]; destruct (is_term m), (in_sess s); cbn; reflexivity.
Qed.

Lemma TC_step_o o s : TC s -> closed s = false -> not_rx o = true -> TC (step s o).
Proof.
  unfold TC. intros H Hc Ho. rewrite (sent_step o s Hc Ho), (in_term_step_o o s Hc Ho), nterm_app, H.
  destruct (nterm_out_op o s) as [Hn Hx]. rewrite Hn.
  destruct (existsb is_sess_term (out_op o s)); [rewrite (Hx eq_refl)|rewrite orb_false_r]; cbn; [reflexivity|].
  destruct (in_term s); reflexivity.
Qed.

Definition I2TC (s : ep) : Prop := I2 s /\ TC s.

Lemma I2TC_step s o : I2TC s -> I2TC (step s o).
Proof.
  revert s o. apply (step_inv I2TC).
  - intros s dt H. exact H.
  - intros s o [H1 H2] Hc Ho. split; [apply I2_step_o | apply TC_step_o]; assumption.
  - intros s fr rest [H1 H2] Hc Hk. split; [apply I2_recv_frame; [exact H1|exact Hk]|].
    apply TC_recv_frame; [exact H2|exact H1].
  - intros s b i t H. exact H.
  - intros s k H. exact H.
Qed.

Theorem TC_run c ops : TC (run c ops).
Proof.
  apply (run_invariant I2TC); [|intros s o; apply I2TC_step].
  split; [|reflexivity].
  unfold I2, init. cbn. repeat split; intros; try discriminate; try congruence.
Qed.

(** (2b) At most one SESS_TERM is ever sent, and [in_term] says whether one was. *)
Theorem sess_term_once c ops : let s := run c ops in
  (length (filter is_sess_term (sent s)) <= 1)%nat
  /\ (in_term s = true <-> exists fl r, In (FMsg (MSessTerm fl r)) (sent s)).
Proof.
  cbv zeta. pose proof (TC_run c ops) as H. unfold TC, nterm in H. split.
  - rewrite H. destruct (in_term (run c ops)); lia.
  - split.
    + intros Ht. rewrite Ht in H.
      destruct (filter is_sess_term (sent (run c ops))) as [|f l] eqn:Ef; [discriminate|].
      assert (Hin : In f (filter is_sess_term (sent (run c ops)))) by (rewrite Ef; left; reflexivity).
      apply filter_In in Hin. destruct Hin as [Hin Hf].
      destruct f as [h|[]]; try discriminate Hf. eauto.
    + intros (fl&r&Hin). destruct (in_term (run c ops)); [reflexivity|].
      assert (Hf : In (FMsg (MSessTerm fl r)) (filter is_sess_term (sent (run c ops)))).
      { apply filter_In. split; [exact Hin|reflexivity]. }
      destruct (filter is_sess_term (sent (run c ops))); [contradiction|discriminate].
Qed.
