(* C15 -- proofs about the GENERATED definitions of Gen/TlsPolicy.v against the
   specification Model/TlsSpec.v.  Everything here is re-checked against what
   session.py says now (the Gen file is regenerated on every run). *)
From Coq Require Import List NArith Bool Lia.
Import ListNotations.
From DTN Require Import Gen.TlsPolicy Model.TlsSpec.

(* ------------------------------------------------------------------ use of TLS *)

Lemma bit0_test : forall f : N, negb (N.eqb (N.land f 1) 0) = N.testbit f 0.
Proof. intros [|[p|p|]]; reflexivity. Qed.

(* for ALL values of the two flags octets (reserved bits included) *)
Lemma tls_attempt_bits : forall this_flags peer_flags : N,
  tls_attempt this_flags peer_flags = offers_tls this_flags && offers_tls peer_flags.
Proof.
  intros a b. unfold tls_attempt, can_tls_bit, offers_tls. cbv zeta. rewrite !bit0_test. reflexivity.
Qed.

Lemma tls_iff_both : forall this_flags peer_flags : N,
  tls_attempt this_flags peer_flags = true <-> (N.testbit this_flags 0 = true /\ N.testbit peer_flags 0 = true).
Proof. intros a b. rewrite tls_attempt_bits. unfold offers_tls. apply andb_true_iff. Qed.

Lemma require_tls_never_clear : forall attempt ok s,
  contact_outcome (Some true) attempt ok = Proceed s -> s = true.
Proof. intros [] [] s; cbv; congruence. Qed.

Lemma forbid_tls_never_secured : forall attempt ok s,
  contact_outcome (Some false) attempt ok = Proceed s -> s = false.
Proof. intros [] [] s; cbv; congruence. Qed.

Lemma secured_only_by_handshake : forall req attempt ok,
  contact_outcome req attempt ok = Proceed true -> attempt = true /\ ok = true.
Proof. intros [[]|] [] []; cbv; intuition congruence. Qed.

Lemma no_sessinit_unless_policy : forall req (this_flags peer_flags : N) ok s,
  contact_outcome req (tls_attempt this_flags peer_flags) ok = Proceed s ->
  tls_use_ok req (offers_tls this_flags) (offers_tls peer_flags) s.
Proof.
  intros req a b ok s. rewrite tls_attempt_bits.
  destruct req as [[]|]; destruct (offers_tls a); destruct (offers_tls b); destruct ok;
    cbv; intros H; inversion H; auto.
Qed.

(* the contact step never stalls: it closes exactly in the cases below *)
Lemma contact_closed_iff : forall req attempt ok,
  contact_outcome req attempt ok = Closed <->
  ((exists r, req = Some r /\ r <> attempt) \/ (attempt = true /\ ok = false)).
Proof.
  intros [[]|] [] []; cbv; split; intros H;
    try discriminate; try reflexivity;
    try (left; eexists; split; [reflexivity|discriminate]);
    try (right; split; reflexivity);
    try (destruct H as [[r [E N]]|[A B]]; try discriminate; inversion E; subst; congruence).
Qed.

(* ------------------------------------------------------------------ match_id *)

Lemma memb_In : forall r l, existsb (N.eqb r) l = true <-> In r l.
Proof.
  intros r l. rewrite existsb_exists. split.
  - intros [x [H E]]. apply N.eqb_eq in E. subst. exact H.
  - intros H. exists r. split; [exact H | apply N.eqb_refl].
Qed.

Lemma memb_nIn : forall r l, existsb (N.eqb r) l = false <-> ~ In r l.
Proof.
  intros r l. rewrite <- memb_In. destruct (existsb (N.eqb r) l); intuition congruence.
Qed.

Inductive match_spec (ref : option N) (ids : list N) : mres -> Prop :=
| MS_absent : ids = [] -> match_spec ref ids Absent
| MS_matched : forall r, ref = Some r -> ids <> [] -> In r ids -> match_spec ref ids Matched
| MS_mismatch : ids <> [] -> (forall r, ref = Some r -> ~ In r ids) -> match_spec ref ids Mismatch.

Lemma match_idP : forall ref ids, match_spec ref ids (match_id ref ids).
Proof.
  intros ref ids. unfold match_id.
  destruct ids as [|x xs]; cbn [nonempty].
  - apply MS_absent. reflexivity.
  - destruct ref as [r|]; cbn [id_in ret_ref].
    + destruct (existsb (N.eqb r) (x :: xs)) eqn:E.
      * apply MS_matched with r; [reflexivity | discriminate | apply memb_In; exact E].
      * apply MS_mismatch; [discriminate|]. intros r' H. inversion H; subst. apply memb_nIn. exact E.
    + apply MS_mismatch; [discriminate|]. intros r' H. discriminate.
Qed.

Lemma not_mismatch_consistent : forall ref ids,
  is_mismatch (match_id ref ids) = false -> kind_consistent ref ids.
Proof.
  intros ref ids H r Er Ne.
  destruct (match_idP ref ids) as [E|r' Er' N I|N M].
  - contradiction.
  - rewrite Er in Er'. inversion Er'; subst. exact I.
  - discriminate H.
Qed.

(* ------------------------------------------------------------------ authentication *)

(* the DNS reference of the code, as far as it is truthy, is the DNS name the endpoint knows *)
Lemma dns_reference : forall passive peer_name peer_addr,
  known_dns_name passive peer_name peer_addr =
  (if optid_truthy (peer_dnsid passive peer_name peer_addr) then peer_dnsid passive peer_name peer_addr else None).
Proof.
  intros [] n a; unfold peer_dnsid, known_dns_name, optid_truthy, id_truthy, TlsPolicy.empty_id, TlsSpec.empty_id;
    try reflexivity.
  destruct (N.eqb n a); [reflexivity|]. destruct (N.eqb n 0); reflexivity.
Qed.

Lemma dns_reference_some : forall passive peer_name peer_addr d,
  known_dns_name passive peer_name peer_addr = Some d <->
  (peer_dnsid passive peer_name peer_addr = Some d /\ d <> TlsSpec.empty_id).
Proof.
  intros p n a d. rewrite dns_reference.
  destruct (peer_dnsid p n a) as [x|]; cbn [optid_truthy]; [|split; [discriminate|intros [H _]; discriminate]].
  unfold id_truthy, TlsPolicy.empty_id, TlsSpec.empty_id.
  destruct (N.eqb x 0) eqn:E; cbn [negb].
  - apply N.eqb_eq in E. subst x. split; [discriminate|]. intros [H N]. inversion H; subst. contradiction.
  - apply N.eqb_neq in E. split.
    + intros H. inversion H; subst. split; [reflexivity|exact E].
    + intros [H _]. exact H.
Qed.

Lemma nil_dec : forall (A : Type) (l : list A), l = [] \/ l <> [].
Proof. intros A [|x xs]; [left; reflexivity | right; discriminate]. Qed.

Section Authn.
  Variables (passive : bool) (peer_name peer_addr node : N) (ips dnss uris : list N).
  Variables (rh rn : bool).

  (* [dns]: what the specification calls the peer's DNS name; [cdns]: the reference the code passes to match_id *)
  Let dns := known_dns_name passive peer_name peer_addr.
  Let cdns := peer_dnsid passive peer_name peer_addr.
  Let refuses := authn_refuses passive peer_name peer_addr node ips dnss uris rh rn.

  Lemma dns_cases : (optid_truthy cdns = true /\ dns = cdns) \/ (optid_truthy cdns = false /\ dns = None).
  Proof.
    unfold dns. rewrite dns_reference. fold cdns. destruct (optid_truthy cdns); [left|right]; split; reflexivity.
  Qed.

  (* the refusal decision in terms of the three match results *)
  Lemma refuses_unfold :
    refuses =
    (let ai := match_id (Some peer_addr) ips in
     let ad := match_id cdns dnss in
     let an := match_id (Some node) uris in
     ((true && is_mismatch ai) || (optid_truthy cdns && is_mismatch ad) || is_mismatch an)
     || (negb (is_matched ai && true) && negb (is_matched ad && optid_truthy cdns) && rh) || (is_absent an && rn)).
  Proof. reflexivity. Qed.

  Lemma authn_no_contradiction :
    refuses = false -> no_contradiction peer_addr dns node ips dnss uris.
  Proof.
    rewrite refuses_unfold. cbv zeta. intros H.
    rewrite !orb_false_iff in H. destruct H as [[[[Hi Hd] Hn] _] _].
    cbn [andb] in Hi.
    repeat split.
    - apply not_mismatch_consistent. exact Hi.
    - destruct dns_cases as [[T E]|[T E]]; rewrite E.
      + rewrite T in Hd. cbn [andb] in Hd. apply not_mismatch_consistent. exact Hd.
      + intros r Er. discriminate.
    - apply not_mismatch_consistent. exact Hn.
  Qed.

  Lemma authn_node :
    refuses = false -> rn = true -> In node uris.
  Proof.
    rewrite refuses_unfold. cbv zeta. intros H R. subst rn.
    destruct (match_idP (Some node) uris) as [En|rn' Ern Nn In'|Nn Mn].
    - rewrite !orb_false_iff in H. destruct H as [_ H]. cbn in H. discriminate.
    - inversion Ern; subst. assumption.
    - rewrite !orb_false_iff in H. destruct H as [[[_ H] _] _]. cbn in H. discriminate.
  Qed.

  (* host clause: required => an IP or DNS identifier of the certificate actually matched *)
  Lemma authn_host :
    refuses = false -> rh = true -> host_authenticated peer_addr dns ips dnss.
  Proof.
    rewrite refuses_unfold. cbv zeta. intros H R. subst rh.
    rewrite !orb_false_iff in H. destruct H as [[_ H] _].
    rewrite !andb_true_r in H.
    unfold host_authenticated.
    destruct (match_idP (Some peer_addr) ips) as [Ei|ri Eri Ni Ii|Ni Mi].
    - destruct dns_cases as [[T E]|[T E]]; rewrite T in H; rewrite E;
        destruct (match_idP cdns dnss) as [Ed|rd Erd Nd Id|Nd Md]; cbn in H; try discriminate.
      right. exists rd. split; assumption.
    - left. inversion Eri; subst. assumption.
    - destruct dns_cases as [[T E]|[T E]]; rewrite T in H; rewrite E;
        destruct (match_idP cdns dnss) as [Ed|rd Erd Nd Id|Nd Md]; cbn in H; try discriminate.
      right. exists rd. split; assumption.
  Qed.

  (* the full statement *)
  Lemma authn_sound :
    refuses = false -> policy_ok peer_addr dns node ips dnss uris rh rn.
  Proof.
    intros H. unfold policy_ok. split; [apply authn_no_contradiction; exact H|]. split.
    - apply authn_host. exact H.
    - apply authn_node. exact H.
  Qed.

  (* no over-refusal: whatever the policy allows is accepted *)
  Lemma authn_complete :
    policy_ok peer_addr dns node ips dnss uris rh rn -> refuses = false.
  Proof.
    intros [[Ci [Cd Cn]] [Hh Hn]]. rewrite refuses_unfold. cbv zeta.
    unfold kind_consistent in *.
    assert (Xi : is_mismatch (match_id (Some peer_addr) ips) = false).
    { destruct (match_idP (Some peer_addr) ips) as [E|r Er N I|N M]; try reflexivity.
      exfalso. apply (M peer_addr eq_refl). apply Ci; [reflexivity|exact N]. }
    assert (Xn : is_mismatch (match_id (Some node) uris) = false).
    { destruct (match_idP (Some node) uris) as [E|r Er N I|N M]; try reflexivity.
      exfalso. apply (M node eq_refl). apply Cn; [reflexivity|exact N]. }
    assert (Xd : optid_truthy cdns && is_mismatch (match_id cdns dnss) = false).
    { destruct dns_cases as [[T E]|[T E]]; rewrite T; [|reflexivity]. cbn [andb].
      destruct (match_idP cdns dnss) as [E'|r Er N I|N M]; try reflexivity.
      exfalso. destruct cdns as [d|] eqn:Ec; [|discriminate T].
      apply (M d eq_refl). apply Cd; [exact E|exact N]. }
    assert (Xh : negb (is_matched (match_id (Some peer_addr) ips) && true)
                 && negb (is_matched (match_id cdns dnss) && optid_truthy cdns) && rh = false).
    { destruct rh; [|apply andb_false_r]. rewrite !andb_true_r.
      destruct (Hh eq_refl) as [I|[d [Ed I]]].
      - destruct (match_idP (Some peer_addr) ips) as [E|r Er N I'|N M]; try reflexivity.
        + exfalso. rewrite E in I. destruct I.
        + exfalso. apply (M peer_addr eq_refl). exact I.
      - apply andb_false_iff. right.
        destruct dns_cases as [[T E]|[T E]]; [|rewrite E in Ed; discriminate].
        rewrite T, andb_true_r. rewrite E in Ed.
        destruct (match_idP cdns dnss) as [E'|r Er N I'|N M]; try reflexivity.
        + exfalso. rewrite E' in I. destruct I.
        + exfalso. apply (M d Ed). exact I. }
    assert (Xu : is_absent (match_id (Some node) uris) && rn = false).
    { destruct rn; [|apply andb_false_r]. rewrite andb_true_r.
      specialize (Hn eq_refl). unfold node_authenticated in Hn.
      destruct (match_idP (Some node) uris) as [E|r Er N I'|N M]; try reflexivity.
      exfalso. rewrite E in Hn. destruct Hn. }
    cbn [andb] in *. rewrite Xi, Xd, Xn, Xh, Xu. reflexivity.
  Qed.
End Authn.

(* the computable rendering of the specification agrees with it *)
Lemma policy_okb_ok : forall addr dns node ips dnss uris rh rn,
  policy_okb addr dns node ips dnss uris rh rn = true <-> policy_ok addr dns node ips dnss uris rh rn.
Proof.
  intros addr dns node ips dnss uris rh rn.
  assert (KC : forall ref l, kind_consistentb ref l = true <-> kind_consistent ref l).
  { intros ref l. unfold kind_consistentb, kind_consistent. destruct ref as [r|]; [|split; [intros _ r' H; discriminate|reflexivity]].
    destruct l as [|x xs]; [split; [intros _ r' _ H; contradiction|reflexivity]|].
    unfold memb. rewrite memb_In. split.
    - intros H r' E _. inversion E; subst. exact H.
    - intros H. apply H; [reflexivity|discriminate]. }
  unfold policy_okb, policy_ok, no_contradiction, host_authenticated, node_authenticated, host_authenticatedb.
  rewrite !andb_true_iff, !orb_true_iff, !KC, !negb_true_iff. unfold memb. rewrite !memb_In.
  split.
  - intros [[[[A B] C] D] E]. repeat split; auto.
    + intros R. destruct D as [D|[D|D]]; [congruence|left; exact D|].
      destruct dns as [d|]; [|discriminate]. right. exists d. split; [reflexivity|apply memb_In; exact D].
    + intros R. destruct E as [E|E]; [congruence|exact E].
  - intros [[A [B C]] [D E]]. repeat split; auto.
    + destruct rh; [right|left; reflexivity]. destruct (D eq_refl) as [H|[d [Ed H]]]; [left; exact H|].
      right. subst dns. apply memb_In. exact H.
    + destruct rn; [right; apply E; reflexivity|left; reflexivity].
Qed.
