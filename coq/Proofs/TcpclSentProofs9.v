(** TCPCL endpoint model: (2d) SESS_INIT -- an active endpoint sends exactly one,
    right after its contact header; a passive endpoint sends one per SESS_INIT
    it handles, the first as its first message. *)
From Coq Require Import ZArith NArith List Bool Lia ZifyBool ZifyN ZifyNat Arith.
From RecordUpdate Require Import RecordSet.
From DTN Require Import Lib.Bytes Model.TcpclMsg Model.TcpclSess Proofs.TcpclSessBasics
  Proofs.TcpclSentProofs1 Proofs.TcpclSentProofs2 Proofs.TcpclSentProofs3 Proofs.TcpclSentProofs4
  Proofs.TcpclSentProofs5 Proofs.TcpclSentProofs6 Proofs.TcpclSentProofs7 Proofs.TcpclSentProofs8.
Import ListNotations RecordSetNotations.
Ltac Zify.zify_post_hook ::= Z.div_mod_to_equations.
Local Open Scope N_scope.


(** * (2d) SESS_INIT *)

Definition is_initf (f : frame) : bool := match f with FMsg m => is_init m | _ => false end.
Definition ninit (l : list frame) : nat := length (filter is_initf l).

Lemma ninit_app a b : ninit (a ++ b) = (ninit a + ninit b)%nat.
Proof. unfold ninit. rewrite filter_app, app_length. reflexivity. Qed.

Lemma ninit_out_msg m s : ninit (out_msg m s) = if c_passive (cf s) && is_init m then 1%nat else 0%nat.
Proof.
  destruct m; unfold out_msg, out_term, rej, is_init; rewrite ?andb_false_r, ?andb_true_r;
    repeat match goal with |- context [if ?c then _ else _] => destruct c
                      | |- context [match ?c with _ => _ end] => destruct c end;
    reflexivity.
Qed.

Lemma ninit_seg_of tmp len sz : ninit (seg_of tmp len sz) = 0%nat.
Proof.
  unfold seg_of. destruct tmp as [[i d]|]; [|reflexivity]. cbv zeta.
  destruct ((len =? N.of_nat (length d)) && (0 <? len)); reflexivity.
Qed.

Lemma ninit_out_op o s : ninit (out_op o s) = 0%nat.
Proof.
  destruct o; cbn [out_op]; try reflexivity.
  - destruct ((state s =? ST_CONNECTING) && negb (c_passive (cf s))); reflexivity.
  - unfold out_term. destruct (in_sess s && negb (in_term s)); reflexivity.
  - destruct (0 <? n_pq s)%nat; [|reflexivity]. unfold out_pq.
    destruct (tx_tmp s); [apply ninit_seg_of|].
    destruct (in_sess s && negb (in_term s)); [|reflexivity].
    destruct (pend_start s) as [|[i d] r]; [reflexivity|apply ninit_seg_of].
  - destruct (ka_due s) as [due|]; [|reflexivity]. destruct (due <=? now s); reflexivity.
  - destruct (idle_due s) as [due|]; [|reflexivity]. destruct (due <=? now s); [|reflexivity].
    unfold out_term. destruct (in_sess s && negb (in_term s)); reflexivity.
Qed.

(** ** Active endpoints *)

Definition DA (s : ep) : Prop :=
  c_passive (cf s) = false ->
  ((length (sent s) <= 1)%nat /\ (in_conn s = false \/ closed s = true))
  \/ (exists f1 i rest, sent s = f1 :: FMsg i :: rest /\ is_init i = true /\ ninit rest = 0%nat
                        /\ in_conn s = true).

Lemma DA_recv_msg m s : DA s -> in_conn s = true -> closed s = false -> DA (fst (recv_frame (FMsg m) s)).
Proof.
  intros H Hk Hc. unfold DA. rewrite cf_recv_frame, sent_recv_msg, in_conn_recv_msg. intros Ha.
  destruct (H Ha) as [[_ [e|e]]|(f1&i&rest&E&Hi&Hn&Hin)]; try congruence.
  right. exists f1, i, (rest ++ out_msg m s). rewrite E. split; [reflexivity|]. split; [exact Hi|].
  split; [|exact Hk]. rewrite ninit_app, Hn, ninit_out_msg, Ha. reflexivity.
Qed.

Lemma DA_recv_contact c s : CF s -> DA s -> in_conn s = false -> DA (fst (recv_frame (FContact c) s)).
Proof.
  intros (_&_&_&_&C5) H Hk. unfold DA.
  rewrite cf_recv_frame, sent_recv_contact, in_conn_recv_contact, closed_recv_contact, Hk. intros Ha.
  destruct (H Ha) as [[Hl _]|(f1&i&rest&E&Hi&Hn&Hin)]; [|congruence].
  unfold out_contact. rewrite Ha. cbn [orb negb app]. rewrite andb_true_r.
  destruct (contact_ok c) eqn:Hok.
  2: { left. rewrite app_nil_r. split; [exact Hl|]. right. rewrite orb_true_r. reflexivity. }
  cbn [negb]. rewrite orb_false_r.
  destruct (ch_proceed c s) eqn:Hp; cbn [andb].
  2: { left. rewrite app_nil_r. split; [exact Hl|]. left. reflexivity. }
  destruct (tls_close s); cbn [negb].
  { left. rewrite app_nil_r. split; [exact Hl|]. right. rewrite orb_true_r. reflexivity. }
  right. unfold ch_proceed in Hp. rewrite Hok, Ha in Hp. cbn in Hp.
  assert (Hne : sent s <> []) by (apply C5; destruct (conhead_this s); [discriminate|discriminate]).
  destruct (sent s) as [|f1 [|f2 r]]; [contradiction| |cbn in Hl; lia].
  exists f1, (sess_init_msg (cf s)), []. repeat split; reflexivity.
Qed.

Lemma DA_step_o o s : I2 s -> CF s -> DA s -> closed s = false -> not_rx o = true -> DA (step s o).
Proof.
  intros HI (_&_&C3&C4&_) H Hc Ho. unfold DA.
  rewrite (cf_step_o o s Ho), (sent_step o s Hc Ho), (in_conn_step_o o s Ho). intros Ha.
  destruct (out_op_guard o s HI) as [He|[(Hs&He&Hst&_)|(Hall&Hsess)]].
  - rewrite He, app_nil_r. destruct (H Ha) as [[Hl [e|e]]|X]; [left; auto|congruence|right; exact X].
  - rewrite He, (C3 Ha Hst). destruct (H Ha) as [[Hl [e|e]]|(f1&i&rest&E&_)]; [|congruence|].
    + left. split; [cbn; lia|left; exact e].
    + rewrite (C3 Ha Hst) in E. discriminate.
  - destruct HI as (F1&_). pose proof (F1 Hsess) as Hin.
    destruct (H Ha) as [[Hl [e|e]]|(f1&i&rest&E&Hi&Hn&_)]; try congruence.
    right. exists f1, i, (rest ++ out_op o s). rewrite E. split; [reflexivity|]. split; [exact Hi|].
    split; [|exact Hin]. rewrite ninit_app, Hn, ninit_out_op. reflexivity.
Qed.

Definition InvA (s : ep) : Prop := I2 s /\ CF s /\ DA s.

Lemma InvA_step s o : InvA s -> InvA (step s o).
Proof.
  revert s o. apply (step_inv InvA).
  - intros s dt H. exact H.
  - intros s o (H1&H2&H3) Hc Ho. split; [apply I2_step_o; assumption|].
    split; [apply CF_step_o; assumption | apply DA_step_o; assumption].
  - intros s fr rest (H1&H2&H3) Hc Hk. split; [apply I2_recv_frame; [exact H1|exact Hk]|].
    destruct fr as [c|m]; cbn [kind_ok] in Hk.
    + split; [apply CF_recv_contact; [exact H2|exact Hk] | apply DA_recv_contact; [exact H2|exact H3|exact Hk]].
    + split; [apply CF_recv_msg; [exact H2|exact Hk] | apply DA_recv_msg; [exact H3|exact Hk|exact Hc]].
  - intros s b i t H. exact H.
  - intros s k H. exact H.
Qed.

Lemma InvA_run c ops : InvA (run c ops).
Proof.
  apply (run_invariant InvA); [|intros s o; apply InvA_step].
  split; [|split].
  - unfold I2, init. cbn. repeat split; intros; try discriminate; try congruence.
  - unfold CF, shape, init; cbn; repeat split; auto; intros; congruence.
  - intros _. left. cbn. split; [lia|left; reflexivity].
Qed.

(** An active endpoint sends exactly one SESS_INIT, immediately after its
    contact header, whatever the peer does. *)
Theorem sess_init_active c ops : c_passive c = false -> let s := run c ops in
  (length (filter is_initf (sent s)) <= 1)%nat
  /\ (forall f1 f2 rest, sent s = f1 :: f2 :: rest ->
        exists ka mru xm nid ext, f2 = FMsg (MSessInit ka mru xm nid ext))
  /\ (forall f1 f2 rest, sent s = f1 :: f2 :: rest -> length (filter is_initf rest) = 0%nat).
Proof.
  intros Ha. cbv zeta. destruct (InvA_run c ops) as (_&(C1&_)&HD).
  unfold DA in HD. rewrite cf_run in HD. specialize (HD Ha).
  destruct HD as [[Hl _]|(f1&i&rest&E&Hi&Hn&_)].
  - split; [|split; intros f1 f2 rest E; rewrite E in Hl; cbn in Hl; lia].
    destruct (sent (run c ops)) as [|f [|g r]]; [cbn; lia| |cbn in Hl; lia].
    destruct C1 as [C1|(r&C1&_)]; [discriminate|]. inversion C1. cbn. lia.
  - rewrite E. destruct C1 as [C1|(r&C1&_)]; [rewrite E in C1; discriminate|].
    rewrite E in C1. inversion C1. subst f1. split; [|split].
    + change (ninit (CH :: FMsg i :: rest) <= 1)%nat. unfold ninit in *. cbn [filter is_initf CH]. rewrite Hi. cbn [length].
      fold (ninit rest). unfold ninit. rewrite Hn. lia.
    + intros g1 g2 r' E'. inversion E'. subst. destruct i; try discriminate Hi. eauto 6.
    + intros g1 g2 r' E'. inversion E'. subst. exact Hn.
Qed.

(** ** Passive endpoints *)

Lemma ninit_out_contact_passive c s : c_passive (cf s) = true -> ninit (out_contact c s) = 0%nat.
Proof.
  intros Hp. unfold out_contact. rewrite Hp. cbn [negb]. rewrite andb_false_r.
  destruct (contact_ok c); reflexivity.
Qed.

Lemma length_out_contact_passive c s : c_passive (cf s) = true -> (length (out_contact c s) <= 1)%nat.
Proof.
  intros Hp. unfold out_contact. rewrite Hp. cbn [negb]. rewrite andb_false_r.
  destruct (contact_ok c); cbn; lia.
Qed.

(** One SESS_INIT sent per SESS_INIT handled. *)
Definition P1 (s : ep) : Prop := c_passive (cf s) = true -> ninit (sent s) = ninit (handled s).

(** The first message sent answers the first message handled, if that is a SESS_INIT. *)
Definition Q (s : ep) : Prop :=
  c_passive (cf s) = true ->
  match handled s with
  | [] => in_conn s = false
  | [_] => (length (sent s) <= 1)%nat /\ in_sess s = false
  | _ :: FMsg m :: _ =>
      is_init m = true -> exists f1 i rest, sent s = f1 :: FMsg i :: rest /\ is_init i = true
  | _ => True
  end.

Lemma P1_recv_frame fr s rest : P1 s ->
  P1 (fst (recv_frame fr (s <| rx_buf := rest |> <| handled := handled s ++ [fr] |>))).
Proof.
  unfold P1. rewrite cf_recv_frame, handled_recv_frame. ep_cbn. intros H Hp.
  rewrite ninit_app. destruct fr as [c|m].
  - rewrite sent_recv_contact. ep_cbn. rewrite ninit_app, ninit_out_contact_passive by exact Hp.
    rewrite (H Hp). reflexivity.
  - rewrite sent_recv_msg. ep_cbn. rewrite ninit_app, ninit_out_msg. ep_cbn. rewrite Hp, (H Hp). cbn [andb].
    f_equal. unfold ninit. cbn [filter is_initf]. destruct (is_init m); reflexivity.
Qed.

Lemma P1_step_o o s : P1 s -> closed s = false -> not_rx o = true -> P1 (step s o).
Proof.
  unfold P1. intros H Hc Ho. rewrite (cf_step_o o s Ho), (sent_step o s Hc Ho), (handled_step_o o s Ho).
  intros Hp. rewrite ninit_app, ninit_out_op, (H Hp). lia.
Qed.

Lemma Q_recv_frame fr s rest : I2 s -> CF s -> Q s -> kind_ok s fr ->
  Q (fst (recv_frame fr (s <| rx_buf := rest |> <| handled := handled s ++ [fr] |>))).
Proof.
  intros (F1&_) (_&C2&_&C4&_) H Hk. unfold Q. rewrite cf_recv_frame, handled_recv_frame. ep_cbn. intros Hp.
  specialize (H Hp). destruct (handled s) as [|c0 [|f2 hs]] eqn:Eh; cbn [app].
  - (* first frame *)
    destruct fr as [c|m]; cbn [kind_ok] in Hk; [|congruence].
    rewrite sent_recv_contact, in_sess_recv_contact. ep_cbn.
    rewrite (C2 Hp Hk). cbn [app]. split; [apply length_out_contact_passive, Hp|].
    destruct (in_sess s) eqn:Es; [|reflexivity]. rewrite (F1 eq_refl) in Hk. discriminate.
  - (* second frame *)
    destruct fr as [c|m]; [exact I|]. cbn [kind_ok] in Hk. intros Hi.
    destruct H as [Hl Hs]. rewrite sent_recv_msg. ep_cbn.
    pose proof (C4 Hk) as Hne. destruct (sent s) as [|f1 [|g r]]; [contradiction| |cbn in Hl; lia].
    destruct m; try discriminate Hi. unfold out_msg. ep_cbn. rewrite Hp. cbn [app].
    exists f1, (sess_init_msg (cf s)), []. split; reflexivity.
  - (* later frames *)
    destruct f2 as [c2|m2]; [exact I|]. intros Hi. destruct (H Hi) as (f1&i&r&E&Hii).
    destruct fr as [c|m].
    + rewrite sent_recv_contact. ep_cbn. rewrite E. cbn [app]. eauto.
    + rewrite sent_recv_msg. ep_cbn. rewrite E. cbn [app]. eauto.
Qed.

Lemma Q_step_o o s : I2 s -> Q s -> closed s = false -> not_rx o = true -> Q (step s o).
Proof.
  intros HI H Hc Ho. unfold Q.
  rewrite (cf_step_o o s Ho), (handled_step_o o s Ho), (sent_step o s Hc Ho), (in_conn_step_o o s Ho),
    (in_sess_step_o o s Ho).
  intros Hp. specialize (H Hp). destruct (handled s) as [|c0 [|f2 hs]]; [exact H| |].
  - destruct H as [Hl Hs]. split; [|exact Hs].
    destruct (out_op_guard o s HI) as [He|[(_&_&_&Ha)|(_&Hsess)]]; [|congruence|congruence].
    rewrite He, app_nil_r. exact Hl.
  - destruct f2 as [c2|m2]; [exact I|]. intros Hi. destruct (H Hi) as (f1&i&r&E&Hii).
    rewrite E. cbn [app]. eauto.
Qed.

Definition InvP (s : ep) : Prop := I2 s /\ CF s /\ P1 s /\ Q s.

Lemma InvP_step s o : InvP s -> InvP (step s o).
Proof.
  revert s o. apply (step_inv InvP).
  - intros s dt H. exact H.
  - intros s o (H1&H2&H3&H4) Hc Ho. split; [apply I2_step_o; assumption|].
    split; [apply CF_step_o; assumption|]. split; [apply P1_step_o; assumption|apply Q_step_o; assumption].
  - intros s fr rest (H1&H2&H3&H4) Hc Hk. split; [apply I2_recv_frame; [exact H1|exact Hk]|].
    split; [destruct fr as [c|m]; [apply CF_recv_contact|apply CF_recv_msg]; first [exact H2|exact Hk]|].
    split; [apply P1_recv_frame; exact H3 | apply Q_recv_frame; assumption].
  - intros s b i t H. exact H.
  - intros s k H. exact H.
Qed.

Lemma InvP_run c ops : InvP (run c ops).
Proof.
  apply (run_invariant InvP); [|intros s o; apply InvP_step].
  split; [|split; [|split]].
  - unfold I2, init. cbn. repeat split; intros; try discriminate; try congruence.
  - unfold CF, shape, init; cbn; repeat split; auto; intros; congruence.
  - intros _. reflexivity.
  - intros _. reflexivity.
Qed.

(** A passive endpoint sends one SESS_INIT per SESS_INIT it handles, and if the
    first message it handles is a SESS_INIT then the first message it sends is
    its SESS_INIT. *)
Theorem sess_init_passive c ops : c_passive c = true -> let s := run c ops in
  length (filter is_initf (sent s)) = length (filter is_initf (handled s))
  /\ (forall c0 ka mru xm nid ext hs, handled s = c0 :: FMsg (MSessInit ka mru xm nid ext) :: hs ->
      exists f1 ka' mru' xm' nid' ext' rest, sent s = f1 :: FMsg (MSessInit ka' mru' xm' nid' ext') :: rest).
Proof.
  intros Hp. cbv zeta. destruct (InvP_run c ops) as (_&_&H1&H2). unfold P1, Q in *. rewrite cf_run in *.
  split; [exact (H1 Hp)|]. intros c0 ka mru xm nid ext hs E. specialize (H2 Hp). rewrite E in H2.
  destruct (H2 eq_refl) as (f1&i&r&Es&Hi). destruct i; try discriminate Hi. eauto 10.
Qed.
