(** Shared infrastructure for the robustness / D-Bus / timer proofs about the
    endpoint model [Model/TcpclSess.v]:
      - "canonical forms" of the small helpers (every [if] on the state pushed
        inside a field value) so that record projections compute by [cbn];
      - an induction principle for the receive loop;
      - elementary run invariants (configuration constant, clock ghosts,
        [handled]/[trace] only grow). *)
From Coq Require Import ZArith NArith List Bool Lia ZifyBool ZifyN ZifyNat Arith.
From RecordUpdate Require Import RecordSet.
From DTN Require Import Lib.Bytes Model.TcpclMsg Model.TcpclSess Proofs.TcpclSessBasics.
Import ListNotations RecordSetNotations.
Local Open Scope N_scope.
Ltac Zify.zify_post_hook ::= Z.div_mod_to_equations.

(** * Canonical forms *)

Definition send_frame' (f : frame) (s : ep) : ep :=
  s <| msg_tx := msg_tx s ++ encode_frame f |> <| sent := sent s ++ [f] |> <| t_send := now s |>
    <| io_set := true |> <| n_io := if io_set s then n_io s else S (n_io s) |>
    <| pend_set := true |> <| n_idle := if pend_set s then n_idle s else S (n_idle s) |>
    <| ka_due := if 0 <? keepalive_time s then Some (now s + keepalive_time s * 1000) else None |>
    <| idle_due := if 0 <? idle_time s then Some (now s + idle_time s * 1000) else None |>.

Lemma send_frame_pr f s : send_frame f s = send_frame' f s.
Proof.
  destruct s; unfold send_frame, send_frame', idle_reset, ka_reset, send_ready; cbn;
  destruct io_set, pend_set; reflexivity.
Qed.

Definition fin_term_ev (it : N * bytes) : event :=
  ESig SigSendFinished [PStrNum (fst it); PInt 0; PStr RES_TERMINATING].

Definition del_all (l : list (N * bytes)) (m : list (N * N)) : list (N * N) :=
  fold_left (fun m (it : N * bytes) => dict_del (fst it) m) l m.

Definition flush_pend_start' (s : ep) : ep :=
  s <| pend_start := [] |>
    <| tx_map := del_all (pend_start s) (tx_map s) |>
    <| trace := trace s ++ map fin_term_ev (pend_start s) |>.

Lemma flush_pend_start_pr s : flush_pend_start s = flush_pend_start' s.
Proof.
  unfold flush_pend_start, flush_pend_start', del_all.
  assert (G : forall l s0,
    fold_left (fun s it => emit (ESig SigSendFinished [PStrNum (fst it); PInt 0; PStr RES_TERMINATING])
                                (s <| tx_map := dict_del (fst it) (tx_map s) |>)) l s0
    = s0 <| tx_map := fold_left (fun m (it : N * bytes) => dict_del (fst it) m) l (tx_map s0) |>
         <| trace := trace s0 ++ map fin_term_ev l |>).
  { induction l as [|it l IH]; intros s0.
    - destruct s0; cbn. rewrite app_nil_r. reflexivity.
    - cbn [fold_left map]. rewrite IH. destruct s0; unfold emit; cbn. rewrite <- app_assoc. reflexivity. }
  rewrite G. destruct s; reflexivity.
Qed.

(** [ContactHandler.close]: a close that actually happens first reports the
    transfers that were never started (as [flush_pend_start]). *)
Definition do_close' (s : ep) : ep :=
  s <| ka_due := None |> <| idle_due := None |>
    <| pend_start := if closed s then pend_start s else [] |>
    <| tx_map := if closed s then tx_map s else del_all (pend_start s) (tx_map s) |>
    <| io_set := if closed s then io_set s else false |>
    <| n_io := if closed s then n_io s else if io_set s then pred (n_io s) else n_io s |>
    <| closed := true |>
    <| trace := if closed s then trace s
                else (trace s ++ map fin_term_ev (pend_start s)) ++ [EClosed] |>.

Lemma do_close_pr s : do_close s = do_close' s.
Proof.
  unfold do_close. cbv zeta. rewrite flush_pend_start_pr.
  destruct s; unfold do_close', flush_pend_start', emit; cbn; destruct closed, io_set; reflexivity.
Qed.

Definition set_state' (st : N) (s : ep) : ep :=
  s <| state := st |>
    <| trace := if state s =? st then trace s else trace s ++ [ESig SigState [PStr st]] |>.

Lemma set_state_pr st s : set_state st s = set_state' st s.
Proof.
  destruct s; unfold set_state, set_state', emit; cbn.
  destruct (N.eqb_spec state st) as [->|]; reflexivity.
Qed.

Definition pq_trigger' (s : ep) : ep :=
  s <| pq_set := true |> <| n_pq := if pq_set s then n_pq s else S (n_pq s) |>.

Lemma pq_trigger_pr s : pq_trigger s = pq_trigger' s.
Proof. destruct s; unfold pq_trigger, pq_trigger'; cbn; destruct pq_set; reflexivity. Qed.

(** [check_sess_term]: closes exactly when terminating and idle.  The condition
    is written as a function of field *values* ([cst6]): in the canonical forms
    no function other than a projection is ever applied to a state, so that
    computing a projection never leaves a compound state term behind. *)
Definition idle6 (rb mt : bytes) (rt tt : option (N * bytes)) (ps : list (N * bytes)) (pa : list N) : bool :=
  is_nil rb && is_nil mt
  && match rt with None => true | Some _ => false end
  && match tt with None => true | Some _ => false end
  && is_nil ps && is_nil pa.
Definition cst6 (it : bool) (rb mt : bytes) (rt tt : option (N * bytes)) (ps : list (N * bytes))
  (pa : list N) : bool := it && idle6 rb mt rt tt ps pa.
Notation cst s :=
  (cst6 (in_term s) (rx_buf s) (msg_tx s) (rx_tmp s) (tx_tmp s) (pend_start s) (pend_ack s)).

Lemma is_sess_idle_eq s :
  is_sess_idle s = idle6 (rx_buf s) (msg_tx s) (rx_tmp s) (tx_tmp s) (pend_start s) (pend_ack s).
Proof. reflexivity. Qed.

Definition check_sess_term' (s : ep) : ep :=
  s <| ka_due := if cst s then None else ka_due s |>
    <| idle_due := if cst s then None else idle_due s |>
    <| io_set := if cst s then (if closed s then io_set s else false) else io_set s |>
    <| n_io := if cst s then (if closed s then n_io s else if io_set s then pred (n_io s) else n_io s)
               else n_io s |>
    <| closed := if cst s then true else closed s |>
    <| trace := if cst s then (if closed s then trace s else trace s ++ [EClosed]) else trace s |>.

Lemma check_sess_term_pr s : check_sess_term s = check_sess_term' s.
Proof.
  unfold check_sess_term, check_sess_term'. rewrite is_sess_idle_eq.
  change (in_term s && idle6 (rx_buf s) (msg_tx s) (rx_tmp s) (tx_tmp s) (pend_start s) (pend_ack s))
    with (cst s).
  destruct (cst s) eqn:E.
  - (* terminating and idle: nothing is left in [pend_start], the flush is void *)
    rewrite do_close_pr.
    assert (Hp : pend_start s = []).
    { unfold cst6, idle6, is_nil in E. destruct (pend_start s); [reflexivity|].
      rewrite !andb_false_r in E. cbn in E. rewrite ?andb_false_r in E. discriminate E. }
    destruct s; cbn in Hp; subst; unfold do_close', del_all; cbn; rewrite app_nil_r;
      destruct closed; reflexivity.
  - destruct s; reflexivity.
Qed.

Arguments encode_frame : simpl never.
Arguments encode_msg : simpl never.
Arguments parse_frame : simpl never.

(** Unfold the thin wrappers ([ep_unf]); switch to the canonical forms (by
    rewriting: only on small goals, i.e. after the case analysis); compute
    every projection ([ep_cbn]). *)
Ltac ep_unf :=
  unfold send_contact_header, send_sess_init, send_msg,
         send_buffer_decreased, emit, ka_reset, idle_reset, ok, raise, escape.
Ltac ep_unf_in H :=
  unfold send_contact_header, send_sess_init, send_msg,
         send_buffer_decreased, emit, ka_reset, idle_reset, ok, raise, escape in H.
Ltac ep_pr :=
  rewrite ?send_frame_pr, ?do_close_pr, ?set_state_pr, ?pq_trigger_pr, ?flush_pend_start_pr,
          ?check_sess_term_pr.
Ltac ep_pr_in H :=
  rewrite ?send_frame_pr, ?do_close_pr, ?set_state_pr, ?pq_trigger_pr, ?flush_pend_start_pr,
          ?check_sess_term_pr in H.
Ltac ep_cbn :=
  cbn [cf now closed rx_alive conn_tx io_set pend_set n_io n_idle state in_conn in_sess in_term
       conhead_this conhead_peer sessinit_this sessinit_peer rx_buf msg_tx keepalive_time idle_time
       ka_due idle_due seg_size next_id pend_start pend_ack tx_map tx_tmp tx_len pq_set n_pq rx_tmp
       rx_map sent handled t_send t_recv wire trace set fst snd
       send_frame' do_close' set_state' pq_trigger' flush_pend_start' check_sess_term' ok raise
       si_keepalive si_seg_mru si_xfer_mru si_nodeid negb].
Ltac ep_cbn_in H :=
  cbn [cf now closed rx_alive conn_tx io_set pend_set n_io n_idle state in_conn in_sess in_term
       conhead_this conhead_peer sessinit_this sessinit_peer rx_buf msg_tx keepalive_time idle_time
       ka_due idle_due seg_size next_id pend_start pend_ack tx_map tx_tmp tx_len pq_set n_pq rx_tmp
       rx_map sent handled t_send t_recv wire trace set fst snd
       send_frame' do_close' set_state' pq_trigger' flush_pend_start' check_sess_term' ok raise
       si_keepalive si_seg_mru si_xfer_mru si_nodeid negb] in H.
Ltac ep_s := ep_unf; ep_pr; ep_cbn.
Ltac ep_s_in H := ep_unf_in H; ep_pr_in H; ep_cbn_in H.

(** Case-split on an innermost [if]/[match] scrutinee of the goal that does not
    go through a helper still in its original form. *)
Ltac simple_scrut c :=
  lazymatch c with
  | context[if _ then _ else _] => fail
  | context[match _ with _ => _ end] => fail
  | context[send_frame] => fail
  | context[send_msg] => fail
  | context[send_contact_header] => fail
  | context[send_sess_init] => fail
  | context[emit] => fail
  | context[ka_reset] => fail
  | context[idle_reset] => fail
  | context[send_buffer_decreased] => fail
  | context[escape] => fail
  | context[do_close] => fail
  | context[set_state] => fail
  | context[pq_trigger] => fail
  | context[flush_pend_start] => fail
  | context[check_sess_term] => fail
  | _ => idtac
  end.
Ltac brk1 :=
  once (match goal with
  | |- context[if ?c then _ else _] => simple_scrut c; destruct c eqn:?
  | |- context[match ?x with _ => _ end] => simple_scrut x; destruct x eqn:?
  end).
(** Split as far as possible by computation only; switch the (now small) goals
    to canonical forms; go on (three rounds are enough for every helper nesting
    in the model). *)
Ltac brk_round := repeat (ep_cbn; brk1); ep_unf; ep_pr; ep_cbn.
Ltac brk := brk_round; brk_round; brk_round.

(** * The receive loop *)

Lemma recv_loop_ind (P : ep -> Prop) (Q : ep -> option N -> Prop)
  (Hstop : forall s, P s -> Q s None)
  (Hstep : forall s fr rest s' r, P s -> closed s = false -> rx_buf s <> [] ->
       parse_frame (in_conn s) (rx_buf s) = Some (fr, rest) ->
       recv_frame fr (s <| rx_buf := rest |> <| handled := handled s ++ [fr] |>) = (s', r) ->
       match r with None => P s' | Some k => Q s' (Some k) end) :
  forall fuel s, P s -> Q (fst (recv_loop fuel s)) (snd (recv_loop fuel s)).
Proof.
  induction fuel as [|f IH]; intros s Hs; cbn [recv_loop].
  - apply Hstop, Hs.
  - destruct (is_nil (rx_buf s) || closed s) eqn:E; [apply Hstop, Hs|].
    apply orb_false_iff in E. destruct E as [E1 E2].
    destruct (parse_frame (in_conn s) (rx_buf s)) as [[fr rest]|] eqn:Ep; [|apply Hstop, Hs].
    destruct (recv_frame fr _) as [s' r] eqn:Er.
    assert (Hne : rx_buf s <> []) by (destruct (rx_buf s); [discriminate|congruence]).
    pose proof (Hstep s fr rest s' r Hs E2 Hne Ep Er) as H.
    destruct r as [k|]; [exact H|]. apply IH, H.
Qed.

(** Plain invariants (an escaped exception is allowed). *)
Lemma recv_loop_inv (P : ep -> Prop)
  (Hstep : forall s fr rest, P s -> closed s = false ->
       parse_frame (in_conn s) (rx_buf s) = Some (fr, rest) ->
       P (fst (recv_frame fr (s <| rx_buf := rest |> <| handled := handled s ++ [fr] |>)))) :
  forall fuel s, P s -> P (fst (recv_loop fuel s)).
Proof.
  intros fuel s Hs.
  apply (recv_loop_ind P (fun s _ => P s)); [auto| |exact Hs].
  intros s0 fr rest s' r H0 Hc _ Hp Hr. specialize (Hstep s0 fr rest H0 Hc Hp).
  pose proof (f_equal fst Hr) as E. cbn [fst] in E. destruct r; rewrite <- E; exact Hstep.
Qed.

(** * Case analysis of [handle_msg], once and for all

    [hm_spec m s r]: [r] is the result of [handle_msg m s]; one constructor per
    path through the handler, the resulting state written with the canonical
    forms so that its projections compute. *)

Definition ev_rstart (xid : N) : event := ESig SigRecvStarted [PStrNum xid; PDbusStr].
Definition ev_rinter (xid len : N) : event := ESig SigRecvInter [PStrNum xid; PInt len].
Definition ev_rfin (xid len : N) : event := ESig SigRecvFinished [PStrNum xid; PInt len; PStr RES_SUCCESS].
Definition ev_sinter (xid len : N) : event := ESig SigSendInter [PStrNum xid; PInt len].
Definition ev_sfin (xid len res : N) : event := ESig SigSendFinished [PStrNum xid; PInt len; PStr res].

Definition si_msg_of (c : cfg) : msg :=
  MSessInit (c_keepalive c) (c_seg_mru c) (2^64 - 1) (c_nodeid c) [].
Definition si_of (c : cfg) : sessinit := mkSI (c_keepalive c) (c_seg_mru c) (2^64 - 1) (c_nodeid c).

(** The state after the (passive side's) SESS_INIT has been sent. *)
Definition sent_si (s : ep) : ep :=
  (send_frame' (FMsg (si_msg_of (cf s))) s) <| sessinit_this := Some (si_of (cf s)) |>.

(** The state after a successful [merge_session_params]. *)
Definition merged (this : sessinit) (ka smru : N) (s : ep) : ep :=
  let kt := N.min (si_keepalive this) ka in
  let it := c_idle (cf s) in
  s <| keepalive_time := kt |> <| idle_time := it |>
    <| ka_due := if 0 <? kt then Some (now s + kt * 1000) else None |>
    <| idle_due := if 0 <? it then Some (now s + it * 1000) else None |>
    <| seg_size := N.min (c_seg_init (cf s)) smru |>.

Definition with_peer (ka smru xmru : N) (nodeid : bytes) (s : ep) : ep :=
  s <| sessinit_peer := Some (mkSI ka smru xmru nodeid) |> <| in_sess := true |>.

(** Acknowledging a segment whose accumulated data is [acc]. *)
Definition seg_acked (flags xid : N) (acc : bytes) (s1 : ep) : ep :=
  send_frame' (FMsg (MXferAck flags xid (N.of_nat (length acc)))) (s1 <| rx_tmp := Some (xid, acc) |>).

Definition seg_result (flags xid : N) (acc : bytes) (s1 : ep) : ep :=
  let s2 := seg_acked flags xid acc s1 in
  let len := N.of_nat (length acc) in
  if has_end flags then
    check_sess_term' (s2 <| rx_map := dict_set xid acc (rx_map s1) |>
                         <| trace := trace s1 ++ [ev_rfin xid len] |> <| rx_tmp := None |>)
  else s2 <| trace := trace s1 ++ [ev_rinter xid len] |>.

Definition rx_started (xid : N) (s : ep) : ep :=
  s <| rx_tmp := Some (xid, []) |> <| trace := trace s ++ [ev_rstart xid] |>.

Definition tx_cur_is (xid : N) (s : ep) : bool :=
  match tx_tmp s with Some (cur, _) => cur =? xid | None => false end.

Definition refused (reason xid ack : N) (s : ep) : ep :=
  s <| tx_map := dict_del xid (tx_map s) |>
    <| trace := trace s ++ [ev_sfin xid ack (RES_REFUSED reason)] |>
    <| pend_ack := remove_N xid (pend_ack s) |>
    <| pend_start := dict_del xid (pend_start s) |>.

Inductive hm_spec : msg -> ep -> ep * outcome -> Prop :=
| HM_keepalive s : hm_spec MKeepalive s (s, Done)
| HM_reject a b s : hm_spec (MReject a b) s (s, Done)
(* SESS_INIT *)
| HM_init_passive_unicode ka smru xmru nodeid ext s :
    c_passive (cf s) = true -> ascii nodeid = false ->
    hm_spec (MSessInit ka smru xmru nodeid ext) s
            (with_peer ka smru xmru nodeid (sent_si s), Escaped EX_UNICODE)
| HM_init_passive_ok ka smru xmru nodeid ext s :
    c_passive (cf s) = true -> ascii nodeid = true ->
    hm_spec (MSessInit ka smru xmru nodeid ext) s
            (set_state' ST_ESTABLISHED
               (merged (si_of (cf s)) ka smru (with_peer ka smru xmru nodeid (sent_si s))), Done)
| HM_init_active_attr ka smru xmru nodeid ext s :
    c_passive (cf s) = false -> sessinit_this s = None ->
    hm_spec (MSessInit ka smru xmru nodeid ext) s
            (with_peer ka smru xmru nodeid s, Escaped EX_ATTRIBUTE)
| HM_init_active_unicode ka smru xmru nodeid ext s this :
    c_passive (cf s) = false -> sessinit_this s = Some this -> ascii nodeid = false ->
    hm_spec (MSessInit ka smru xmru nodeid ext) s
            (with_peer ka smru xmru nodeid s, Escaped EX_UNICODE)
| HM_init_active_ok ka smru xmru nodeid ext s this :
    c_passive (cf s) = false -> sessinit_this s = Some this -> ascii nodeid = true ->
    hm_spec (MSessInit ka smru xmru nodeid ext) s
            (set_state' ST_ESTABLISHED (merged this ka smru (with_peer ka smru xmru nodeid s)), Done)
(* SESS_TERM *)
| HM_term_rej flags reason s :
    in_sess s = false -> hm_spec (MSessTerm flags reason) s (s, Reject REJ_UNEXPECTED)
| HM_term_already flags reason s :
    in_sess s = true -> in_term s = true ->
    hm_spec (MSessTerm flags reason) s (check_sess_term' (flush_pend_start' s), Done)
| HM_term_reply flags reason s :
    in_sess s = true -> in_term s = false ->
    hm_spec (MSessTerm flags reason) s
            (check_sess_term' (flush_pend_start'
               (send_frame' (FMsg (MSessTerm 1 reason))
                  (set_state' ST_ENDING (s <| in_term := true |>)))), Done)
(* XFER_SEGMENT *)
| HM_seg_rej_sess flags xid ext data s :
    in_sess s = false -> hm_spec (MXferSeg flags xid ext data) s (s, Reject REJ_UNEXPECTED)
| HM_seg_rej_none flags xid ext data s :
    in_sess s = true -> has_start flags = false -> rx_tmp s = None ->
    hm_spec (MXferSeg flags xid ext data) s (s, Reject REJ_UNEXPECTED)
| HM_seg_rej_other flags xid ext data s cur acc :
    in_sess s = true -> has_start flags = false -> rx_tmp s = Some (cur, acc) -> (cur =? xid) = false ->
    hm_spec (MXferSeg flags xid ext data) s (s, Reject REJ_UNEXPECTED)
| HM_seg_start flags xid ext data s :
    in_sess s = true -> has_start flags = true ->
    hm_spec (MXferSeg flags xid ext data) s (seg_result flags xid data (rx_started xid s), Done)
| HM_seg_cont flags xid ext data s cur acc :
    in_sess s = true -> has_start flags = false -> rx_tmp s = Some (cur, acc) -> (cur =? xid) = true ->
    hm_spec (MXferSeg flags xid ext data) s (seg_result flags xid (acc ++ data) s, Done)
(* XFER_ACK *)
| HM_ack_rej_sess flags xid len s :
    in_sess s = false -> hm_spec (MXferAck flags xid len) s (s, Reject REJ_UNEXPECTED)
| HM_ack_rej_unknown flags xid len s :
    in_sess s = true -> dict_get xid (tx_map s) = None ->
    hm_spec (MXferAck flags xid len) s (s, Reject REJ_UNEXPECTED)
| HM_ack_rej_notpend flags xid len s a :
    in_sess s = true -> dict_get xid (tx_map s) = Some a -> has_end flags = true ->
    mem_N xid (pend_ack s) = false ->
    hm_spec (MXferAck flags xid len) s
            (s <| tx_map := dict_set xid len (tx_map s) |>, Reject REJ_UNEXPECTED)
| HM_ack_end flags xid len s a :
    in_sess s = true -> dict_get xid (tx_map s) = Some a -> has_end flags = true ->
    mem_N xid (pend_ack s) = true ->
    hm_spec (MXferAck flags xid len) s
            (check_sess_term'
               (s <| trace := trace s ++ [ev_sfin xid len RES_SUCCESS] |>
                  <| pend_ack := remove_N xid (pend_ack s) |>
                  <| tx_map := dict_del xid (dict_set xid len (tx_map s)) |>), Done)
| HM_ack_inter flags xid len s a :
    in_sess s = true -> dict_get xid (tx_map s) = Some a -> has_end flags = false ->
    hm_spec (MXferAck flags xid len) s
            (s <| tx_map := dict_set xid len (tx_map s) |>
               <| trace := trace s ++ [ev_sinter xid len] |>, Done)
(* XFER_REFUSE *)
| HM_refuse_rej_sess reason xid s :
    in_sess s = false -> hm_spec (MXferRefuse reason xid) s (s, Reject REJ_UNEXPECTED)
| HM_refuse_rej_unknown reason xid s :
    in_sess s = true -> dict_get xid (tx_map s) = None ->
    hm_spec (MXferRefuse reason xid) s (s, Reject REJ_UNEXPECTED)
| HM_refuse_cur reason xid s ack :
    in_sess s = true -> dict_get xid (tx_map s) = Some ack -> tx_cur_is xid s = true ->
    hm_spec (MXferRefuse reason xid) s
            (check_sess_term' (pq_trigger' ((refused reason xid ack s) <| tx_tmp := None |> <| tx_len := 0 |>)),
             Done)
| HM_refuse_other reason xid s ack :
    in_sess s = true -> dict_get xid (tx_map s) = Some ack -> tx_cur_is xid s = false ->
    hm_spec (MXferRefuse reason xid) s (check_sess_term' (refused reason xid ack s), Done).

Ltac hm_leaf := ep_unf; ep_pr; (eapply eq_ind; [econstructor; eassumption|reflexivity]).

Lemma handle_msg_spec m s : hm_spec m s (handle_msg m s).
Proof.
  destruct m as [flags xid ext data|flags xid len|reason xid| |flags reason|a b|ka smru xmru nodeid ext].
  - (* XFER_SEGMENT *)
    unfold handle_msg.
    destruct (in_sess s) eqn:Hs; cbn [negb]; [|constructor; assumption].
    destruct (has_start flags) eqn:Hst.
    + destruct (has_end flags) eqn:He.
      * ep_unf; ep_pr. eapply eq_ind; [eapply HM_seg_start; eassumption|].
        unfold seg_result, seg_acked, rx_started, ev_rfin, ev_rstart. rewrite He. reflexivity.
      * ep_unf; ep_pr. eapply eq_ind; [eapply HM_seg_start; eassumption|].
        unfold seg_result, seg_acked, rx_started, ev_rinter, ev_rstart. rewrite He. reflexivity.
    + destruct (rx_tmp s) as [[cur acc]|] eqn:Hr; [|constructor; assumption].
      destruct (cur =? xid) eqn:Hc; [|econstructor; eassumption].
      destruct (has_end flags) eqn:He.
      * ep_unf; ep_pr. eapply eq_ind; [eapply HM_seg_cont; eassumption|].
        unfold seg_result, seg_acked, ev_rfin. rewrite He. ep_cbn. rewrite Hr. reflexivity.
      * ep_unf; ep_pr. eapply eq_ind; [eapply HM_seg_cont; eassumption|].
        unfold seg_result, seg_acked, ev_rinter. rewrite He. ep_cbn. rewrite Hr. reflexivity.
  - (* XFER_ACK *)
    unfold handle_msg.
    destruct (in_sess s) eqn:Hs; cbn [negb]; [|constructor; assumption].
    destruct (dict_get xid (tx_map s)) as [a|] eqn:Hg; [|constructor; assumption].
    destruct (has_end flags) eqn:He.
    + ep_cbn. destruct (mem_N xid (pend_ack s)) eqn:Hm; cbn [negb].
      * ep_unf; ep_pr. eapply eq_ind; [eapply HM_ack_end; eassumption|]. reflexivity.
      * econstructor; eassumption.
    + ep_unf. eapply eq_ind; [eapply HM_ack_inter; eassumption|]. reflexivity.
  - (* XFER_REFUSE *)
    unfold handle_msg.
    destruct (in_sess s) eqn:Hs; cbn [negb]; [|constructor; assumption].
    destruct (dict_get xid (tx_map s)) as [a|] eqn:Hg; [|constructor; assumption].
    ep_unf; ep_cbn.
    destruct (tx_tmp s) as [[cur d]|] eqn:Ht.
    + destruct (cur =? xid) eqn:Hc.
      * ep_pr. eapply eq_ind; [eapply HM_refuse_cur; try eassumption|reflexivity].
        unfold tx_cur_is. rewrite Ht. exact Hc.
      * ep_pr. eapply eq_ind; [eapply HM_refuse_other; try eassumption|reflexivity].
        unfold tx_cur_is. rewrite Ht. exact Hc.
    + ep_pr. eapply eq_ind; [eapply HM_refuse_other; try eassumption|reflexivity].
      unfold tx_cur_is. rewrite Ht. reflexivity.
  - constructor.
  - (* SESS_TERM *)
    unfold handle_msg, send_sess_term.
    destruct (in_sess s) eqn:Hs; cbn [negb]; [|constructor; assumption].
    destruct (in_term s) eqn:Ht.
    + ep_pr. constructor; assumption.
    + cbn [negb]. ep_unf; ep_pr. constructor; assumption.
  - constructor.
  - (* SESS_INIT *)
    unfold handle_msg, merge_session_params.
    destruct (c_passive (cf s)) eqn:Hp.
    + ep_unf; ep_pr; ep_cbn.
      destruct (ascii nodeid) eqn:Ha; cbn [negb].
      * ep_cbn. ep_pr. eapply eq_ind; [eapply HM_init_passive_ok; eassumption|]. reflexivity.
      * eapply eq_ind; [eapply HM_init_passive_unicode; eassumption|]. reflexivity.
    + ep_cbn. destruct (sessinit_this s) as [this|] eqn:Hth.
      * destruct (ascii nodeid) eqn:Ha; cbn [negb].
        -- ep_unf; ep_cbn; ep_pr. eapply eq_ind; [eapply HM_init_active_ok; eassumption|]. reflexivity.
        -- eapply eq_ind; [eapply HM_init_active_unicode; eassumption|]. reflexivity.
      * eapply eq_ind; [eapply HM_init_active_attr; eassumption|]. reflexivity.
Qed.

(** * Case analysis of [recv_frame] *)

Definition sent_ch (s : ep) : ep :=
  (send_frame' (FContact (mkContact MAGIC 4 0)) s) <| conhead_this := Some 0 |>.

Definition got_ch (c : contact) (s : ep) : ep :=
  set_state' ST_SESSNEG (s <| conhead_peer := Some (ch_flags c) |> <| in_conn := true |>).

Inductive rf_spec : frame -> ep -> res -> Prop :=
| RC_bad c s : contact_ok c = false -> rf_spec (FContact c) s (do_close' s, None)
| RC_passive_tls c s :
    contact_ok c = true -> c_passive (cf s) = true -> c_require_tls (cf s) = Some true ->
    rf_spec (FContact c) s (do_close' (got_ch c (sent_ch s)), None)
| RC_passive_ok c s :
    contact_ok c = true -> c_passive (cf s) = true -> c_require_tls (cf s) <> Some true ->
    rf_spec (FContact c) s (got_ch c (sent_ch s), None)
| RC_active_attr c s :
    contact_ok c = true -> c_passive (cf s) = false -> conhead_this s = None ->
    rf_spec (FContact c) s (s, Some EX_ATTRIBUTE)
| RC_active_tls c s x :
    contact_ok c = true -> c_passive (cf s) = false -> conhead_this s = Some x ->
    c_require_tls (cf s) = Some true ->
    rf_spec (FContact c) s (do_close' (got_ch c s), None)
| RC_active_ok c s x :
    contact_ok c = true -> c_passive (cf s) = false -> conhead_this s = Some x ->
    c_require_tls (cf s) <> Some true ->
    rf_spec (FContact c) s (sent_si (got_ch c s), None)
| RF_done m s s' : hm_spec m s (s', Done) -> rf_spec (FMsg m) s (s', None)
| RF_reject m s s' r :
    hm_spec m s (s', Reject r) ->
    rf_spec (FMsg m) s (send_frame' (FMsg (MReject (msg_id m) r)) s', None)
| RF_escaped m s s' k : hm_spec m s (s', Escaped k) -> rf_spec (FMsg m) s (s', Some k).

Lemma recv_frame_spec f s : rf_spec f s (recv_frame f s).
Proof.
  destruct f as [c|m]; cbn [recv_frame].
  - unfold contact_ok.
    destruct (bytes_eqb (ch_magic c) MAGIC) eqn:Hm; cbn [negb andb].
    2:{ ep_unf; ep_pr. apply RC_bad. unfold contact_ok. rewrite Hm. reflexivity. }
    destruct (ch_version c =? 4) eqn:Hv; cbn [negb].
    2:{ ep_unf; ep_pr. apply RC_bad. unfold contact_ok. rewrite Hm, Hv. reflexivity. }
    assert (Hok : contact_ok c = true) by (unfold contact_ok; rewrite Hm, Hv; reflexivity).
    destruct (c_passive (cf s)) eqn:Hp.
    + ep_unf; ep_pr; ep_cbn. rewrite Hp.
      destruct (c_require_tls (cf s)) as [[|]|] eqn:Ht.
      * ep_pr. eapply eq_ind; [eapply RC_passive_tls; eassumption|]. reflexivity.
      * eapply eq_ind; [eapply RC_passive_ok; try eassumption; congruence|]. reflexivity.
      * eapply eq_ind; [eapply RC_passive_ok; try eassumption; congruence|]. reflexivity.
    + destruct (conhead_this s) as [x|] eqn:Hc.
      2:{ ep_unf. apply RC_active_attr; assumption. }
      ep_unf; ep_pr; ep_cbn. rewrite Hp.
      destruct (c_require_tls (cf s)) as [[|]|] eqn:Ht.
      * ep_pr. eapply eq_ind; [eapply RC_active_tls; eassumption|]. reflexivity.
      * ep_pr. eapply eq_ind; [eapply RC_active_ok; try eassumption; congruence|]. reflexivity.
      * ep_pr. eapply eq_ind; [eapply RC_active_ok; try eassumption; congruence|]. reflexivity.
  - pose proof (handle_msg_spec m s) as H.
    destruct (handle_msg m s) as [s' [|r|k]].
    + apply RF_done, H.
    + ep_unf; ep_pr. apply RF_reject, H.
    + ep_unf. apply RF_escaped, H.
Qed.

(** From now on the projection tactic also opens the state abbreviations above. *)
Ltac ep_cbn ::=
  cbn [cf now closed rx_alive conn_tx io_set pend_set n_io n_idle state in_conn in_sess in_term
       conhead_this conhead_peer sessinit_this sessinit_peer rx_buf msg_tx keepalive_time idle_time
       ka_due idle_due seg_size next_id pend_start pend_ack tx_map tx_tmp tx_len pq_set n_pq rx_tmp
       rx_map sent handled t_send t_recv wire trace set fst snd
       send_frame' do_close' set_state' pq_trigger' flush_pend_start' check_sess_term' ok raise
       si_keepalive si_seg_mru si_xfer_mru si_nodeid negb
       sent_si merged with_peer seg_acked rx_started refused sent_ch got_ch].
Ltac ep_cbn_in H ::=
  cbn [cf now closed rx_alive conn_tx io_set pend_set n_io n_idle state in_conn in_sess in_term
       conhead_this conhead_peer sessinit_this sessinit_peer rx_buf msg_tx keepalive_time idle_time
       ka_due idle_due seg_size next_id pend_start pend_ack tx_map tx_tmp tx_len pq_set n_pq rx_tmp
       rx_map sent handled t_send t_recv wire trace set fst snd
       send_frame' do_close' set_state' pq_trigger' flush_pend_start' check_sess_term' ok raise
       si_keepalive si_seg_mru si_xfer_mru si_nodeid negb
       sent_si merged with_peer seg_acked rx_started refused sent_ch got_ch] in H.
Ltac ep_cbn_all :=
  cbn [cf now closed rx_alive conn_tx io_set pend_set n_io n_idle state in_conn in_sess in_term
       conhead_this conhead_peer sessinit_this sessinit_peer rx_buf msg_tx keepalive_time idle_time
       ka_due idle_due seg_size next_id pend_start pend_ack tx_map tx_tmp tx_len pq_set n_pq rx_tmp
       rx_map sent handled t_send t_recv wire trace set fst snd
       send_frame' do_close' set_state' pq_trigger' flush_pend_start' check_sess_term' ok raise
       si_keepalive si_seg_mru si_xfer_mru si_nodeid negb
       sent_si merged with_peer seg_acked rx_started refused sent_ch got_ch] in *.

(** Case-split on an [if]/[match] scrutinee anywhere. *)
Ltac brk_any :=
  once match goal with
  | |- context[if ?c then _ else _] => simple_scrut c; destruct c eqn:?
  | H : context[if ?c then _ else _] |- _ => simple_scrut c; destruct c eqn:?
  | |- context[match ?x with _ => _ end] => simple_scrut x; destruct x eqn:?
  | H : context[match ?x with _ => _ end] |- _ => simple_scrut x; destruct x eqn:?
  end.

(** [seg_result] by cases on the END flag. *)
Lemma seg_result_end flags xid acc s1 : has_end flags = true ->
  seg_result flags xid acc s1 =
  check_sess_term' ((seg_acked flags xid acc s1) <| rx_map := dict_set xid acc (rx_map s1) |>
                       <| trace := trace s1 ++ [ev_rfin xid (N.of_nat (length acc))] |> <| rx_tmp := None |>).
Proof. intros H. unfold seg_result. rewrite H. reflexivity. Qed.
Lemma seg_result_more flags xid acc s1 : has_end flags = false ->
  seg_result flags xid acc s1 =
  (seg_acked flags xid acc s1) <| trace := trace s1 ++ [ev_rinter xid (N.of_nat (length acc))] |>.
Proof. intros H. unfold seg_result. rewrite H. reflexivity. Qed.

(** * Trace extensions *)

(** [s'] has the trace of [s] followed by events that all satisfy [Pe]. *)
Definition ext_by (Pe : event -> Prop) (s s' : ep) : Prop :=
  exists evs, trace s' = trace s ++ evs /\ Forall Pe evs.

Lemma ext_refl Pe s : ext_by Pe s s.
Proof. exists []. split; [symmetry; apply app_nil_r|constructor]. Qed.

Lemma ext_trans Pe s1 s2 s3 : ext_by Pe s1 s2 -> ext_by Pe s2 s3 -> ext_by Pe s1 s3.
Proof.
  intros [a [Ha Fa]] [b [Hb Fb]]. exists (a ++ b). split.
  - rewrite Hb, Ha, app_assoc. reflexivity.
  - apply Forall_app. split; assumption.
Qed.

Lemma ext_same Pe s s' : trace s' = trace s -> ext_by Pe s s'.
Proof. intros H. exists []. split; [rewrite app_nil_r; exact H|constructor]. Qed.

Lemma ext_mono (P Q : event -> Prop) s s' : (forall e, P e -> Q e) -> ext_by P s s' -> ext_by Q s s'.
Proof. intros H [l [E F]]. exists l. split; [exact E|]. eapply Forall_impl; eassumption. Qed.

(** Goal [exists evs, T = trace s ++ evs /\ Forall Pe evs] where [T] is [trace s]
    followed by appended pieces: normalise and leave the [Forall] obligations
    on the pieces to [tac]. *)
Ltac ext_pieces tac :=
  repeat first [ apply Forall_nil | apply Forall_app; split | apply Forall_cons | tac ].
Ltac ext_close tac :=
  first [ exists []; split; [rewrite ?app_nil_r; reflexivity|constructor]
        | eexists; split; [rewrite <- ?app_assoc; reflexivity | ext_pieces tac] ].

(** * Parsing facts *)
Lemma parse_frame_msg b l m r : parse_frame b l = Some (FMsg m, r) -> b = true.
Proof.
  unfold parse_frame. destruct b; [reflexivity|].
  destruct (parse_contact l) as [[c r']|]; discriminate.
Qed.

Lemma parse_frame_contact b l c r : parse_frame b l = Some (FContact c, r) -> b = false.
Proof.
  unfold parse_frame. destruct b; [|reflexivity].
  destruct (parse_msg l) as [[c' r']|]; discriminate.
Qed.

(** * Dictionary facts *)
Lemma dict_set_keys {V} k (v : V) d x : dict_get k d = Some x -> map fst (dict_set k v d) = map fst d.
Proof.
  induction d as [|[k' v'] d IH]; cbn [dict_get dict_set map fst]; [discriminate|].
  destruct (N.eqb_spec k' k) as [->|Hne]; intros H; cbn [map fst]; [reflexivity|].
  rewrite IH by exact H. reflexivity.
Qed.
