''' C18 -- The D-Bus view of transfers is type-correct and consistent with reality. '''
import env  # noqa: F401
import json
import struct

import tcpcl_corr as TC
import tcpcl_suite as TS


def build(chk):
    recs = []
    rng = chk.rng
    nruns = 24 if chk.quick() else 300
    for idx in range(nruns):
        runner = TS.gen_coop(rng, nops=rng.choice([40, 90, 160]), with_term=(idx % 3 == 0))
        # pops and queue queries interleaved at the end and mid-way
        for e in 'AB':
            hdl = runner.sysm.ep[e].h
            for bid in list(hdl._rx_map.keys()):
                if rng.random() < 0.6:
                    runner.apply(('pop', e, bid))
            if rng.random() < 0.2:
                runner.apply(('pop', e, 77))  # unknown id: an API error, not a signal
        if idx % 2 == 0:
            TC.drain(runner)
            for e in 'AB':
                hdl = runner.sysm.ep[e].h
                for bid in list(hdl._rx_map.keys()):
                    if rng.random() < 0.5 and not runner.is_closed(e):
                        runner.apply(('pop', e, bid))
        recs.append(TS.finish(runner, 'coop-pop', dict(drained=(idx % 2 == 0))))
    # refusals and rejected acks reach the finished/intermediate signals with peer-chosen values
    for idx in range(8 if chk.quick() else 60):
        (runner, victim, injected, phase) = TS.gen_adversarial(rng)
        TC.drain(runner)
        recs.append(TS.finish(runner, 'adversarial', dict(victim=victim, phase=phase)))
    # every peer message about every class of the victim's own transfers (queued, in flight, awaiting the
    # final ack), one per run, then drained: afterwards the queues and the idle indication must be consistent
    import random
    import check_C17
    for (sidx, (phase, inflight)) in enumerate([('established', (10, 3, 2)), ('terminating', (10, 3, 2))]):
        for victim in ('A', 'B'):
            for fidx in range(200):
                if chk.quick() and (fidx + sidx) % 2 != 0:
                    continue
                res = check_C17.adversarial_run(chk, random.Random(5000 * sidx + fidx), phase=phase, forced=fidx,
                                                victim=victim, inflight=inflight)
                if not res[2]:
                    break
                if res[2][0][0] not in (2, 3):
                    continue  # only acks and refusals matter for the transfer bookkeeping
                res[0].meta['no_model'] = (fidx % 3 != 0)
                res[0].kind = 'directed-xfer-msg'
                recs.append(res[0])
    # the session-parameter query, for IPv4 and IPv6 peers (address objects must not reach the D-Bus dictionary),
    # before the session, established and after termination
    for addrs in ((('10.0.0.1', 40000), ('10.0.0.2', 4556)),
                  (('2001:db8::1', 40000, 0, 0), ('2001:db8::2', 4556, 0, 0)),
                  (('::ffff:10.0.0.1', 40000, 0, 0), ('fe80::1', 4556, 0, 2))):
        runner = TC.Runner(cfg_a=dict(_addrs=[list(x) for x in addrs]))
        runner.apply(('start', 'A'))
        runner.apply(('start', 'B'))
        for e in 'AB':
            runner.apply(('params', e))
        TC.drain(runner)
        runner.apply(('send', 'A', ('lit', b'abcdef')))
        TC.drain(runner)
        for e in 'AB':
            runner.apply(('params', e))
        runner.apply(('term', 'B', 0))
        TC.drain(runner)
        recs.append(TS.finish(runner, 'session-parameters', dict(no_model=True, addrs=[x[0] for x in addrs])))
    # extreme values reaching a signal: XFER_ACK with length 2^64-1, refusal of a queued transfer
    runner = TC.Runner()
    runner.apply(('start', 'A'))
    runner.apply(('start', 'B'))
    TC.drain(runner)
    runner.apply(('send', 'A', ('lit', b'abcdef')))
    runner.apply(('send', 'A', ('lit', b'gh')))
    runner.apply(('inject', 'A', bytes([2, 0]) + struct.pack('!QQ', 1, 2 ** 64 - 1)))
    runner.apply(('rxpump', 'A', 1 << 30))
    runner.apply(('inject', 'A', bytes([3, 2]) + struct.pack('!Q', 2)))
    runner.apply(('rxpump', 'A', 1 << 30))
    TC.drain(runner)
    recs.append(TS.finish(runner, 'extreme-values'))
    return recs


def evaluate(chk, recs):
    for rec in recs:
        names = sorted(set(evt['name'] for evt in rec.events if evt['kind'] in ('signal', 'return')))
        nsig = sum(1 for evt in rec.events if evt['kind'] == 'signal')
        chk.count('kind', rec.kind)
        for name in names:
            chk.count('dbus_members_seen', name)
        chk.case(ident=json.dumps(rec.replay_obj(), sort_keys=True), nontrivial=(nsig >= 6),
                 sample=dict(kind=rec.kind, ops=len(rec.runner.applied), signals=nsig, members=names[:10]))
        for (sig, what) in TS.oracle_c18(rec):
            chk.fail(sig, what, rec.replay_obj())
        # idle must become true once everything has drained (no termination involved)
        if rec.meta.get('drained') and rec.kind == 'coop-pop':
            for e in 'AB':
                snap = rec.snap[e]
                if not snap['closed'] and not snap['tx_queue'] and snap['tx_tmp'] is None and not snap['idle'] \
                        and not snap['rx_buf'] and snap['rx_tmp'] is None:
                    chk.fail('C18 / idle indication stays false after everything drained', e, rec.replay_obj())


if __name__ == '__main__':
    TS.run_check('C18', build, evaluate,
                 rule='cooperative two-endpoint schedules with pops (known and unknown ids), queue queries and terminate(); adversarial '
                      'frames (refusals, acks with arbitrary lengths up to 2^64-1) so that peer-chosen values reach the signals; every '
                      'get_session_parameters() before/in a session with IPv4, IPv6 and scoped/mapped IPv6 peers; every '
                      'recorded signal emission and method return is checked against its declared signature by an independent '
                      'implementation of dbus-python\'s marshalling rules, queues against finished/popped events; non-trivial = at least 6 signals')
