(** BP fragment reassembly at the destination.

    Hand-written executable model of

      /repo/src/bp/app/fragment.py   Fragment._reassemble, class Reassembly
      /repo/src/bp/agent.py          Agent.recv_bundle: the seen-identity set and the
                                     re-injection of the reassembled bundle
      /repo/src/bp/util.py           BundleContainer.bundle_ident

    tied to the code by harness/check_C06.py (same fragment histories through the
    real agent under the virtual GLib loop and through [run_render] under
    [vm_compute]).  Definitions only; proofs are in Proofs/BpReasmProofs.v.

    What is modelled, line by line of [_reassemble]:

      final_ident = ctr.bundle_ident()[:3]          [f_id]  (source, dtntime, seqno)
      reassm = self._reassembly.get(final_ident)    [tbl_get]
      if None: Reassembly(total_length, total_valid=closedopen(0,total),
                          valid=empty, data=bytearray(total))          [fresh_entry]
      else: totals differ -> only a log line       (the entry keeps ITS total)
      if frag_offset == 0: reassm.first_frag = ctr.bundle
      reassm.data[off:end] = payload                [splice]: Python slice assignment,
                                                    bounds clamped to the buffer, so a
                                                    fragment reaching past the end GROWS it
      reassm.valid |= closedopen(off, end)          [Ivl.add]
      if reassm.valid == reassm.total_valid:        [Ivl.eqb valid (Ivl.full total)]
          del self._reassembly[final_ident]
          ... reassm.first_frag.primary ...         first_frag None -> AttributeError,
                                                    caught by the chain runner: [OError]
          glib.idle_add(self._agent.recv_bundle, rctr)
      ctr.actions.clear(); return True              the fragment itself never reaches a
                                                    later chain step

    and of [recv_bundle]: identity of a fragment is (source, dtntime, seqno, offset,
    TOTAL length) -- the fragment's own payload length is not part of it -- and an
    identity already in [_seen_bundle_ident] is ignored; the reassembled bundle comes
    back through [recv_bundle] with the 3-part identity and is ignored if that has been
    seen.  All fragments here have valid CRCs, a foreign source and a destination that
    the RX route table delivers locally; the reassembled bundle carries no security
    blocks (the BPSec steps are no-ops on it).  The idle source that re-injects the
    reassembled bundle runs before the next fragment is received. *)
From Coq Require Import List NArith Arith Bool.
From DTN Require Import Lib.Bytes Lib.Ivl.
Import ListNotations.
Local Open Scope N_scope.

(** ** Fragments *)

(** Identity of the bundle a fragment belongs to: source (numbered), creation time,
    sequence number. *)
Definition ident3 := (N * N * N)%type.

Definition id_eqb (a b : ident3) : bool :=
  let '(a1, a2, a3) := a in
  let '(b1, b2, b3) := b in
  (a1 =? b1) && (a2 =? b2) && (a3 =? b3).

(** An extension block, opaque to reassembly: (type code, block number, data). *)
Definition blk := (N * N * bytes)%type.

Record frag := mkFrag {
  f_id : ident3;
  f_off : N;            (* primary.fragment_offset *)
  f_total : N;          (* primary.total_app_data_len *)
  f_data : bytes;       (* payload block BTSD of this fragment *)
  f_blocks : list blk   (* its other canonical blocks *)
}.

Definition blen (b : bytes) : N := N.of_nat (length b).

(** One past the last payload offset this fragment carries ([end_ix]). *)
Definition f_end (f : frag) : N := f_off f + blen (f_data f).

(** ** The reassembly table *)

Record entry := mkEntry {
  e_total : N;              (* Reassembly.total_length (of the fragment that created it) *)
  e_valid : ivl;            (* Reassembly.valid *)
  e_buf : bytes;            (* Reassembly.data *)
  e_first : option frag     (* Reassembly.first_frag *)
}.

Definition table := list (ident3 * entry).

Fixpoint tbl_get (k : ident3) (t : table) : option entry :=
  match t with
  | [] => None
  | (k', e) :: r => if id_eqb k k' then Some e else tbl_get k r
  end.

Fixpoint tbl_del (k : ident3) (t : table) : table :=
  match t with
  | [] => []
  | (k', e) :: r => if id_eqb k k' then tbl_del k r else (k', e) :: tbl_del k r
  end.

(** dict assignment: replace in place, else append. *)
Fixpoint tbl_set (k : ident3) (e : entry) (t : table) : table :=
  match t with
  | [] => [(k, e)]
  | (k', e') :: r => if id_eqb k k' then (k, e) :: r else (k', e') :: tbl_set k e r
  end.

(** [bytearray(n)] *)
Definition zeros (n : N) : bytes := repeat 0 (N.to_nat n).

(** [buf[lo:hi] = data] for [lo <= hi]: both bounds are clamped to [len(buf)]
    ([firstn]/[skipn] clamp by themselves), the slice is replaced by [data] whatever
    its length. *)
Definition splice (buf : bytes) (lo hi : N) (data : bytes) : bytes :=
  firstn (N.to_nat lo) buf ++ data ++ skipn (N.to_nat hi) buf.

Definition fresh_entry (total : N) : entry := mkEntry total Ivl.empty (zeros total) None.

(** What reaches the application step. *)
Record delivered := mkDelivered {
  d_id : ident3;
  d_payload : bytes;
  d_blocks : list blk
}.

Inductive outcome :=
| ONone                      (* fragment absorbed, nothing else happens *)
| ODeliver (d : delivered)   (* reassembled bundle handed to [recv_bundle] *)
| OError.                    (* complete without a first fragment: AttributeError *)

(** The part of [_reassemble] that works on one table slot. *)
Definition entry_step (slot : option entry) (f : frag) : option entry * outcome :=
  let e0 := match slot with Some e => e | None => fresh_entry (f_total f) end in
  let first := if f_off f =? 0 then Some f else e_first e0 in
  let buf := splice (e_buf e0) (f_off f) (f_end f) (f_data f) in
  let valid := Ivl.add (f_off f) (f_end f) (e_valid e0) in
  if Ivl.eqb valid (Ivl.full (e_total e0)) then
    (None,
     match first with
     | Some ff => ODeliver (mkDelivered (f_id f) buf (f_blocks ff))
     | None => OError
     end)
  else (Some (mkEntry (e_total e0) valid buf first), ONone).

Definition recv_fragment (t : table) (f : frag) : table * outcome :=
  let '(slot, out) := entry_step (tbl_get (f_id f) t) f in
  (match slot with Some e => tbl_set (f_id f) e t | None => tbl_del (f_id f) t end, out).

(** ** The agent around it: the seen-identity set *)

(** A bundle identity as [bundle_ident] builds it: [None] for a whole bundle,
    [Some (offset, total)] for a fragment. *)
Definition sid := (ident3 * option (N * N))%type.

Definition sid_eqb (a b : sid) : bool :=
  id_eqb (fst a) (fst b) &&
  match snd a, snd b with
  | None, None => true
  | Some (o1, t1), Some (o2, t2) => (o1 =? o2) && (t1 =? t2)
  | _, _ => false
  end.

Definition in_seen (s : sid) (seen : list sid) : bool := existsb (sid_eqb s) seen.

Definition frag_sid (f : frag) : sid := (f_id f, Some (f_off f, f_total f)).
Definition whole_sid (k : ident3) : sid := (k, None).

Record state := mkState { st_tbl : table; st_seen : list sid }.

Definition init : state := mkState [] [].

(** [recv_bundle] of one fragment followed by draining the idle sources: returns
    what reached the application step. *)
Definition agent_recv (st : state) (f : frag) : state * list delivered :=
  if in_seen (frag_sid f) (st_seen st) then (st, [])
  else
    let seen1 := frag_sid f :: st_seen st in
    let '(t1, out) := recv_fragment (st_tbl st) f in
    match out with
    | ODeliver d =>
        if in_seen (whole_sid (d_id d)) seen1 then (mkState t1 seen1, [])
        else (mkState t1 (whole_sid (d_id d) :: seen1), [d])
    | _ => (mkState t1 seen1, [])
    end.

(** A whole arrival history; per fragment, what was delivered. *)
Fixpoint run (st : state) (h : list frag) : state * list (list delivered) :=
  match h with
  | [] => (st, [])
  | f :: r =>
      let '(st1, ds) := agent_recv st f in
      let '(st2, dss) := run st1 r in
      (st2, ds :: dss)
  end.

Definition deliveries (st : state) (h : list frag) : list delivered := concat (snd (run st h)).

Definition deliv_for (k : ident3) (ds : list delivered) : list delivered :=
  filter (fun d => id_eqb (d_id d) k) ds.

(** ** Damaged copies

    [recv_bundle] starts with [check_all_crc]: a bundle with an invalid block CRC (primary
    or canonical) is dropped before its identity is even looked at -- it is not recorded
    as seen, it never reaches the chain.  An arrival is an intact fragment or a damaged
    copy of one (its content is irrelevant). *)
Inductive arrival := Intact (f : frag) | Damaged (f : frag).

Definition agent_recv_arr (st : state) (a : arrival) : state * list delivered :=
  match a with
  | Intact f => agent_recv st f
  | Damaged _ => (st, [])
  end.

Fixpoint run_arr (st : state) (h : list arrival) : state * list (list delivered) :=
  match h with
  | [] => (st, [])
  | a :: r =>
      let '(st1, ds) := agent_recv_arr st a in
      let '(st2, dss) := run_arr st1 r in
      (st2, ds :: dss)
  end.

Definition deliveries_arr (st : state) (h : list arrival) : list delivered := concat (snd (run_arr st h)).

(** The CRC-valid fragments of an arrival history, in order. *)
Fixpoint intact_only (h : list arrival) : list frag :=
  match h with
  | [] => []
  | Intact f :: r => f :: intact_only r
  | Damaged _ :: r => intact_only r
  end.

(** ** Vocabulary of the property *)

(** [f] is a fragment of the bundle [k] with payload [p]: right identity, right total,
    carries exactly the octets [p[off, off+len)]. *)
Definition frag_of (k : ident3) (p : bytes) (f : frag) : Prop :=
  f_id f = k /\ f_total f = blen p /\ f_end f <= blen p /\
  f_data f = firstn (length (f_data f)) (skipn (N.to_nat (f_off f)) p).

(** Payload offset [x] is carried by [f]. *)
Definition carries (f : frag) (x : N) : Prop := f_off f <= x < f_end f.
Definition carriesb (f : frag) (x : N) : bool := (f_off f <=? x) && (x <? f_end f).

(** The fragments [fs] together cover every octet of [p]. *)
Definition covers (fs : list frag) (p : bytes) : Prop :=
  forall x, x < blen p -> exists f, In f fs /\ carries f x.

(** ** Compact constructors for the correspondence run (octet strings as [unhex len 0x..]) *)

Definition bk (ty num : N) (len : nat) (hex : N) : blk := (ty, num, unhex len hex).

Definition mkf (s t q off total : N) (len : nat) (hex : N) (bl : list blk) : frag :=
  mkFrag (s, t, q) off total (unhex len hex) bl.

(** ** Rendering for the correspondence run (lists, pairs, numbers only) *)

Definition render_id (k : ident3) : list N := let '(a, b, c) := k in [a; b; c].

Definition render_delivered (d : delivered) : list N * bytes * list blk :=
  (render_id (d_id d), d_payload d, d_blocks d).

Definition render_entry (ke : ident3 * entry) : list N * N * ivl * bytes * option N :=
  let '(k, e) := ke in
  (render_id k, e_total e, e_valid e, e_buf e,
   match e_first e with Some ff => Some (blen (f_data ff)) | None => None end).

(** outcome code of the step: 0 ignored as seen, 1 absorbed, 2 completed and delivered,
    3 completed but the reassembled identity had been seen, 4 error. *)
Definition step_code (st : state) (f : frag) : N :=
  if in_seen (frag_sid f) (st_seen st) then 0
  else match snd (recv_fragment (st_tbl st) f) with
       | ONone => 1
       | ODeliver d => if in_seen (whole_sid (d_id d)) (frag_sid f :: st_seen st) then 3 else 2
       | OError => 4
       end.

Fixpoint run_render (st : state) (h : list frag)
  : list (N * list (list N * bytes * list blk) * list (list N * N * ivl * bytes * option N)) :=
  match h with
  | [] => []
  | f :: r =>
      let '(st1, ds) := agent_recv st f in
      (step_code st f, map render_delivered ds, map render_entry (st_tbl st1)) :: run_render st1 r
  end.

(** The same for arrival histories with damaged copies: outcome code 5 = discarded for an
    invalid CRC (nothing delivered, table as before). *)
Fixpoint run_render_arr (st : state) (h : list arrival)
  : list (N * list (list N * bytes * list blk) * list (list N * N * ivl * bytes * option N)) :=
  match h with
  | [] => []
  | Intact f :: r =>
      let '(st1, ds) := agent_recv st f in
      (step_code st f, map render_delivered ds, map render_entry (st_tbl st1)) :: run_render_arr st1 r
  | Damaged _ :: r =>
      (5, [], map render_entry (st_tbl st)) :: run_render_arr st r
  end.
