(* C04 -- the frames an endpoint sends follow the RFC 9174 grammar.

   Model: Model/TcpclSess.v (ep, step, run); [sent s] is the sequence of
   frames given to Messenger.send_message, [wire s], [conn_tx s], [msg_tx s]
   the octets written to the socket / buffered in the two transmit buffers.
   All theorems hold for EVERY configuration and EVERY operation list (every
   schedule, chunking, back-pressure pattern, user call position, and
   arbitrary received octets).

   Proved so far (Group 1):
     C04_sent_accounting   the octets written or buffered are exactly the
                           encodings of the frames of [sent s], in order;
     C04_step_mono         [sent], [wire], [trace], [handled] only grow.

   (2a) C04_contact_first / C04_contact_first_map   exactly one contact
                           header, and it is the first frame;
   (2b) C04_sess_term_once at most one SESS_TERM; [in_term] iff one was sent.

   (2c) no START segment after SESS_TERM.  The FULL-STRENGTH statement
          sent s = pre ++ FMsg (MSessTerm fl r) :: post -> no START segment in post
        is FALSE for the model as for the code: C04_no_start_after_term_refuted
        (peer announces segment MRU 0: every _process_queue pass sends another
        START segment with no data and never advances, also after SESS_TERM;
        file.read(0) returns b'').  Proved instead: C04_no_start_after_term_partial,
        the statement under the hypothesis that the segment size in use is
        positive in every state of the run in which the session is established.

   NOT YET PROVED (in progress, statements as in the work order):
     sess_init_active / sess_init_passive
     (2d), C04_grammar_active / C04_grammar_passive / C04_pair (2e),
     seg_within_mru (2f), ack_echo (2g). *)
From Coq Require Import List NArith Bool.
Import ListNotations.
From DTN Require Import Lib.Bytes Model.TcpclMsg Model.TcpclSess Proofs.TcpclSentProofs.
Local Open Scope N_scope.

Theorem C04_sent_accounting : forall (c : cfg) (ops : list op),
  let s := run c ops in
  wire s ++ conn_tx s ++ msg_tx s = concat (map encode_frame (sent s)).
Proof. exact sent_accounting. Qed.
Print Assumptions C04_sent_accounting.

Theorem C04_step_mono : forall (s : ep) (o : op),
  (exists x, sent (step s o) = sent s ++ x) /\ (exists w, wire (step s o) = wire s ++ w)
  /\ (exists t, trace (step s o) = trace s ++ t) /\ (exists h, handled (step s o) = handled s ++ h).
Proof. exact step_mono. Qed.
Print Assumptions C04_step_mono.

Theorem C04_contact_first : forall (c : cfg) (ops : list op),
  let s := run c ops in
  sent s = [] \/ exists rest, sent s = FContact (mkContact MAGIC 4 0) :: rest
                               /\ Forall (fun f => exists m, f = FMsg m) rest.
Proof. exact contact_first. Qed.
Print Assumptions C04_contact_first.

(* The form consumed by the channel lemma of C07. *)
Theorem C04_contact_first_map : forall (c : cfg) (ops : list op),
  let s := run c ops in
  sent s = [] \/ exists h ms, sent s = FContact h :: map FMsg ms.
Proof. exact contact_first_map. Qed.
Print Assumptions C04_contact_first_map.

Theorem C04_sess_term_once : forall (c : cfg) (ops : list op),
  let s := run c ops in
  (length (filter (fun f => match f with FMsg (MSessTerm _ _) => true | _ => false end) (sent s)) <= 1)%nat
  /\ (in_term s = true <-> exists fl r, In (FMsg (MSessTerm fl r)) (sent s)).
Proof. exact sess_term_once. Qed.
Print Assumptions C04_sess_term_once.

Theorem C04_no_start_after_term_partial : forall (c : cfg) (ops : list op),
  (forall k, let s := run c (firstn k ops) in in_sess s = true -> 0 < seg_size s) ->
  forall pre fl r post, sent (run c ops) = pre ++ FMsg (MSessTerm fl r) :: post ->
  Forall (fun f => match f with FMsg (MXferSeg flags _ _ _) => has_start flags = false | _ => True end) post.
Proof. exact no_start_after_term_partial. Qed.
Print Assumptions C04_no_start_after_term_partial.

Theorem C04_no_start_after_term_refuted :
  exists c ops pre fl r post, sent (run c ops) = pre ++ FMsg (MSessTerm fl r) :: post
    /\ ~ Forall (fun f => match f with FMsg (MXferSeg flags _ _ _) => has_start flags = false | _ => True end) post.
Proof. exact no_start_after_term_refuted. Qed.
Print Assumptions C04_no_start_after_term_refuted.

(* Non-vacuity of the hypothesis of the partial statement: a run with a
   positive segment size that sends SESS_TERM with a transfer in progress. *)
Example C04_partial_nonvacuous :
  let c := mkCfg false [100] 30 60 1000 2 None in
  let ops := [OStart; ORx (encode_frame (FContact (mkContact MAGIC 4 0)));
              ORx (encode_frame (FMsg (MSessInit 30 2 1000 [100] []))); OSend [1;2;3]; OPQ; OTerm 0;
              OSend [4]; OPQ] in
  forallb (fun k => let s := run c (firstn k ops) in negb (in_sess s) || (0 <? seg_size s)) (seq 0 9) = true
  /\ existsb (fun f => match f with FMsg (MSessTerm _ _) => true | _ => false end) (sent (run c ops)) = true.
Proof. vm_compute. split; reflexivity. Qed.

(* Non-vacuity: a run in which frames are sent and octets reach the wire. *)
Example C04_example_run :
  let s := run (mkCfg false [100] 30 60 1000 500 None)
               [OStart; OTxPump true 100;
                ORx (encode_frame (FContact (mkContact MAGIC 4 0)));
                OTxPump true 100] in
  length (sent s) = 2%nat /\ wire s <> [].
Proof. vm_compute. split; [reflexivity | discriminate]. Qed.
