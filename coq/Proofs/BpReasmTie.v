(** Tie between the generated descriptor Gen/ReasmSteps.v (decision structure of
    Fragment._reassemble, regenerated from /repo on every run) and Model/BpReasm.v. *)
From Coq Require Import List NArith Bool.
From DTN Require Import Lib.Bytes Lib.Ivl Gen.ReasmSteps Model.BpReasm Proofs.BpReasmProofs.
Import ListNotations.
Local Open Scope N_scope.

(** Which fragment becomes [first_frag], by the rule the code uses. *)
Definition first_of (r : first_rule) (e0 : entry) (f : frag) : option frag :=
  match r with
  | FirstIfOffsetZero => if f_off f =? 0 then Some f else e_first e0
  | FirstAlways => Some f
  end.

(** One table slot's step written over the descriptor: lookup-or-create, first-fragment
    rule, splice, union, then ALWAYS the coverage test (no return in between); on
    completion the slot is emptied and one bundle is handed back (payload = buffer, blocks
    of the first fragment), otherwise the updated entry is stored. *)
Definition step_of (r : first_rule) (slot : option entry) (f : frag) : option entry * outcome :=
  let e0 := match slot with Some e => e | None => fresh_entry (f_total f) end in
  let first := first_of r e0 f in
  let buf := splice (e_buf e0) (f_off f) (f_end f) (f_data f) in
  let valid := Ivl.add (f_off f) (f_end f) (e_valid e0) in
  if Ivl.eqb valid (Ivl.full (e_total e0)) then
    (None, match first with
           | Some ff => ODeliver (mkDelivered (f_id f) buf (f_blocks ff))
           | None => OError
           end)
  else (Some (mkEntry (e_total e0) valid buf first), ONone).

Theorem reasm_structure :
  rs_guards = 2%nat /\ rs_key_parts = 3%nat /\ rs_mid_returns = 0%nat /\
  rs_splice_then_union = true /\ rs_completion_is_cover_eq = true /\
  rs_completion_removes_entry = true /\ rs_clears_fragment_flag = true /\
  rs_blocks_from_first = true /\ rs_payload_from_buffer = true /\
  rs_reinjections = 1%nat /\ rs_fallthrough_clears_actions = true /\
  (forall slot f, entry_step slot f = step_of rs_first slot f) /\
  (forall t f, tbl_get (f_id f) (fst (recv_fragment t f)) = fst (step_of rs_first (tbl_get (f_id f) t) f)) /\
  (forall t f, snd (recv_fragment t f) = snd (step_of rs_first (tbl_get (f_id f) t) f)).
Proof.
  assert (E : forall slot f, entry_step slot f = step_of rs_first slot f) by (intros; reflexivity).
  repeat (split; [reflexivity|]).
  split; intros t f; rewrite <- E; [apply recv_get_same|apply recv_out].
Qed.
