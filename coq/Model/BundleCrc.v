(** Block CRCs (property C08): vocabulary for the octet-level statements, a LAX
    model of how the implementation reads a canonical block, and the runners
    used by [harness/check_C08.py].  Definitions only; the proofs are in
    [Proofs/BundleCrcProofs.v].  The codec itself ([primary], [cblock],
    [with_crc_*], [crc_ok_*]) is [Model/Bundle.v].

    1. Octet-level validity, as an independent receiver checks it (RFC 9171
       4.2.1): the last 2 (resp. 4) octets of the encoded block array are the
       big-endian CRC, computed over the whole encoded block with those octets
       replaced by zeros - [crc_valid_octets], stated with the polynomial
       division definition [Crc.crc_spec_x25] / [Crc.crc_spec_32c].

    2. Why a lax model.  [AbstractBlock.check_crc] does not look at the received
       octets: it re-encodes the DECODED block ([cbor2.dumps(self.build())]) with
       a zeroed CRC field and compares.  Decoding is lax at two levels:
       [cbor2.loads] accepts non-shortest heads ([Cbor.decode] models that), and
       the scapy_cbor fields coerce instead of type-checking:
         [UintField.m2i = int(x)]    CBOR true/false read as 1/0 (also floats, text and
                                     byte strings of digits - not modelled),
         [BstrField.m2i = bytes(x)]  a text string, null or undefined raises TypeError
                                     inside m2i and is read as None (= null when
                                     re-encoded); an array of small ints is read as
                                     those octets and an unsigned n as n zero octets
                                     (the last two not modelled: no position).
       [lblock] / [lblock_of_items] / [lax_crc_ok_block] model exactly this for
       canonical blocks; the primary block is read strictly ([primary_of_items]).
       Where the lax model does not know what the implementation does it takes
       no position (verdict code 0). *)
From Coq Require Import List NArith Bool.
From DTN Require Import Lib.Bytes Lib.Cbor Lib.Crc Model.Bundle.
Import ListNotations.
Local Open Scope N_scope.

(** * 1. Octet-level vocabulary *)

(** [enc] (an encoded block whose CRC type is [ct]) carries the right CRC, by
    the polynomial specification; nothing is demanded for other CRC types. *)
Definition crc_valid_octets (ct : N) (enc : bytes) : Prop :=
  (ct = 1 -> exists pre, enc = pre ++ be 2 (crc_spec_x25 (pre ++ [0; 0]))) /\
  (ct = 2 -> exists pre, enc = pre ++ be 4 (crc_spec_32c (pre ++ [0; 0; 0; 0]))).

(** The items of a block in front of the CRC item. *)
Definition cblock_head_items (b : cblock) : list cbor :=
  [CUint (btype b); CUint (bnum b); CUint (bflags b); CUint (bcrc_type b); CBstr (btsd b)].
Definition primary_head_items (p : primary) : list cbor :=
  [CUint (version p); CUint (flags p); CUint (crc_type p);
   cbor_of_eid (dest p); cbor_of_eid (src p); cbor_of_eid (report_to p);
   CArr [CUint (create_time p); CUint (create_seq p)]; CUint (lifetime p)]
  ++ frag_items (frag p).

(** Octets of the array [its ++ [CBstr v]] up to and including the head of the
    trailing byte string of [vlen] octets: everything in front of the CRC value. *)
Definition arr_pre (its : list cbor) (vlen : nat) : bytes :=
  head 4 (N.of_nat (S (length its))) ++ encode_seq its ++ head 2 (N.of_nat vlen).
Definition cblock_pre (b : cblock) (vlen : nat) : bytes := arr_pre (cblock_head_items b) vlen.
Definition primary_pre (p : primary) (vlen : nat) : bytes := arr_pre (primary_head_items p) vlen.

(** The block with its CRC field zeroed (what the CRC is computed over). *)
Definition zero_block (b : cblock) : cblock := set_bcrc b (crc_zero (bcrc_type b)).
Definition zero_primary (p : primary) : primary := set_crc p (crc_zero (crc_type p)).

(** The independent CRC field value for a CRC type. *)
Definition crc_spec_field (ct : N) (bs : bytes) : option bytes :=
  if ct =? 1 then Some (be 2 (crc_spec_x25 bs))
  else if ct =? 2 then Some (be 4 (crc_spec_32c bs))
  else None.

(** * 2. Lax reading of canonical blocks *)

Record lblock : Type := mkLBlock {
  l_type : N;
  l_num : N;
  l_flags : N;
  l_crc_type : N;
  l_btsd : option bytes;        (* None: the BTSD field holds Python None (re-encoded as null) *)
  l_crc : option bytes          (* None: no CRC item (type 0) or the item was read as None *)
}.

(** [UintField.m2i]: [int(x)]. *)
Definition lax_uint (c : cbor) : option N :=
  match c with
  | CUint n => Some n
  | CSimple n => if n =? 20 then Some 0 else if n =? 21 then Some 1 else None
  | _ => None
  end.

Definition asciib (s : bytes) : bool := forallb (fun x => x <? 128) s.

(** [BstrField.m2i]: [bytes(x)]; outer [None] = no position. *)
Definition lax_bstr (c : cbor) : option (option bytes) :=
  match c with
  | CBstr b => Some (Some b)
  | CTstr s => if asciib s then Some None else None   (* cbor2 checks UTF-8; only ASCII is modelled *)
  | CSimple n => if (n =? 22) || (n =? 23) then Some None else None
  | _ => None
  end.

(** the five leading fields *)
Definition lblock_head (l : list cbor) : option (N * N * N * N * option bytes * list cbor) :=
  match l with
  | t :: n :: f :: ct :: d :: rest =>
      match lax_uint t with None => None | Some t' =>
      match lax_uint n with None => None | Some n' =>
      match lax_uint f with None => None | Some f' =>
      match lax_uint ct with None => None | Some ct' =>
      match lax_bstr d with None => None | Some d' => Some (t', n', f', ct', d', rest)
      end end end end end
  | _ => None
  end.

(** CRC type 0: exactly five items (a sixth is not consumed by any field and
    makes the dissection raise); type 1/2: exactly one more, read by [BstrField];
    any other type raises in [EnumField.m2i]. *)
Definition lblock_of_items (l : list cbor) : option lblock :=
  match lblock_head l with
  | Some (t, n, f, ct, d, rest) =>
      if ct =? 0 then match rest with [] => Some (mkLBlock t n f ct d None) | _ => None end
      else if (ct =? 1) || (ct =? 2) then
        match rest with
        | [v] => match lax_bstr v with Some v' => Some (mkLBlock t n f ct d v') | None => None end
        | _ => None
        end
      else None
  | None => None
  end.

Definition lblock_of_cbor (c : cbor) : option lblock :=
  match c with CArr l => lblock_of_items l | _ => None end.

(** [CanonicalBlock.build()] of the decoded block with CRC field [c]. *)
Definition lblock_items (b : lblock) (c : option bytes) : list cbor :=
  [CUint (l_type b); CUint (l_num b); CUint (l_flags b); CUint (l_crc_type b);
   match l_btsd b with Some d => CBstr d | None => CSimple 22 end]
  ++ crc_items c.

Definition lblock_reencode (b : lblock) : bytes := encode (CArr (lblock_items b (l_crc b))).

(** [check_crc]: type 0 - valid iff no CRC value; otherwise the stored value must
    equal the CRC of the re-encoding with a zeroed field. *)
Definition lax_crc_ok_block (b : lblock) : bool :=
  if l_crc_type b =? 0 then match l_crc b with None => true | Some _ => false end
  else match l_crc b, crc_field (l_crc_type b) (encode (CArr (lblock_items b (crc_zero (l_crc_type b))))) with
       | Some v, Some w => bytes_eqb v w
       | _, _ => false
       end.

Definition lblock_of_cblock (b : cblock) : lblock :=
  mkLBlock (btype b) (bnum b) (bflags b) (bcrc_type b) (Some (btsd b)) (bcrc b).

Fixpoint lblocks_of (l : list cbor) : option (list lblock) :=
  match l with
  | [] => Some []
  | c :: t =>
      match lblock_of_cbor c with
      | None => None
      | Some b => match lblocks_of t with
                  | None => None
                  | Some r => Some (b :: r)
                  end
      end
  end.

(** [Bundle(data)]: primary strict, canonical blocks lax; admin-flagged bundles
    (whose payload is re-parsed by [Bundle.post_dissect]) are left out. *)
Definition lax_decode_bundle (bs : bytes) : option (primary * list lblock) :=
  match decode bundle_fuel bs with
  | Some (CArr (CArr pl :: rest), _) =>
      match primary_of_items pl with
      | Some p =>
          if is_admin p then None
          else match lblocks_of rest with
               | Some bl => Some (p, bl)
               | None => None
               end
      | None => None
      end
  | _ => None
  end.

(** Verdict of [recv_bundle]'s CRC gate on received octets, as far as the lax
    model knows: 0 no position, 1 dropped (some CRC fails), 2 passes the gate.
    The primary block is re-encoded through the EID text conversion
    ([EidField.i2m], [Bundle.impl_norm_primary]) before its CRC is recomputed. *)
Definition lax_verdict (bs : bytes) : N :=
  match lax_decode_bundle bs with
  | Some (p, bl) => if crc_ok_primary (impl_norm_primary p) && forallb lax_crc_ok_block bl then 2 else 1
  | None => 0
  end.

(** The same with the strict tree conversion of [Model/Bundle.v], plus whether
    the decoded bundle re-encodes to exactly the received octets. *)
Definition strict_verdict (bs : bytes) : N * bool :=
  match decode_bundle bs with
  | Some b => (if crc_ok_bundle b then 2 else 1, bytes_eqb (encode_bundle b) bs)
  | None => (0, false)
  end.

(** ** Item count of canonical block arrays

    RFC 9171 4.3.2: a canonical block is an array of 5 items when its CRC type
    is 0 and of 6 items otherwise.  [block_arity_bad c] says that [c], read as
    a canonical block whose fourth item is an unsigned integer, has any other
    number of items (left-over items after the declared fields, or a missing
    CRC item).  No position when the CRC type item is not an unsigned integer. *)
Definition block_arity_bad (c : cbor) : bool :=
  match c with
  | CArr l =>
      match nth_error l 3 with
      | Some (CUint ct) => negb (Nat.eqb (length l) (if ct =? 0 then 5%nat else 6%nat))
      | _ => false
      end
  | _ => true
  end.

(** 0: the octets are not CBOR / not an array with a first item; 1: some
    canonical block array has a wrong item count (every model of the decoder
    rejects, see [BundleCrcProofs.arity_bad_rejected]); 2: all counts right. *)
Definition arity_verdict (bs : bytes) : N :=
  match decode bundle_fuel bs with
  | Some (CArr (_ :: rest), _) => if existsb block_arity_bad rest then 1 else 2
  | _ => 0
  end.

(** * 3. Corruptions *)

Fixpoint xor_bytes (xs bs : bytes) : bytes :=
  match xs, bs with
  | x :: xs', b :: bs' => N.lxor x b :: xor_bytes xs' bs'
  | _, _ => bs
  end.

(** xor the octets [xs] into [bs] starting at offset [off] *)
Definition xor_at (off : nat) (xs bs : bytes) : bytes :=
  firstn off bs ++ xor_bytes xs (skipn off bs).

(** * 4. Runners for the correspondence harness *)

(** Receive side: one encoded bundle and a list of corruptions (offset, xor
    octets); per corruption [lax verdict; strict verdict; canonical re-encoding;
    item-count verdict]. *)
Definition run_rx (c : bytes * list (nat * bytes)) : list (list N) :=
  map (fun f =>
         let bs := xor_at (fst f) (snd f) (fst c) in
         let sv := strict_verdict bs in
         [lax_verdict bs; fst sv; if snd sv then 1 else 0; arity_verdict bs])
      (snd c).

(** Transmit side: octets handed to the convergence layer.  Per block (primary
    first): [CRC type; number of items; stored CRC octets (or []); CRC octets by
    the polynomial specification over the block with the field zeroed (or [])],
    preceded by [decodes strictly and canonically; model check passes; the
    bundle equals its own [with_crc_bundle]].  [f] computes the CRC column. *)
Definition ren_crc (o : option bytes) : bytes := match o with Some v => v | None => [] end.

Definition tx_primary_row (f : N -> bytes -> option bytes) (p : primary) : list bytes :=
  [[crc_type p]; [N.of_nat (length (primary_items p))]; ren_crc (crc p);
   ren_crc (f (crc_type p) (encode_primary (zero_primary p)))].
Definition tx_block_row (f : N -> bytes -> option bytes) (b : cblock) : list bytes :=
  [[bcrc_type b]; [N.of_nat (length (cblock_items b))]; ren_crc (bcrc b);
   ren_crc (f (bcrc_type b) (encode_cblock (zero_block b)))].

Definition run_tx_gen (f : N -> bytes -> option bytes) (bs : bytes) : option (list bool * list (list bytes)) :=
  match decode_bundle bs with
  | Some b =>
      Some ([bytes_eqb (encode_bundle b) bs; crc_ok_bundle b;
             bytes_eqb (encode_bundle (with_crc_bundle b)) bs],
            tx_primary_row f (prim b) :: map (tx_block_row f) (blocks b))
  | None => None
  end.

(** CRC column by the executable shift register ([crc16_x25_spec] / [crc32c_spec]
    prove it equal to the polynomial specification) - fast, used for every
    transmission - and by the polynomial specification itself - slow, used on a
    sample. *)
Definition run_tx : bytes -> option (list bool * list (list bytes)) := run_tx_gen crc_field.
Definition run_tx_spec : bytes -> option (list bool * list (list bytes)) := run_tx_gen crc_spec_field.
