(** Sender side of the channel lemma for [Model/TcpclSess.v]: accounting of
    the octets written. *)
From Coq Require Import ZArith NArith List Bool Lia ZifyBool ZifyN ZifyNat Arith.
From RecordUpdate Require Import RecordSet.
From DTN Require Import Lib.Bytes Model.TcpclMsg Model.TcpclSess Proofs.TcpclSessBasics
  Proofs.TcpclMsgProofs Proofs.TcpclChannelProofs.
Import ListNotations RecordSetNotations.
Local Open Scope N_scope.

(** * Sender side: accounting of the octets written
      (every octet the socket accepted, or that is still in one of the two
      transmit buffers, comes from the encoding of a sent frame, in order) *)

Definition tv (s : ep) := (wire s, conn_tx s, msg_tx s, sent s).
Definition balv (v : bytes * bytes * bytes * list frame) : Prop :=
  let '(w, c, m, snt) := v in w ++ c ++ m = enc snt.
Definition bal (s : ep) : Prop := balv (tv s).

Ltac bal_norm :=
  repeat match goal with
  | |- bal (set ?p ?f ?x) =>
      let H := fresh in
      assert (H : forall y, bal (set p f y) = bal y) by (intro; reflexivity);
      rewrite (H x); clear H
  end.

Lemma tv_bal a b : tv a = tv b -> bal b -> bal a.
Proof. unfold bal. intros ->. auto. Qed.

Lemma bal_emit e s : bal s -> bal (emit e s). Proof. exact (fun H => H). Qed.
Lemma bal_set_state st s : bal s -> bal (set_state st s).
Proof. unfold set_state. destruct (state s =? st); exact (fun H => H). Qed.
Lemma bal_ka_reset s : bal s -> bal (ka_reset s). Proof. exact (fun H => H). Qed.
Lemma bal_idle_reset s : bal s -> bal (idle_reset s). Proof. exact (fun H => H). Qed.
Lemma bal_send_ready s : bal s -> bal (send_ready s).
Proof. unfold send_ready. destruct (io_set s); match goal with |- context [if ?c then _ else _] => destruct c end; exact (fun H => H). Qed.
Lemma bal_send_frame f s : bal s -> bal (send_frame f s).
Proof.
  intros H. unfold send_frame. apply bal_idle_reset, bal_ka_reset, bal_send_ready.
  unfold bal, tv, balv in *. cbn [wire conn_tx msg_tx sent set].
  rewrite enc_snoc, <- H, <- !app_assoc. reflexivity.
Qed.
Lemma bal_send_msg m s : bal s -> bal (send_msg m s). Proof. apply bal_send_frame. Qed.
Lemma bal_flush_fold (l : list (N * bytes)) : forall s0, bal s0 ->
  bal (fold_left (fun s (it : N * bytes) =>
               emit (ESig SigSendFinished [PStrNum (fst it); PInt 0; PStr RES_TERMINATING])
                    (s <| tx_map := dict_del (fst it) (tx_map s) |>)) l s0).
Proof. induction l as [|it l IH]; intros s0 H; cbn [fold_left]; [exact H|]. apply IH. exact H. Qed.
Lemma bal_flush_pend_start s : bal s -> bal (flush_pend_start s).
Proof. intros H. unfold flush_pend_start. apply bal_flush_fold. exact H. Qed.
Lemma bal_do_close s : bal s -> bal (do_close s).
Proof.
  intros H. unfold do_close. cbv zeta.
  match goal with |- context [if ?c then _ else _] => destruct c end; [exact H|].
  apply bal_emit. bal_norm.
  match goal with |- context [if ?c then _ else _] => destruct c end; bal_norm; apply bal_flush_pend_start; exact H.
Qed.
Lemma bal_pq_trigger s : bal s -> bal (pq_trigger s).
Proof. unfold pq_trigger. destruct (pq_set s); exact (fun H => H). Qed.
Lemma bal_sbd n s : bal s -> bal (send_buffer_decreased n s).
Proof. unfold send_buffer_decreased. destruct (_ <? _); [apply bal_pq_trigger|exact (fun H => H)]. Qed.
Lemma bal_check_sess_term s : bal s -> bal (check_sess_term s).
Proof. unfold check_sess_term. destruct (_ && _); [apply bal_do_close|exact (fun H => H)]. Qed.
Lemma bal_send_contact_header s : bal s -> bal (send_contact_header s). Proof. apply bal_send_frame. Qed.
Lemma bal_send_sess_init s : bal s -> bal (send_sess_init s).
Proof. intros H. unfold send_sess_init. cbv zeta. bal_norm. apply bal_send_msg. exact H. Qed.
Lemma bal_send_sess_term r b s : bal s -> bal (fst (send_sess_term r b s)).
Proof.
  intros H. unfold send_sess_term. destruct (negb (in_sess s)); [exact H|]. destruct (in_term s); [exact H|].
  cbv zeta. cbn [fst ok]. apply bal_send_msg, bal_set_state. bal_norm. exact H.
Qed.
Lemma bal_escape r : bal (fst r) -> bal (escape r).
Proof. destruct r as [s [k|]]; exact (fun H => H). Qed.
Lemma bal_send_next s : bal s -> bal (send_next s).
Proof.
  intros H. unfold send_next. destruct (tx_tmp s) as [[id data]|]; [|exact H].
  cbv zeta. destruct (_ && _); [exact H|].
  match goal with |- context [if ?c then _ else _] => destruct c end.
  - apply bal_pq_trigger. bal_norm. apply bal_send_msg. bal_norm. exact H.
  - apply bal_send_msg. bal_norm. exact H.
Qed.
Lemma bal_process_queue s : bal s -> bal (fst (process_queue s)).
Proof.
  intros H. unfold process_queue. cbv zeta. cbn [tx_tmp in_sess in_term pend_start set].
  destruct (tx_tmp s) as [p|] eqn:T.
  - cbn [fst]. apply bal_send_next. bal_norm. exact H.
  - destruct (negb (in_sess s)); [exact H|]. destruct (in_term s); [exact H|].
    destruct (pend_start s) as [|[id data] rest]; [exact H|].
    cbn [fst]. apply bal_send_next, bal_emit. bal_norm. exact H.
Qed.
Lemma bal_merge_session_params s : bal s -> bal (fst (merge_session_params s)).
Proof.
  intros H. unfold merge_session_params.
  destruct (sessinit_this s) as [this|]; [|exact H].
  destruct (sessinit_peer s) as [peer|]; [|exact H].
  destruct (negb (ascii (si_nodeid peer))); exact H.
Qed.
Lemma tv_sbd n y : tv (send_buffer_decreased n y) = tv y.
Proof. unfold send_buffer_decreased, pq_trigger. destruct (_ <? _); [destruct (pq_set y)|]; reflexivity. Qed.

Lemma bal_move (s y1 : ep) data rest :
  tv y1 = (wire s, conn_tx s, rest, sent s) -> msg_tx s = data ++ rest -> bal s ->
  bal (y1 <| conn_tx := conn_tx y1 ++ data |>).
Proof.
  unfold bal, tv, balv. cbn [wire conn_tx msg_tx sent set]. intros T M H.
  injection T as -> -> -> ->. rewrite <- H, M, <- !app_assoc. reflexivity.
Qed.

Lemma bal_tx_proxy a s : bal s -> bal (fst (tx_proxy a s)).
Proof.
  intros H. unfold tx_proxy.
  match goal with |- context [if ?c then ?x else ?y] =>
    assert (H1 : bal (fst (if c then x else y))) end.
  { destruct (_ <? CHUNK); cbn [fst]; [|exact H].
    apply (bal_move s _ (firstn chunk_nat (msg_tx s)) (skipn chunk_nat (msg_tx s))); [|symmetry; apply firstn_skipn|exact H].
    rewrite tv_sbd. reflexivity. }
  match goal with |- context [if ?c then ?x else ?y] => destruct (if c then x else y) as [s1 ue] end.
  cbn [fst] in H1. destruct (is_nil (conn_tx s1)); [exact H1|].
  cbv zeta. destruct (_ =? 0); cbn [fst]; [apply bal_do_close; exact H1|].
  unfold bal, tv, balv in *. cbn [wire conn_tx msg_tx sent set].
  rewrite <- H1, <- !app_assoc. rewrite (app_assoc (firstn _ _)), firstn_skipn. reflexivity.
Qed.

(* purely syntactic dispatch: [apply] with unification up to conversion on
   these nested states is far too expensive *)
Ltac bal_auto H :=
  repeat match goal with
  | H' : bal ?y |- bal ?y => exact H'
  | |- bal (check_sess_term _) => apply bal_check_sess_term
  | |- bal (emit _ _) => apply bal_emit
  | |- bal (send_msg _ _) => apply bal_send_msg
  | |- bal (set_state _ _) => apply bal_set_state
  | |- bal (pq_trigger _) => apply bal_pq_trigger
  | |- bal (flush_pend_start _) => apply bal_flush_pend_start
  | |- bal (send_sess_init _) => apply bal_send_sess_init
  | |- bal (send_contact_header _) => apply bal_send_contact_header
  | |- bal (do_close _) => apply bal_do_close
  | |- bal (set ?p ?f ?x) =>
      let E := fresh in
      assert (E : forall y, bal (set p f y) = bal y) by (intro; reflexivity);
      rewrite (E x); clear E
  end.

Lemma bal_handle_msg m s : bal s -> bal (fst (handle_msg m s)).
Proof.
  intros H. destruct m; unfold handle_msg.
  - destruct (negb (in_sess s)); [exact H|].
    destruct (has_start flags).
    + cbv zeta. destruct (has_end flags); cbn [fst]; bal_auto H.
    + destruct (rx_tmp s) as [[cur acc]|]; [|exact H].
      destruct (cur =? xid); [|exact H].
      cbv zeta. destruct (has_end flags); cbn [fst]; bal_auto H.
  - destruct (negb (in_sess s)); [exact H|].
    destruct (dict_get xid (tx_map s)); [|exact H].
    cbv zeta. destruct (has_end flags).
    + cbn [pend_ack set]. destruct (negb (mem_N xid (pend_ack s))); cbn [fst]; bal_auto H.
    + cbn [fst]. bal_auto H.
  - destruct (negb (in_sess s)); [exact H|].
    destruct (dict_get xid (tx_map s)); [|exact H].
    cbv zeta. cbn [tx_tmp set emit].
    destruct (tx_tmp s) as [[cur d]|]; [destruct (cur =? xid)|]; cbn [fst]; bal_auto H.
  - exact H.
  - destruct (negb (in_sess s)); [exact H|].
    destruct (in_term s).
    + cbn [fst]. bal_auto H.
    + pose proof (bal_send_sess_term reason true s H) as H1.
      destruct (send_sess_term reason true s) as [s1 [k|]]; cbn [fst] in *; [exact H1|].
      bal_auto H1.
  - exact H.
  - cbv zeta.
    match goal with |- context [merge_session_params ?x] =>
      assert (H1 : bal x) by (destruct (c_passive (cf s)); bal_auto H);
      pose proof (bal_merge_session_params x H1) as H2; destruct (merge_session_params x) as [s1 [k|]] end;
      cbn [fst] in *; bal_auto H2.
Qed.

Lemma bal_recv_frame f s : bal s -> bal (fst (recv_frame f s)).
Proof.
  intros H. destruct f as [c|m]; unfold recv_frame.
  - destruct (negb (bytes_eqb (ch_magic c) MAGIC)); [cbn [fst ok]; bal_auto H|].
    destruct (negb (ch_version c =? 4)); [cbn [fst ok]; bal_auto H|].
    cbv zeta.
    set (s1 := if c_passive (cf s) then (send_contact_header s) <| conhead_this := Some (contact_flags s) |> else s).
    assert (H1 : bal s1).
    { unfold s1. destruct (c_passive (cf s)); [|exact H]. bal_norm. apply bal_send_contact_header. exact H. }
    destruct (conhead_this s1); [|exact H1].
    match goal with |- context [set_state ST_SESSNEG ?x] => set (s3 := set_state ST_SESSNEG x) end.
    assert (H3 : bal s3) by (unfold s3; apply bal_set_state; bal_norm; exact H1).
    destruct (c_require_tls (cf s3)) as [[|]|]; [|destruct (c_passive (cf s3))|destruct (c_passive (cf s3))];
      cbn [fst ok]; bal_auto H3.
  - pose proof (bal_handle_msg m s H) as H1.
    destruct (handle_msg m s) as [s1 [|reason|k]]; cbn [fst] in *; unfold ok, raise; cbn [fst]; bal_auto H1.
Qed.

Lemma bal_recv_loop : forall fuel s, bal s -> bal (fst (recv_loop fuel s)).
Proof.
  induction fuel as [|fuel IH]; intros s H; cbn [recv_loop]; [exact H|].
  destruct (is_nil (rx_buf s) || closed s); [exact H|].
  destruct (parse_frame (in_conn s) (rx_buf s)) as [[fr rest]|]; [|exact H].
  match goal with |- context [recv_frame fr ?x] =>
    assert (H1 : bal x) by (bal_norm; exact H);
    pose proof (bal_recv_frame fr x H1) as H2; destruct (recv_frame fr x) as [s1 [k|]] end;
    cbn [fst] in *; [exact H2|]. apply IH. exact H2.
Qed.

Lemma bal_step s o : bal s -> bal (step s o).
Proof.
  intros H. destruct o; unfold step.
  - destruct (closed s); [exact H|].
    destruct (negb (state s =? ST_CONNECTING)); [exact H|].
    cbv zeta. apply bal_set_state.
    destruct (c_passive (cf s)); [exact H|]. bal_norm. apply bal_send_contact_header. exact H.
  - destruct (closed s); [exact H|]. destruct (in_term s); [apply bal_emit; exact H|].
    cbv zeta. apply bal_emit, bal_pq_trigger. bal_norm. exact H.
  - destruct (closed s); [exact H|].
    destruct (negb (in_sess s)); [apply bal_do_close; exact H|].
    apply bal_escape, bal_send_sess_term. exact H.
  - destruct (closed s); [exact H|]. apply bal_do_close. exact H.
  - destruct (closed s); [exact H|].
    destruct (dict_get id (rx_map s)); [apply bal_emit; bal_norm; exact H|apply bal_emit; exact H].
  - destruct (closed s); [exact H|].
    match goal with |- context [if ?c then _ else _] => destruct c end; [|exact H].
    cbv zeta.
    assert (H0 : bal (s <| pend_set := false |>)) by (bal_norm; exact H).
    pose proof (bal_tx_proxy accept _ H0) as H1.
    destruct (tx_proxy accept (s <| pend_set := false |>)) as [s1 cont]. cbn [fst] in H1.
    destruct cont; [exact H1|]. destruct idle; bal_norm; exact H1.
  - destruct (closed s); [exact H|].
    destruct (is_nil data || negb (rx_alive s)); [exact H|].
    unfold recv_raw. cbv zeta.
    match goal with |- context [recv_loop ?f ?x] =>
      assert (H0 : bal x) by (bal_norm; apply bal_idle_reset; bal_norm; exact H);
      pose proof (bal_recv_loop f x H0) as H1; destruct (recv_loop f x) as [s1 [k|]] end;
      cbn [fst] in H1; [apply bal_emit; bal_norm; exact H1|exact H1].
  - destruct (closed s); [exact H|]. destruct (rx_alive s); [apply bal_do_close; exact H|exact H].
  - destruct (closed s); [exact H|].
    match goal with |- context [if ?c then _ else _] => destruct c end; [|exact H].
    pose proof (bal_process_queue s H) as H1.
    destruct (process_queue s) as [s1 keep]. cbn [fst] in H1.
    destruct keep; bal_norm; exact H1.
  - destruct (closed s); [exact H|].
    destruct (ka_due s) as [due|]; [|exact H].
    destruct (due <=? now s); [|exact H]. apply bal_send_msg. bal_norm. exact H.
  - destruct (closed s); [exact H|].
    destruct (idle_due s) as [due|]; [|exact H].
    destruct (due <=? now s); [|exact H]. cbv zeta. cbn [in_term set].
    destruct (in_term s).
    + apply bal_do_close. bal_norm. exact H.
    + apply bal_escape, bal_send_sess_term. bal_norm. exact H.
  - bal_norm. exact H.
Qed.

(** [sent_accounting] *)
Theorem sent_accounting : forall c ops,
  wire (run c ops) ++ conn_tx (run c ops) ++ msg_tx (run c ops) = enc (sent (run c ops)).
Proof.
  intros c ops. apply (run_invariant bal c); [reflexivity|intros; apply bal_step; assumption].
Qed.

(** The channel lemma with the accounting premise discharged. *)
Theorem channel_acc : forall cA opsA cB opsB,
  (exists rest, wire (run cA opsA) = received (init cB) opsB ++ rest) ->
  Forall wf_frame (sent (run cA opsA)) ->
  shape (sent (run cA opsA)) ->
  is_prefix (handled (run cB opsB)) (sent (run cA opsA)).
Proof.
  intros cA opsA cB opsB HW WF SH. apply channel; try assumption. apply sent_accounting.
Qed.
