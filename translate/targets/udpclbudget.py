''' Translator target `udpclbudget`: regenerates coq/Gen/UdpclBudget.v from the
CURRENT src/udpcl/agent.py (property C13).

Translated fragment: the size arithmetic and the message layout of
``Agent._send_transfer``:

 (a) the fit test             ``mtu is None or len(data) <op> mtu``    -> unsegmented
 (b) the base extension map   ``{ExtensionKey.TRANSFER: [..4 fields..]}`` -> transfer_key, ext_base_fields
 (c) ``ext_base_encsize = len(cbor2.dumps(ext_base))`` and
     ``data_size_encsize = len(cbor2.dumps(<field>))``                   -> data_size_field
 (d) ``remain_size = <arithmetic over mtu, ext_base_encsize, data_size_encsize>`` -> remain_size
 (e) ``frag_offset = <int>``                                             -> init_offset
 (f) ``while frag_offset <op> len(data):``                               -> loop_test
 (g) the per-segment map ``{ExtensionKey.TRANSFER: [..]}`` whose data field is
     ``data[<lo>:<hi>]``                                                 -> seg_fields, slice_lo, slice_hi
 (h) ``frag_offset += <expr>`` placed AFTER the map is built             -> next_offset

The CBOR encoder itself (``cbor2.dumps``) is not translated: the hand-written
Lib/Cbor.v [encode] stands for it and is compared octet by octet with the real
datagrams by the C13 correspondence run.

FAIL CLOSED: every statement of the function must match the whitelisted shape
(logging calls are skipped); the only names, calls and attributes of ``self``
allowed are listed in generate() -- in particular any agent state other than
``self._config.mtu_default`` that the function reads or writes (a cache, a
counter) makes the target fail; anything else raises TranslateError, py2coq.py
records the target as failed and leaves the previous Gen file in place.
'''
import ast
import os


class TranslateError(Exception):
    pass


SRC = os.path.join('udpcl', 'agent.py')


def _fail(node, msg):
    line = getattr(node, 'lineno', '?')
    what = ast.dump(node)[:160] if isinstance(node, ast.AST) else repr(node)
    raise TranslateError('udpcl/agent.py:%s: %s [%s]' % (line, msg, what))


def dotted(node):
    parts = []
    while isinstance(node, ast.Attribute):
        parts.append(node.attr)
        node = node.value
    if isinstance(node, ast.Name):
        parts.append(node.id)
        return '.'.join(reversed(parts))
    return None


def is_logging(stmt):
    if not isinstance(stmt, ast.Expr) or not isinstance(stmt.value, ast.Call):
        return False
    name = (dotted(stmt.value.func) or '').lower()
    return 'logger' in name


def strip(stmts):
    ''' Drop the docstring and logging calls. '''
    out = []
    for (pos, stmt) in enumerate(stmts):
        if pos == 0 and isinstance(stmt, ast.Expr) and isinstance(stmt.value, ast.Constant) and isinstance(stmt.value.value, str):
            continue
        if is_logging(stmt):
            continue
        out.append(stmt)
    return out


def assign_of(stmt, name):
    ''' ``name = value`` with exactly one plain target; returns value. '''
    if not isinstance(stmt, ast.Assign) or len(stmt.targets) != 1 or dotted(stmt.targets[0]) != name:
        _fail(stmt, 'expected an assignment to %s' % name)
    return stmt.value


def is_call(node, name, nargs):
    return (isinstance(node, ast.Call) and dotted(node.func) == name and not node.keywords
            and len(node.args) == nargs)


def is_len_of(node, name):
    return is_call(node, 'len', 1) and dotted(node.args[0]) == name


CMP = {ast.Lt: '<?', ast.LtE: '<=?', ast.Gt: '>?', ast.GtE: '>=?'}


def arith(node, env):
    ''' Integer expression over the names of ``env`` (python name -> Coq name),
    ``len(data)`` (if 'len(data)' is in env), int constants, + - * and unary minus. '''
    if isinstance(node, ast.Constant) and type(node.value) is int:
        return '(%d)' % node.value
    if isinstance(node, ast.Name) and node.id in env:
        return env[node.id]
    if is_len_of(node, 'data') and 'len(data)' in env:
        return env['len(data)']
    if isinstance(node, ast.UnaryOp) and isinstance(node.op, ast.USub):
        return '(- %s)' % arith(node.operand, env)
    if isinstance(node, ast.BinOp) and isinstance(node.op, (ast.Add, ast.Sub, ast.Mult)):
        sym = {ast.Add: '+', ast.Sub: '-', ast.Mult: '*'}[type(node.op)]
        return '(%s %s %s)' % (arith(node.left, env), sym, arith(node.right, env))
    _fail(node, 'expression outside the whitelisted integer arithmetic')


def compare(node, left_ok, right_ok, env):
    ''' ``<left> <op> <right>`` with one comparison operator. '''
    if not isinstance(node, ast.Compare) or len(node.ops) != 1 or type(node.ops[0]) not in CMP:
        _fail(node, 'expected one of < <= > >= between two integers')
    if not left_ok(node.left) or not right_ok(node.comparators[0]):
        _fail(node, 'comparison operands are not the expected ones')
    return '(%s %s %s)' % (arith(node.left, env), CMP[type(node.ops[0])], arith(node.comparators[0], env))


def enum_values(tree, clsname):
    for node in tree.body:
        if isinstance(node, ast.ClassDef) and node.name == clsname:
            vals = {}
            for stmt in node.body:
                if isinstance(stmt, ast.Assign) and len(stmt.targets) == 1 and isinstance(stmt.targets[0], ast.Name):
                    if isinstance(stmt.value, ast.Constant) and type(stmt.value.value) is int:
                        vals[stmt.targets[0].id] = stmt.value.value
            return vals
    raise TranslateError('class %s not found' % clsname)


def ext_map(node, keys, field_of):
    ''' ``{ExtensionKey.X: [f, f, f, f]}`` -> (key value, [field terms]). '''
    if not isinstance(node, ast.Dict) or len(node.keys) != 1:
        _fail(node, 'expected a one-entry dict literal')
    kname = dotted(node.keys[0]) or ''
    if not kname.startswith('ExtensionKey.') or kname.split('.', 1)[1] not in keys:
        _fail(node.keys[0], 'expected an ExtensionKey member as the key')
    val = node.values[0]
    if not isinstance(val, ast.List):
        _fail(val, 'expected a list literal as the value')
    return (keys[kname.split('.', 1)[1]], [field_of(elt) for elt in val.elts])


def generate(repo_src):
    path = os.path.join(repo_src, SRC)
    with open(path, 'r') as infile:
        tree = ast.parse(infile.read(), filename=path)
    keys = enum_values(tree, 'ExtensionKey')

    func = None
    for node in tree.body:
        if isinstance(node, ast.ClassDef) and node.name == 'Agent':
            for sub in node.body:
                if isinstance(sub, ast.FunctionDef) and sub.name == '_send_transfer':
                    func = sub
    if func is None:
        raise TranslateError('Agent._send_transfer not found')
    if [arg.arg for arg in func.args.args] != ['self', 'item']:
        _fail(func, 'unexpected parameters')

    # ---- the function is a pure function of (item, self._config.mtu_default): any other state it reads or
    # writes (attributes of self, globals, other calls) is outside what the stateless model can express
    allowed_self = ('self._config.mtu_default',)
    allowed_calls = ('len', 'cbor2.dumps', 'item.file.read', 'segments.append')
    allowed_names = {'self', 'item', 'mtu', 'data', 'segments', 'ext_base', 'ext_base_encsize', 'data_size_encsize',
                     'remain_size', 'frag_offset', 'ext', 'seg', 'len', 'cbor2', 'ExtensionKey'}
    for stmt in func.body:
        if is_logging(stmt):
            continue
        for sub in ast.walk(stmt):
            if isinstance(sub, (ast.Global, ast.Nonlocal, ast.Lambda, ast.FunctionDef, ast.ClassDef, ast.Try, ast.With,
                                ast.Import, ast.ImportFrom, ast.Delete, ast.Await, ast.NamedExpr)):
                _fail(sub, 'statement/expression kind outside the whitelist')
            if isinstance(sub, ast.Name) and sub.id not in allowed_names:
                _fail(sub, 'name %s outside the whitelist (new state or helper?)' % sub.id)
            if isinstance(sub, ast.Call) and not is_logging(ast.Expr(value=sub)) and dotted(sub.func) not in allowed_calls:
                _fail(sub, 'call outside the whitelist')
    for stmt in func.body:
        for sub in ast.walk(stmt):
            if isinstance(sub, ast.Attribute):
                name = dotted(sub) or ''
                if name.startswith('self.') and 'logger' not in name.lower():
                    if not any(ok == name or ok.startswith(name + '.') for ok in allowed_self):
                        _fail(sub, 'attribute of self outside the whitelist: the function reads or writes agent state')
                    if not isinstance(sub.ctx, ast.Load):
                        _fail(sub, 'attribute of self is written')

    body = strip(func.body)
    if len(body) != 5:
        _fail(func, 'expected 5 top-level statements (mtu, data, segments, if, for), found %d' % len(body))
    if dotted(assign_of(body[0], 'mtu')) != 'self._config.mtu_default':
        _fail(body[0], 'mtu is not self._config.mtu_default')
    val = assign_of(body[1], 'data')
    if not (is_call(val, 'item.file.read', 0)):
        _fail(body[1], 'data is not item.file.read()')
    val = assign_of(body[2], 'segments')
    if not (isinstance(val, ast.List) and not val.elts):
        _fail(body[2], 'segments is not initialised to []')

    # ---- (a) the fit test
    cond = body[3]
    if not isinstance(cond, ast.If):
        _fail(cond, 'expected the if statement')
    test = cond.test
    if not (isinstance(test, ast.BoolOp) and isinstance(test.op, ast.Or) and len(test.values) == 2):
        _fail(test, 'expected "mtu is None or <comparison>"')
    none_test = test.values[0]
    if not (isinstance(none_test, ast.Compare) and len(none_test.ops) == 1 and isinstance(none_test.ops[0], ast.Is)
            and dotted(none_test.left) == 'mtu' and isinstance(none_test.comparators[0], ast.Constant)
            and none_test.comparators[0].value is None):
        _fail(none_test, 'expected "mtu is None"')
    unseg = compare(test.values[1], lambda n: is_len_of(n, 'data'), lambda n: dotted(n) == 'mtu',
                    {'mtu': 'mtu', 'len(data)': 'len'})
    then = strip(cond.body)
    if len(then) != 1:
        _fail(cond, 'expected one statement in the unsegmented branch')
    val = assign_of(then[0], 'segments')
    if not (isinstance(val, ast.List) and len(val.elts) == 1 and dotted(val.elts[0]) == 'data'):
        _fail(then[0], 'unsegmented branch is not segments = [data]')

    # ---- segmented branch
    seg = strip(cond.orelse)
    if len(seg) != 6:
        _fail(cond, 'expected 6 statements in the segmented branch, found %d' % len(seg))

    def base_field(node):
        name = dotted(node)
        if name == 'item.transfer_id':
            return 'FXid'
        if name == 'item.total_length':
            return 'FTotal'
        if isinstance(node, ast.Constant) and node.value == b'' and isinstance(node.value, bytes):
            return 'FEmptyBstr'
        if isinstance(node, ast.Constant) and type(node.value) is int and node.value >= 0:
            return '(FConst %d%%N)' % node.value
        _fail(node, 'field of the base extension map outside the whitelist')

    (base_key, base_fields) = ext_map(assign_of(seg[0], 'ext_base'), keys, base_field)
    val = assign_of(seg[1], 'ext_base_encsize')
    if not (is_call(val, 'len', 1) and is_call(val.args[0], 'cbor2.dumps', 1) and dotted(val.args[0].args[0]) == 'ext_base'):
        _fail(seg[1], 'ext_base_encsize is not len(cbor2.dumps(ext_base))')
    val = assign_of(seg[2], 'data_size_encsize')
    if not (is_call(val, 'len', 1) and is_call(val.args[0], 'cbor2.dumps', 1)):
        _fail(seg[2], 'data_size_encsize is not len(cbor2.dumps(<field>))')
    size_field = base_field(val.args[0].args[0])
    remain = arith(assign_of(seg[3], 'remain_size'),
                   {'mtu': 'mtu', 'ext_base_encsize': 'ext_base_encsize', 'data_size_encsize': 'data_size_encsize'})
    val = assign_of(seg[4], 'frag_offset')
    if not (isinstance(val, ast.Constant) and type(val.value) is int):
        _fail(seg[4], 'frag_offset is not initialised to an integer constant')
    init_offset = val.value

    loop = seg[5]
    if not isinstance(loop, ast.While) or loop.orelse:
        _fail(loop, 'expected the while loop')
    loop_env = {'frag_offset': 'frag_offset', 'len(data)': 'len'}
    loop_test = compare(loop.test, lambda n: dotted(n) == 'frag_offset', lambda n: is_len_of(n, 'data'), loop_env)
    lbody = strip(loop.body)
    if len(lbody) != 3:
        _fail(loop, 'expected 3 statements in the loop body, found %d' % len(lbody))

    slices = []

    def seg_field(node):
        if dotted(node) == 'frag_offset':
            return 'FOffset'
        if isinstance(node, ast.Subscript) and dotted(node.value) == 'data' and isinstance(node.slice, ast.Slice):
            slc = node.slice
            if slc.step is not None or slc.lower is None or slc.upper is None:
                _fail(node, 'expected data[<lo>:<hi>]')
            env = {'frag_offset': 'frag_offset', 'remain_size': 'remain_size'}
            slices.append((arith(slc.lower, env), arith(slc.upper, env)))
            return 'FFrag'
        return base_field(node)

    # the map is built from the offset BEFORE it is advanced
    (seg_key, seg_fields) = ext_map(assign_of(lbody[0], 'ext'), keys, seg_field)
    if len(slices) != 1:
        _fail(lbody[0], 'expected exactly one data slice in the segment map')
    step = lbody[1]
    if not (isinstance(step, ast.AugAssign) and dotted(step.target) == 'frag_offset' and isinstance(step.op, (ast.Add, ast.Sub))):
        _fail(step, 'expected frag_offset += <expr> after the map is built')
    step_expr = '(frag_offset %s %s)' % ('+' if isinstance(step.op, ast.Add) else '-',
                                        arith(step.value, {'frag_offset': 'frag_offset', 'remain_size': 'remain_size'}))
    app = lbody[2]
    if not (isinstance(app, ast.Expr) and is_call(app.value, 'segments.append', 1)
            and is_call(app.value.args[0], 'cbor2.dumps', 1) and dotted(app.value.args[0].args[0]) == 'ext'):
        _fail(app, 'expected segments.append(cbor2.dumps(ext))')
    if seg_key != base_key:
        _fail(lbody[0], 'base map and segment map use different keys')

    # ---- the datagrams are yielded as they are
    out = body[4]
    if not (isinstance(out, ast.For) and dotted(out.target) == 'seg' and dotted(out.iter) == 'segments' and not out.orelse):
        _fail(out, 'expected "for seg in segments"')
    obody = strip(out.body)
    if not (len(obody) == 1 and isinstance(obody[0], ast.Expr) and isinstance(obody[0].value, ast.Yield)
            and dotted(obody[0].value.value) == 'seg'):
        _fail(out, 'expected "yield seg"')

    text = '''(** GENERATED by translate/targets/udpclbudget.py from src/udpcl/agent.py
    (Agent._send_transfer, ExtensionKey) -- do not edit; regenerated on every
    check run from the current working tree. *)
From Coq Require Import ZArith NArith List.
Import ListNotations.
Local Open Scope Z_scope.

(** One element of the four-element TRANSFER array. *)
Inductive field : Type :=
| FXid          (* item.transfer_id *)
| FTotal        (* item.total_length *)
| FOffset       (* frag_offset *)
| FEmptyBstr    (* b'' *)
| FFrag         (* data[slice_lo:slice_hi] *)
| FConst (n : N).

(** ExtensionKey.TRANSFER *)
Definition transfer_key : N := %(key)d%%N.

(** ext_base = {TRANSFER: [...]} *)
Definition ext_base_fields : list field := [%(base)s].

(** data_size_encsize = len(cbor2.dumps(<this field>)) *)
Definition data_size_field : field := %(size_field)s.

(** "len(data) ... mtu": the bundle is sent as one datagram *)
Definition unsegmented (len mtu : Z) : bool := %(unseg)s.

Definition remain_size (mtu ext_base_encsize data_size_encsize : Z) : Z := %(remain)s.

Definition init_offset : Z := (%(init)d).

(** while-loop test *)
Definition loop_test (frag_offset len : Z) : bool := %(loop_test)s.

(** ext = {TRANSFER: [...]} *)
Definition seg_fields : list field := [%(seg)s].

Definition slice_lo (frag_offset remain_size : Z) : Z := %(lo)s.
Definition slice_hi (frag_offset remain_size : Z) : Z := %(hi)s.

(** frag_offset after the loop body *)
Definition next_offset (frag_offset remain_size : Z) : Z := %(step)s.
''' % dict(key=base_key, base='; '.join(base_fields), size_field=size_field, unseg=unseg, remain=remain,
           init=init_offset, loop_test=loop_test, seg='; '.join(seg_fields), lo=slices[0][0], hi=slices[0][1],
           step=step_expr)
    return {'Gen/UdpclBudget.v': text}
