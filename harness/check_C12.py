''' C12 -- A bundle with an unverifiable security block is never delivered.

  1. proofs: coq/Props/C12.v over coq/Model/BpSecChain.v (the receive chain from the BPSec steps to the
     application steps; verdict of every security block / target is an INPUT): never delivered for any
     number and order of blocks and marked deleted with a reason in 12..16 (failure code or escaping
     exception alike), pass-through with / without acceptance, and the refutation that stands for the
     current code (a block with undecodable BTSD is never verified: known finding),
  2. correspondence: generated bundles (0-3 BIB/BCB built through the real Agent.send_bundle with a policy)
     x malformations x key stores x accept_after_verify on/off are received by the real Agent.recv_bundle;
     the verdicts the COSE context answered (verify_bib / verify_bcb wrapped from outside) are fed to the
     model (vm_compute) and its result -- application steps reached, what the application step found,
     delivered / deleted(reason) / dropped, remaining blocks and targets -- is compared with what happened,
  3. the property oracle, written from the property text: expectation from HOW the bundle was built
     (which block was damaged, which key is missing), observations = application steps invoked and their
     payload, ctr.actions / status_reason, status reports decoded with plain cbor2.
'''
import env  # noqa: F401  (first: sys.path for stubs and the repo under test)
import copy
import glob
import hashlib
import json
import os
import sys

import cbor2

from common import Check, CoqError, VERIF

env.shim_oscrypto()
import bpdrive  # noqa: E402
import bpsecdrive as sd  # noqa: E402

SIG_INVIS = 'C12 / security block with undecodable BTSD is ignored and the bundle delivered'
# fixed by d956b1c; the same names are used if the defect comes back (status "fixed" suppresses nothing)
SIG_TEXT = 'C12 / exception during verification gives a text reason: bundle deleted without a security reason code and no report'
SIG_DROP = 'C12 / numeric failure plus exception: max() raises, bundle neither delivered nor marked deleted'
# Defects shown to the coordinator and awaiting a decision would be listed here (printed as PENDING-FINDING, not failing
# the run, while absent from known_findings.json).  None at present: SIG_INVIS is a known finding (goes through chk.fail
# and prints KNOWN-FINDING), SIG_TEXT / SIG_DROP are fixed and their witnesses are regression cases.
PENDING_FINDINGS = []

CORPUS_GLOB = os.path.join(VERIF, 'harness', 'corpus', 'C12_*.json')

NODE = 'dtn://me/'
SRC = 'dtn://src/'
RPT = 'dtn://rpt/'
NOW_MS = 800000000000
SEC_REASONS = (12, 13, 14, 15, 16)

KEYS = {
    'A': ('kA', bytes(range(32)), 'HMAC256', ['mac']),
    'B': ('kB', bytes(range(100, 132)), 'HMAC384', ['mac']),
    'E': ('kE', bytes(range(64, 96)), 'A256GCM', ['enc']),
    'F': ('kF', bytes(range(200, 216)), 'A128GCM', ['enc']),
}
SEC_OF_KEY = {'A': 'bib', 'B': 'bib', 'E': 'bcb', 'F': 'bcb'}

# malformation classes whose only effect is that the block-type-specific data does not dissect as an ASB
INVISIBLE_CLASSES = ('bad_asb', 'encrypted_bib')

def make_key(name, wrong=False):
    (kid, k, alg, ops) = KEYS[name]
    if wrong:
        k = bytes(octet ^ 0x5A for octet in k)
    return sd.sym_key(kid.encode('ascii'), k, alg, ops)


# ---------------------------------------------------------------------------------------------- certificates

PKI_FILE = os.path.join(VERIF, 'harness', 'corpus', 'C12_pki.json')
# What the signer's end-entity certificate looks like.  Only 'good' authenticates the claimed security source
# dtn://src/ to a receiver that trusts CA 'ca1' (id-on-bundleEID SAN naming the source, digitalSignature key usage,
# id-kp-bundleSecurity EKU, valid at the bundle creation time, chain to the trusted CA).
CERT_VARIANTS = ['good', 'untrusted_ca', 'other_node', 'no_san', 'san_dns_only', 'no_eku', 'wrong_eku', 'no_ku_ds', 'expired', 'not_yet']
X5_MODES = ['x5chain', 'x5t', 'x5t_unknown']     # chain in the block / thumbprint + certificate in the receiver's store / thumbprint only
_PKI = {}


def _gen_pki():
    ''' CA ca1 (trusted by the receiver), CA ca2 (not trusted) and one end-entity certificate per variant, built
    like bp/test/test_app_bpsec.py builds them (EC P-256).  :return: dict of PEM strings. '''
    import datetime
    import asn1
    from cryptography import x509
    from cryptography.hazmat.backends import default_backend
    from cryptography.hazmat.primitives import hashes, serialization
    from cryptography.hazmat.primitives.asymmetric import ec

    def utc(year):
        return datetime.datetime(year, 1, 1, tzinfo=datetime.timezone.utc)

    def pem_key(key):
        return key.private_bytes(serialization.Encoding.PEM, serialization.PrivateFormat.PKCS8, serialization.NoEncryption()).decode('ascii')

    def pem_cert(cert):
        return cert.public_bytes(serialization.Encoding.PEM).decode('ascii')

    def ca(name, serial):
        key = ec.generate_private_key(ec.SECP256R1(), backend=default_backend())
        subj = x509.Name([x509.NameAttribute(x509.oid.NameOID.COMMON_NAME, name)])
        cert = x509.CertificateBuilder().subject_name(subj).issuer_name(subj).public_key(key.public_key()).serial_number(
            serial).not_valid_before(utc(2020)).not_valid_after(utc(2120)).add_extension(
            x509.BasicConstraints(ca=True, path_length=1), critical=True).add_extension(
            x509.KeyUsage(digital_signature=False, content_commitment=False, key_encipherment=False, data_encipherment=False,
                          key_agreement=False, key_cert_sign=True, crl_sign=True, encipher_only=False, decipher_only=False),
            critical=False).add_extension(x509.SubjectKeyIdentifier.from_public_key(key.public_key()), critical=False).add_extension(
            x509.AuthorityKeyIdentifier.from_issuer_public_key(key.public_key()), critical=False).sign(key, hashes.SHA256(), backend=default_backend())
        return (key, cert)

    def eid_san(eid):
        enc = asn1.Encoder()
        enc.start()
        enc.write(eid.encode('ascii'), asn1.Numbers.IA5String)
        return x509.OtherName(x509.oid.ObjectIdentifier('1.3.6.1.5.5.7.8.11'), enc.output())    # id-on-bundleEID

    def end(variant, serial, ca_key, ca_cert):
        key = ec.generate_private_key(ec.SECP256R1(), backend=default_backend())
        (start, stop) = {'expired': (2020, 2021), 'not_yet': (2090, 2120)}.get(variant, (2020, 2120))
        bld = x509.CertificateBuilder().subject_name(x509.Name([x509.NameAttribute(x509.oid.NameOID.COMMON_NAME, 'end-entity')])).issuer_name(
            ca_cert.subject).public_key(key.public_key()).serial_number(serial).not_valid_before(utc(start)).not_valid_after(utc(stop)).add_extension(
            x509.BasicConstraints(ca=False, path_length=None), critical=True)
        if variant == 'other_node':
            bld = bld.add_extension(x509.SubjectAlternativeName([eid_san('dtn://other/')]), critical=False)
        elif variant == 'san_dns_only':
            bld = bld.add_extension(x509.SubjectAlternativeName([x509.DNSName('src.example')]), critical=False)
        elif variant != 'no_san':
            bld = bld.add_extension(x509.SubjectAlternativeName([eid_san(SRC)]), critical=False)
        sign = variant != 'no_ku_ds'
        bld = bld.add_extension(x509.KeyUsage(digital_signature=sign, content_commitment=False, key_encipherment=False, data_encipherment=False,
                                              key_agreement=not sign, key_cert_sign=False, crl_sign=False, encipher_only=False,
                                              decipher_only=False), critical=False)
        if variant == 'wrong_eku':
            bld = bld.add_extension(x509.ExtendedKeyUsage([x509.oid.ExtendedKeyUsageOID.SERVER_AUTH]), critical=False)
        elif variant != 'no_eku':
            bld = bld.add_extension(x509.ExtendedKeyUsage([x509.oid.ObjectIdentifier('1.3.6.1.5.5.7.3.35')]), critical=False)   # id-kp-bundleSecurity
        bld = bld.add_extension(x509.SubjectKeyIdentifier.from_public_key(key.public_key()), critical=False).add_extension(
            x509.AuthorityKeyIdentifier.from_issuer_public_key(ca_key.public_key()), critical=False)
        return (key, bld.sign(ca_key, hashes.SHA256(), backend=default_backend()))

    (k1, c1) = ca('CA one', 1000)
    (k2, c2) = ca('CA two', 2000)
    out = dict(ca1=dict(ca_key=pem_key(k1), ca_cert=pem_cert(c1)), ca2=dict(ca_key=pem_key(k2), ca_cert=pem_cert(c2)), end={})
    for (idx, variant) in enumerate(CERT_VARIANTS):
        (ca_key, ca_cert) = (k2, c2) if variant == 'untrusted_ca' else (k1, c1)
        (key, cert) = end(variant, 3000 + idx, ca_key, ca_cert)
        out['end'][variant] = dict(end_key=pem_key(key), end_cert=pem_cert(cert), ca=('ca2' if variant == 'untrusted_ca' else 'ca1'))
    return out


def pki_data():
    ''' Generated once and kept in the corpus so that certificates are the same on every run. '''
    if not _PKI:
        data = None
        if os.path.exists(PKI_FILE):
            with open(PKI_FILE) as infile:
                data = json.load(infile)
            if sorted(data.get('end', {})) != sorted(CERT_VARIANTS):
                data = None
        if data is None:
            data = _gen_pki()
            tmp = PKI_FILE + '.tmp.%d' % os.getpid()
            with open(tmp, 'w') as out:
                json.dump(data, out, indent=1, sort_keys=True)
            os.replace(tmp, PKI_FILE)
        _PKI.update(data)
    return _PKI


def signer_pki(variant):
    ''' dict in the shape bpsecdrive.SecNode.add_pki wants: the signer's certificate + key and ITS issuing CA '''
    data = pki_data()
    ent = data['end'][variant]
    return dict(ca_cert=data[ent['ca']]['ca_cert'], end_cert=ent['end_cert'], end_key=ent['end_key'])


def trusted_pki():
    ''' what the receiver trusts: CA one (the end-entity entry is not used by add_pki(signer=False)) '''
    data = pki_data()
    return dict(ca_cert=data['ca1']['ca_cert'], end_cert=data['end']['good']['end_cert'], end_key=data['end']['good']['end_key'])


# ---------------------------------------------------------------------------------------------- building

def base_spec(case):
    return dict(dest=case.get('dest', 'dtn://me/app'), src=SRC, report_to=case.get('report_to', RPT), flags=case.get('flags', 0),
                crc=case.get('crc', 2), lifetime=3600000, payload=bytes.fromhex(case['payload_hex']),
                blocks=[dict(type=ext['type'], num=ext['num'], flags=ext.get('flags', 0), data=bytes.fromhex(ext['data_hex']))
                        for ext in case.get('ext', ())])


def blocks_of(raw):
    ''' plain-cbor2 view: list of [type, num, flags, crc type, data] in wire order '''
    return [list(item[:5]) for (item, _raw, _off) in sd.split_bundle(raw)[1:]]


def build(case):
    ''' The bundle of a case: the clean bundle goes through the real Agent.send_bundle once per security
    operation (policy = that operation), then the malformations are applied to the octets (plain cbor2, CRCs
    re-fixed).
    :return: dict(raw, clean, ops=[dict(num, sec, key, targets)], plain={block number: BTSD before any encryption},
        encrypted=[numbers of blocks some BCB targets]) '''
    from bp.util import BundleContainer
    from bp.encoding import Bundle
    pki = case.get('pki')
    # the signer always sends the chain (x5chain); for the thumbprint modes the additional unprotected headers - which
    # the signature does not cover - are rewritten afterwards to x5t (the stock pycose here cannot encode an X5T itself)
    node = sd.SecNode(SRC, tx_routes=[dict(pattern='.*')], include_chain=True)
    for name in sorted(KEYS):
        node.add_sym_key(make_key(name))
    if pki:
        node.add_pki(signer_pki(pki['variant']), signer=True, kid=b'sign')
    spec = base_spec(case)
    plain = {1: spec['payload']}
    for blk in spec['blocks']:
        plain[blk['num']] = blk['data']
    known = set(plain)
    ops_info = []
    encrypted = set()
    raw = None
    for (idx, op) in enumerate(list(case.get('ops', ())) or [None]):
        del node.ctx.sec_assoc[:]
        if op is not None:
            node.add_policy(op['sec'], (b'sign' if op['key'] == 'S' else KEYS[op['key']][0].encode('ascii')), tuple(op['types']),
                            content_iv=[bytes([idx + 1, tix]) * 6 for tix in range(8)])
        if raw is None:
            raw = node.send(spec)
            if raw is None:
                raise RuntimeError('source sent nothing')
        else:
            mark = len(node.drv.transmitted)
            node.agent.send_bundle(BundleContainer(Bundle(raw)))
            node.drv.drain()
            sent = node.drv.transmitted[mark:]
            if len(sent) != 1:
                raise RuntimeError('source sent %d bundles' % len(sent))
            raw = bytes.fromhex(sent[0]['raw_hex'])
        if op is not None:
            new = [blk for blk in blocks_of(raw) if blk[1] not in known]
            if len(new) != 1 or new[0][0] != (11 if op['sec'] == 'bib' else 12):
                raise RuntimeError('security operation %r added %r' % (op, [blk[:2] for blk in new]))
            asb = sd.asb_decode(new[0][4])
            known.add(new[0][1])
            plain[new[0][1]] = new[0][4]
            ops_info.append(dict(num=new[0][1], sec=op['sec'], key=op['key'], targets=list(asb['targets'])))
            if op['sec'] == 'bcb':
                encrypted.update(asb['targets'])
    if pki and pki.get('x5', 'x5chain') != 'x5chain':
        raw = chain_to_thumbprint(raw, [info['num'] for info in ops_info if info['key'] == 'S'])
    clean = raw
    raw = apply_malformations(case, clean, ops_info)
    return dict(raw=raw, clean=clean, ops=ops_info, plain=plain, encrypted=sorted(encrypted))


def chain_to_thumbprint(raw, nums):
    ''' In the security blocks ``nums``: additional unprotected headers {33: x5chain} -> {34: [-16, SHA-256 of the
    end-entity certificate]} (RFC 9360 x5t), plain cbor2, CRCs re-fixed. '''
    items = [copy.deepcopy(item) for (item, _raw, _off) in sd.split_bundle(raw)]
    for item in items[1:]:
        if item[1] not in nums:
            continue
        asb = sd.asb_decode(item[4])
        for par in asb['params']:
            if par[0] == 4:
                hdr = cbor2.loads(par[1])
                chain = hdr.pop(33)
                first = chain if isinstance(chain, bytes) else chain[0]
                hdr[34] = [-16, hashlib.sha256(first).digest()]
                par[1] = cbor2.dumps(hdr)
        item[4] = sd.asb_encode(asb)
    return sd.join_bundle(items)


def _flip(data, pos=0):
    data = bytes(data)
    if not data:
        return b'\x01'
    pos %= len(data)
    return data[:pos] + bytes([data[pos] ^ 0x01]) + data[pos + 1:]


def apply_malformations(case, raw, ops_info):
    items = [copy.deepcopy(item) for (item, _raw, _off) in sd.split_bundle(raw)]
    lifetime = items[0][7]

    def block(num):
        for item in items[1:]:
            if item[1] == num:
                return item
        raise KeyError(num)

    clean = dict((item[1], copy.deepcopy(item)) for item in items[1:])
    for mal in case.get('mal', ()):
        kind = mal['kind']
        if kind in ('wrong_key', 'missing_key', 'encrypted_bib'):
            continue   # key-store faults and the RFC 9172 3.9 arrangement are not alterations of the octets
        if kind == 'alter_primary':
            items[0][7] = lifetime + 1
            continue
        info = ops_info[mal['blk']]
        sec = block(info['num'])
        tix = mal.get('tix', 0) % max(1, len(info['targets']))
        # alterations are relative to the clean bundle, so that applying one twice does not undo it
        if kind == 'alter_target':
            tgt = block(info['targets'][tix])
            ref = clean[tgt[1]][4]
            pos = mal.get('pos', 0) % max(1, len(ref))
            flipped = _flip(ref, pos)
            cur = bytes(tgt[4])
            tgt[4] = (cur[:pos] + flipped[pos:pos + 1] + cur[pos + 1:]) if len(cur) == len(flipped) else flipped
            continue
        if kind == 'alter_flags':
            tgt = block(info['targets'][tix])
            tgt[2] = clean[tgt[1]][2] ^ 0x02
            continue
        if kind == 'bad_asb':
            how = mal.get('how', 'garbage')
            if how == 'garbage':
                sec[4] = b'\xff\x00\x01'
            elif how == 'empty':
                sec[4] = b''
            elif how == 'truncated':
                sec[4] = sec[4][:max(1, len(sec[4]) // 2)]
            else:   # a well-formed CBOR item that is not an ASB
                sec[4] = cbor2.dumps('not a security block')
            continue
        asb = sd.asb_decode(sec[4])
        if kind == 'unknown_ctx':
            asb['ctx_id'] = mal.get('ctx', 99)
        elif kind == 'missing_target':
            asb['targets'][tix] = mal.get('num', 77)
        elif kind == 'dup_param':
            asb['params'].append([asb['params'][0][0], copy.deepcopy(asb['params'][0][1])])
        elif kind == 'dup_result':
            asb['results'][tix].append(copy.deepcopy(asb['results'][tix][0]))
        elif kind == 'no_result':
            asb['results'][tix] = []
        elif kind == 'two_results':
            first = asb['results'][tix][0]
            asb['results'][tix].append([first[0] + 1, copy.deepcopy(first[1])])
        elif kind == 'results_short':
            asb['results'].pop()
        elif kind == 'bad_addl':
            asb['params'].append([3, b'\xff'])
        elif kind == 'no_params':
            asb['flags'] = 0
            asb['params'] = None
        elif kind == 'alter_source':
            asb['source'] = [1, '//evil/']
        elif kind == 'wrong_result_type':
            # another COSE message kind (16 Encrypt0, 17 Mac0, 18 Sign1, 96 Encrypt, 97 Mac, 98 Sign) than the one the result is
            code = asb['results'][tix][0][0]
            want = mal.get('to', {16: 96, 17: 97, 18: 98}.get(code, 17))
            if want == code:
                want = {16: 96, 17: 97, 18: 98}.get(code, 17)
            asb['results'][tix][0][0] = want
        elif kind == 'bad_cose':
            how = mal.get('how', 'garbage')
            val = asb['results'][tix][0][1]
            if how == 'garbage':
                val = b'\xff\xff'
            elif how == 'empty':
                val = b''
            elif how == 'truncated':
                val = val[:len(val) // 2]
            else:   # decodable CBOR of the wrong shape
                val = cbor2.dumps(5)
            asb['results'][tix][0][1] = val
        elif kind == 'attach_payload':
            # a non-nil payload / ciphertext slot in the COSE structure (normally nil = detached)
            tnum = info['targets'][tix]
            what = mal.get('what', 'original')
            if what == 'original':
                slot = bytes(clean[tnum][4])           # what the security source protected
            elif what == 'current':
                slot = bytes(block(tnum)[4])           # what the target block carries now
            else:
                slot = bytes(clean[tnum][4]) + b'\x00'  # neither
            msg = cbor2.loads(asb['results'][tix][0][1])
            msg[2] = slot
            asb['results'][tix][0][1] = cbor2.dumps(msg)
        elif kind == 'cose_edit':
            msg = cbor2.loads(asb['results'][tix][0][1])
            if info['sec'] == 'bib':
                msg[3] = _flip(msg[3], mal.get('pos', 0))          # the MAC tag
            else:
                msg[1][5] = _flip(msg[1][5], mal.get('pos', 0))    # the IV
            asb['results'][tix][0][1] = cbor2.dumps(msg)
        else:
            raise ValueError('unknown malformation %r' % kind)
        sec[4] = sd.asb_encode(asb)
    return sd.join_bundle(items)


# ---------------------------------------------------------------------------------------------- real receive path

class Receiver(object):
    ''' A real agent that delivers dtn://me/* locally; observation hooks are installed from OUTSIDE:
    an application step at order 30 placed before the applications' own order-30 steps, wrappers around
    every chain step after the BPSec steps (were application steps invoked at all), wrappers around the
    context's verify_bib / verify_bcb (and verify_*_target when the context has them). '''

    def __init__(self, keystore, accept, report_route=True, pki=None):
        self.node = sd.SecNode(NODE, accept_after_verify=accept, rx_routes=[('^dtn://me/.*', 'deliver')],
                               tx_routes=([dict(pattern='.*')] if report_route else []))
        if pki:
            # the receiver trusts CA one; for thumbprint lookup its certificate store knows the signer's certificate
            self.node.add_pki(trusted_pki(), signer=False)
            if pki.get('x5') == 'x5t':
                self.node.add_cert_to_store(signer_pki(pki['variant']))
        for (name, how) in sorted(keystore.items()):
            if how == 'ok':
                self.node.add_sym_key(make_key(name))
            elif how == 'wrong':
                self.node.add_sym_key(make_key(name, wrong=True))
        self.reached = []
        self.app_calls = []
        self.verdicts = []
        self.target_level = True
        agent = self.node.agent
        chain = agent._rx_chain
        sec_orders = [step.order for step in chain if getattr(step.action, '__self__', None) is self.node.app]
        self.chain_orders = dict(sec=sorted(sec_orders), all=[(step.order, step.name) for step in chain])
        last_sec = max(sec_orders) if sec_orders else 20
        for step in chain:
            if step.order > last_sec and step.name != 'harness delivery capture':
                step.action = self._wrap_step(step)
        chain.insert(0, self.node.drv.bp_util.ChainStep(order=30, name='harness application', action=self._app_step))
        chain.sort()
        self._wrap_ctx(self.node.ctx)

    def _wrap_step(self, step):
        orig = step.action
        rec = self.reached
        label = '%g:%s' % (step.order, step.name)

        def wrapped(ctr):
            rec.append(label)
            return orig(ctr)
        return wrapped

    @staticmethod
    def block_view(ctr):
        from bp.encoding.bpsec import AbstractSecurityBlock
        out = []
        for blk in ctr.bundle.blocks:
            num = blk.getfieldval('block_num')
            if isinstance(blk.payload, AbstractSecurityBlock):
                out.append(['sec', num, blk.getfieldval('type_code'), [int(t) for t in blk.payload.targets]])
            else:
                out.append(['data', num, blk.getfieldval('type_code'), bytes(blk.getfieldval('btsd') or b'').hex()])
        return out

    def _app_step(self, ctr):
        self.reached.append('30:harness application')
        if 'deliver' not in ctr.actions:
            return False
        try:
            payload = bytes(ctr.block_num(1).getfieldval('btsd') or b'').hex()
        except Exception:
            payload = None
        self.app_calls.append(dict(payload=payload, blocks=self.block_view(ctr)))
        return False

    def _wrap_ctx(self, ctx):
        rec = self.verdicts
        for kind in ('bib', 'bcb'):
            orig = getattr(ctx, 'verify_' + kind)
            torig = getattr(ctx, 'verify_%s_target' % kind, None)

            def mk(kind, orig):
                def wrapped(ctr, blk):
                    ent = dict(kind=kind, num=blk.getfieldval('block_num'), targets=[int(t) for t in blk.payload.targets], tcalls=[])
                    rec.append(ent)
                    try:
                        res = orig(ctr, blk)
                    except Exception as err:
                        ent['raised'] = err.__class__.__name__
                        raise
                    ent['result'] = None if res is None else (int(res) if isinstance(res, int) else 'text')
                    ent['after'] = [int(t) for t in blk.payload.targets]
                    return res
                return wrapped

            def mkt(torig):
                def wrapped(secop, result):
                    call = dict(tgt=None)
                    try:
                        call['tgt'] = int(secop.tgt_blk.getfieldval('block_num'))
                    except Exception:
                        pass
                    if rec:
                        rec[-1]['tcalls'].append(call)
                    res = torig(secop, result)
                    call['result'] = None if res is None else (int(res) if isinstance(res, int) else 'text')
                    return res
                return wrapped
            setattr(ctx, 'verify_' + kind, mk(kind, orig))
            if torig is not None:
                setattr(ctx, 'verify_%s_target' % kind, mkt(torig))
            else:
                self.target_level = False

    def preparse(self, raw):
        ''' How the implementation's decoder sees the type-11/12 blocks (input of the model: visible, context known). '''
        from bp.encoding import Bundle
        from bp.encoding.bpsec import AbstractSecurityBlock
        out = {}
        for blk in Bundle(bytes(raw)).blocks:
            if blk.getfieldval('type_code') in (11, 12):
                vis = isinstance(blk.payload, AbstractSecurityBlock)
                known = False
                targets = []
                if vis:
                    try:
                        self.node.app.get_context(blk.payload.context_id)
                        known = True
                    except KeyError:
                        known = False
                    targets = [int(t) for t in blk.payload.targets]
                out[blk.getfieldval('block_num')] = dict(visible=vis, ctx=known, targets=targets)
        return out

    def recv(self, raw):
        pre = self.preparse(raw)
        self.node.reset()
        obs = self.node.drv.recv(bytes(raw))
        ctrs = self.node.drv.recv_calls
        final = self.block_view(ctrs[-1]) if ctrs else None
        reports = []
        for ent in obs['reports']:
            adm = ent['bundle']['admin']
            reports.append(dict(dest=ent['bundle']['primary']['dest'], reason=adm.get('reason'), ok=adm.get('ok'),
                                status=[name for name in ('received', 'forwarded', 'delivered', 'deleted')
                                        if adm.get('status', {}).get(name, {}).get('asserted')]))
        return dict(pre=pre, decode_error=obs['decode_error'], recv_exc=obs['recv_exc'], escaped=list(obs['escaped']),
                    actions=(obs['actions'][0] if obs['actions'] else None),
                    reason=(obs['status_reason'][0] if obs['status_reason'] else None),
                    reached=list(self.reached), app_calls=list(self.app_calls), verdicts=list(self.verdicts),
                    reports=reports, n_sent=len(obs['transmitted']), final=final, target_level=self.target_level,
                    chain_orders=self.chain_orders)


def run_impl(case, built=None):
    if built is None:
        built = build(case)
    rcv = Receiver(case.get('keystore', {}), bool(case.get('accept')), pki=case.get('pki'))
    obs = rcv.recv(built['raw'])
    return (built, obs)


# ---------------------------------------------------------------------------------------------- model inputs

class Ids(object):
    ''' BTSD octets <-> small numbers (the model's abstract ids), per case. '''

    def __init__(self):
        self.tab = {}

    def get(self, hexval):
        if hexval not in self.tab:
            self.tab[hexval] = len(self.tab) + 1
        return self.tab[hexval]


def model_inputs(case, built, obs):
    ''' (coq term, ids, notes): the type-11/12 blocks in wire order with the verdicts observed on the real
    context, and the data map. '''
    ids = Ids()
    wire = blocks_of(built['raw'])
    recs = {}
    for ent in obs['verdicts']:
        recs.setdefault((ent['kind'], ent['num']), ent)
    secs = []
    data = []
    notes = []
    for blk in wire:
        (btype, num) = (blk[0], blk[1])
        pre = obs['pre'].get(num) if btype in (11, 12) else None
        if pre is None or not pre['visible']:
            data.append('(%d, %d)' % (num, ids.get(blk[4].hex())))
        if pre is None:
            continue
        kind = 'bib' if btype == 11 else 'bcb'
        targets = pre['targets']
        prestate = 'PreOk'
        tres = []
        rec = recs.get((kind, num))

        def ok_term(tnum):
            if kind == 'bcb':
                plain = built['plain'].get(tnum)
                if plain is None:
                    cur = [b for b in wire if b[1] == tnum]
                    plain = cur[0][4] if cur else b''
                return 'TOk %d' % ids.get(bytes(plain).hex())
            return 'TOk 0'
        if not pre['visible'] or not pre['ctx'] or rec is None:
            if pre['visible'] and pre['ctx']:
                notes.append('block %d: verification not run' % num)
            tres = [(t, ok_term(t)) for t in targets]
        else:
            targets = rec['targets']
            raised = 'raised' in rec
            result = rec.get('result')
            if obs['target_level']:
                calls = list(rec['tcalls'])
                if not raised and result is not None and not calls:
                    prestate = 'PreFail %d' % (result if isinstance(result, int) else 15)
                    tres = [(t, ok_term(t)) for t in targets]
                elif raised and not calls:
                    prestate = 'PreRaise'
                    tres = [(t, ok_term(t)) for t in targets]
                else:
                    stop = False
                    for t in targets:
                        if stop:
                            tres.append((t, ok_term(t)))
                        elif calls and calls[0]['tgt'] == t:
                            call = calls.pop(0)
                            if 'result' not in call:
                                tres.append((t, 'TRaise'))
                                stop = True
                            elif call['result'] is None:
                                tres.append((t, ok_term(t)))
                            else:
                                tres.append((t, 'TFail %d' % (call['result'] if isinstance(call['result'], int) else 15)))
                        elif raised and not calls:
                            tres.append((t, 'TRaise'))
                            stop = True
                        else:
                            tres.append((t, 'TFail %d' % (result if isinstance(result, int) else 15)))
            else:
                # no per-target hook: reconstruct from the block-level answer and the targets that were removed
                if raised:
                    prestate = 'PreRaise'
                    tres = [(t, ok_term(t)) for t in targets]
                elif result is None:
                    tres = [(t, ok_term(t)) for t in targets]
                else:
                    code = result if isinstance(result, int) else 15
                    left = list(rec.get('after', targets))
                    if case.get('accept'):
                        for t in targets:
                            if t in left:
                                left.remove(t)
                                tres.append((t, 'TFail %d' % code))
                            else:
                                tres.append((t, ok_term(t)))
                        if not any(v.startswith('TFail') for (_t, v) in tres):
                            prestate = 'PreFail %d' % code
                    else:
                        tres = [(t, ok_term(t)) for t in targets[:-1]] + [(t, 'TFail %d' % code) for t in targets[-1:]]
                        if not targets:
                            prestate = 'PreFail %d' % code
        tg = '[' + '; '.join('(%d, %s)' % (t, v) for (t, v) in tres) + ']' if tres else '(@nil (N * tres))'
        secs.append('(mkSec %s %d %s %s (%s) %s)' % ('true' if kind == 'bcb' else 'false', num, 'true' if pre['visible'] else 'false',
                                                      'true' if pre['ctx'] else 'false', prestate, tg))
    term = '(%s, %s, %s)' % ('true' if case.get('accept') else 'false',
                             '[' + '; '.join(secs) + ']' if secs else '(@nil secblk)',
                             '[' + '; '.join(data) + ']' if data else '(@nil (N * N))')
    return (term, ids, notes)


def view_canon(view, ids):
    data = []
    secs = []
    for ent in view:
        if ent[0] == 'sec':
            secs.append([ent[1], list(ent[3])])
        else:
            data.append([ent[1], ids.get(ent[3])])
    return [data, secs]


def impl_canon(obs, ids):
    ''' Observations in the shape BpSecChain.render prints. '''
    last_sec = max(obs['chain_orders']['sec']) if obs['chain_orders']['sec'] else 20
    reached = bool(obs['reached'])
    apps = []
    for call in obs['app_calls']:
        apps.append([ids.get(call['payload']) if call['payload'] is not None else 0, view_canon(call['blocks'], ids)])
    acts = obs['actions'] or []
    if 'delete' in acts:
        if isinstance(obs['reason'], int) and not isinstance(obs['reason'], bool):
            out = [1, int(obs['reason']), [[], []]]
        else:
            out = [2, 0, [[], []]]
    elif 'deliver' in acts:
        view = view_canon(obs['final'], ids)
        pay = [item[1] for item in view[0] if item[0] == 1]
        out = [0, pay[0] if pay else 0, view]
    else:
        out = [3, 0, [[], []]]
    del last_sec
    return [reached, apps, out]


def listify(val):
    if isinstance(val, (list, tuple)):
        return [listify(item) for item in val]
    return val


# ---------------------------------------------------------------------------------------------- the oracle

def op_faults(case, built):
    ''' From HOW the bundle was built: for every security operation (block) the reasons for which it cannot verify
    for every one of its targets (all empty = every security block verifies). '''
    ops = built['ops']
    faults = [set() for _ in ops]
    for (idx, info) in enumerate(ops):
        if info['key'] == 'S':
            # "wrong or missing key": only a certificate that authenticates the claimed security source gives a right key
            pki = case.get('pki') or {}
            if pki.get('variant') != 'good':
                faults[idx].add('cert_' + str(pki.get('variant')))
            if pki.get('x5') == 'x5t_unknown':
                faults[idx].add('cert_thumbprint_unknown_to_receiver')
            continue
        how = case.get('keystore', {}).get(info['key'], 'missing')
        if how != 'ok':
            faults[idx].add(how + '_key')
    for mal in case.get('mal', ()):
        kind = mal['kind']
        if kind in ('wrong_key', 'missing_key', 'encrypted_bib'):
            continue   # key faults are read off the key store; the RFC 9172 3.9 arrangement is legitimate in itself
        if kind == 'alter_primary':
            for item in faults:
                item.add(kind)
        elif kind in ('alter_target', 'alter_flags'):
            info = ops[mal['blk']]
            tnum = info['targets'][mal.get('tix', 0) % max(1, len(info['targets']))]
            for (idx, other) in enumerate(ops):
                if tnum in other['targets']:
                    faults[idx].add(kind)
        elif kind == 'attach_payload':
            faults[mal['blk']].add('attached_payload')
        else:
            faults[mal['blk']].add(kind)
    return faults


def lenient(case, built):
    ''' The only oddity of the bundle is a payload attached inside a COSE structure while every target block still
    carries what the security source protected: the property text demands neither delivery nor deletion (RFC 9052
    allows attached payloads, the BPSec COSE context uses detached ones); either outcome must be clean. '''
    classes = bad_classes(case, built)
    return classes == ['attached_payload']


def bad_classes(case, built):
    return sorted(set(cls for item in op_faults(case, built) for cls in item))


def invisible_only(case, built):
    ''' Every security block that cannot verify is one whose BTSD does not dissect at the receiver (undecodable ASB,
    or a BIB under a BCB), so that nothing else can be the reason for a delivery. '''
    enc_bib = any(mal['kind'] == 'encrypted_bib' for mal in case.get('mal', ()))
    some = False
    for (info, item) in zip(built['ops'], op_faults(case, built)):
        if not (item - set(['attached_payload'])):
            continue        # verifies (an attached payload alone does not make an operation unverifiable, see lenient())
        some = True
        hidden = 'bad_asb' in item or (enc_bib and info['sec'] == 'bib' and info['num'] in built['encrypted'])
        if not hidden:
            return False
    return some


def oracle(case, built, obs):
    if lenient(case, built):
        as_bad = oracle_strict(case, built, obs, ['attached_payload'])
        as_good = oracle_strict(case, built, obs, [])
        return [] if (not as_bad or not as_good) else as_good
    return oracle_strict(case, built, obs, None)


def oracle_strict(case, built, obs, force_classes):
    ''' The property over the observations. :return: list of (signature, text). '''
    classes = bad_classes(case, built) if force_classes is None else list(force_classes)
    if classes and any(mal['kind'] == 'encrypted_bib' for mal in case.get('mal', ())):
        classes = sorted(set(['encrypted_bib'] + classes))
    acts = obs['actions'] or []
    flags = case.get('flags', 0)
    want_report = case.get('report_to', RPT) != 'dtn:none'
    delivered_reports = [rep for rep in obs['reports'] if 'delivered' in rep['status']]
    deleted_reports = [rep for rep in obs['reports'] if 'deleted' in rep['status']]
    label = '+'.join(classes) if classes else 'all-verify'
    bad = []

    def sig(mode):
        if mode == 'delivered' and invisible_only(case, built):
            return SIG_INVIS
        if mode == 'text-reason':
            return SIG_TEXT
        if mode == 'neither':
            return SIG_DROP
        return 'C12 / %s / %s' % (label, mode)

    if obs['decode_error']:
        return [('C12 / %s / bundle not decodable by the receiver' % label, obs['decode_error'])]
    if classes:
        # "no application receives the bundle and it is marked deleted with a security reason"
        if obs['app_calls'] or 'deliver' in acts or delivered_reports:
            bad.append((sig('delivered'), 'unverifiable security block (%s) but delivered: application steps invoked %r, payload %r, actions %r, reports %r'
                        % (label, obs['reached'], [c['payload'] for c in obs['app_calls']], acts, obs['reports'])))
        elif obs['reached']:
            bad.append((sig('application-steps-invoked'), 'unverifiable security block (%s): deliver is not recorded but the application steps were invoked all the same: %r, actions %r'
                        % (label, obs['reached'], acts)))
        elif 'delete' not in acts:
            bad.append((sig('neither'), 'unverifiable security block (%s): not delivered but not marked deleted either: actions %r, reason %r, reports %r'
                        % (label, acts, obs['reason'], obs['reports'])))
        elif not (isinstance(obs['reason'], int) and not isinstance(obs['reason'], bool)):
            bad.append((sig('text-reason'), 'unverifiable security block (%s): marked deleted with reason %r (not a reason code); reports %r, recv_bundle raised %r'
                        % (label, obs['reason'], obs['reports'], obs['recv_exc'])))
        elif int(obs['reason']) not in SEC_REASONS:
            bad.append((sig('reason-code'), 'unverifiable security block (%s): deleted with reason %r outside 12..16' % (label, obs['reason'])))
        elif want_report and flags & bpdrive.FLAG_REQ_DELETION and not (
                len(deleted_reports) == 1 and deleted_reports[0]['reason'] in SEC_REASONS and deleted_reports[0]['dest'] == case.get('report_to', RPT)):
            bad.append((sig('deletion-report'), 'unverifiable security block (%s): deletion report requested, got %r' % (label, obs['reports'])))
        return bad
    # "a bundle whose security blocks all verify, or that carries none, is delivered unchanged apart from accepted
    #  security blocks being removed when acceptance is configured"
    if len(obs['app_calls']) != 1 or 'deliver' not in acts or 'delete' in acts:
        bad.append((sig('not-delivered'), 'every security block verifies but application calls %d, actions %r, reason %r'
                    % (len(obs['app_calls']), acts, obs['reason'])))
        return bad
    call = obs['app_calls'][0]
    accept = bool(case.get('accept'))
    received = blocks_of(built['raw'])
    want_blocks = []
    for blk in received:
        if blk[0] in (11, 12):
            asb = None
            try:
                asb = sd.asb_decode(blk[4])
            except Exception:
                pass
            if blk[1] in built['encrypted']:
                want_blocks.append(['any', blk[1]])     # a security block under a BCB: not judged here
            elif accept and asb is not None and asb['targets']:
                continue                                  # accepted: removed
            elif asb is not None and not asb['targets']:
                want_blocks.append(['any', blk[1]])     # no target at all (not RFC 9172): not judged
            else:
                want_blocks.append(['sec', blk[1], list(asb['targets']) if asb else None])
        else:
            data = blk[4]
            if accept and blk[1] in built['encrypted']:
                data = built['plain'][blk[1]]
            want_blocks.append(['data', blk[1], bytes(data).hex()])
    got_blocks = []
    for ent in call['blocks']:
        if ent[0] == 'sec':
            got_blocks.append(['sec', ent[1], list(ent[3])])
        else:
            got_blocks.append(['data', ent[1], ent[3]])
    want_pay = [b[2] for b in want_blocks if b[0] == 'data' and b[1] == 1]
    if call['payload'] != (want_pay[0] if want_pay else None):
        bad.append((sig('payload-altered'), 'application got payload %r, expected %r' % (call['payload'], want_pay)))
    ok = len(want_blocks) == len(got_blocks)
    if ok:
        for (want, got) in zip(want_blocks, got_blocks):
            if want[0] == 'any':
                ok = ok and got[1] == want[1]
            else:
                ok = ok and want == got
    if not ok:
        bad.append((sig('blocks-altered'), 'accept=%r: application saw blocks %r, expected %r' % (accept, got_blocks, want_blocks)))
    if want_report and flags & bpdrive.FLAG_REQ_DELIVERY and len(delivered_reports) != 1:
        bad.append((sig('delivery-report'), 'delivery report requested, got %r' % (obs['reports'],)))
    if deleted_reports or any(rep['reason'] in SEC_REASONS for rep in obs['reports']):
        bad.append((sig('spurious-deletion-report'), 'reports %r' % (obs['reports'],)))
    return bad[:1]


# ---------------------------------------------------------------------------------------------- generation

OPS_MENU = [
    [],
    [dict(sec='bib', key='A', types=[1])],
    [dict(sec='bib', key='B', types=[1, 7])],
    [dict(sec='bcb', key='E', types=[1])],
    [dict(sec='bcb', key='F', types=[7])],
    [dict(sec='bib', key='A', types=[1]), dict(sec='bib', key='B', types=[7])],
    [dict(sec='bib', key='A', types=[7]), dict(sec='bib', key='B', types=[1])],
    [dict(sec='bib', key='A', types=[1]), dict(sec='bib', key='B', types=[1])],
    [dict(sec='bib', key='A', types=[7]), dict(sec='bcb', key='E', types=[1])],
    [dict(sec='bib', key='A', types=[1]), dict(sec='bcb', key='F', types=[7])],
    [dict(sec='bcb', key='E', types=[1]), dict(sec='bcb', key='F', types=[7])],
    [dict(sec='bib', key='A', types=[1]), dict(sec='bib', key='B', types=[7]), dict(sec='bib', key='A', types=[192])],
    [dict(sec='bib', key='A', types=[192]), dict(sec='bib', key='B', types=[7]), dict(sec='bcb', key='E', types=[1])],
    [dict(sec='bcb', key='E', types=[1, 7])],
]
BLOCK_MALS = ['alter_target', 'alter_flags', 'unknown_ctx', 'missing_target', 'dup_param', 'dup_result', 'no_result', 'two_results',
              'results_short', 'bad_addl', 'no_params', 'alter_source', 'wrong_result_type', 'bad_cose', 'cose_edit', 'bad_asb',
              'attach_payload', 'attach_payload']
HOWS = {'bad_cose': ['garbage', 'empty', 'truncated', 'shape'], 'bad_asb': ['garbage', 'empty', 'truncated', 'text']}
FLAG_SETS = [0, bpdrive.FLAG_REQ_DELETION, bpdrive.FLAG_REQ_DELIVERY,
             bpdrive.FLAG_REQ_DELETION | bpdrive.FLAG_REQ_DELIVERY | bpdrive.FLAG_REQ_RECEPTION,
             bpdrive.FLAG_REQ_DELETION | bpdrive.FLAG_REQ_DELIVERY | bpdrive.FLAG_REQ_RECEPTION | bpdrive.FLAG_REQ_STATUS_TIME]
EXT = [dict(type=7, num=5, data_hex='1903e8'), dict(type=192, num=6, data_hex='0102030405')]
ADMIN_PAYLOAD = cbor2.dumps([1, [[[True], [False], [False], [False]], 0, [1, '//x/'], [0, 0]]])


def mk_case(ops, mal=(), keystore=None, accept=False, flags=None, payload=b'hello world', dest='dtn://me/app', report_to=RPT, crc=2, pki=None):
    ks = dict((op['key'], 'ok') for op in ops)
    ks.update(keystore or {})
    if flags is None:
        flags = FLAG_SETS[3]
    case = dict(ops=copy.deepcopy(list(ops)), mal=[dict(item) for item in mal], keystore=ks, accept=bool(accept), flags=flags,
                payload_hex=bytes(payload).hex(), ext=copy.deepcopy(EXT), dest=dest, report_to=report_to, crc=crc)
    if any(op['key'] == 'S' for op in ops):
        case['keystore'].pop('S', None)
        case['pki'] = dict(pki or dict(variant='good', x5='x5chain'))
    return case


CERT_OPS_MENU = [
    [dict(sec='bib', key='S', types=[1])],
    [dict(sec='bib', key='S', types=[1, 7])],
    [dict(sec='bib', key='A', types=[7]), dict(sec='bib', key='S', types=[1])],      # the certificate BIB is the second one
    [dict(sec='bib', key='S', types=[1]), dict(sec='bib', key='B', types=[7])],
    [dict(sec='bib', key='S', types=[7]), dict(sec='bcb', key='E', types=[1])],
]


def cert_cases():
    ''' COSE_Sign1 (ES256) BIBs: signer certificate variant x key lookup (x5chain / x5t) x accept x block arrangement. '''
    out = []
    for accept in (False, True):
        for variant in CERT_VARIANTS:
            for x5 in X5_MODES:
                for (idx, ops) in enumerate(CERT_OPS_MENU):
                    if idx >= 2 and x5 == 'x5t_unknown':
                        continue
                    out.append(('cert:%s:%s' % (variant, x5), mk_case(ops, accept=accept, pki=dict(variant=variant, x5=x5))))
        # a good certificate does not excuse altered content / structure
        for kind in ('alter_target', 'alter_primary', 'alter_source', 'cose_edit', 'dup_result', 'missing_target', 'bad_cose'):
            mal = dict(kind=kind) if kind == 'alter_primary' else dict(kind=kind, blk=0)
            out.append(('cert:good+' + kind, mk_case(CERT_OPS_MENU[0], [mal], accept=accept, pki=dict(variant='good', x5='x5chain'))))
            out.append(('cert:good+' + kind, mk_case(CERT_OPS_MENU[0], [mal], accept=accept, pki=dict(variant='good', x5='x5t'))))
        for x5 in ('x5chain', 'x5t'):
            for what in ('original', 'current', 'other'):
                att = dict(kind='attach_payload', blk=0, what=what)
                out.append(('cert:good+attach', mk_case(CERT_OPS_MENU[0], [att], accept=accept, pki=dict(variant='good', x5=x5))))
                out.append(('cert:good+attach', mk_case(CERT_OPS_MENU[0], [dict(kind='alter_target', blk=0, pos=2), att], accept=accept,
                                                        pki=dict(variant='good', x5=x5))))
        for to in (16, 17, 96, 97, 98, 19, 0):
            for x5 in ('x5chain', 'x5t'):
                out.append(('cert:good+wrong_result_type', mk_case(CERT_OPS_MENU[0], [dict(kind='wrong_result_type', blk=0, to=to)], accept=accept,
                                                                   pki=dict(variant='good', x5=x5))))
        out.append(('cert:good+wrong_result_type', mk_case(CERT_OPS_MENU[2], [dict(kind='wrong_result_type', blk=1)], accept=accept,
                                                           pki=dict(variant='good', x5='x5chain'))))
    return out


def directed_cases():
    out = []
    one_bib = OPS_MENU[1]
    one_bcb = OPS_MENU[3]
    two = OPS_MENU[5]
    for accept in (False, True):
        # 0 / 1 / 2 / 3 security blocks, all verifying
        for ops in OPS_MENU:
            out.append(('clean', mk_case(ops, accept=accept)))
        # every malformation on a single BIB, a single BCB, and on the first / second of two BIBs
        for kind in BLOCK_MALS:
            for how in HOWS.get(kind, [None]):
                for (ops, blk) in ((one_bib, 0), (one_bcb, 0), (two, 0), (two, 1), (OPS_MENU[8], 1), (OPS_MENU[2], 0)):
                    mal = dict(kind=kind, blk=blk)
                    if how:
                        mal['how'] = how
                    if ops is OPS_MENU[2]:
                        mal['tix'] = 1
                    out.append((kind, mk_case(ops, [mal], accept=accept)))
        out.append(('alter_primary', mk_case(one_bib, [dict(kind='alter_primary')], accept=accept)))
        out.append(('alter_primary', mk_case(two, [dict(kind='alter_primary')], accept=accept)))
        # the detached-payload rule: a payload / ciphertext attached inside the COSE structure
        for (ops, blk, tix) in ((one_bib, 0, 0), (one_bcb, 0, 0), (OPS_MENU[2], 0, 1), (two, 1, 0), (OPS_MENU[8], 1, 0), (OPS_MENU[13], 0, 1)):
            for what in ('original', 'current', 'other'):
                att = dict(kind='attach_payload', blk=blk, tix=tix, what=what)
                out.append(('attach', mk_case(ops, [att], accept=accept)))                                          # target unaltered
                for pos in (0, 3):
                    out.append(('attach', mk_case(ops, [dict(kind='alter_target', blk=blk, tix=tix, pos=pos), att], accept=accept)))   # target altered
            out.append(('attach', mk_case(ops, [dict(kind='alter_flags', blk=blk, tix=tix),
                                                dict(kind='attach_payload', blk=blk, tix=tix, what='original')], accept=accept)))
        # a result carrying another COSE message kind than it is (incl. ids no COSE message has)
        for to in (16, 17, 18, 96, 97, 98, 19, 0):
            out.append(('wrong_result_type', mk_case(one_bib, [dict(kind='wrong_result_type', blk=0, to=to)], accept=accept)))
            out.append(('wrong_result_type', mk_case(one_bcb, [dict(kind='wrong_result_type', blk=0, to=to)], accept=accept)))
        # an attached payload on a verifying block next to a block whose BTSD does not dissect (known finding, not a new class)
        out.append(('attach+bad_asb', mk_case(two, [dict(kind='bad_asb', blk=1, how='garbage'),
                                                    dict(kind='attach_payload', blk=0, what='current')], accept=accept)))
        out.append(('attach+bad_asb', mk_case(OPS_MENU[12], [dict(kind='bad_asb', blk=1, how='text'),
                                                             dict(kind='attach_payload', blk=2, what='original')], accept=accept)))
        # key store contents
        for how in ('wrong', 'missing'):
            out.append((how + '_key', mk_case(one_bib, [dict(kind=how + '_key', blk=0)], keystore=dict(A=how), accept=accept)))
            out.append((how + '_key', mk_case(one_bcb, [dict(kind=how + '_key', blk=0)], keystore=dict(E=how), accept=accept)))
            out.append((how + '_key', mk_case(two, [dict(kind=how + '_key', blk=0)], keystore=dict(A=how), accept=accept)))
            # two BIBs where only the SECOND is bad (the iteration defect of the original tree)
            out.append((how + '_key', mk_case(two, [dict(kind=how + '_key', blk=1)], keystore=dict(B=how), accept=accept)))
            out.append((how + '_key', mk_case(OPS_MENU[11], [dict(kind=how + '_key', blk=1)], keystore=dict(B=how), accept=accept)))
            out.append((how + '_key', mk_case(OPS_MENU[10], [dict(kind=how + '_key', blk=1)], keystore=dict(F=how), accept=accept)))
        # an escaping exception next to a numeric failure, in both orders, and twice
        out.append(('mixed', mk_case(two, [dict(kind='missing_target', blk=1)], keystore=dict(A='missing'), accept=accept)))
        out.append(('mixed', mk_case(two, [dict(kind='missing_target', blk=0)], keystore=dict(B='missing'), accept=accept)))
        out.append(('mixed', mk_case(two, [dict(kind='missing_target', blk=0), dict(kind='no_params', blk=1)], accept=accept)))
        out.append(('mixed', mk_case(two, [dict(kind='missing_target', blk=0), dict(kind='unknown_ctx', blk=1)], accept=accept)))
        # RFC 9172 3.9: the BCB covers the payload and the BIB over the payload
        rfc = [dict(sec='bib', key='A', types=[1]), dict(sec='bcb', key='E', types=[1, 11])]
        out.append(('encrypted_bib', mk_case(rfc, [dict(kind='encrypted_bib')], accept=accept)))
        out.append(('encrypted_bib', mk_case(rfc, [dict(kind='encrypted_bib')], keystore=dict(A='missing'), accept=accept)))
        out.append(('encrypted_bib', mk_case(rfc, [dict(kind='encrypted_bib')], keystore=dict(A='wrong'), accept=accept)))
        # local administrative endpoint
        out.append(('admin', mk_case(one_bib, accept=accept, dest=NODE, payload=ADMIN_PAYLOAD, flags=bpdrive.FLAG_PAYLOAD_ADMIN)))
        out.append(('admin', mk_case(one_bib, [dict(kind='alter_target', blk=0, pos=-1)], accept=accept, dest=NODE, payload=ADMIN_PAYLOAD,
                                     flags=bpdrive.FLAG_PAYLOAD_ADMIN)))
        # nobody to report to
        out.append(('noreport', mk_case(one_bib, [dict(kind='cose_edit', blk=0)], accept=accept, report_to='dtn:none')))
    return out


def random_case(rng):
    pki = None
    if rng.random() < 0.2:
        ops = copy.deepcopy(rng.choice(CERT_OPS_MENU))
        pki = dict(variant=rng.choice(CERT_VARIANTS + ['good'] * 6), x5=rng.choice(['x5chain', 'x5chain', 'x5t', 'x5t', 'x5t_unknown']))
    else:
        ops = copy.deepcopy(rng.choice(OPS_MENU))
    mal = []
    keystore = {}
    nmal = rng.choice([0, 0, 1, 1, 1, 2]) if ops else 0
    for _ in range(nmal):
        roll = rng.random()
        if roll < 0.2 and any(op['key'] != 'S' for op in ops):
            op = rng.choice([op for op in ops if op['key'] != 'S'])
            how = rng.choice(['wrong', 'missing'])
            keystore[op['key']] = how
            mal.append(dict(kind=how + '_key', blk=ops.index(op)))
        elif roll < 0.25:
            mal.append(dict(kind='alter_primary'))
        else:
            kind = rng.choice(BLOCK_MALS)
            ent = dict(kind=kind, blk=rng.randrange(len(ops)), tix=rng.randrange(2), pos=rng.randrange(64))
            if kind in HOWS:
                ent['how'] = rng.choice(HOWS[kind])
            if kind == 'wrong_result_type':
                ent['to'] = rng.choice([16, 17, 18, 96, 97, 98, 19, 0])
            if kind == 'attach_payload':
                ent['what'] = rng.choice(['original', 'original', 'current', 'other'])
                if rng.random() < 0.6:
                    mal.append(dict(kind='alter_target', blk=ent['blk'], tix=ent['tix'], pos=rng.randrange(64)))
            mal.append(ent)
    # at most one edit of the ASB per block (a second one may find the structure it wants to edit gone); a block
    # whose BTSD is replaced wholesale (bad_asb) gets no other ASB edit
    free = ('wrong_key', 'missing_key', 'alter_target', 'alter_flags', 'alter_primary')
    seen = set()
    kept = []
    for item in sorted(mal, key=lambda item: item['kind'] != 'bad_asb'):
        if item['kind'] in free:
            kept.append(item)
        elif item['blk'] not in seen:
            seen.add(item['blk'])
            kept.append(item)
    mal = kept
    payload = bytes(rng.randrange(256) for _ in range(rng.choice([1, 2, 5, 23, 24, 60, 300])))
    return mk_case(ops, mal, keystore=keystore, accept=rng.random() < 0.5, flags=rng.choice(FLAG_SETS), payload=payload,
                   report_to=rng.choice([RPT, RPT, RPT, 'dtn:none']), crc=rng.choice([0, 1, 2]), pki=pki)


def case_shape(case):
    ''' identity of a case up to payload octets '''
    return json.dumps([case['ops'], case['mal'], sorted(case['keystore'].items()), case['accept'], case['flags'], case['dest'],
                       case['report_to'], case['crc'], len(case['payload_hex']), case.get('pki')], sort_keys=True)


# ---------------------------------------------------------------------------------------------- main

def eval_model(chk, name, terms, func, batch=25):
    ''' vm_compute of ``func`` on every term; ``batch`` cases per Eval (the fixed cost of an Eval dominates). '''
    groups = [terms[idx:idx + batch] for idx in range(0, len(terms), batch)]
    res = chk.coq_eval(name, ['Model.BpSecChain'], ['[' + '; '.join(grp) + ']' for grp in groups], '(map %s)' % func)
    out = []
    for (grp, part) in zip(groups, res):
        if len(part) != len(grp):
            raise CoqError('expected %d results in a batch, got %d' % (len(grp), len(part)))
        out.extend(part)
    return out


def report(chk, pending, sig, what, replay_obj):
    if sig in PENDING_FINDINGS and chk.known_match(sig) is None:
        if sig not in pending:
            path = os.path.join(VERIF, 'build', 'replay', 'C12_pending_%s.json' % hashlib.sha1(sig.encode()).hexdigest()[:10])
            with open(path, 'w') as out:
                json.dump(dict(property='C12', signature=sig, what=what, replay=replay_obj), out, indent=1)
            pending[sig] = (what, path)
        return
    chk.fail(sig, what, replay_obj)


def obs_summary(obs):
    return dict(actions=obs['actions'], reason=obs['reason'], reached=obs['reached'], app_payloads=[c['payload'] for c in obs['app_calls']],
                reports=obs['reports'], recv_exc=obs['recv_exc'], escaped=obs['escaped'],
                verdicts=[dict((k, v) for (k, v) in ent.items()) for ent in obs['verdicts']])


def verdict_sig(obs):
    ''' what the contexts answered, and what became of the bundle '''
    ver = [(ent['kind'], ent['num'], ent['targets'], [(c.get('tgt'), c.get('result', 'raised')) for c in ent['tcalls']],
            ent.get('result', 'raised:' + str(ent.get('raised')))) for ent in obs['verdicts']]
    return (ver, obs['actions'], obs['reason'], [c['payload'] for c in obs['app_calls']])


def load_corpus():
    out = []
    for path in sorted(glob.glob(CORPUS_GLOB)):
        with open(path) as infile:
            doc = json.load(infile)
        if 'case' in doc:        # C12_pki.json (certificates) lives next to the witnesses
            out.append((os.path.basename(path), doc['case']))
    return out


def replay(chk, path):
    with open(path) as infile:
        doc = json.load(infile)
    rep = doc.get('replay', doc)
    case = rep['case']
    built = build(case)
    if rep.get('raw_hex') and rep['raw_hex'] != built['raw'].hex():
        if case.get('pki'):
            print('note: rebuilt from the case (ECDSA signatures are randomised, the octets differ from the recorded ones)')
        else:
            print('note: the rebuilt bundle differs from the recorded octets (send path or generator changed?)')
    (built, obs) = run_impl(case, built)
    print('case     :', json.dumps(case, sort_keys=True))
    print('bundle   :', built['raw'].hex())
    print('observed :', json.dumps(obs_summary(obs), sort_keys=True, default=repr))
    bad = oracle(case, built, obs)
    (term, ids, _notes) = model_inputs(case, built, obs)
    try:
        model = chk.coq_eval('replay', ['Model.BpSecChain'], [term], 'BpSecChain.run_case')
        print('model    :', listify(model[0]))
        print('impl     :', impl_canon(obs, ids))
    except CoqError as err:
        print('model evaluation failed:', err)
    real = 0
    for (sig, what) in bad:
        pend = sig in PENDING_FINDINGS and chk.known_match(sig) is None
        known = chk.known_match(sig) is not None
        print('ORACLE-FAIL%s %s: %s' % (' (pending finding)' if pend else (' (known finding)' if known else ''), sig, what))
        if not pend and not known:
            real += 1
    print('replay: %d oracle failure(s), %d of them not a pending/known finding' % (len(bad), real))
    sys.exit(1 if real else 0)


def main():
    chk = Check('C12', level='proof', description=__doc__)
    if chk.args.replay:
        replay(chk, chk.args.replay)
    import time
    phase = {}
    mark = time.time()
    props_ok = chk.coq_props()
    phase['coq_props'] = round(time.time() - mark, 1)
    # tie: the loop structure of _verify_bib/_verify_bcb and verify_bib/verify_bcb, regenerated into Gen/BpsecLoops.v
    (tr_ok, tr_err) = chk.translate_ok('bpsecloops')
    chk.obligation('translator:bpsecloops', tr_ok, tr_err)
    mark = time.time()

    cases = [('corpus:' + name, case) for (name, case) in load_corpus()]
    cases += [('directed:' + tag, case) for (tag, case) in directed_cases()]
    cases += [('directed:' + tag, case) for (tag, case) in cert_cases()]
    n_random = 450 if chk.quick() else 24000
    for _ in range(n_random):
        cases.append(('random', random_case(chk.rng)))

    pending = {}
    terms = []
    runs = []
    build_errors = []
    chain_orders = None
    target_level = True
    for (tag, case) in cases:
        try:
            (built, obs) = run_impl(case)
        except Exception as err:   # the source could not build the bundle: not a receive-path observation
            build_errors.append((tag, case, '%s: %s' % (err.__class__.__name__, err)))
            continue
        chain_orders = obs['chain_orders']
        target_level = target_level and obs['target_level']
        (term, ids, notes) = model_inputs(case, built, obs)
        terms.append(term)
        runs.append((tag, case, built, obs, ids))
        classes = bad_classes(case, built)
        nsec = len(case['ops'])
        chk.count('security_blocks', nsec)
        chk.count('accept_after_verify', case['accept'])
        for cls in (classes or ['all-verify' if nsec else 'no-security-block']):
            chk.count('class', cls)
        acts = obs['actions'] or []
        chk.count('outcome', 'deleted' if 'delete' in acts else ('delivered' if 'deliver' in acts else 'neither'))
        chk.case(ident=case_shape(case), nontrivial=bool(nsec), sample=dict(tag=tag, case=case, bundle=built['raw'].hex(),
                                                                            observed=obs_summary(obs)))
        for (sig, what) in oracle(case, built, obs):
            report(chk, pending, sig, '%s [%s]' % (what, tag), dict(case=case, raw_hex=built['raw'].hex(), observed=obs_summary(obs)))
    # tie of C12_verdict_ignores_payload_slot: the same bundle without the attached payload gets the same verdicts
    slot_bad = []
    slot_n = 0
    for (tag, case, built, obs, ids) in runs:
        if not any(mal['kind'] == 'attach_payload' for mal in case['mal']):
            continue
        twin = dict(case, mal=[mal for mal in case['mal'] if mal['kind'] != 'attach_payload'])
        try:
            (_tb, tobs) = run_impl(twin)
        except Exception as err:
            slot_bad.append((tag, 'twin not built: %s' % err))
            continue
        slot_n += 1
        if verdict_sig(obs) != verdict_sig(tobs):
            slot_bad.append((tag, case['mal'], verdict_sig(obs), verdict_sig(tobs)))
    chk.hist['attached_payload_twins'] = slot_n
    chk.obligation('correspondence:verdict-independent-of-COSE-payload-slot', not slot_bad,
                   '%d of %d bundles with an attached payload are judged differently from the same bundle with a detached one; first: %r'
                   % (len(slot_bad), slot_n, slot_bad[:1]))
    if slot_bad:
        print('# payload slot: ' + repr(slot_bad[0])[:600])
    chk.obligation('generator:every-case-built', not build_errors, '; '.join('%s %s' % (t, e) for (t, _c, e) in build_errors[:3]))

    # tie: the BPSec steps run after the routing steps and before every application step
    order_ok = bool(chain_orders) and len(chain_orders['sec']) == 2 and all(0 < order < 30 for order in chain_orders['sec'])
    chk.obligation('tie:chain-order', order_ok, 'orders of the RX chain: %r' % (chain_orders,))
    chk.coverage['rx_chain'] = chain_orders
    chk.coverage['per_target_verdicts_observed'] = target_level

    # correspondence
    phase['real_code_and_oracle'] = round(time.time() - mark, 1)
    mark = time.time()
    disagree = []
    model_err = None
    try:
        model = eval_model(chk, 'corr', terms, 'BpSecChain.run_case')
    except CoqError as err:
        model = None
        model_err = str(err)
    phase['model_vm_compute'] = round(time.time() - mark, 1)
    chk.coverage['phase_s'] = phase
    if model is not None:
        for ((tag, case, built, obs, ids), res) in zip(runs, model):
            want = impl_canon(obs, ids)
            got = listify(res)
            if want != got:
                disagree.append((tag, case, want, got))
                if len(disagree) == 1:
                    with open(os.path.join(VERIF, 'build', 'C12_disagreement.json'), 'w') as out:
                        json.dump(dict(case=case, raw_hex=built['raw'].hex(), impl=want, model=got, observed=obs_summary(obs)), out,
                                  indent=1, default=repr)
        live_note = ''
        if disagree:
            # diagnostic only: does the implementation behave like the original tree's iteration over the live list?
            try:
                idx = [k for (k, ((tag, case, built, obs, ids), res)) in enumerate(zip(runs, model)) if impl_canon(obs, ids) != listify(res)]
                live = eval_model(chk, 'live', [terms[k] for k in idx[:200]], 'BpSecChain.run_case_live')
                same = sum(1 for (k, res) in zip(idx, live) if impl_canon(runs[k][3], runs[k][4]) == listify(res))
                live_note = '; %d of the first %d disagreeing cases agree with recv_sec_live (iteration over the live block list)' % (same, len(live))
            except CoqError:
                pass
        detail = '%d of %d cases disagree; first: %r%s' % (len(disagree), len(runs), [(t, w, g) for (t, _c, w, g) in disagree[:1]], live_note)
        chk.obligation('correspondence:recv_bundle-vs-BpSecChain.recv_sec', not disagree, detail)
        if disagree:
            print('# correspondence real code vs model: ' + detail[:700])
    else:
        chk.obligation('correspondence:recv_bundle-vs-BpSecChain.recv_sec', False, 'model evaluation failed: ' + model_err)

    # a broken proof or correspondence: search for a failing input with the oracle at 10x the budget
    if (not props_ok or not tr_ok or disagree or model is None) and not chk.violations:
        for _ in range(10 * n_random if chk.quick() else n_random):
            case = random_case(chk.rng)
            try:
                (built, obs) = run_impl(case)
            except Exception:
                continue
            for (sig, what) in oracle(case, built, obs):
                report(chk, pending, sig, '%s [search]' % what, dict(case=case, raw_hex=built['raw'].hex(), observed=obs_summary(obs)))
            if chk.violations:
                break

    for (sig, (what, path)) in sorted(pending.items()):
        print('PENDING-FINDING: property=C12 %s -- %s (witness %s)' % (sig, what[:300], path))
    chk.coverage['pending_findings_reproduced'] = sorted(pending)
    chk.coverage['refuted_or_partial_theorems'] = [
        dict(theorem='C12_invisible_refuted', finding=SIG_INVIS),
        dict(theorem='C12_fail_closed_partial', guard='the block that does not verify is visible to the chain (its BTSD dissected)'),
        dict(theorem='C12_live_iteration_refuted', finding='fixed 4b06bd6: iteration over the live BIB/BCB list (original tree)'),
    ]
    chk.finish(
        rule='a case = security operations (0-3 BIB/BCB, MAC0 HMAC-256/384 and Encrypt0 AES-GCM-128/256, one or two targets each, '
             'applied one per pass through the real Agent.send_bundle with that policy) x malformations applied to the octets with plain '
             'cbor2 and re-fixed CRCs (altered target / primary / block flags / security source, unknown context id, absent target '
             'block, duplicate parameter or result ids, no result, fewer results than targets, undecodable additional headers, no '
             'parameters, wrong result type, undecodable COSE message, flipped tag / IV, undecodable ASB; BCB over a BIB) x receiver '
             'key store (ok / wrong octets / missing per key) x accept_after_verify x report requests x CRC types; directed list + '
             'seeded random cases + corpus; every case is received by a fresh real agent (Agent.recv_bundle through the CL callback '
             'path, idle queue drained, frozen clock). non-trivial = the bundle carries at least one type-11/12 block; distinct = '
             'different (operations, malformations, key store, accept, flags, destination, report-to, CRC type, payload length)',
        assumptions=[
            'harness stubs for dbus, gi.repository.GLib (virtual main context), portion, crcmod and the oscrypto version shim are trusted '
            'to behave like the libraries they stand for',
            'the verdict of each security operation (real pycose / cryptography) is an input of the model; what it means is C03 / C16',
            'visibility of a type-11/12 block (did its BTSD dissect) and "context known" are read off the real decoder / Bpsec.get_context',
            'observation hooks are installed from outside: chain steps ordered after the BPSec steps are wrapped, one application step is '
            'inserted at order 30 ahead of the applications own, CoseContext.verify_bib/verify_bcb%s are wrapped on the instance'
            % ('/verify_bib_target/verify_bcb_target' if target_level else ''),
            'applications loaded: %s' % (bpdrive.APPS_LOADED,),
        ])


if __name__ == '__main__':
    main()
