''' Deterministic virtual GLib main context.

Sources are kept in a dict (id -> Source) and are never run spontaneously:
the harness picks which one runs next, which makes every interleaving of
event-loop iterations reachable and replayable.  Time is virtual.
'''
IO_IN = 1
IO_OUT = 4
IO_ERR = 8
IO_HUP = 16
PRIORITY_DEFAULT = 0


class Source(object):
    def __init__(self, sid, kind, func, args, sock=None, cond=None, interval=None, due=None):
        self.sid = sid
        self.kind = kind  # 'idle' | 'io' | 'timeout'
        self.func = func
        self.args = args
        self.sock = sock
        self.cond = cond
        self.interval = interval
        self.due = due

    @property
    def name(self):
        return getattr(self.func, '__name__', repr(self.func))

    @property
    def owner(self):
        return getattr(self.func, '__self__', None)

    def __repr__(self):
        return 'Source(%d,%s,%s)' % (self.sid, self.kind, self.name)


class Context(object):
    def __init__(self):
        self.reset()

    def reset(self):
        self.sources = {}
        self.next_id = 1
        self.now_ms = 0
        self.escaped = []  # exceptions that escaped callbacks

    def add(self, kind, func, args, **kw):
        sid = self.next_id
        self.next_id += 1
        self.sources[sid] = Source(sid, kind, func, args, **kw)
        return sid

    def find(self, kind=None, name=None, owner=None, cond=None):
        out = []
        for src in self.sources.values():
            if kind is not None and src.kind != kind:
                continue
            if name is not None and src.name != name:
                continue
            if owner is not None and src.owner is not owner:
                continue
            if cond is not None and src.cond != cond:
                continue
            out.append(src)
        return out

    def run(self, src, catch=True):
        ''' Dispatch one source once, as the GLib main loop would.
        :return: (ran, exception or None)
        '''
        if src.sid not in self.sources:
            return (False, None)
        exc = None
        try:
            if src.kind == 'io':
                ret = src.func(src.sock, src.cond, *src.args)
            else:
                ret = src.func(*src.args)
        except Exception as err:  # pygobject prints and removes nothing; the callback result is falsy
            if not catch:
                raise
            exc = err
            self.escaped.append(err)
            ret = False
        if not ret:
            self.sources.pop(src.sid, None)
        elif src.kind == 'timeout' and src.sid in self.sources:
            src.due = self.now_ms + src.interval
        return (True, exc)

    def advance(self, delta_ms):
        self.now_ms += delta_ms

    def due_timeouts(self):
        return sorted([s for s in self.sources.values() if s.kind == 'timeout' and s.due <= self.now_ms],
                      key=lambda s: (s.due, s.sid))


CTX = Context()


def idle_add(func, *args, **kwargs):
    return CTX.add('idle', func, args)


def timeout_add(interval, func, *args, **kwargs):
    return CTX.add('timeout', func, args, interval=interval, due=CTX.now_ms + interval)


def timeout_add_seconds(interval, func, *args, **kwargs):
    return timeout_add(interval * 1000, func, *args)


def io_add_watch(sock, cond, func, *args, **kwargs):
    return CTX.add('io', func, args, sock=sock, cond=cond)


def source_remove(sid):
    return CTX.sources.pop(sid, None) is not None


class MainLoop(object):
    def __init__(self, *args, **kwargs):
        self.running = False
        self.quit_called = False

    def run(self):
        self.running = True

    def quit(self):
        self.running = False
        self.quit_called = True

    def is_running(self):
        return self.running
