(** Property C02 - BPv7 bundle encoding round-trips and is RFC 9171 well-formed.

    Model: [Model/Bundle.v] ([impl_encode_bundle] = [bytes(Bundle)], [decode_bundle] = [Bundle(bytes)],
    tied to /repo on every run by the correspondence in [harness/check_C02.py]).

    Full-strength statements (NOT provable for the unchanged implementation):
      C02_roundtrip : forall b, wf_bundle b -> rfc_admin_ok b = true ->
                        decode_bundle (impl_encode_bundle b) = Some b
      C02_reencode  : forall bs b, decode_bundle bs = Some b -> rfc9171_canonical bs ->
                        impl_encode_bundle b = bs
      status_report_roundtrip : forall r, wf_status_report r ->
                        decode_status_report (encode_status_report r) = Some r
    They are refuted below by two defect classes of the faithful model, replayed on the implementation by
    the check:
      (1) a dtn EID whose SSP contains '?' or '#' (legal in the demux by the ABNF of RFC 9171 4.2.5.1.1)
          is cut there when encoded (urlsplit) - [C02_roundtrip_refuted], [C02_reencode_refuted];
      (2) a status report whose reason code is not a member of the implementation's enum (e.g. 11,
          "Block unsupported", RFC 9171 9.5) cannot be decoded, nor can the bundle carrying it -
          [status_report_roundtrip_refuted], [C02_roundtrip_refuted_reason].
    The [_partial] theorems carry the guard that excludes exactly these classes:
      [impl_norm_bundle b = b]  (no EID is changed by the text conversion; [C02_guard_eids] and
                                 [C02_guard_ssp_abnf] say when that holds) and
      [impl_admin_ok b = true]  (an admin-flagged bundle carries records the implementation can parse). *)
From Coq Require Import List NArith.
From DTN Require Import Lib.Bytes Lib.Cbor Model.Bundle Proofs.BundleProofs.
Import ListNotations.
Local Open Scope N_scope.

(** encoding then decoding yields the same field values *)
Theorem C02_roundtrip_partial : forall b : bundle,
  wf_bundle b -> impl_norm_bundle b = b -> impl_admin_ok b = true ->
  decode_bundle (impl_encode_bundle b) = Some b.
Proof. exact bundle_roundtrip. Qed.
Print Assumptions C02_roundtrip_partial.

Theorem C02_roundtrip_refuted :
  exists b : bundle, wf_bundle b /\ impl_admin_ok b = true /\
                     decode_bundle (impl_encode_bundle b) <> Some b.
Proof. exists query_bundle. exact query_bundle_refutes. Qed.
Print Assumptions C02_roundtrip_refuted.

Theorem C02_roundtrip_refuted_reason :
  exists b : bundle, wf_bundle b /\ impl_norm_bundle b = b /\ rfc_admin_ok b = true /\
                     decode_bundle (impl_encode_bundle b) = None.
Proof. exists reason11_bundle. destruct reason11_refutes as (_ & _ & _ & H). exact H. Qed.
Print Assumptions C02_roundtrip_refuted_reason.

(** decoding octets an independent deterministic RFC 9171 encoder can produce, then re-encoding,
    reproduces the octets *)
Theorem C02_reencode_partial : forall (bs : bytes) (b : bundle),
  decode_bundle bs = Some b ->
  (exists items, Forall Cbor.wf items /\ bs = encode_indef_arr items) ->     (* = rfc9171_canonical bs *)
  impl_norm_bundle b = b ->
  impl_encode_bundle b = bs.
Proof. exact bundle_reencode. Qed.
Print Assumptions C02_reencode_partial.

Theorem C02_reencode_refuted :
  exists (bs : bytes) (b : bundle),
    (exists items, Forall Cbor.wf items /\ bs = encode_indef_arr items) /\
    decode_bundle bs = Some b /\ impl_encode_bundle b <> bs.
Proof. exists (encode_bundle query_bundle), query_bundle. exact query_bundle_reencode_refutes. Qed.
Print Assumptions C02_reencode_refuted.

(** the same two statements for the tree conversion alone (no octets, no implementation guard) *)
Theorem C02_tree_roundtrip : forall b : bundle,
  wf_primary (prim b) -> Forall wf_cblock (blocks b) -> bundle_of_items (bundle_items b) = Some b.
Proof. exact bundle_tree_roundtrip. Qed.
Print Assumptions C02_tree_roundtrip.

Theorem C02_tree_reencode : forall (items : list cbor) (b : bundle),
  bundle_of_items items = Some b -> bundle_items b = items.
Proof. exact bundle_tree_reencode. Qed.
Print Assumptions C02_tree_reencode.

(** The encoded form, as the generic CBOR decoder reads it: an indefinite-length array (first octet
    0x9f, nothing after the break) whose first item is an array of 8..11 items and whose remaining items
    are arrays of 5..6 items, the last of which starts with block type 1.  Payload-last is a hypothesis
    ([payload_last], third conjunct of [wf_bundle]). *)
Theorem C02_shape : forall b : bundle,
  wf_primary (prim (impl_norm_bundle b)) /\ Forall wf_cblock (blocks (impl_norm_bundle b)) /\
  payload_last (blocks (impl_norm_bundle b)) ->                              (* = wf_bundle (impl_norm_bundle b) *)
  exists p blks pre lastl,
    hd_error (impl_encode_bundle b) = Some 159 /\
    Cbor.decode bundle_fuel (impl_encode_bundle b) = Some (CArr (CArr p :: blks), []) /\
    (8 <= length p <= 11)%nat /\
    Forall (fun c => exists l, c = CArr l /\ (5 <= length l <= 6)%nat) blks /\
    blks = pre ++ [CArr lastl] /\ hd_error lastl = Some (CUint 1).
Proof. exact bundle_shape. Qed.
Print Assumptions C02_shape.

Theorem C02_primary_len : forall p : primary,
  (8 <= length (primary_items p) <= 11)%nat /\
  (wf_primary p ->
   length (primary_items p) =
   (8 + (if is_fragment p then 2 else 0) + (if N.eqb (crc_type p) 0 then 0 else 1))%nat).
Proof. intros p. split; [apply primary_items_length_bounds|apply primary_items_length_wf]. Qed.
Print Assumptions C02_primary_len.

Theorem C02_cblock_len : forall blk : cblock,
  (5 <= length (cblock_items blk) <= 6)%nat /\
  (wf_cblock blk -> length (cblock_items blk) = (5 + (if N.eqb (bcrc_type blk) 0 then 0 else 1))%nat).
Proof. intros blk. split; [apply cblock_items_length_bounds|apply cblock_items_length_wf]. Qed.
Print Assumptions C02_cblock_len.

Theorem eid_roundtrip : forall e : eid, wf_eid e -> eid_of_cbor (cbor_of_eid e) = Some e.
Proof. exact BundleProofs.eid_roundtrip. Qed.
Print Assumptions eid_roundtrip.

Theorem eid_reencode : forall (c : cbor) (e : eid), eid_of_cbor c = Some e -> cbor_of_eid e = c.
Proof. exact eid_of_cbor_inv. Qed.
Print Assumptions eid_reencode.

Theorem status_report_roundtrip_partial : forall r : status_report,
  wf_status_report r -> impl_reason_known (sr_reason r) = true ->
  decode_status_report (encode_status_report r) = Some r.
Proof. exact status_report_roundtrip. Qed.
Print Assumptions status_report_roundtrip_partial.

Theorem status_report_roundtrip_refuted :
  exists r : status_report, wf_status_report r /\ sr_reason r = 11 /\
    rfc_decode_status_report (encode_status_report r) = Some r /\
    decode_status_report (encode_status_report r) = None.
Proof.
  exists reason11_report. destruct reason11_refutes as (H1 & H2 & H3 & _).
  split; [exact H1|]. split; [reflexivity|]. split; assumption.
Qed.
Print Assumptions status_report_roundtrip_refuted.

Theorem admin_record_reencode : forall (bs : bytes) (a : admin_record),
  decode_admin_record bs = Some a -> encode_admin_record a = bs.
Proof. exact (BundleProofs.admin_record_reencode impl_reason_known). Qed.
Print Assumptions admin_record_reencode.

(** when the guard [impl_norm_bundle b = b] holds *)
Theorem C02_guard_eids : forall b : bundle,
  impl_norm_eid (dest (prim b)) = dest (prim b) ->
  impl_norm_eid (src (prim b)) = src (prim b) ->
  impl_norm_eid (report_to (prim b)) = report_to (prim b) ->
  Forall (fun blk => forall r, decode_admin_record (btsd blk) = Some (AdminStatus r) ->
                               impl_norm_eid (sr_src r) = sr_src r) (blocks b) ->
  impl_norm_bundle b = b.
Proof. exact impl_norm_bundle_stable. Qed.
Print Assumptions C02_guard_eids.

(** "//" node-name "/" demux  with neither '#' (35) nor '?' (63) is left alone; '/' = 47 *)
Theorem C02_guard_ssp_abnf : forall node demux : bytes,
  node <> [] -> ~ In 47 node -> ~ In 35 (node ++ demux) -> ~ In 63 (node ++ demux) ->
  impl_norm_ssp (47 :: 47 :: node ++ 47 :: demux) = 47 :: 47 :: node ++ 47 :: demux.
Proof. exact impl_norm_ssp_abnf. Qed.
Print Assumptions C02_guard_ssp_abnf.

(** Non-vacuity, pinned to octets the real code produced ([bytes(Bundle(...))], see the comments at
    [real_bundle] / [real_report_bundle] in [Proofs/BundleProofs.v]): the model encodes the
    corresponding records to exactly those octets, decodes them back, and they satisfy every hypothesis
    used above. *)
Theorem C02_nonvacuous :
  impl_encode_bundle real_bundle = real_bundle_octets /\
  decode_bundle real_bundle_octets = Some real_bundle /\
  wf_bundle real_bundle /\ impl_norm_bundle real_bundle = real_bundle /\ impl_admin_ok real_bundle = true /\
  (exists items, Forall Cbor.wf items /\ real_bundle_octets = encode_indef_arr items) /\
  crc_ok_bundle real_bundle = true /\
  impl_encode_bundle real_report_bundle = real_report_octets /\
  wf_status_report real_report /\ impl_reason_known (sr_reason real_report) = true /\
  wf_bundle real_report_bundle /\ impl_norm_bundle real_report_bundle = real_report_bundle /\
  impl_admin_ok real_report_bundle = true.
Proof.
  destruct real_bundle_wf as (H1 & H2 & H3). destruct real_report_wf as (R1 & R2 & R3 & R4 & R5 & _).
  split; [exact real_bundle_encoding|]. split; [exact real_bundle_decoding|].
  split; [exact H1|]. split; [exact H2|]. split; [exact H3|]. split; [exact real_bundle_canonical|].
  split; [apply real_bundle_crc|]. split; [exact real_report_encoding|].
  split; [exact R1|]. split; [exact R2|]. split; [exact R3|]. split; [exact R4|exact R5].
Qed.
Print Assumptions C02_nonvacuous.
