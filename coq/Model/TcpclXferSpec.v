(** Specification-side definitions for the transfer properties (C01, C04, C17)
    of the TCPCL endpoint model [Model/TcpclSess.v].  Definitions only.

    Nothing here looks at the endpoint's transfer bookkeeping ([tx_tmp],
    [rx_tmp], [rx_map], ...): everything is computed from the observable
    histories of an endpoint -- the frames it sent ([sent]), the frames it
    acted on ([handled]), its event trace, and the operations applied. *)
From Coq Require Import List NArith Bool.
From DTN Require Import Lib.Bytes Model.TcpclMsg Model.TcpclSess.
Import ListNotations.
Local Open Scope N_scope.

(** ** Segments *)

(** An XFER_SEGMENT: flags, transfer id, extension region, data. *)
Definition xseg := (N * N * bytes * bytes)%type.
Definition xs_flags (g : xseg) : N := fst (fst (fst g)).
Definition xs_id (g : xseg) : N := snd (fst (fst g)).
Definition xs_ext (g : xseg) : bytes := snd (fst g).
Definition xs_data (g : xseg) : bytes := snd g.

Definition seg_of_frame (f : frame) : list xseg :=
  match f with FMsg (MXferSeg fl i e d) => [(fl, i, e, d)] | _ => [] end.

(** The XFER_SEGMENT messages of a frame sequence, in order. *)
Definition segs_of (l : list frame) : list xseg := flat_map seg_of_frame l.

(** ** Grouping a segment sequence into transfers

    State: the open transfer (id, data so far) and the transfers already
    closed, in order, each with a flag "complete" (closed by an END segment)
    or not (abandoned: another START arrived while it was open).
    A START segment opens a transfer; a non-START segment with the id of the
    open transfer appends to it; END closes it.  A non-START segment that does
    not continue the open transfer is skipped (a well-grouped sequence has
    none: [grouped] below). *)
Definition transfer := (N * bytes * bool)%type.
Definition xstate := (option (N * bytes) * list transfer)%type.

Definition xfer_step (st : xstate) (g : xseg) : xstate :=
  let '(cur, out) := st in
  let '(fl, xid, _, data) := g in
  if has_start fl then
    let out' := match cur with Some (c, acc) => out ++ [(c, acc, false)] | None => out end in
    if has_end fl then (None, out' ++ [(xid, data, true)]) else (Some (xid, data), out')
  else
    match cur with
    | Some (c, acc) =>
      if c =? xid then
        if has_end fl then (None, out ++ [(xid, acc ++ data, true)])
        else (Some (xid, acc ++ data), out)
      else st
    | None => st
    end.

Definition xfold (l : list xseg) : xstate := fold_left xfer_step l (None, []).

Definition open_transfer (st : xstate) : list transfer :=
  match fst st with Some (c, acc) => [(c, acc, false)] | None => [] end.

(** All transfers of a segment sequence, in order; the last one may be still open. *)
Definition transfers_of (l : list xseg) : list transfer :=
  snd (xfold l) ++ open_transfer (xfold l).

Definition tr_id (t : transfer) : N := fst (fst t).
Definition tr_data (t : transfer) : bytes := snd (fst t).
Definition tr_complete (t : transfer) : bool := snd t.

(** The complete transfers, as (id, data). *)
Definition complete_of (ts : list transfer) : list (N * bytes) :=
  flat_map (fun t => if tr_complete t then [(tr_id t, tr_data t)] else []) ts.

(** Well-grouped sequences: every non-START segment continues the open
    transfer.  [strict]: moreover a START segment only arrives when no transfer
    is open (never two transfers open at once). *)
Definition seg_continues (cur : option (N * bytes)) (g : xseg) : Prop :=
  has_start (xs_flags g) = false -> exists acc, cur = Some (xs_id g, acc).
Definition seg_opens_fresh (cur : option (N * bytes)) (g : xseg) : Prop :=
  has_start (xs_flags g) = true -> cur = None.

Definition grouped (l : list xseg) : Prop :=
  forall pre g post, l = pre ++ g :: post -> seg_continues (fst (xfold pre)) g.
Definition grouped_strict (l : list xseg) : Prop :=
  forall pre g post, l = pre ++ g :: post ->
    seg_continues (fst (xfold pre)) g /\ seg_opens_fresh (fst (xfold pre)) g.

(** A START segment that carries no data and does not end the transfer makes
    no progress (it can only be produced with a zero segment size). *)
Definition seg_progress (g : xseg) : Prop :=
  has_start (xs_flags g) = true -> has_end (xs_flags g) = false -> xs_data g <> [].

(** ** What was queued

    The bundles accepted by [send_bundle_data] ([OSend]), in order: those given
    while the endpoint was open and not terminating.  (On a closed endpoint the
    call is a no-op in the model; once [_in_term] is set the call raises
    RuntimeError and queues nothing.) *)
Definition queued_by (s : ep) (o : op) : list bytes :=
  match o with OSend d => if closed s || in_term s then [] else [d] | _ => [] end.

Fixpoint queued_from (s : ep) (ops : list op) : list bytes :=
  match ops with
  | [] => []
  | o :: r => queued_by s o ++ queued_from (step s o) r
  end.

Definition queued (c : cfg) (ops : list op) : list bytes := queued_from (init c) ops.

(** The transfer ids returned by [send_bundle_data], in order. *)
Definition send_ids (tr : list event) : list N :=
  flat_map (fun e => match e with ERet 1 (PStrNum id) => [id] | _ => [] end) tr.

(** ** The receiver, specified over the frames it acted on

    State: (a SESS_INIT was handled, open transfer, deliveries so far).
    Before the first SESS_INIT every segment is rejected.  Afterwards a START
    segment opens (or replaces) the current transfer, a non-START segment with
    the id of the current transfer appends, any other non-START segment is
    rejected and changes nothing, and END delivers (id, accumulated data). *)
Definition rxspec := (bool * option (N * bytes) * list (N * bytes))%type.

Definition rx_accept (cur : option (N * bytes)) (fl xid : N) : option bytes :=
  if has_start fl then Some []
  else match cur with
       | Some (c, acc) => if c =? xid then Some acc else None
       | None => None
       end.

Definition rx_spec_step (st : rxspec) (f : frame) : rxspec :=
  let '(sess, cur, out) := st in
  match f with
  | FMsg (MSessInit _ _ _ _ _) => (true, cur, out)
  | FMsg (MXferSeg fl xid _ data) =>
    if sess then
      match rx_accept cur fl xid with
      | None => st
      | Some acc =>
        if has_end fl then (sess, None, out ++ [(xid, acc ++ data)])
        else (sess, Some (xid, acc ++ data), out)
      end
    else st
  | _ => st
  end.

Definition rx_spec (h : list frame) : rxspec := fold_left rx_spec_step h (false, None, []).
Definition deliver_spec (h : list frame) : list (N * bytes) := snd (rx_spec h).

Definition sp_sess (st : rxspec) : bool := fst (fst st).
Definition sp_cur (st : rxspec) : option (N * bytes) := snd (fst st).
Definition sp_out (st : rxspec) : list (N * bytes) := snd st.

(** A delivery as announced by the "receive finished" signal: (id, length). *)
Definition dlen (p : N * bytes) : N * N := (fst p, N.of_nat (length (snd p))).

(** What a frame contributes to transfer [xid]; START frames; END frames of [xid]. *)
Definition contrib (xid : N) (f : frame) : bytes :=
  match f with FMsg (MXferSeg _ i _ d) => if i =? xid then d else [] | _ => [] end.
Definition is_start (f : frame) : bool :=
  match f with FMsg (MXferSeg fl _ _ _) => has_start fl | _ => false end.
Definition is_end_of (xid : N) (f : frame) : bool :=
  match f with FMsg (MXferSeg fl i _ _) => has_end fl && (i =? xid) | _ => false end.

(** ** Events *)
Definition recv_finished_events (tr : list event) : list (N * N) :=
  flat_map (fun e => match e with
                     | ESig SigRecvFinished [PStrNum id; PInt len; _] => [(id, len)]
                     | _ => []
                     end) tr.

Definition pop_events (tr : list event) : list (N * bytes) :=
  flat_map (fun e => match e with EPop id d => [(id, d)] | _ => [] end) tr.

Definition is_refuse (f : frame) : bool :=
  match f with FMsg (MXferRefuse _ _) => true | _ => false end.
Definition is_sess_init (f : frame) : bool :=
  match f with FMsg (MSessInit _ _ _ _ _) => true | _ => false end.

(** [rx_map] as a function of the histories: walking the event trace, the
    k-th "receive finished" signal stores the k-th delivery, a successful
    pop removes its id. *)
Definition rxmap_step (dl : list (N * bytes)) (st : nat * list (N * bytes)) (e : event)
  : nat * list (N * bytes) :=
  match e with
  | ESig SigRecvFinished _ =>
    match nth_error dl (fst st) with
    | Some (id, d) => (S (fst st), dict_set id d (snd st))
    | None => (S (fst st), snd st)
    end
  | EPop id _ => (fst st, dict_del id (snd st))
  | _ => st
  end.
Definition rxmap_spec (tr : list event) (dl : list (N * bytes)) : list (N * bytes) :=
  snd (fold_left (rxmap_step dl) tr (O, [])).

(** List prefix. *)
Definition prefix {A} (l1 l2 : list A) : Prop := exists r, l2 = l1 ++ r.

(** The bundle queued under transfer id [id] (ids count from 1). *)
Definition bundle_of (q : list bytes) (id : N) : option bytes :=
  if id =? 0 then None else nth_error q (N.to_nat (id - 1)).

(** What a sent transfer must look like: it carries (a prefix of) the bundle
    queued under its id; all of it when complete. *)
Definition transfer_ok (q : list bytes) (t : transfer) : Prop :=
  exists b, bundle_of q (tr_id t) = Some b /\
            (tr_complete t = true -> tr_data t = b) /\
            (tr_complete t = false -> prefix (tr_data t) b).

(** START segments announce the total length of their bundle; others carry no extension. *)
Definition seg_ext_ok (q : list bytes) (g : xseg) : Prop :=
  exists b, bundle_of q (xs_id g) = Some b /\
            xs_ext g = if has_start (xs_flags g) then total_length_ext (N.of_nat (length b)) else [].

(** END-flagged XFER_ACK messages of a frame sequence: (id, acknowledged length). *)
Definition end_ack_of (f : frame) : list (N * N) :=
  match f with FMsg (MXferAck fl id len) => if has_end fl then [(id, len)] else [] | _ => [] end.
Definition end_acks (l : list frame) : list (N * N) := flat_map end_ack_of l.

(** ** Reports about transfers that never started

    The "send finished" signal that reports a queued transfer dropped because
    the session is terminating or the connection closed. *)
Definition term_ev (it : N * bytes) : event :=
  ESig SigSendFinished [PStrNum (fst it); PInt 0; PStr RES_TERMINATING].
Definition started_ev (id len : N) : event := ESig SigSendStarted [PStrNum id; PInt len].

(** The events of a trace that announce that a transfer started, or was
    finished with the 'terminating' result. *)
Definition note (e : event) : bool :=
  match e with
  | ESig SigSendStarted _ => true
  | ESig SigSendFinished [_; _; PStr r] => r =? RES_TERMINATING
  | _ => false
  end.
