(** C01 / C04, sender side, part 2: invariants of the abstract transfer system
    of Proofs/TcpclXferAbs.v, transported to every run of the endpoint model. *)
From Coq Require Import ZArith NArith List Bool Lia ZifyBool ZifyN ZifyNat Sorted.
From RecordUpdate Require Import RecordSet.
From DTN Require Import Lib.Bytes Model.TcpclMsg Model.TcpclSess Model.TcpclXferSpec
  Proofs.TcpclSessBasics Proofs.TcpclXferAbs.
Import ListNotations RecordSetNotations.
Local Open Scope N_scope.
Ltac Zify.zify_post_hook ::= Z.div_mod_to_equations.

(** ** Lists *)
Lemma snoc_cases {A} (l : list A) g pre x post :
  l ++ [g] = pre ++ x :: post ->
  (exists post', post = post' ++ [g] /\ l = pre ++ x :: post') \/ (post = [] /\ pre = l /\ x = g).
Proof.
  intros E. destruct post as [|y post] using rev_ind.
  - right. change (pre ++ [x]) with (pre ++ [x]) in E. apply app_inj_tail in E. destruct E as [-> ->]. auto.
  - left. clear IHpost. change (pre ++ x :: post ++ [y]) with (pre ++ (x :: post) ++ [y]) in E.
    rewrite app_assoc in E. apply app_inj_tail in E. destruct E as [-> ->]. exists post. auto.
Qed.

(** [1; 2; ...; n] in N. *)
Definition Nseq (start len : nat) : list N := map N.of_nat (seq start len).

Lemma Nseq_snoc start len : Nseq start (S len) = Nseq start len ++ [N.of_nat (start + len)].
Proof. unfold Nseq. rewrite seq_S, map_app. reflexivity. Qed.

(** Every segment of a frame sequence is preceded by a SESS_INIT. *)
Definition init_first (l : list frame) : Prop :=
  forall pre g post, l = pre ++ g :: post -> seg_of_frame g <> [] -> existsb is_sess_init pre = true.

Definition has_init (l : list frame) : bool := existsb is_sess_init l.

Lemma has_init_app a b : has_init (a ++ b) = has_init a || has_init b.
Proof. apply existsb_app. Qed.

Lemma init_first_snoc l g : init_first l -> (seg_of_frame g <> [] -> has_init l = true) -> init_first (l ++ [g]).
Proof.
  intros H Hg pre x post E Hx. apply snoc_cases in E.
  destruct E as [(post' & -> & ->)|(-> & -> & ->)]; [eapply H; [reflexivity|exact Hx]|apply Hg, Hx].
Qed.

(** ** Basic invariants of the abstract system *)
Definition Binv (v : av) : Prop :=
  (a_cl v = false -> a_ic v = true -> a_pas v = false -> has_init (a_sn v) = true) /\
  (a_is v = true -> has_init (a_sn v) = true) /\
  (a_tt v <> None -> a_is v = true) /\
  init_first (a_sn v) /\
  Forall (fun f => is_refuse f = false) (a_sn v) /\
  (forall id len, In (id, len) (a_sc v) ->
     exists fl, has_end fl = true /\ In (FMsg (MXferAck fl id len)) (a_hd v)) /\
  a_nid v = N.of_nat (length (a_q v)) + 1 /\
  a_ids v = Nseq 1 (length (a_q v)).

Lemma Binv_step v v' : Binv v -> astep v v' -> Binv v'.
Proof.
  intros (K & J1 & J2 & J3 & NR & A1 & Hn & Hi) H. unfold Binv.
  destruct H; cbn [a_q a_pas a_cl a_ic a_is a_it a_nid a_ps a_tt a_tl a_hd a_sn a_sc a_ids a_ev set].
  - (* send *)
    repeat split; try assumption.
    + intros. rewrite has_init_app. rewrite K by assumption. reflexivity.
    + intros. rewrite has_init_app. rewrite J1 by assumption. reflexivity.
    + apply init_first_snoc; [exact J3|]. intros Hx. contradiction.
    + apply Forall_app. split; [exact NR|]. constructor; [assumption|constructor].
  - (* close *) repeat split; try assumption. intros; discriminate.
  - (* handle *)
    repeat split; try assumption.
    intros id len Hin. destruct (A1 _ _ Hin) as (fl & E & Hf). exists fl. split; [exact E|].
    apply in_or_app. left. exact Hf.
  - (* conn *)
    repeat split; try assumption. intros Cl _ P.
    destruct H as [H|[H|H]]; [congruence|congruence|exact H].
  - (* sess *)
    repeat split; try assumption. intros _.
    destruct (a_pas v) eqn:P; [apply H1; reflexivity|apply K; auto].
  - (* term *) repeat split; assumption.
  - (* queue *)
    repeat split; try assumption.
    + rewrite app_length. cbn [length]. lia.
    + rewrite app_length. cbn [length]. rewrite Nat.add_1_r, Nseq_snoc, Hi, Hn. f_equal. f_equal. lia.
  - (* flush *) repeat split; assumption.
  - (* refuse_ps *) repeat split; assumption.
  - (* refuse_cur *) repeat split; try assumption. intros F; exfalso; apply F; reflexivity.
  - (* start *) repeat split; try assumption. intros _. assumption.
  - (* seg *)
    assert (IS : a_is v = true) by (apply J2; rewrite H; discriminate).
    destruct (newlen =? total); cbn [a_q a_pas a_cl a_ic a_is a_it a_nid a_ps a_tt a_tl a_hd a_sn a_sc a_ids a_ev set];
      repeat split; try assumption.
    all: try (intros; rewrite has_init_app, (J1 IS); reflexivity).
    all: try (apply init_first_snoc; [exact J3|]; intros _; apply J1, IS).
    all: try (apply Forall_app; split; [exact NR|]; constructor; [reflexivity|constructor]).
    all: intros F; exfalso; apply F; reflexivity.
  - (* succ *)
    repeat split; try assumption.
    intros i l Hin. apply in_app_or in Hin. destruct Hin as [Hin|[[= <- <-]|[]]]; [apply A1, Hin|].
    exists fl. split; assumption.
Qed.

Lemma Binv_init c : Binv (sv [] (init c)).
Proof.
  unfold Binv. cbn. repeat split; try discriminate; try reflexivity.
  - intros F. contradiction.
  - intros pre g post E. destruct pre; discriminate E.
  - constructor.
  - intros ? ? [].
Qed.

Theorem Binv_run c ops : Binv (sv (queued c ops) (run c ops)).
Proof.
  eapply (asteps_invariant Binv); [intros v v'; apply Binv_step|apply as_run|apply Binv_init].
Qed.

(** ** Segments, flags, folds *)
Lemma segs_of_app a b : segs_of (a ++ b) = segs_of a ++ segs_of b.
Proof. apply flat_map_app. Qed.

Lemma segs_of_snoc_none l f : seg_of_frame f = [] -> segs_of (l ++ [f]) = segs_of l.
Proof. intros H. rewrite segs_of_app. unfold segs_of at 2. cbn [flat_map]. rewrite H. rewrite !app_nil_r. reflexivity. Qed.

Lemma segs_of_snoc_seg l fl i e d : segs_of (l ++ [FMsg (MXferSeg fl i e d)]) = segs_of l ++ [(fl, i, e, d)].
Proof. rewrite segs_of_app. reflexivity. Qed.

Lemma xfold_snoc l g : xfold (l ++ [g]) = xfer_step (xfold l) g.
Proof. unfold xfold. rewrite fold_left_app. reflexivity. Qed.

Lemma seg_flags_start tl nl tot : has_start (seg_flags tl nl tot) = (tl =? 0).
Proof. unfold seg_flags. destruct (tl =? 0), (nl =? tot); reflexivity. Qed.
Lemma seg_flags_end tl nl tot : has_end (seg_flags tl nl tot) = (nl =? tot).
Proof. unfold seg_flags. destruct (tl =? 0), (nl =? tot); reflexivity. Qed.

(** ** Arithmetic of segmenting *)
Lemma next_seg_len id data tl k : tl <= N.of_nat (length data) ->
  tl + N.of_nat (length (next_seg id data tl k)) <= N.of_nat (length data).
Proof.
  intros H. unfold next_seg. rewrite firstn_length, skipn_length. lia.
Qed.

Lemma next_seg_app id data tl k : tl <= N.of_nat (length data) ->
  firstn (N.to_nat tl) data ++ next_seg id data tl k =
  firstn (N.to_nat (tl + N.of_nat (length (next_seg id data tl k)))) data.
Proof.
  intros H. unfold next_seg.
  set (a := N.to_nat tl). set (sk := skipn a data).
  replace (N.to_nat (tl + N.of_nat (length (firstn k sk)))) with (a + length (firstn k sk))%nat by lia.
  rewrite <- (firstn_skipn a data) at 2. fold sk.
  assert (La : length (firstn a data) = a) by (rewrite firstn_length; lia).
  rewrite firstn_app, La.
  rewrite (firstn_all2 (n := (a + length (firstn k sk))%nat)) by lia.
  f_equal. replace (a + length (firstn k sk) - a)%nat with (length (firstn k sk)) by lia.
  rewrite firstn_length. rewrite <- (firstn_all sk) at 1. rewrite firstn_firstn. reflexivity.
Qed.

Lemma firstn_prefix {A} n (l : list A) : prefix (firstn n l) l.
Proof. exists (skipn n l). symmetry. apply firstn_skipn. Qed.

(** ** Sorted lists *)
Lemma SSorted_snoc {A} (R : A -> A -> Prop) l x :
  StronglySorted R (l ++ [x]) <-> StronglySorted R l /\ Forall (fun a => R a x) l.
Proof.
  induction l as [|a l IH]; cbn [app].
  - split; [intros _; split; constructor|intros _; constructor; constructor].
  - split.
    + intros H. inversion H as [|? ? H1 H2]; subst. apply IH in H1. destruct H1 as [H1 H3].
      apply Forall_app in H2. destruct H2 as [H2 H4]. inversion H4; subst.
      split; constructor; assumption.
    + intros [H1 H2]. inversion H1 as [|? ? H3 H4]; subst. inversion H2; subst.
      constructor; [apply IH; split; assumption|]. apply Forall_app. split; [assumption|]. constructor; [assumption|constructor].
Qed.

Lemma dict_del_incl {V} k (d : list (N * V)) x : In x (dict_del k d) -> In x d.
Proof.
  induction d as [|[a b] d IH]; cbn [dict_del]; [tauto|].
  destruct (a =? k); cbn [In]; [tauto|]. intros [H|H]; [left; exact H|right; apply IH, H].
Qed.

Lemma dict_del_sorted {V} (R : N * V -> N * V -> Prop) k d :
  StronglySorted R d -> StronglySorted R (dict_del k d).
Proof.
  induction d as [|[a b] d IH]; cbn [dict_del]; intros H; [exact H|].
  inversion H as [|? ? H1 H2]; subst. destruct (a =? k); [exact H1|].
  constructor; [apply IH, H1|]. rewrite Forall_forall in *. intros x Hx. apply H2. eapply dict_del_incl, Hx.
Qed.

Lemma bundle_of_app q d id b : bundle_of q id = Some b -> bundle_of (q ++ d) id = Some b.
Proof.
  unfold bundle_of. destruct (id =? 0); [discriminate|]. intros H.
  rewrite nth_error_app1; [exact H|]. apply nth_error_Some. congruence.
Qed.

Lemma bundle_of_new q d : bundle_of (q ++ [d]) (N.of_nat (length q) + 1) = Some d.
Proof.
  unfold bundle_of. destruct (_ =? 0) eqn:E; [apply N.eqb_eq in E; lia|].
  replace (N.to_nat (N.of_nat (length q) + 1 - 1)) with (length q) by lia.
  rewrite nth_error_app2 by lia. rewrite Nat.sub_diag. reflexivity.
Qed.

Lemma bundle_of_bound q id b : bundle_of q id = Some b -> 1 <= id <= N.of_nat (length q).
Proof.
  unfold bundle_of. destruct (id =? 0) eqn:E; [discriminate|]. apply N.eqb_neq in E. intros H.
  assert (N.to_nat (id - 1) < length q)%nat by (apply nth_error_Some; congruence). lia.
Qed.

Lemma transfer_ok_app q d t : transfer_ok q t -> transfer_ok (q ++ d) t.
Proof. intros (b & H1 & H2). exists b. split; [apply bundle_of_app, H1|exact H2]. Qed.
Lemma seg_ext_ok_app q d g : seg_ext_ok q g -> seg_ext_ok (q ++ d) g.
Proof. intros (b & H1 & H2). exists b. split; [apply bundle_of_app, H1|exact H2]. Qed.

(** ** The core sender invariant *)
Definition X (v : av) : xstate := xfold (segs_of (a_sn v)).
Definition T (v : av) : list transfer := transfers_of (segs_of (a_sn v)).
Definition lim (v : av) : N :=
  match a_tt v with
  | Some (id, _) => id
  | None => match a_ps v with (id, _) :: _ => id | [] => a_nid v end
  end.
Definition tr_le (a b : transfer) : Prop :=
  tr_id a <= tr_id b /\ (tr_complete a = true -> tr_id a < tr_id b).
Definition ps_lt (a b : N * bytes) : Prop := fst a < fst b.

Definition Score (v : av) : Prop :=
  a_nid v = N.of_nat (length (a_q v)) + 1 /\
  StronglySorted ps_lt (a_ps v) /\
  Forall (fun p => bundle_of (a_q v) (fst p) = Some (snd p)) (a_ps v) /\
  Forall (transfer_ok (a_q v)) (T v) /\
  StronglySorted tr_le (T v) /\
  Forall (fun t => tr_id t <= lim v /\ (tr_complete t = true \/ a_tt v = None -> tr_id t < lim v)) (T v) /\
  (forall id data, a_tt v = Some (id, data) ->
      bundle_of (a_q v) id = Some data /\ Forall (fun p => id < fst p) (a_ps v) /\
      a_tl v <= N.of_nat (length data) /\
      (0 < a_tl v -> fst (X v) = Some (id, firstn (N.to_nat (a_tl v)) data))) /\
  grouped (segs_of (a_sn v)) /\
  Forall (seg_ext_ok (a_q v)) (segs_of (a_sn v)).

Lemma xfer_seg_start cur out fl id ext seg : has_start fl = true ->
  let st' := xfer_step (cur, out) (fl, id, ext, seg) in
  snd st' ++ open_transfer st' = (out ++ open_transfer (cur, out)) ++ [(id, seg, has_end fl)]
  /\ fst st' = if has_end fl then None else Some (id, seg).
Proof.
  intros Hs. cbn [xfer_step]. rewrite Hs. unfold open_transfer.
  destruct cur as [[c acc]|]; destruct (has_end fl); cbn [fst snd]; rewrite ?app_nil_r; split; reflexivity.
Qed.

Lemma xfer_seg_cont out fl id ext seg acc : has_start fl = false ->
  let st' := xfer_step (Some (id, acc), out) (fl, id, ext, seg) in
  snd st' ++ open_transfer st' = out ++ [(id, acc ++ seg, has_end fl)]
  /\ fst st' = if has_end fl then None else Some (id, acc ++ seg).
Proof.
  intros Hs. cbn [xfer_step]. rewrite Hs, N.eqb_refl. unfold open_transfer.
  destruct (has_end fl); cbn [fst snd]; rewrite ?app_nil_r; split; reflexivity.
Qed.

Lemma grouped_snoc l g : grouped l -> seg_continues (fst (xfold l)) g -> grouped (l ++ [g]).
Proof.
  intros H Hg pre x post E. apply snoc_cases in E.
  destruct E as [(post' & -> & ->)|(-> & -> & ->)]; [eapply H; reflexivity|exact Hg].
Qed.

Lemma lim_le v : Score v -> lim v <= a_nid v.
Proof.
  intros (Hn & S1 & S2 & _ & _ & _ & S5 & _). unfold lim.
  destruct (a_tt v) as [[id data]|] eqn:Tt.
  - destruct (S5 _ _ eq_refl) as (B & _). apply bundle_of_bound in B. lia.
  - destruct (a_ps v) as [|[i d] r]; [lia|]. inversion S2 as [|? ? B _]; subst. cbn [fst snd] in B.
    apply bundle_of_bound in B. lia.
Qed.

(** The id limit once the current transfer [id] is over. *)
Lemma next_lim v id data : Score v -> a_tt v = Some (id, data) ->
  id < match a_ps v with (i, _) :: _ => i | [] => a_nid v end.
Proof.
  intros (Hn & S1 & S2 & _ & _ & _ & S5 & _) Tt. destruct (S5 _ _ Tt) as (B & F & _).
  destruct (a_ps v) as [|[i d] r].
  - apply bundle_of_bound in B. lia.
  - inversion F; subst. assumption.
Qed.

Ltac av_simpl := cbn [a_q a_pas a_cl a_ic a_is a_it a_nid a_ps a_tt a_tl a_hd a_sn a_sc a_ids a_ev set] in *.

Lemma Score_seg v id data k :
  Score v -> a_tt v = Some (id, data) ->
  let total := N.of_nat (length data) in
  let seg := next_seg id data (a_tl v) k in
  let newlen := a_tl v + N.of_nat (length seg) in
  let m := MXferSeg (seg_flags (a_tl v) newlen total) id
                    (if a_tl v =? 0 then total_length_ext total else []) seg in
  Score (if newlen =? total
         then v <| a_sn := a_sn v ++ [FMsg m] |> <| a_tt := None |> <| a_tl := 0 |>
         else v <| a_sn := a_sn v ++ [FMsg m] |> <| a_tl := newlen |>).
Proof.
  intros HS Tt total seg newlen m.
  pose proof (next_lim v id data HS Tt) as NL.
  destruct HS as (Hn & S1 & S2 & S3 & S4 & S5 & S6 & S7 & S8).
  destruct (S6 _ _ Tt) as (B & F & L & C).
  pose proof (next_seg_len id data (a_tl v) k L) as NLen. fold seg newlen total in NLen.
  pose proof (next_seg_app id data (a_tl v) k L) as NApp. fold seg newlen in NApp.
  assert (Hlim : lim v = id) by (unfold lim; rewrite Tt; reflexivity).
  set (fl := seg_flags (a_tl v) newlen total) in *.
  set (ext := if a_tl v =? 0 then total_length_ext total else []) in *.
  pose proof (seg_flags_start (a_tl v) newlen total) as Fs. fold fl in Fs.
  pose proof (seg_flags_end (a_tl v) newlen total) as Fe. fold fl in Fe.
  (* the transfers after this segment *)
  assert (HT : exists T0 acc0,
             transfers_of (segs_of (a_sn v) ++ [(fl, id, ext, seg)]) = T0 ++ [(id, acc0 ++ seg, newlen =? total)] /\
             fst (xfold (segs_of (a_sn v) ++ [(fl, id, ext, seg)])) = (if newlen =? total then None else Some (id, acc0 ++ seg)) /\
             acc0 ++ seg = firstn (N.to_nat newlen) data /\
             Forall (transfer_ok (a_q v)) T0 /\ StronglySorted tr_le T0 /\
             Forall (fun t => tr_id t <= id /\ (tr_complete t = true -> tr_id t < id)) T0 /\
             seg_continues (fst (X v)) (fl, id, ext, seg)).
  { unfold transfers_of. rewrite xfold_snoc. unfold T, X, transfers_of in *.
    destruct (xfold (segs_of (a_sn v))) as [cur out] eqn:EX.
    destruct (a_tl v =? 0) eqn:Z.
    - (* START *)
      apply N.eqb_eq in Z.
      destruct (xfer_seg_start cur out fl id ext seg Fs) as [E1 E2]. cbv zeta in E1, E2.
      exists (out ++ open_transfer (cur, out)), []. rewrite E1, E2, Fe. cbn [app].
      split; [reflexivity|]. split; [reflexivity|].
      split; [rewrite <- NApp, Z; reflexivity|].
      split; [exact S3|]. split; [exact S4|].
      split; [|intros Hs; unfold xs_flags in Hs; cbn [fst snd] in Hs; congruence].
      eapply Forall_impl; [|exact S5]. intros t [H1 H2]. rewrite Hlim in *. split; [exact H1|].
      intros Hc. apply H2. left. exact Hc.
    - (* continuing *)
      apply N.eqb_neq in Z. assert (Z' : 0 < a_tl v) by lia. specialize (C Z'). cbn [fst] in C. subst cur.
      destruct (xfer_seg_cont out fl id ext seg (firstn (N.to_nat (a_tl v)) data) Fs) as [E1 E2]. cbv zeta in E1, E2.
      exists out, (firstn (N.to_nat (a_tl v)) data). rewrite <- Fe.
      split; [exact E1|]. split; [exact E2|]. split; [exact NApp|].
      unfold open_transfer in *. cbn [fst snd] in *.
      apply Forall_app in S3. apply SSorted_snoc in S4. apply Forall_app in S5.
      split; [apply S3|]. split; [apply S4|].
      split; [|intros _; eexists; reflexivity].
      eapply Forall_impl; [|apply S5]. intros t [H1 H2]. rewrite Hlim in *. split; [exact H1|].
      intros Hc. apply H2. left. exact Hc. }
  destruct HT as (T0 & acc0 & HT1 & HT2 & HT3 & HT4 & HT5 & HT6 & HT7).
  assert (Hok : transfer_ok (a_q v) (id, acc0 ++ seg, newlen =? total)).
  { exists data. split; [exact B|]. unfold tr_complete, tr_data. cbn [fst snd]. rewrite HT3. split.
    - intros E. apply N.eqb_eq in E. rewrite E. unfold total. rewrite Nat2N.id. apply firstn_all.
    - intros _. apply firstn_prefix. }
  assert (Hext : seg_ext_ok (a_q v) (fl, id, ext, seg)).
  { exists data. split; [exact B|]. unfold xs_ext, xs_flags. cbn [fst snd]. rewrite Fs. reflexivity. }
  assert (Hsorted : StronglySorted tr_le (T0 ++ [(id, acc0 ++ seg, newlen =? total)])).
  { apply SSorted_snoc. split; [exact HT5|]. exact HT6. }
  unfold m.
  destruct (newlen =? total) eqn:E; unfold Score, T, X, lim; av_simpl;
    rewrite segs_of_snoc_seg; rewrite HT1.
  - (* END *)
    repeat split; try assumption; try discriminate.
    + apply Forall_app. split; [exact HT4|]. constructor; [exact Hok|constructor].
    + apply Forall_app. split.
      * eapply Forall_impl; [|exact HT6]. intros t [H1 H2]. split; [lia|intros _; lia].
      * constructor; [|constructor]. unfold tr_id. cbn [fst]. split; [lia|intros _; lia].
    + apply grouped_snoc; assumption.
    + apply Forall_app. split; [exact S8|]. constructor; [exact Hext|constructor].
  - (* more to come *)
    rewrite Tt. repeat split; try assumption.
    + apply Forall_app. split; [exact HT4|]. constructor; [exact Hok|constructor].
    + apply Forall_app. split.
      * eapply Forall_impl; [|exact HT6]. intros t [H1 H2]. split; [exact H1|].
        intros [Hc|Hc]; [apply H2, Hc|discriminate Hc].
      * constructor; [|constructor]. unfold tr_id, tr_complete. cbn [fst snd]. split; [lia|].
        intros [Hc|Hc]; discriminate Hc.
    + injection H as <- <-. exact B.
    + injection H as <- <-. exact F.
    + injection H as <- <-. exact NLen.
    + injection H as <- <-. intros _. rewrite HT2, HT3. reflexivity.
    + apply grouped_snoc; assumption.
    + apply Forall_app. split; [exact S8|]. constructor; [exact Hext|constructor].
Qed.

Lemma Score_step v v' : Score v -> astep v v' -> Score v'.
Proof.
  intros HS H. pose proof (lim_le v HS) as LL.
  destruct H.
  - (* send *)
    unfold Score, T, X, lim in *. av_simpl. rewrite segs_of_snoc_none by assumption. exact HS.
  - (* close: the unstarted queue is dropped *)
    destruct HS as (Hn & S1 & S2 & S3 & S4 & S5 & S6 & S7 & S8).
    unfold Score, T, X, lim in *. av_simpl.
    repeat split; try assumption; try constructor.
    + eapply Forall_impl; [|exact S5]. intros t [H1 H2].
      destruct (a_tt v) as [[i dd]|]; [split; assumption|].
      assert (tr_id t < match a_ps v with [] => a_nid v | (id, _) :: _ => id end) by (apply H2; right; reflexivity).
      split; [lia|intros _; lia].
    + apply (S6 _ _ H).
    + apply (S6 _ _ H).
    + apply (S6 _ _ H).
  - (* handle *) exact HS.
  - (* conn *) exact HS.
  - (* sess *) exact HS.
  - (* term *) exact HS.
  - (* queue *)
    destruct HS as (Hn & S1 & S2 & S3 & S4 & S5 & S6 & S7 & S8).
    assert (Hlim : match a_ps v ++ [(a_nid v, d)] with [] => a_nid v + 1 | (id, _) :: _ => id end
                   = match a_ps v with [] => a_nid v | (id, _) :: _ => id end).
    { destruct (a_ps v) as [|[i dd] rr]; reflexivity. }
    unfold Score, T, X, lim in *. av_simpl. rewrite Hlim.
    assert (Hb : Forall (fun a : N * bytes => fst a < a_nid v) (a_ps v)).
    { rewrite Forall_forall in *. intros p Hp. apply S2 in Hp. apply bundle_of_bound in Hp. lia. }
    repeat split.
    + rewrite app_length. cbn [length]. lia.
    + apply SSorted_snoc. split; [exact S1|exact Hb].
    + apply Forall_app. split.
      * eapply Forall_impl; [|exact S2]. intros p Hp. apply bundle_of_app, Hp.
      * constructor; [|constructor]. cbn [fst snd]. rewrite Hn. apply bundle_of_new.
    + eapply Forall_impl; [|exact S3]. intros t. apply transfer_ok_app.
    + exact S4.
    + exact S5.
    + apply bundle_of_app. apply (S6 _ _ H0).
    + apply Forall_app. split; [apply (S6 _ _ H0)|]. constructor; [|constructor]. cbn [fst].
      destruct (S6 _ _ H0) as (B & _). apply bundle_of_bound in B. lia.
    + apply (S6 _ _ H0).
    + apply (S6 _ _ H0).
    + exact S7.
    + eapply Forall_impl; [|exact S8]. intros g. apply seg_ext_ok_app.
  - (* flush *)
    destruct HS as (Hn & S1 & S2 & S3 & S4 & S5 & S6 & S7 & S8).
    unfold Score, T, X, lim in *. av_simpl.
    repeat split; try assumption; try constructor.
    + eapply Forall_impl; [|exact S5]. intros t [H1 H2].
      destruct (a_tt v) as [[i dd]|]; [split; assumption|].
      assert (tr_id t < match a_ps v with [] => a_nid v | (id, _) :: _ => id end) by (apply H2; right; reflexivity).
      split; [lia|intros _; lia].
    + apply (S6 _ _ H0).
    + apply (S6 _ _ H0).
    + apply (S6 _ _ H0).
  - (* refuse_ps *)
    destruct HS as (Hn & S1 & S2 & S3 & S4 & S5 & S6 & S7 & S8).
    assert (Hl : lim v <= lim (v <| a_ps := dict_del xid (a_ps v) |>)).
    { unfold lim in *. av_simpl. destruct (a_tt v) as [[i dd]|]; [lia|].
      destruct (a_ps v) as [|[i dd] rr]; cbn [dict_del]; [lia|].
      destruct (i =? xid); [|lia]. inversion S1 as [|? ? Sr Fr]; subst. inversion S2 as [|? ? Bi Br]; subst.
      destruct rr as [|[j dj] rr']; [|inversion Fr; subst; unfold ps_lt in *; cbn [fst] in *; lia].
      cbn [fst snd] in Bi. apply bundle_of_bound in Bi. lia. }
    unfold Score. unfold T, X in *. av_simpl.
    repeat split; try assumption.
    + apply dict_del_sorted, S1.
    + rewrite Forall_forall in *. intros p Hp. apply S2. eapply dict_del_incl, Hp.
    + eapply Forall_impl; [|exact S5]. intros t [H1 H2]. unfold lim in *. av_simpl. split; [lia|].
      intros Hc. specialize (H2 Hc). lia.
    + apply (S6 _ _ H0).
    + destruct (S6 _ _ H0) as (_ & F & _). rewrite Forall_forall in *. intros p Hp. apply F. eapply dict_del_incl, Hp.
    + apply (S6 _ _ H0).
    + apply (S6 _ _ H0).
  - (* refuse_cur *)
    pose proof (next_lim v xid data HS H0) as NL.
    destruct HS as (Hn & S1 & S2 & S3 & S4 & S5 & S6 & S7 & S8).
    unfold Score, T, X, lim in *. av_simpl. rewrite H0 in *.
    repeat split; try assumption; try discriminate.
    eapply Forall_impl; [|exact S5]. intros t [H1 H2]. split; [lia|intros _; lia].
  - (* start *)
    rename H3 into Hcl.
    destruct HS as (Hn & S1 & S2 & S3 & S4 & S5 & S6 & S7 & S8).
    unfold Score, T, X, lim in *. av_simpl. rewrite H, H2 in *.
    inversion S1 as [|? ? Sr Fr]; subst. inversion S2 as [|? ? Bi Br]; subst. cbn [fst snd] in *.
    repeat split; try assumption.
    + eapply Forall_impl; [|exact S5]. intros t [H3 H4].
      assert (tr_id t < id) by (apply H4; right; reflexivity). split; [lia|intros _; assumption].
    + injection H3 as <- <-. exact Bi.
    + injection H3 as <- <-. exact Fr.
    + lia.
    + intros F. lia.
  - (* seg *)
    apply Score_seg; assumption.
  - (* succ *) exact HS.
Qed.

(** The transfers after one more segment of the current transfer. *)
Lemma seg_transfers v id data k :
  Score v -> a_tt v = Some (id, data) ->
  let total := N.of_nat (length data) in
  let seg := next_seg id data (a_tl v) k in
  let newlen := a_tl v + N.of_nat (length seg) in
  let fl := seg_flags (a_tl v) newlen total in
  forall ext,
  exists T0 acc0,
    transfers_of (segs_of (a_sn v) ++ [(fl, id, ext, seg)]) = T0 ++ [(id, acc0 ++ seg, newlen =? total)] /\
    xfold (segs_of (a_sn v) ++ [(fl, id, ext, seg)]) =
      (if newlen =? total then (None, T0 ++ [(id, acc0 ++ seg, true)]) else (Some (id, acc0 ++ seg), T0)) /\
    ((a_tl v = 0 /\ T0 = T v /\ acc0 = [] /\ has_start fl = true /\ newlen = N.of_nat (length seg)) \/
     (0 < a_tl v /\ T v = T0 ++ [(id, acc0, false)] /\ X v = (Some (id, acc0), T0) /\ has_start fl = false)).
Proof.
  intros HS Tt total seg newlen fl ext.
  destruct HS as (Hn & S1 & S2 & S3 & S4 & S5 & S6 & S7 & S8).
  destruct (S6 _ _ Tt) as (B & F & L & C).
  pose proof (seg_flags_start (a_tl v) newlen total) as Fs. fold fl in Fs.
  pose proof (seg_flags_end (a_tl v) newlen total) as Fe. fold fl in Fe.
  unfold transfers_of. rewrite xfold_snoc. unfold T, X, transfers_of in *.
  destruct (xfold (segs_of (a_sn v))) as [cur out] eqn:EX.
  destruct (a_tl v =? 0) eqn:Z.
  - apply N.eqb_eq in Z.
    exists (out ++ open_transfer (cur, out)), []. cbn [app].
    cbn [xfer_step]. rewrite Fs, Fe. unfold open_transfer. cbn [fst snd].
    split; [|split].
    + destruct cur as [[c a]|]; destruct (newlen =? total); cbn [fst snd]; rewrite ?app_nil_r; reflexivity.
    + destruct cur as [[c a]|]; destruct (newlen =? total); cbn [fst snd]; rewrite ?app_nil_r; reflexivity.
    + left. repeat split; try assumption. unfold newlen. lia.
  - apply N.eqb_neq in Z. assert (Z' : 0 < a_tl v) by lia. specialize (C Z'). cbn [fst] in C. subst cur.
    exists out, (firstn (N.to_nat (a_tl v)) data).
    cbn [xfer_step]. rewrite Fs, Fe, N.eqb_refl. unfold open_transfer. cbn [fst snd].
    split; [|split].
    + destruct (newlen =? total); cbn [fst snd]; rewrite ?app_nil_r; reflexivity.
    + destruct (newlen =? total); reflexivity.
    + right. repeat split; assumption.
Qed.

Lemma complete_of_app a b : complete_of (a ++ b) = complete_of a ++ complete_of b.
Proof. apply flat_map_app. Qed.

(** ** With segments that make progress: transfer ids strictly increase *)
Definition tr_lt (a b : transfer) : Prop := tr_id a < tr_id b.

Definition Sne (v : av) : Prop :=
  Forall seg_progress (segs_of (a_sn v)) ->
  StronglySorted tr_lt (T v) /\
  (forall id data, a_tt v = Some (id, data) -> a_tl v = 0 -> Forall (fun t => tr_id t < id) (T v)).

Lemma Sne_step v v' : Score v -> Sne v -> astep v v' -> Sne v'.
Proof.
  intros HS HN H. destruct H.
  - unfold Sne, T in *. av_simpl. rewrite segs_of_snoc_none by assumption. exact HN.
  - exact HN.
  - exact HN.
  - exact HN.
  - exact HN.
  - exact HN.
  - exact HN.
  - exact HN.
  - exact HN.
  - unfold Sne, T in *. av_simpl. intros NE. split; [apply HN, NE|]. discriminate.
  - (* start *)
    rename H3 into Hcl.
    unfold Sne, T in *. av_simpl. intros NE. split; [apply HN, NE|].
    intros i dd [= <- <-] _.
    destruct HS as (_ & _ & _ & _ & _ & S5 & _). unfold T, lim in S5. rewrite H, H2 in S5.
    eapply Forall_impl; [|exact S5]. intros t [_ H4]. apply H4. right. reflexivity.
  - (* seg *)
    destruct (seg_transfers v id data k HS H (if a_tl v =? 0 then total_length_ext (N.of_nat (length data)) else []))
      as (T0 & acc0 & E1 & E2 & Hc).
    cbv zeta in *. subst total seg newlen m. unfold Sne in *. unfold T in *.
    match goal with |- Forall _ (segs_of (a_sn (if ?c then _ else _))) -> _ => destruct c eqn:E end;
      av_simpl; rewrite segs_of_snoc_seg; intros NE; apply Forall_app in NE; destruct NE as [NE Ng];
      specialize (HN NE); destruct HN as [HN1 HN2]; rewrite E1.
    + split; [|discriminate]. apply SSorted_snoc.
      destruct Hc as [(Z & -> & -> & _)|(Z & ET & _)].
      * split; [exact HN1|]. apply (HN2 _ _ H Z).
      * rewrite ET in HN1. apply SSorted_snoc in HN1. exact HN1.
    + split.
      * apply SSorted_snoc.
        destruct Hc as [(Z & -> & -> & _)|(Z & ET & _)].
        -- split; [exact HN1|]. apply (HN2 _ _ H Z).
        -- rewrite ET in HN1. apply SSorted_snoc in HN1. exact HN1.
      * intros i dd Hi Hz. exfalso.
        destruct Hc as [(Z & -> & -> & Hst & Hnl)|(Z & _)]; [|lia].
        inversion Ng as [|? ? Hp _]; subst. unfold seg_progress, xs_flags, xs_data in Hp. cbn [fst snd] in Hp.
        rewrite seg_flags_end in Hp. specialize (Hp Hst E).
        destruct (next_seg id data (a_tl v) k); [contradiction|]. cbn [length] in *. lia.
  - exact HN.
Qed.

(** ** Without XFER_REFUSE: transfers are exactly ids 1, 2, 3, ... *)
Definition opt_id (tt : option (N * bytes)) : list N :=
  match tt with Some (i, _) => [i] | None => [] end.

Definition no_refuse (l : list frame) : Prop := Forall (fun f => is_refuse f = false) l.

Definition Snr (v : av) : Prop :=
  no_refuse (a_hd v) ->
  let Cm := complete_of (T v) in
  let n := length (map fst Cm ++ opt_id (a_tt v)) in
  map fst Cm ++ opt_id (a_tt v) = Nseq 1 n /\
  (n <= length (a_q v))%nat /\
  (a_it v = false -> a_cl v = false -> map fst (a_ps v) = Nseq (S n) (length (a_q v) - n)) /\
  (forall cid acc, fst (X v) = Some (cid, acc) -> exists data, a_tt v = Some (cid, data)).

Lemma no_refuse_in l r xid : no_refuse l -> In (FMsg (MXferRefuse r xid)) l -> False.
Proof. intros H Hin. unfold no_refuse in H. rewrite Forall_forall in H. apply H in Hin. discriminate Hin. Qed.

Lemma Nseq_cons a n : Nseq a (S n) = N.of_nat a :: Nseq (S a) n.
Proof. reflexivity. Qed.

Lemma Snr_step v v' : Score v -> Snr v -> astep v v' -> Snr v'.
Proof.
  intros HS HN H. destruct H.
  - unfold Snr, T, X in *. av_simpl. rewrite segs_of_snoc_none by assumption. exact HN.
  - (* close *)
    unfold Snr, T, X in *. av_simpl. intros NR. destruct (HN NR) as (R1 & R2 & R3 & R4).
    repeat split; try assumption. intros _ F. discriminate F.
  - (* handle *)
    unfold Snr, T, X in *. av_simpl. intros NR. apply HN. apply Forall_app in NR. apply NR.
  - exact HN.
  - exact HN.
  - (* term *)
    unfold Snr, T, X in *. av_simpl. intros NR. destruct (HN NR) as (R1 & R2 & R3 & R4).
    repeat split; try assumption. discriminate.
  - (* queue *)
    unfold Snr, T, X in *. av_simpl. intros NR. destruct (HN NR) as (R1 & R2 & R3 & R4).
    destruct HS as (Hn & _).
    set (n := length (map fst (complete_of (transfers_of (segs_of (a_sn v)))) ++ opt_id (a_tt v))) in *.
    repeat split; try assumption.
    + rewrite app_length. cbn [length]. lia.
    + intros It Cl'. rewrite map_app, (R3 It Cl'). cbn [map fst]. rewrite app_length. cbn [length].
      replace (length (a_q v) + 1 - n)%nat with (S (length (a_q v) - n)) by lia.
      rewrite Nseq_snoc. f_equal. f_equal. lia.
  - (* flush *)
    unfold Snr, T, X in *. av_simpl. intros NR. destruct (HN NR) as (R1 & R2 & R3 & R4).
    repeat split; try assumption. intros It _. congruence.
  - (* refuse_ps *)
    unfold Snr. av_simpl. intros NR. exfalso. eapply no_refuse_in; eassumption.
  - (* refuse_cur *)
    unfold Snr. av_simpl. intros NR. exfalso. eapply no_refuse_in; eassumption.
  - (* start *)
    rename H3 into Hcl.
    unfold Snr, T, X in *. av_simpl. intros NR. destruct (HN NR) as (R1 & R2 & R3 & R4).
    rewrite H in *. cbn [opt_id] in *. rewrite app_nil_r in *.
    set (Cm := map fst (complete_of (transfers_of (segs_of (a_sn v))))) in *.
    specialize (R3 H1 Hcl). rewrite H2 in R3. cbn [map fst] in R3.
    destruct (length (a_q v) - length Cm)%nat as [|m] eqn:Em; [discriminate R3|].
    rewrite Nseq_cons in R3. injection R3 as Hid Hrest.
    rewrite app_length. cbn [length]. rewrite Nat.add_1_r.
    repeat split.
    + rewrite Nseq_snoc, <- R1, Hid. repeat f_equal; lia.
    + lia.
    + intros _ _. rewrite Hrest. f_equal. lia.
    + intros cid acc Hc. destruct (R4 _ _ Hc) as [dd Hd]. discriminate Hd.
  - (* seg *)
    destruct (seg_transfers v id data k HS H (if a_tl v =? 0 then total_length_ext (N.of_nat (length data)) else []))
      as (T0 & acc0 & E1 & E2 & Hc).
    cbv zeta in *. subst total seg newlen m. unfold Snr in *. unfold T, X in *.
    assert (EC : complete_of (transfers_of (segs_of (a_sn v))) = complete_of T0).
    { destruct Hc as [(_ & -> & _)|(_ & -> & _)]; [reflexivity|]. rewrite complete_of_app. cbn. apply app_nil_r. }
    match goal with |- no_refuse (a_hd (if ?c then _ else _)) -> _ => destruct c eqn:E end;
      av_simpl; rewrite segs_of_snoc_seg; intros NR; destruct (HN NR) as (R1 & R2 & R3 & R4);
      rewrite E1, E2, complete_of_app; rewrite EC, H in *; cbn [complete_of flat_map tr_complete tr_id tr_data fst snd opt_id] in *;
      rewrite ?app_nil_r in *.
    + rewrite map_app. cbn [map fst]. repeat split; try assumption. intros cid acc Hcur. discriminate Hcur.
    + repeat split; try assumption. intros cid acc [= <- <-]. eexists. reflexivity.
  - exact HN.
Qed.

(** ** With both: never two transfers open, only the last can be incomplete *)
Definition Sst (v : av) : Prop :=
  Forall seg_progress (segs_of (a_sn v)) -> no_refuse (a_hd v) ->
  grouped_strict (segs_of (a_sn v)) /\
  (fst (X v) <> None -> 0 < a_tl v) /\
  Forall (fun t => tr_complete t = true) (snd (X v)).

Lemma grouped_strict_snoc l g : grouped_strict l ->
  seg_continues (fst (xfold l)) g -> seg_opens_fresh (fst (xfold l)) g -> grouped_strict (l ++ [g]).
Proof.
  intros H Hg Hf pre x post E. apply snoc_cases in E.
  destruct E as [(post' & -> & ->)|(-> & -> & ->)]; [eapply H; reflexivity|split; assumption].
Qed.

Lemma Sst_step v v' : Score v -> Snr v -> Sst v -> astep v v' -> Sst v'.
Proof.
  intros HS HR HN H. destruct H.
  - unfold Sst, T, X in *. av_simpl. rewrite segs_of_snoc_none by assumption. exact HN.
  - exact HN.
  - unfold Sst, T, X in *. av_simpl. intros NE NR. apply HN; [exact NE|]. apply Forall_app in NR. apply NR.
  - exact HN.
  - exact HN.
  - exact HN.
  - exact HN.
  - exact HN.
  - exact HN.
  - unfold Sst. av_simpl. intros _ NR. exfalso. eapply no_refuse_in; eassumption.
  - (* start *)
    rename H3 into Hcl.
    unfold Sst, X in *. av_simpl. intros NE NR. destruct (HN NE NR) as (H3 & H4 & H5).
    split; [exact H3|]. split; [|exact H5]. intros Hc. exfalso.
    destruct (fst (xfold (segs_of (a_sn v)))) as [[cid acc]|] eqn:Ec; [|apply Hc; reflexivity].
    destruct (HR NR) as (_ & _ & _ & R4). unfold X in R4. destruct (R4 _ _ Ec) as [dd Hd]. congruence.
  - (* seg *)
    destruct (seg_transfers v id data k HS H (if a_tl v =? 0 then total_length_ext (N.of_nat (length data)) else []))
      as (T0 & acc0 & E1 & E2 & Hc).
    cbv zeta in *. subst total seg newlen m. unfold Sst in *. unfold T, X in *.
    assert (G : forall NE' : Forall seg_progress (segs_of (a_sn v)), no_refuse (a_hd v) ->
             seg_progress (seg_flags (a_tl v) (a_tl v + N.of_nat (length (next_seg id data (a_tl v) k))) (N.of_nat (length data)),
                           id, (if a_tl v =? 0 then total_length_ext (N.of_nat (length data)) else []), next_seg id data (a_tl v) k) ->
             grouped_strict (segs_of (a_sn v) ++
               [(seg_flags (a_tl v) (a_tl v + N.of_nat (length (next_seg id data (a_tl v) k))) (N.of_nat (length data)),
                 id, (if a_tl v =? 0 then total_length_ext (N.of_nat (length data)) else []), next_seg id data (a_tl v) k)]) /\
             Forall (fun t => tr_complete t = true) T0 /\
             ((a_tl v + N.of_nat (length (next_seg id data (a_tl v) k)) =? N.of_nat (length data)) = false ->
              0 < a_tl v + N.of_nat (length (next_seg id data (a_tl v) k)))).
    { intros NE NR Hp. destruct (HN NE NR) as (H3 & H4 & H5).
      destruct Hc as [(Z & -> & -> & Hst & Hnl)|(Z & ET & EX & Hst)].
      - assert (Hcur : fst (xfold (segs_of (a_sn v))) = None).
        { destruct (fst (xfold (segs_of (a_sn v)))) eqn:Ec; [|reflexivity].
          assert (0 < a_tl v) by (apply H4; discriminate). lia. }
        split; [|split].
        + apply grouped_strict_snoc; [exact H3| |].
          * intros Hs. unfold xs_flags in Hs. cbn [fst snd] in Hs. congruence.
          * intros _. exact Hcur.
        + unfold transfers_of, open_transfer. rewrite Hcur, app_nil_r. exact H5.
        + intros E. unfold seg_progress, xs_flags, xs_data in Hp. cbn [fst snd] in Hp.
          rewrite seg_flags_end in Hp. specialize (Hp Hst E).
          destruct (next_seg id data (a_tl v) k); [contradiction|]. cbn [length]. lia.
      - split; [|split].
        + apply grouped_strict_snoc; [exact H3| |].
          * intros _. rewrite EX. eexists. reflexivity.
          * intros Hs. unfold xs_flags in Hs. cbn [fst snd] in Hs. congruence.
        + rewrite EX in H5. exact H5.
        + intros _. lia. }
    match goal with |- Forall _ (segs_of (a_sn (if ?c then _ else _))) -> _ => destruct c eqn:E end;
      av_simpl; rewrite segs_of_snoc_seg; intros NE NR; apply Forall_app in NE; destruct NE as [NE Ng];
      inversion Ng as [|? ? Hp _]; subst; destruct (G NE NR Hp) as (G1 & G2 & G3); rewrite E2; cbn [fst snd].
    + split; [exact G1|]. split; [intros F; exfalso; apply F; reflexivity|].
      apply Forall_app. split; [exact G2|]. constructor; [reflexivity|constructor].
    + split; [exact G1|]. split; [intros _; apply G3; reflexivity|exact G2].
  - exact HN.
Qed.

(** ** All sender invariants hold on every run *)
Definition Sall (v : av) : Prop := Score v /\ Sne v /\ Snr v /\ Sst v.

Lemma Sall_step v v' : Sall v -> astep v v' -> Sall v'.
Proof.
  intros (H1 & H2 & H3 & H4) H. split; [|split; [|split]].
  - eapply Score_step; eassumption.
  - eapply Sne_step; eassumption.
  - eapply Snr_step; eassumption.
  - eapply Sst_step; eassumption.
Qed.

Lemma Sall_init c : Sall (sv [] (init c)).
Proof.
  split; [|split; [|split]].
  - unfold Score, T, X, lim. cbn. repeat split; try constructor; try discriminate.
    intros pre g post E. destruct pre; discriminate E.
  - intros _. unfold T. cbn. split; [constructor|]. discriminate.
  - intros _. unfold T, X. cbn. repeat split; try discriminate. lia.
  - intros _ _. unfold X. cbn. split; [|split; [|constructor]].
    + intros pre g post E. destruct pre; discriminate E.
    + intros F. exfalso. apply F. reflexivity.
Qed.

Theorem Sall_run c ops : Sall (sv (queued c ops) (run c ops)).
Proof.
  eapply (asteps_invariant Sall); [intros v v'; apply Sall_step|apply as_run|apply Sall_init].
Qed.

(** ** Sender theorems over runs *)
Lemma Nseq_length a n : length (Nseq a n) = n.
Proof. unfold Nseq. rewrite map_length, seq_length. reflexivity. Qed.

Lemma Nseq_app_prefix l r n : l ++ r = Nseq 1 n -> l = Nseq 1 (length l).
Proof.
  revert r n. induction l as [|x l IH] using rev_ind; intros r n E; [reflexivity|].
  rewrite <- app_assoc in E. pose proof (IH _ _ E) as Hl.
  rewrite app_length. cbn [length]. rewrite Nat.add_1_r, Nseq_snoc, <- Hl. f_equal.
  assert (En : nth_error (l ++ [x] ++ r) (length l) = Some x).
  { rewrite nth_error_app2 by lia. rewrite Nat.sub_diag. reflexivity. }
  rewrite E in En. unfold Nseq in En.
  assert (Hlt : (length l < n)%nat).
  { assert (nth_error (map N.of_nat (seq 1 n)) (length l) <> None) by congruence.
    apply nth_error_Some in H. rewrite map_length, seq_length in H. exact H. }
  rewrite nth_error_map, nth_error_nth' with (d := O) in En by (rewrite seq_length; exact Hlt).
  rewrite seq_nth in En by exact Hlt. cbn [option_map] in En. injection En as <-. reflexivity.
Qed.

Lemma firstn_S_nth {A} (q : list A) k d : nth_error q k = Some d -> firstn (S k) q = firstn k q ++ [d].
Proof.
  revert q. induction k as [|k IH]; intros q H; destruct q as [|a q]; try discriminate H.
  - cbn in H. injection H as ->. reflexivity.
  - cbn [nth_error] in H. cbn [firstn app]. f_equal. apply IH, H.
Qed.

Lemma complete_exact q (Cm : list (N * bytes)) :
  map fst Cm = Nseq 1 (length Cm) ->
  (forall id d, In (id, d) Cm -> bundle_of q id = Some d) ->
  map snd Cm = firstn (length Cm) q.
Proof.
  induction Cm as [|[id d] Cm IH] using rev_ind; intros Hf Hb; [reflexivity|].
  rewrite app_length in *. cbn [length] in *. rewrite Nat.add_1_r in *.
  rewrite map_app in *. cbn [map fst snd] in *. rewrite Nseq_snoc in Hf.
  apply app_inj_tail in Hf. destruct Hf as [Hf Hid].
  assert (Hd : bundle_of q id = Some d) by (apply Hb, in_or_app; right; left; reflexivity).
  unfold bundle_of in Hd. destruct (id =? 0) eqn:Z; [discriminate|].
  replace (N.to_nat (id - 1)) with (length Cm) in Hd by lia.
  rewrite (firstn_S_nth _ _ _ Hd). f_equal. apply IH; [exact Hf|].
  intros i dd Hin. apply Hb, in_or_app. left. exact Hin.
Qed.

Lemma complete_of_in ts id d : In (id, d) (complete_of ts) -> In (id, d, true) ts.
Proof.
  unfold complete_of. rewrite in_flat_map. intros [[[i dd] c] [H1 H2]].
  unfold tr_complete, tr_id, tr_data in H2. cbn [fst snd] in H2.
  destruct c; [|contradiction]. destruct H2 as [[= <- <-]|[]]. exact H1.
Qed.

Section Sender.
  Variable c : cfg.
  Variable ops : list op.
  Let s := run c ops.
  Let q := queued c ops.
  Let sg := segs_of (sent s).

  (** Unconditional structure of what was sent. *)
  Theorem sender_structure :
    grouped sg /\
    Forall (seg_ext_ok q) sg /\
    Forall (transfer_ok q) (transfers_of sg) /\
    StronglySorted tr_le (transfers_of sg).
  Proof.
    destruct (Sall_run c ops) as ((_ & _ & _ & S3 & S4 & _ & _ & S7 & S8) & _).
    repeat split; assumption.
  Qed.

  (** Transfer ids are never reused (given segments that make progress). *)
  Theorem sender_ids_increase :
    Forall seg_progress sg -> StronglySorted tr_lt (transfers_of sg).
  Proof.
    destruct (Sall_run c ops) as (_ & S & _). intros NE. apply (S NE).
  Qed.

  (** Without XFER_REFUSE the complete transfers are exactly the first bundles queued. *)
  Theorem sender_exact :
    no_refuse (handled s) ->
    let Cm := complete_of (transfers_of sg) in
    map fst Cm = Nseq 1 (length Cm) /\ map snd Cm = firstn (length Cm) q.
  Proof.
    destruct (Sall_run c ops) as ((_ & _ & _ & S3 & _) & _ & S & _). intros NR Cm.
    destruct (S NR) as (R1 & _). fold s in R1. unfold T in R1. cbn [a_sn sv] in R1. fold sg Cm in R1.
    apply Nseq_app_prefix in R1. rewrite map_length in R1.
    split; [exact R1|]. apply complete_exact; [exact R1|].
    intros id d Hin. apply complete_of_in in Hin.
    unfold T in S3. cbn [a_sn a_q sv] in S3. fold s sg q in S3. rewrite Forall_forall in S3.
    destruct (S3 _ Hin) as (b & Hb & Hc & _). unfold tr_id, tr_data, tr_complete in *. cbn [fst snd] in *.
    rewrite (Hc eq_refl). exact Hb.
  Qed.

  (** With both: never two transfers open, and only the last transfer can be incomplete. *)
  Theorem sender_strict :
    Forall seg_progress sg -> no_refuse (handled s) ->
    grouped_strict sg /\
    (forall ts t, transfers_of sg = ts ++ [t] -> Forall (fun t => tr_complete t = true) ts).
  Proof.
    destruct (Sall_run c ops) as (_ & _ & _ & S). intros NE NR. destruct (S NE NR) as (G & _ & F).
    split; [exact G|]. intros ts t E. unfold X in F. cbn [a_sn sv] in F. fold s sg in F.
    unfold transfers_of, open_transfer in E. destruct (fst (xfold sg)) as [[ci acc]|].
    - apply app_inj_tail in E. destruct E as [<- _]. exact F.
    - rewrite app_nil_r in E. rewrite E in F. apply Forall_app in F. apply F.
  Qed.

  (** The k-th accepted [send_bundle_data] returned id k. *)
  Theorem send_ids_spec : send_ids (trace s) = Nseq 1 (length q).
  Proof. destruct (Binv_run c ops) as (_ & _ & _ & _ & _ & _ & _ & H). exact H. Qed.

  (** This implementation never sends XFER_REFUSE. *)
  Theorem no_refuse_sent : no_refuse (sent s).
  Proof. destruct (Binv_run c ops) as (_ & _ & _ & _ & H & _). exact H. Qed.

  (** Every segment sent is preceded by the SESS_INIT. *)
  Theorem sent_init_first : init_first (sent s).
  Proof. destruct (Binv_run c ops) as (_ & _ & _ & H & _). exact H. Qed.

  (** Success is only reported on handling an END-flagged XFER_ACK for that id. *)
  Theorem success_acked id len :
    In (ESig SigSendFinished [PStrNum id; PInt len; PStr RES_SUCCESS]) (trace s) ->
    exists fl, has_end fl = true /\ In (FMsg (MXferAck fl id len)) (handled s).
  Proof.
    destruct (Binv_run c ops) as (_ & _ & _ & _ & _ & H & _). intros Hin. apply H.
    cbn [a_sc sv]. unfold succ_events. apply in_flat_map.
    exists (ESig SigSendFinished [PStrNum id; PInt len; PStr RES_SUCCESS]). split; [exact Hin|left; reflexivity].
  Qed.
End Sender.

(** ** The zero segment size run: ids are reused without the progress premise *)
Definition zs_cfg : cfg := mkCfg false [65] 30 0 100 3 None.
Definition zs_hello : bytes :=
  encode_frame (FContact (mkContact MAGIC 4 0)) ++ encode_msg (MSessInit 30 0 (2^64-1) [66] []).
Definition zs_ops : list op := [OStart; ORx zs_hello; OSend [1;2;3]; OPQ; OSend [4]; OPQ].

Theorem sender_ids_increase_refuted :
  exists c ops, ~ StronglySorted tr_lt (transfers_of (segs_of (sent (run c ops)))).
Proof.
  exists zs_cfg, zs_ops.
  assert (E : transfers_of (segs_of (sent (run zs_cfg zs_ops))) = [(1, [], false); (1, [], false)])
    by (vm_compute; reflexivity).
  rewrite E. intros H. inversion H as [|? ? _ F]; subst. inversion F as [|? ? Hlt _]; subst.
  unfold tr_lt, tr_id in Hlt. cbn [fst] in Hlt. lia.
Qed.

(** ** Every accepted transfer is accounted for: started, still queued,
       reported as dropped ('terminating'), or refused by the peer; and a
       closed endpoint has nothing queued *)
Definition fin_term (id : N) : event := ESig SigSendFinished [PStrNum id; PInt 0; PStr RES_TERMINATING].

Definition Cinv (v : av) : Prop :=
  (a_cl v = true -> a_ps v = []) /\
  forall id, 1 <= id <= N.of_nat (length (a_q v)) ->
    (exists len, In (started_ev id len) (a_ev v)) \/ In id (map fst (a_ps v)) \/
    In (fin_term id) (a_ev v) \/ (exists r, In (FMsg (MXferRefuse r id)) (a_hd v)).

Lemma dict_del_keys_other {V} k (d : list (N * V)) x :
  In x (map fst d) -> x <> k -> In x (map fst (dict_del k d)).
Proof.
  induction d as [|[a b] d IH]; cbn [dict_del map fst In]; [tauto|]. intros [H|H] Hx.
  - subst a. destruct (x =? k) eqn:E; [apply N.eqb_eq in E; contradiction|]. left. reflexivity.
  - destruct (a =? k); [exact H|]. right. apply IH; assumption.
Qed.

Lemma flush_reports (ps : list (N * bytes)) id : In id (map fst ps) -> In (fin_term id) (map term_ev ps).
Proof.
  intros H. apply in_map_iff in H. destruct H as [p [<- Hp]]. apply in_map_iff. exists p. split; [reflexivity|exact Hp].
Qed.

Lemma Cinv_step v v' : Score v -> Cinv v -> astep v v' -> Cinv v'.
Proof.
  intros HS [C1 C2] H. destruct H; unfold Cinv; av_simpl.
  - split; assumption.
  - (* close *)
    split; [reflexivity|]. intros id Hid. destruct (C2 id Hid) as [[len Hs]|[Hp|[Ht|Hr]]].
    + left. exists len. apply in_or_app. left. exact Hs.
    + right. right. left. apply in_or_app. right. apply flush_reports, Hp.
    + right. right. left. apply in_or_app. left. exact Ht.
    + right. right. right. exact Hr.
  - (* handle *)
    split; [exact C1|]. intros id Hid. destruct (C2 id Hid) as [Hs|[Hp|[Ht|[r Hr]]]]; auto.
    right. right. right. exists r. apply in_or_app. left. exact Hr.
  - split; assumption.
  - split; assumption.
  - split; assumption.
  - (* queue *)
    destruct HS as (Hn & _).
    split; [intros F; congruence|]. intros id Hid. rewrite app_length in Hid. cbn [length] in Hid.
    rewrite map_app. cbn [map fst].
    destruct (N.eq_dec id (a_nid v)) as [->|Hne].
    + right. left. apply in_or_app. right. left. reflexivity.
    + assert (Hid' : 1 <= id <= N.of_nat (length (a_q v))) by lia.
      destruct (C2 id Hid') as [Hs|[Hp|[Ht|Hr]]]; auto.
      right. left. apply in_or_app. left. exact Hp.
  - (* flush *)
    split; [reflexivity|]. intros id Hid. destruct (C2 id Hid) as [[len Hs]|[Hp|[Ht|Hr]]].
    + left. exists len. apply in_or_app. left. exact Hs.
    + right. right. left. apply in_or_app. right. apply flush_reports, Hp.
    + right. right. left. apply in_or_app. left. exact Ht.
    + right. right. right. exact Hr.
  - (* refuse_ps *)
    split; [intros F; rewrite (C1 F); reflexivity|]. intros id Hid.
    destruct (C2 id Hid) as [Hs|[Hp|[Ht|Hr]]]; auto.
    destruct (N.eq_dec id xid) as [->|Hne].
    + right. right. right. exists r. assumption.
    + right. left. apply dict_del_keys_other; assumption.
  - (* refuse_cur *) split; assumption.
  - (* start *)
    split; [intros F; congruence|]. intros i Hid.
    destruct (C2 i Hid) as [[len Hs]|[Hp|[Ht|Hr]]].
    + left. exists len. apply in_or_app. left. exact Hs.
    + rewrite H2 in Hp. cbn [map fst In] in Hp. destruct Hp as [<-|Hp].
      * left. eexists. apply in_or_app. right. left. reflexivity.
      * right. left. exact Hp.
    + right. right. left. apply in_or_app. left. exact Ht.
    + right. right. right. exact Hr.
  - (* seg *)
    match goal with |- context [if ?c then _ else _] => destruct c end; av_simpl; split; assumption.
  - split; assumption.
Qed.

Lemma Cinv_init c : Cinv (sv [] (init c)).
Proof. split; [reflexivity|]. cbn. intros id Hid. lia. Qed.

Theorem Cinv_run c ops : Cinv (sv (queued c ops) (run c ops)).
Proof.
  assert (H : Sall (sv (queued c ops) (run c ops)) /\ Cinv (sv (queued c ops) (run c ops))).
  { eapply (asteps_invariant (fun v => Sall v /\ Cinv v)); [|apply as_run|split; [apply Sall_init|apply Cinv_init]].
    intros v v' [HA HC] Hst. split; [eapply Sall_step; eassumption|].
    eapply Cinv_step; [apply HA|exact HC|exact Hst]. }
  apply H.
Qed.

(** After a close, every accepted transfer that was never started has been
    reported: finished with the 'terminating' result, or refused by the peer. *)
Theorem unstarted_reported_on_close c ops :
  closed (run c ops) = true ->
  forall id, 1 <= id <= N.of_nat (length (queued c ops)) ->
    (exists len, In (ESig SigSendStarted [PStrNum id; PInt len]) (trace (run c ops))) \/
    In (ESig SigSendFinished [PStrNum id; PInt 0; PStr RES_TERMINATING]) (trace (run c ops)) \/
    (exists r, In (FMsg (MXferRefuse r id)) (handled (run c ops))).
Proof.
  intros Cl id Hid. destruct (Cinv_run c ops) as [C1 C2]. cbn [a_cl a_ps sv] in C1.
  destruct (C2 id Hid) as [[len Hs]|[Hp|[Ht|Hr]]].
  - left. exists len. cbn [a_ev sv] in Hs. apply filter_In in Hs. apply Hs.
  - cbn [a_ps sv] in Hp. rewrite (C1 Cl) in Hp. contradiction.
  - right. left. cbn [a_ev sv] in Ht. apply filter_In in Ht. apply Ht.
  - right. right. exact Hr.
Qed.

(** A closed endpoint has no transfer waiting to start. *)
Theorem closed_nothing_pending c ops : closed (run c ops) = true -> pend_start (run c ops) = [].
Proof. intros Cl. destruct (Cinv_run c ops) as [C1 _]. apply C1, Cl. Qed.
