#!/bin/sh
# Build the Coq development from files on disk only (offline).
#   setup.sh                 full build (every .v under coq/ except build output)
#   setup.sh --project-only  only regenerate _CoqProject and the makefile
set -e
cd "$(dirname "$0")"
VERIF=$(pwd)
mkdir -p build evidence coq/Gen
# regenerate the translated files from /repo's current tree before building
if [ -f translate/py2coq.py ]; then
  /venv/bin/python translate/py2coq.py --all || echo "translator reported a failure (checks fall back to correspondence)"
fi
cd coq
{
  echo "-Q . DTN"
  echo "-arg -w -arg -notation-overridden,-deprecated-hint-without-locality,-deprecated-instance-without-locality"
  find Lib Gen Model Proofs Props -name '*.v' | LC_ALL=C sort
} > _CoqProject
coq_makefile -f _CoqProject -o Makefile.conf.mk > /dev/null
if [ "$1" = "--project-only" ]; then exit 0; fi
# gate: nothing declares an axiom or leaves a proof open
if grep -rnE '\b(Admitted|admit|Axiom|Parameter|Conjecture|bypass_check)\b|Unset Guard|Admit Obligations' --include='*.v' Lib Gen Model Proofs Props | grep -v '(\*.*\*)' ; then
  echo "setup: forbidden declaration found" ; exit 1
fi
# Full .vo build (no -vos).  A file that fails or is slow must not hide the others: -k keeps going, and
# every check re-builds and re-checks its own Props file (a broken proof shows up there as a broken obligation).
if timeout 2400 make -f Makefile.conf.mk -j16 -k > "$VERIF/build/make.log" 2>&1; then
  echo "setup: Coq development built"
else
  grep -E "^File|Error|\*\*\*" "$VERIF/build/make.log" | head -20
  echo "setup: WARNING some Coq files did not build (see build/make.log); the checks that depend on them will report it"
fi
exit 0
