(* C01 -- TCPCL delivers every queued bundle exactly once, intact and in order.

   "Every bundle queued for sending on either side of an established session,
    whatever its length (including zero, one octet, many segments) and whatever
    segment sizes were negotiated, appears in the peer's receive queue exactly
    once, byte-for-byte identical, in the order it was queued.  The sender
    reports success only after the receiver holds the complete bundle, and no
    bundle is ever delivered truncated, duplicated, merged with another
    transfer or reordered."

   Model: Model/TcpclSess.v (one endpoint of /repo/src/tcpcl/session.py as a
   step function over event-loop operations; tied to the code by the
   differential runs of the harness).  Specification-side definitions:
   Model/TcpclXferSpec.v (nothing there reads the endpoint's transfer
   bookkeeping; everything is computed from sent / handled / trace / ops):
     segs_of l            the XFER_SEGMENTs of a frame list (flags,id,ext,data)
     transfers_of sg      grouping of a segment sequence into transfers
                          (id, data, complete)
     complete_of ts       the complete transfers as (id, data)
     queued c ops         the bundles ACCEPTED by send_bundle_data: given while
                          the endpoint was open and not terminating (once
                          _in_term is set the call raises RuntimeError and
                          queues nothing: C01_ex_send_while_terminating)
     bundle_of q id       the id-th queued bundle (ids count from 1)
     deliver_spec h       the receiver specified as a fold over the frames it
                          acted on: after the first SESS_INIT a START segment
                          opens/replaces the current transfer, a continuing
                          segment of the same id appends, END delivers
     rxmap_spec tr dl     the receive store as a function of the histories
   Every theorem below is for ALL configurations, ALL operation lists (all
   schedules, chunkings of the received octets, back-pressure patterns, user
   call positions) and ARBITRARY received octets.

   Decomposition.
     (R) receiver:  C01_recv_*, C01_rx_map_exact, C01_pop_*, C01_delivery_stored,
                    C01_no_mixed_delivery (the C17 clause).
     (S) sender:    C01_sender_structure, C01_sender_ids_increase_partial /
                    _refuted (the C04 clause), C01_sender_exact,
                    C01_sender_strict_partial, C01_send_ids,
                    C01_no_refuse_sent, C01_sent_init_first, C01_success_acked,
                    C01_unstarted_reported_on_close, C01_closed_nothing_pending.
     (C) composition: C01_safety / C01_success_after_complete over the channel
         hypothesis "what an endpoint has acted on is a prefix of what its peer
         emitted" (prefix (handled sB) (sent sA), and the reverse direction),
         and C01_safety_end_to_end / C01_success_end_to_end where that
         hypothesis is discharged by the C07 channel lemma from the hypothesis
         on the octets: wire sA = received-by-B ++ rest (reliable FIFO stream),
         plus its two side conditions (frames sent are well-formed; the contact
         header is sent first and once).
     Not proved here: liveness (that every queued bundle IS eventually
     delivered under a fair schedule) -- the statements are safety statements
     for every schedule; and the two side conditions of the channel lemma are
     hypotheses of the end-to-end forms (they are checked on the concrete run
     in C01_ex_end_to_end_hyps).

   Model finding (not a weakening): with a segment size of ZERO (peer
   segment MRU 0, or segment_size_tx_initial 0, or a SESS_INIT whose node id is
   not ASCII escaping merge_session_params after _in_sess was set) and a
   non-empty bundle, _process_queue emits a START segment with no data and
   without END on every pass, for ever (file.read(0) == b'').  Hence the
   clauses "transfer ids strictly increase" and "never two transfers open" are
   stated under the explicit hypothesis [Forall seg_progress sg] (no
   data-less START segment without END was sent); C01_zero_segment_size
   exhibits the run.  Everything else, in particular the safety
   composition, needs no such hypothesis. *)
From Coq Require Import List NArith Bool Sorted.
Import ListNotations.
From DTN Require Import Lib.Bytes Model.TcpclMsg Model.TcpclSess Model.TcpclXferSpec
  Proofs.TcpclMsgProofs Proofs.TcpclChannelProofs
  Proofs.TcpclXferRecv Proofs.TcpclXferAbs Proofs.TcpclXferSend Proofs.TcpclXferProofs Proofs.TcpclXferE2E.
Local Open Scope N_scope.

(* ===================== (R) the receiver ===================== *)

(* the "receive finished" signals are exactly the specified deliveries, in order *)
Theorem C01_recv_finished_spec :
  forall (c : cfg) (ops : list op),
    recv_finished_events (trace (run c ops))
    = map (fun p => (fst p, N.of_nat (length (snd p)))) (deliver_spec (handled (run c ops))).
Proof. exact recv_finished_spec. Qed.
Print Assumptions C01_recv_finished_spec.

(* session flag and transfer under reception are the specified ones *)
Theorem C01_rx_state_spec :
  forall (c : cfg) (ops : list op),
    in_sess (run c ops) = fst (fst (rx_spec (handled (run c ops)))) /\
    rx_tmp (run c ops) = snd (fst (rx_spec (handled (run c ops)))).
Proof. exact rx_state_spec. Qed.
Print Assumptions C01_rx_state_spec.

(* the receive store holds exactly: deliveries so far, minus successful pops *)
Theorem C01_rx_map_exact :
  forall (c : cfg) (ops : list op),
    rx_map (run c ops) = rxmap_spec (trace (run c ops)) (deliver_spec (handled (run c ops))).
Proof. exact rx_map_exact. Qed.
Print Assumptions C01_rx_map_exact.

Theorem C01_rx_map_delivered :
  forall (c : cfg) (ops : list op) (id : N) (d : bytes),
    dict_get id (rx_map (run c ops)) = Some d -> In (id, d) (deliver_spec (handled (run c ops))).
Proof. exact rx_map_delivered. Qed.
Print Assumptions C01_rx_map_delivered.

(* every pop returned a delivered (id, data) *)
Theorem C01_pop_delivered :
  forall (c : cfg) (ops : list op) (id : N) (d : bytes),
    In (EPop id d) (trace (run c ops)) -> In (id, d) (deliver_spec (handled (run c ops))).
Proof. exact pop_delivered. Qed.
Print Assumptions C01_pop_delivered.

(* a pop removes the bundle: popping the same id again at once raises KeyError *)
Theorem C01_pop_removes :
  forall (c : cfg) (ops : list op) (id : N),
    closed (run c ops) = false -> dict_get id (rx_map (step (run c ops) (OPop id))) = None.
Proof. exact pop_removes. Qed.
Print Assumptions C01_pop_removes.

Theorem C01_pop_twice :
  forall (c : cfg) (ops : list op) (id : N),
    closed (run c ops) = false ->
    trace (step (step (run c ops) (OPop id)) (OPop id))
    = trace (step (run c ops) (OPop id)) ++ [EExc EX_KEY].
Proof. exact pop_twice. Qed.
Print Assumptions C01_pop_twice.

(* at the moment a transfer is delivered the store maps its id to exactly its data *)
Theorem C01_delivery_stored :
  forall (fl xid : N) (ext data : bytes) (s : ep) (acc : bytes),
    in_sess s = true -> rx_accept (rx_tmp s) fl xid = Some acc -> has_end fl = true ->
    dict_get xid (rx_map (fst (recv_frame (FMsg (MXferSeg fl xid ext data)) s))) = Some (acc ++ data).
Proof. exact delivery_stored. Qed.
Print Assumptions C01_delivery_stored.

(* the END-flagged XFER_ACKs an endpoint has sent are exactly its deliveries,
   in order: one final acknowledgement per delivered transfer, with its length *)
Theorem C01_end_acks_spec :
  forall (c : cfg) (ops : list op),
    end_acks (sent (run c ops))
    = map (fun p => (fst p, N.of_nat (length (snd p)))) (deliver_spec (handled (run c ops))).
Proof. exact end_acks_spec. Qed.
Print Assumptions C01_end_acks_spec.

(* C17 clause: whatever frames were acted on, each delivered (xid, d) is the
   concatenation of the data of the segments of ONE transfer id: a START
   segment of xid, then (among frames none of which is a START) the segments
   of xid, up to the first END segment of xid. *)
Theorem C01_no_mixed_delivery :
  forall (h : list frame) (xid : N) (d : bytes),
    In (xid, d) (deliver_spec h) ->
    exists pre fl0 e0 d0 mid post,
      h = pre ++ FMsg (MXferSeg fl0 xid e0 d0) :: mid ++ post /\
      has_start fl0 = true /\
      Forall (fun f => is_start f = false) mid /\
      d = d0 ++ concat (map (contrib xid) mid) /\
      ((has_end fl0 = true /\ mid = []) \/
       (has_end fl0 = false /\
        exists mid' fle ee de, mid = mid' ++ [FMsg (MXferSeg fle xid ee de)] /\ has_end fle = true /\
                               Forall (fun f => is_end_of xid f = false) mid')).
Proof. exact no_mixed_delivery. Qed.
Print Assumptions C01_no_mixed_delivery.

(* ===================== (S) the sender ===================== *)

(* Unconditional structure of the segments sent:
   - every non-START segment continues the open transfer;
   - a START segment announces the total length of its bundle, the others
     carry no extension;
   - every transfer (id, data, complete) carries the bundle queued under id:
     all of it if complete, a prefix of it otherwise;
   - transfer ids never decrease, and increase strictly after a complete one. *)
Theorem C01_sender_structure :
  forall (c : cfg) (ops : list op),
    let sg := segs_of (sent (run c ops)) in
    let q := queued c ops in
    (forall pre g post, sg = pre ++ g :: post ->
       has_start (xs_flags g) = false -> exists acc, fst (xfold pre) = Some (xs_id g, acc)) /\
    Forall (fun g => exists b, bundle_of q (xs_id g) = Some b /\
                     xs_ext g = if has_start (xs_flags g)
                                then total_length_ext (N.of_nat (length b)) else []) sg /\
    Forall (fun t => exists b, bundle_of q (tr_id t) = Some b /\
                     (tr_complete t = true -> tr_data t = b) /\
                     (tr_complete t = false -> exists r, b = tr_data t ++ r)) (transfers_of sg) /\
    StronglySorted (fun a b => tr_id a <= tr_id b /\ (tr_complete a = true -> tr_id a < tr_id b))
                   (transfers_of sg).
Proof. exact sender_structure. Qed.
Print Assumptions C01_sender_structure.

(* C04 clause: transfer ids are never reused.
   Full-strength statement:
       forall c ops, StronglySorted (fun a b => tr_id a < tr_id b)
                                    (transfers_of (segs_of (sent (run c ops))))
   It is FALSE of the faithful model (zero segment size: the same START
   segment is emitted again and again): C01_sender_ids_increase_refuted.
   Proved: the statement for every run whose START segments make progress
   (_partial); unconditionally, ids never decrease and strictly increase after
   every complete transfer (last clause of C01_sender_structure). *)
Theorem C01_sender_ids_increase_refuted :
  exists (c : cfg) (ops : list op),
    ~ StronglySorted (fun a b => tr_id a < tr_id b) (transfers_of (segs_of (sent (run c ops)))).
Proof. exact sender_ids_increase_refuted. Qed.
Print Assumptions C01_sender_ids_increase_refuted.

Theorem C01_sender_ids_increase_partial :
  forall (c : cfg) (ops : list op),
    let sg := segs_of (sent (run c ops)) in
    Forall (fun g => has_start (xs_flags g) = true -> has_end (xs_flags g) = false -> xs_data g <> []) sg ->
    StronglySorted (fun a b => tr_id a < tr_id b) (transfers_of sg).
Proof. exact sender_ids_increase. Qed.
Print Assumptions C01_sender_ids_increase_partial.

(* if no XFER_REFUSE was handled: the complete transfers are exactly ids
   1..k carrying the first k queued bundles, byte for byte, in order *)
Theorem C01_sender_exact :
  forall (c : cfg) (ops : list op),
    Forall (fun f => is_refuse f = false) (handled (run c ops)) ->
    let Cm := complete_of (transfers_of (segs_of (sent (run c ops)))) in
    map fst Cm = map N.of_nat (seq 1 (length Cm)) /\
    map snd Cm = firstn (length Cm) (queued c ops).
Proof. exact sender_exact. Qed.
Print Assumptions C01_sender_exact.

(* with both premises (progress, no XFER_REFUSE handled): a START segment only
   when no transfer is open, and only the last transfer can be incomplete.
   (Without the first premise this fails on the same zero-segment-size run;
   without the second a refused transfer is legitimately abandoned open.) *)
Theorem C01_sender_strict_partial :
  forall (c : cfg) (ops : list op),
    let sg := segs_of (sent (run c ops)) in
    Forall (fun g => has_start (xs_flags g) = true -> has_end (xs_flags g) = false -> xs_data g <> []) sg ->
    Forall (fun f => is_refuse f = false) (handled (run c ops)) ->
    (forall pre g post, sg = pre ++ g :: post ->
       (has_start (xs_flags g) = false -> exists acc, fst (xfold pre) = Some (xs_id g, acc)) /\
       (has_start (xs_flags g) = true -> fst (xfold pre) = None)) /\
    (forall ts t, transfers_of sg = ts ++ [t] -> Forall (fun t => tr_complete t = true) ts).
Proof. exact sender_strict. Qed.
Print Assumptions C01_sender_strict_partial.

(* the k-th accepted send_bundle_data call returned transfer id k *)
Theorem C01_send_ids :
  forall (c : cfg) (ops : list op),
    send_ids (trace (run c ops)) = map N.of_nat (seq 1 (length (queued c ops))).
Proof. exact send_ids_spec. Qed.
Print Assumptions C01_send_ids.

(* this implementation never sends XFER_REFUSE *)
Theorem C01_no_refuse_sent :
  forall (c : cfg) (ops : list op), Forall (fun f => is_refuse f = false) (sent (run c ops)).
Proof. exact no_refuse_sent. Qed.
Print Assumptions C01_no_refuse_sent.

(* every segment sent is preceded by the endpoint's SESS_INIT *)
Theorem C01_sent_init_first :
  forall (c : cfg) (ops : list op) (pre : list frame) (g : frame) (post : list frame),
    sent (run c ops) = pre ++ g :: post -> seg_of_frame g <> [] -> existsb is_sess_init pre = true.
Proof. exact sent_init_first. Qed.
Print Assumptions C01_sent_init_first.

(* success is reported only on handling an END-flagged XFER_ACK for that id *)
Theorem C01_success_acked :
  forall (c : cfg) (ops : list op) (id len : N),
    In (ESig SigSendFinished [PStrNum id; PInt len; PStr RES_SUCCESS]) (trace (run c ops)) ->
    exists fl, has_end fl = true /\ In (FMsg (MXferAck fl id len)) (handled (run c ops)).
Proof. exact success_acked. Qed.
Print Assumptions C01_success_acked.

(* A closed connection leaves no accepted transfer unreported.  The ids handed
   out by send_bundle_data are 1..|queued| (C01_send_ids).  After a close, each
   of them either was started (a "send started" signal was emitted: its outcome
   is then decided by the segments and acknowledgements), or was reported with a
   "send finished" signal carrying length 0 and the 'session terminating'
   result, or was refused by the peer (an XFER_REFUSE for it was handled, which
   reports it with the 'refused' result); and nothing is left waiting to start. *)
Theorem C01_unstarted_reported_on_close :
  forall (c : cfg) (ops : list op),
    closed (run c ops) = true ->
    forall id : N, 1 <= id <= N.of_nat (length (queued c ops)) ->
      (exists len, In (ESig SigSendStarted [PStrNum id; PInt len]) (trace (run c ops))) \/
      In (ESig SigSendFinished [PStrNum id; PInt 0; PStr RES_TERMINATING]) (trace (run c ops)) \/
      (exists r, In (FMsg (MXferRefuse r id)) (handled (run c ops))).
Proof. exact unstarted_reported_on_close. Qed.
Print Assumptions C01_unstarted_reported_on_close.

Theorem C01_closed_nothing_pending :
  forall (c : cfg) (ops : list op), closed (run c ops) = true -> pend_start (run c ops) = [].
Proof. exact closed_nothing_pending. Qed.
Print Assumptions C01_closed_nothing_pending.

(* ===================== (C) composition ===================== *)

(* C01 safety.  A and B are the two ends of a session, each after an arbitrary
   operation list.  If what each has acted on is a prefix of what the other has
   emitted, then what B has delivered so far is, in order, exactly the transfer
   ids 1..k carrying the first k bundles queued at A, byte for byte: nothing
   truncated, duplicated, merged with another transfer, or reordered. *)
Theorem C01_safety :
  forall (cA cB : cfg) (opsA opsB : list op),
    (exists r, sent (run cA opsA) = handled (run cB opsB) ++ r) ->
    (exists r, sent (run cB opsB) = handled (run cA opsA) ++ r) ->
    let D := deliver_spec (handled (run cB opsB)) in
    map fst D = map N.of_nat (seq 1 (length D)) /\
    map snd D = firstn (length D) (queued cA opsA).
Proof. exact C01_safety_core. Qed.
Print Assumptions C01_safety.

(* the same when only the forward channel hypothesis is available, given that
   A has handled no XFER_REFUSE *)
Theorem C01_safety_no_refuse :
  forall (cA cB : cfg) (opsA opsB : list op),
    (exists r, sent (run cA opsA) = handled (run cB opsB) ++ r) ->
    Forall (fun f => is_refuse f = false) (handled (run cA opsA)) ->
    let D := deliver_spec (handled (run cB opsB)) in
    map fst D = map N.of_nat (seq 1 (length D)) /\
    map snd D = firstn (length D) (queued cA opsA).
Proof. exact safety_no_refuse. Qed.
Print Assumptions C01_safety_no_refuse.

(* The sender reports success only after the receiver holds the complete
   bundle: a successful "send finished" signal for (id, len) at A implies that
   B has delivered transfer id with exactly the bundle queued under id. *)
Theorem C01_success_after_complete :
  forall (cA cB : cfg) (opsA opsB : list op),
    (exists r, sent (run cA opsA) = handled (run cB opsB) ++ r) ->
    (exists r, sent (run cB opsB) = handled (run cA opsA) ++ r) ->
    forall id len : N,
    In (ESig SigSendFinished [PStrNum id; PInt len; PStr RES_SUCCESS]) (trace (run cA opsA)) ->
    exists d, bundle_of (queued cA opsA) id = Some d /\ len = N.of_nat (length d) /\
              In (id, d) (deliver_spec (handled (run cB opsB))).
Proof. exact C01_success_core. Qed.
Print Assumptions C01_success_after_complete.

(* End to end: the channel hypotheses replaced by the hypothesis on the octet
   streams (what each side has read is a prefix of what the other side's socket
   accepted), through the C07 channel lemma. *)
Theorem C01_safety_end_to_end :
  forall (cA cB : cfg) (opsA opsB : list op),
    (exists rest, wire (run cA opsA) = received (init cB) opsB ++ rest) ->
    (exists rest, wire (run cB opsB) = received (init cA) opsA ++ rest) ->
    Forall wf_frame (sent (run cA opsA)) ->
    Forall wf_frame (sent (run cB opsB)) ->
    (sent (run cA opsA) = [] \/ exists h ms, sent (run cA opsA) = FContact h :: map FMsg ms) ->
    (sent (run cB opsB) = [] \/ exists h ms, sent (run cB opsB) = FContact h :: map FMsg ms) ->
    let D := deliver_spec (handled (run cB opsB)) in
    map fst D = map N.of_nat (seq 1 (length D)) /\
    map snd D = firstn (length D) (queued cA opsA).
Proof. exact C01_safety_e2e. Qed.
Print Assumptions C01_safety_end_to_end.

Theorem C01_success_end_to_end :
  forall (cA cB : cfg) (opsA opsB : list op),
    (exists rest, wire (run cA opsA) = received (init cB) opsB ++ rest) ->
    (exists rest, wire (run cB opsB) = received (init cA) opsA ++ rest) ->
    Forall wf_frame (sent (run cA opsA)) ->
    Forall wf_frame (sent (run cB opsB)) ->
    (sent (run cA opsA) = [] \/ exists h ms, sent (run cA opsA) = FContact h :: map FMsg ms) ->
    (sent (run cB opsB) = [] \/ exists h ms, sent (run cB opsB) = FContact h :: map FMsg ms) ->
    forall id len : N,
    In (ESig SigSendFinished [PStrNum id; PInt len; PStr RES_SUCCESS]) (trace (run cA opsA)) ->
    exists d, bundle_of (queued cA opsA) id = Some d /\ len = N.of_nat (length d) /\
              In (id, d) (deliver_spec (handled (run cB opsB))).
Proof. exact C01_success_e2e. Qed.
Print Assumptions C01_success_end_to_end.

(* ===================== non-vacuity: a concrete two-endpoint run ===================== *)
(* A (active, segment size 3) queues a 7-octet bundle (three segments), an
   empty bundle and a one-octet bundle; B (passive) is fed A's frames. *)
Definition ex_cA : cfg := mkCfg false [65] 30 0 100 3 None.
Definition ex_cB : cfg := mkCfg true [66] 30 0 100 10 None.
Definition ex_hello_B : bytes :=
  encode_frame (FContact (mkContact MAGIC 4 0)) ++ encode_msg (MSessInit 30 100 (2^64-1) [66] []).
Definition ex_opsA : list op :=
  [OStart; ORx ex_hello_B; OSend [1;2;3;4;5;6;7]; OSend []; OSend [9]]
  ++ concat (repeat [OPQ; OTxPump true 65536; OTxPump false 65536] 8).
Definition ex_sA : ep := run ex_cA ex_opsA.
Definition ex_opsB : list op :=
  [ORx (concat (map encode_frame (sent ex_sA))); OTxPump true 65536; OTxPump false 65536; OPop 2; OPop 2].
Definition ex_sB : ep := run ex_cB ex_opsB.

Example C01_ex_queued : queued ex_cA ex_opsA = [[1;2;3;4;5;6;7]; []; [9]].
Proof. vm_compute. reflexivity. Qed.
Example C01_ex_transfers :
  transfers_of (segs_of (sent ex_sA)) = [(1, [1;2;3;4;5;6;7], true); (2, [], true); (3, [9], true)].
Proof. vm_compute. reflexivity. Qed.
Example C01_ex_segments : map (fun g => (xs_flags g, xs_id g, xs_data g)) (segs_of (sent ex_sA))
  = [(2, 1, [1;2;3]); (0, 1, [4;5;6]); (1, 1, [7]); (3, 2, []); (3, 3, [9])].
Proof. vm_compute. reflexivity. Qed.
Example C01_ex_hyps :
  forallb (fun g => negb (has_start (xs_flags g)) || has_end (xs_flags g)
                    || negb (match xs_data g with [] => true | _ => false end)) (segs_of (sent ex_sA)) = true
  /\ forallb (fun f => negb (is_refuse f)) (handled ex_sA) = true.
Proof. vm_compute. split; reflexivity. Qed.
Example C01_ex_delivered : deliver_spec (handled ex_sB) = [(1, [1;2;3;4;5;6;7]); (2, []); (3, [9])].
Proof. vm_compute. reflexivity. Qed.
Example C01_ex_pop : pop_events (trace ex_sB) = [(2, [])]
  /\ last (trace ex_sB) EClosed = EExc EX_KEY /\ map fst (rx_map ex_sB) = [1; 3].
Proof. vm_compute. repeat split; reflexivity. Qed.

(* A then reads B's acknowledgements: success for all three, and both channel
   hypotheses hold on this pair of runs *)
Definition ex_opsA2 : list op :=
  ex_opsA ++ [ORx (concat (map encode_frame (skipn 2 (sent ex_sB))))].
Definition ex_sA2 : ep := run ex_cA ex_opsA2.
Example C01_ex_channel_hyps :
  (exists r, sent ex_sA2 = handled ex_sB ++ r) /\ (exists r, sent ex_sB = handled ex_sA2 ++ r).
Proof. split; exists []; vm_compute; reflexivity. Qed.
Example C01_ex_success :
  succ_events (trace ex_sA2) = [(1, 7); (2, 0); (3, 1)]
  /\ end_acks (sent ex_sB) = [(1, 7); (2, 0); (3, 1)].
Proof. vm_compute. split; reflexivity. Qed.
Definition ex_msgs (l : list frame) : list msg :=
  flat_map (fun f => match f with FMsg m => [m] | FContact _ => [] end) l.
Example C01_ex_end_to_end_hyps :
  wire ex_sA2 = received (init ex_cB) ex_opsB ++ []
  /\ wire ex_sB = received (init ex_cA) ex_opsA2 ++ []
  /\ Forall wf_frame (sent ex_sA2) /\ Forall wf_frame (sent ex_sB)
  /\ sent ex_sA2 = FContact (mkContact MAGIC 4 0) :: map FMsg (ex_msgs (sent ex_sA2))
  /\ sent ex_sB = FContact (mkContact MAGIC 4 0) :: map FMsg (ex_msgs (sent ex_sB)).
Proof.
  assert (WC : wf_contact (mkContact MAGIC 4 0)).
  { repeat split; try reflexivity. apply wf_bytesb_spec. reflexivity. }
  assert (EA : sent ex_sA2 = FContact (mkContact MAGIC 4 0) :: map FMsg (ex_msgs (sent ex_sA2)))
    by (vm_compute; reflexivity).
  assert (EB : sent ex_sB = FContact (mkContact MAGIC 4 0) :: map FMsg (ex_msgs (sent ex_sB)))
    by (vm_compute; reflexivity).
  split; [vm_compute; reflexivity|]. split; [vm_compute; reflexivity|].
  split; [|split; [|split; assumption]].
  - rewrite EA. constructor; [exact WC|]. apply Forall_map.
    apply wf_msgs_forallb. vm_compute. reflexivity.
  - rewrite EB. constructor; [exact WC|]. apply Forall_map.
    apply wf_msgs_forallb. vm_compute. reflexivity.
Qed.

(* a send_bundle_data call after the endpoint entered the terminating state is
   refused (RuntimeError), queues nothing and consumes no transfer id *)
Definition ex_ops_term : list op :=
  [OStart; ORx ex_hello_B; OSend [1]; OTerm 3; OSend [2;2]].
Example C01_ex_send_while_terminating :
  queued ex_cA ex_ops_term = [[1]]
  /\ send_ids (trace (run ex_cA ex_ops_term)) = [1]
  /\ last (trace (run ex_cA ex_ops_term)) EClosed = EExc EX_RUNTIME
  /\ map fst (pend_start (run ex_cA ex_ops_term)) = [1].
Proof. vm_compute. repeat split; reflexivity. Qed.

(* two bundles queued before the session is established, then the user closes:
   both are reported as finished with the 'terminating' result, before EClosed *)
Definition ex_ops_close : list op := [OStart; OSend [1]; OSend [2;2]; OClose].
Example C01_ex_close_reports_unstarted :
  closed (run ex_cA ex_ops_close) = true
  /\ queued ex_cA ex_ops_close = [[1]; [2;2]]
  /\ filter note (trace (run ex_cA ex_ops_close))
     = [ESig SigSendFinished [PStrNum 1; PInt 0; PStr RES_TERMINATING];
        ESig SigSendFinished [PStrNum 2; PInt 0; PStr RES_TERMINATING]]
  /\ last (trace (run ex_cA ex_ops_close)) (EExc 0) = EClosed
  /\ tx_map (run ex_cA ex_ops_close) = [].
Proof. vm_compute. repeat split; reflexivity. Qed.

(* the zero-segment-size run: the peer announces segment MRU 0 *)
Definition ex_hello_mru0 : bytes :=
  encode_frame (FContact (mkContact MAGIC 4 0)) ++ encode_msg (MSessInit 30 0 (2^64-1) [66] []).
Definition ex_ops_mru0 : list op :=
  [OStart; ORx ex_hello_mru0; OSend [1;2;3]; OPQ; OSend [4]; OPQ; OSend [5]; OPQ].
Example C01_zero_segment_size :
  map (fun g => (xs_flags g, xs_id g, xs_data g)) (segs_of (sent (run ex_cA ex_ops_mru0)))
  = [(2, 1, []); (2, 1, []); (2, 1, [])].
Proof. vm_compute. reflexivity. Qed.
