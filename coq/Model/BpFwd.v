(** Forwarding of a received bundle by the BPv7 agent, on the records of
    [Model/Bundle.v]:  /repo/src/bp/agent.py [_do_fwd] + [send_bundle] + [_apply_primary]
    (+ the gate of [recv_bundle]), /repo/src/bp/util.py [BundleContainer] ([reload], [add_block],
    [remove_block], [get_block_num], [_fix_blk_num]) and the cached-BTSD rule of
    /repo/src/bp/encoding/blocks.py [CanonicalBlock.ensure_block_type_specific_data].
    Definitions only; proofs in [Proofs/BpFwdProofs.v], statements in [Props/C11.v].

    The model follows the CODE after the fix commits df72a19 (hop-count BTSD regenerated), ed76b97 (an
    assigned block number is stored on the block instance, no longer in scapy's class-level
    overloaded-fields dict: forwarding has no state across bundles) and 1355258 (every received Previous
    Node / Bundle Age block is removed), probed 2026-09-23:

    - a block decoded from the wire keeps its BTSD octets; only the hop-count blocks whose BTSD parsed have
      their BTSD deleted and regenerated (shortest-form [limit, count+1]) - [bump_hop];
    - [_do_fwd] looks blocks up by the scapy payload CLASS that [post_dissect] managed to attach, not by
      type code: a type-6/7/10 block whose BTSD did not dissect is invisible to it and stays as it is
      ([impl_prev_parses], [impl_age_parses], [hop_view]; an EMPTY BTSD "dissects" to a default payload:
      such a type-6/7 block is treated as parsed, such a type-10 block makes [count += 1] raise, the
      bundle is then deleted with reason NO_ROUTE and nothing is transmitted - [hop_raises]);
    - [add_block] inserts before the LAST block whatever its type ([insert_bl]; appended to an empty list);
    - block numbers of the inserted blocks come from [get_block_num]: the container's counter starts at 1,
      is incremented first and skips numbers in use (0 is always in use) - [next_free]; the Previous Node
      block is numbered while received Bundle Age blocks are still in the container;
    - the Bundle Age block is added iff the RECEIVED creation time is not 0, age = now - creation as a
      Python int: negative when the local clock is behind ([age_item] = CBOR negative integer);
    - [send_bundle] calls [_apply_primary] also for forwarded bundles: a zero creation time is replaced by
      this node's (now, sequence number) and a zero lifetime by 3 600 000 ms ([apply_primary]; the sequence
      number is 0 when this is the first reading of the agent's Timestamper at that clock value, which the
      harness arranges);
    - every CRC is recomputed ([with_crc_bundle]); the octets are [bytes(Bundle)], i.e. EIDs go through
      the text conversion of [EidField.i2m] ([impl_norm_bundle], the C02 defect class);
    - TX chain: no BPSec policy, route MTU None or not exceeded (fragmentation is C05's subject).

    Outside the compared domain (the harness does not generate it, see check_C11.py): typed BTSD that
    dissects "by accident" (hop count arrays with more than two items or non-uint items, digit-only text as
    an age, byte strings as EIDs, trailing octets after the item, floats, tags), a hop count of 2^64-1
    (cbor2 emits a bignum), received bundles in non-shortest CBOR, block types 11/12 (C12). *)
From Coq Require Import List NArith Bool.
From DTN Require Import Lib.Bytes Lib.Cbor Lib.Crc Model.Bundle.
Import ListNotations.
Local Open Scope N_scope.

(** * What [post_dissect] attaches a typed payload to *)

Definition impl_prev_parses (bs : bytes) : bool :=
  match bs with
  | [] => true
  | _ :: _ =>
      match decode bundle_fuel bs with
      | Some (CArr (CUint s :: ssp :: _), _) =>
          if s =? 1 then match ssp with CTstr _ => true | CUint z => z =? 0 | _ => false end
          else if s =? 2 then match ssp with CArr _ => true | _ => false end
          else false
      | _ => false
      end
  end.

Definition impl_age_parses (bs : bytes) : bool :=
  match bs with
  | [] => true
  | _ :: _ =>
      match decode bundle_fuel bs with
      | Some (CUint _, _) | Some (CNint _, _) | Some (CArr _, _) | Some (CMap _, _) => true
      | _ => false
      end
  end.

Definition is_prev (b : cblock) : bool := (btype b =? BLOCK_PREV_NODE) && impl_prev_parses (btsd b).
Definition is_age (b : cblock) : bool := (btype b =? BLOCK_AGE) && impl_age_parses (btsd b).

(** [limit, count] of a hop-count block the implementation will increment *)
Definition hop_view (b : cblock) : option (N * N) :=
  if btype b =? BLOCK_HOP_COUNT then decode_hop_count (btsd b) else None.
(** a hop-count block whose default payload has count None *)
Definition hop_raises (b : cblock) : bool :=
  (btype b =? BLOCK_HOP_COUNT) && match btsd b with [] => true | _ :: _ => false end.

Definition set_btsd (b : cblock) (d : bytes) : cblock :=
  mkCBlock (btype b) (bnum b) (bflags b) (bcrc_type b) d (bcrc b).

Definition bump_hop (b : cblock) : cblock :=
  match hop_view b with
  | Some (l, c) => set_btsd b (encode_hop_count (l, c + 1))
  | None => b
  end.

(** * Container operations *)

(** "for blk in list(ctr.block_type(X)): ctr.remove_block(blk)": every block the implementation
    recognises as an X goes *)
Definition remove_all (p : cblock -> bool) (l : list cblock) : list cblock :=
  filter (fun x => negb (p x)) l.

(** [list.insert(-1, x)] *)
Fixpoint insert_bl (x : cblock) (l : list cblock) : list cblock :=
  match l with
  | [] => [x]
  | [y] => [x; y]
  | y :: t => y :: insert_bl x t
  end.

Definition memN (x : N) (l : list N) : bool := existsb (N.eqb x) l.
Definition removeN (x : N) (l : list N) : list N := filter (fun y => negb (y =? x)) l.

(** [get_block_num]: first number >= c not in use (each number found in use is dropped from the list,
    so [length used] rounds suffice) *)
Fixpoint next_free (fuel : nat) (c : N) (used : list N) : N :=
  match fuel with
  | O => c
  | S f => if memN c used then next_free f (c + 1) (removeN c used) else c
  end.

(** keys of [BundleContainer._block_num]: 0 (the bundle's scapy payload) and every block number *)
Definition used_nums (l : list cblock) : list N := 0 :: map bnum l.

(** [get_block_num] with the counter at [cnt] *)
Definition alloc (cnt : N) (used : list N) : N := next_free (length used) (cnt + 1) used.

Definition new_block (t n : N) (d : bytes) : cblock := mkCBlock t n 0 0 d None.

(** age = now - creation, a Python int *)
Definition age_item (now ctime : N) : cbor :=
  if ctime <=? now then CUint (now - ctime) else CNint (ctime - now - 1).

(** * [_do_fwd] on the block list (when no hop-count block makes it raise) *)
Definition fwd_blocks (node : eid) (now ctime : N) (bl : list cblock) : list cblock :=
  let bl1 := remove_all is_prev bl in
  let n1 := alloc 1 (used_nums bl1) in
  let bl2 := insert_bl (new_block BLOCK_PREV_NODE n1 (encode_prev_node (impl_norm_eid node))) bl1 in
  let bl3 := map bump_hop bl2 in
  let bl4 := remove_all is_age bl3 in
  if ctime =? 0 then bl4
  else insert_bl (new_block BLOCK_AGE (alloc n1 (used_nums bl4)) (encode (age_item now ctime))) bl4.

(** [_apply_primary] on a decoded primary block (source / report-to are never None there) *)
Definition DEFAULT_LIFETIME : N := 3600000.
Definition apply_primary (now : N) (p : primary) : primary :=
  mkPrimary (version p) (flags p) (crc_type p) (dest p) (src p) (report_to p)
            (if create_time p =? 0 then now else create_time p)
            (if create_time p =? 0 then 0 else create_seq p)
            (if lifetime p =? 0 then DEFAULT_LIFETIME else lifetime p)
            (frag p) (crc p).

(** the bundle whose clean encoding is handed to the convergence layer *)
Definition finish (now : N) (p : primary) (bl : list cblock) : bundle :=
  with_crc_bundle (impl_norm_bundle (mkBundle (apply_primary now p) bl)).

(** the forwarded bundle; its clean encoding [encode_bundle (do_fwd node now b)] is what the convergence
    layer is given *)
Definition do_fwd (node : eid) (now : N) (b : bundle) : bundle :=
  finish now (prim b) (fwd_blocks node now (create_time (prim b)) (blocks b)).

(** * The path from the CL callback to the CL sender *)

Definition eid_eqb (a b : eid) : bool :=
  match a, b with
  | EidDtnNone, EidDtnNone => true
  | EidDtn x, EidDtn y => bytes_eqb x y
  | EidIpn x, EidIpn y => bytes_eqb x y
  | _, _ => false
  end.

Inductive rx_outcome : Type :=
| RxUndecodable              (* [Bundle(data)] raises out of the CL callback *)
| RxContainerRaises          (* [BundleContainer.reload]: duplicate block number (0 counts as in use) *)
| RxCrcDrop                  (* [check_all_crc] over the re-encoding fails: dropped silently *)
| RxOwnSource                (* source = this node: ignored *)
| RxFwdFailed                (* exception inside [_do_fwd] (hop-count block without data): delete / NO_ROUTE *)
| RxSent (octets : bytes).   (* handed to the CL *)

(** [check_all_crc]: the primary block is re-encoded from its field values (EIDs through the text
    conversion), a canonical block from its field values with the BTSD octets as received *)
Definition recv_crc_ok (b : bundle) : bool :=
  crc_ok_primary (impl_norm_primary (prim b)) && forallb crc_ok_block (blocks b).

Definition recv_fwd (node : eid) (now : N) (bs : bytes) : rx_outcome :=
  match decode_bundle bs with
  | None => RxUndecodable
  | Some b =>
      if negb (nodupb (used_nums (blocks b))) then RxContainerRaises
      else if negb (recv_crc_ok b) then RxCrcDrop
      else if eid_eqb (src (prim b)) node then RxOwnSource
      else if existsb hop_raises (blocks b) then RxFwdFailed
      else RxSent (encode_bundle (do_fwd node now b))
  end.

(** a process history: bundles routed "forward", each received at its own clock value (no state is
    carried from one to the next) *)
Definition run_hist (node : eid) (h : list (N * bytes)) : list rx_outcome :=
  map (fun nb => recv_fwd node (fst nb) (snd nb)) h.

(** * Boolean hypotheses of the theorems *)

Definition lt64 (n : N) : bool := n <? two64.

(** this node's EID: well formed, unchanged by the text conversion, encodable in a BTSD *)
Definition node_okb (node : eid) : bool :=
  wf_eidb node && eid_eqb (impl_norm_eid node) node &&
  (N.of_nat (length (encode_prev_node node)) <? two64).

Definition hop_okb (b : cblock) : bool :=
  match hop_view b with Some (l, c) => lt64 (c + 1) | None => true end.

(** the received bundle as [recv_bundle] lets it through, in the ranges where the model is exact: field
    ranges (after the text conversion of EIDs, which is the identity except for the C02 defect class),
    distinct block numbers none of which is 0 (else [reload] raises), fewer than 2^32 blocks, no hop count
    at 2^64-1 and no hop-count block without data, an administrative payload the implementation can parse *)
Definition fwd_inb (node : eid) (now : N) (b : bundle) : bool :=
  wf_primaryb (prim (impl_norm_bundle b)) && forallb wf_cblockb (blocks (impl_norm_bundle b)) &&
  forallb wf_cblockb (blocks b) &&
  impl_admin_ok (impl_norm_bundle b) &&
  nodupb (used_nums (blocks b)) &&
  (N.of_nat (length (blocks b)) <? 4294967296) &&
  forallb hop_okb (blocks b) && negb (existsb hop_raises (blocks b)) &&
  lt64 now && node_okb node.

(** guards that exclude the defect classes *)
Definition eids_stableb (p : primary) : bool :=
  eid_eqb (impl_norm_eid (dest p)) (dest p) && eid_eqb (impl_norm_eid (src p)) (src p) &&
  eid_eqb (impl_norm_eid (report_to p)) (report_to p).
Definition payload_stableb (b : bundle) : bool :=
  forallb (fun blk => negb (btype blk =? 1) ||
                      bytes_eqb (btsd (impl_norm_cblock (is_admin (prim b)) blk)) (btsd blk)) (blocks b).
(** every block of type 6 (7) is one the implementation recognises as a Previous Node (Bundle Age) block *)
Definition prev_parseb (b : bundle) : bool :=
  forallb (fun x => negb (btype x =? BLOCK_PREV_NODE) || is_prev x) (blocks b).
Definition age_parseb (b : bundle) : bool :=
  forallb (fun x => negb (btype x =? BLOCK_AGE) || is_age x) (blocks b).
(** payload block last, numbered 1 *)
Definition payload_last_num1b (l : list cblock) : bool :=
  match rev l with pl :: _ => (btype pl =? 1) && (bnum pl =? 1) | [] => false end.

(** blocks [_do_fwd] does not look at: neither a recognised previous-node / age block nor of type 10 *)
Definition untouchedb (x : cblock) : bool :=
  negb (is_prev x) && negb (is_age x) && negb (btype x =? BLOCK_HOP_COUNT) && negb (btype x =? BLOCK_PAYLOAD).
Definition core (x : cblock) : N * N * N * N * bytes := (btype x, bnum x, bflags x, bcrc_type x, btsd x).

(** * Rendering for the correspondence harness *)

Definition ren_outcome (o : rx_outcome) : N * bytes :=
  match o with
  | RxUndecodable => (0, [])
  | RxContainerRaises => (1, [])
  | RxCrcDrop => (2, [])
  | RxOwnSource => (3, [])
  | RxFwdFailed => (4, [])
  | RxSent bs => (5, bs)
  end.

(** flags telling which hypotheses the case satisfies (for the evidence histogram) *)
Definition case_flags (node : eid) (now : N) (bs : bytes) : list bool :=
  match decode_bundle bs with
  | Some b => [fwd_inb node now b; eids_stableb (prim b); payload_stableb b; prev_parseb b; age_parseb b;
               payload_last_num1b (blocks b); negb (create_time (prim b) =? 0); negb (lifetime (prim b) =? 0);
               create_time (prim b) <=? now]
  | None => []
  end.

Definition run_case (c : eid * list (N * bytes)) : list (N * bytes) * list (list bool) :=
  (map ren_outcome (run_hist (fst c) (snd c)),
   map (fun nb => case_flags (fst c) (fst nb) (snd nb)) (snd c)).
