def require_version(*args, **kwargs):
    pass
