(** TCPCL endpoint model: every frame sent is well formed ([wf_frame]: each field
    fits its width), under explicit bounds on the configuration and the inputs. *)
From Coq Require Import ZArith NArith List Bool Lia ZifyBool ZifyN ZifyNat Arith.
From RecordUpdate Require Import RecordSet.
From DTN Require Import Lib.Bytes Model.TcpclMsg Model.TcpclSess Proofs.TcpclSessBasics
  Proofs.TcpclSentProofs1 Proofs.TcpclSentProofs2 Proofs.TcpclSentProofs3 Proofs.TcpclSentProofs4
  Proofs.TcpclSentProofs5 Proofs.TcpclSentProofs6 Proofs.TcpclSentProofs7 Proofs.TcpclSentProofs8 Proofs.TcpclSentProofs9 Proofs.TcpclSentProofs10 Proofs.TcpclSentProofs11 Proofs.TcpclSentProofs12 Proofs.TcpclSentProofs13 Proofs.TcpclSentProofs14 Proofs.TcpclMsgProofs.
Import ListNotations RecordSetNotations.
Ltac Zify.zify_post_hook ::= Z.div_mod_to_equations.
Local Open Scope N_scope.


(** * Well-formedness of the frames sent *)

Definition cfg_ok (c : cfg) : Prop :=
  c_keepalive c < 65536 /\ c_seg_mru c < 2^64
  /\ N.of_nat (length (c_nodeid c)) < 65536 /\ wf_bytes (c_nodeid c).

Definition op_ok (o : op) : Prop :=
  match o with
  | ORx d => wf_bytes d
  | OTerm r => r < 256
  | OSend d => wf_bytes d /\ N.of_nat (length d) < 2^64
  | _ => True
  end.

Definition rxlen (o : op) : nat := match o with ORx d => length d | _ => 0%nat end.
Definition rx_total (ops : list op) : nat := fold_right (fun o n => (rxlen o + n)%nat) 0%nat ops.

Definition tx_ok (nid : N) (it : N * bytes) : Prop :=
  fst it < nid /\ wf_bytes (snd it) /\ N.of_nat (length (snd it)) < 2^64.

Definition acc_len (s : ep) : nat := match rx_tmp s with Some (_, a) => length a | None => 0%nat end.

Lemma wf_CH : wf_frame CH.
Proof. unfold CH. cbn. repeat split; try reflexivity. repeat constructor. Qed.

Lemma wf_sess_init c : cfg_ok c -> wf_frame (FMsg (sess_init_msg c)).
Proof.
  intros (H1&H2&H3&H4). unfold sess_init_msg. cbn [wf_frame wf_msg]. repeat split; try assumption; try reflexivity.
  constructor.
Qed.

Lemma wf_out_contact c s : cfg_ok (cf s) -> Forall wf_frame (out_contact c s).
Proof.
  intros H. unfold out_contact. repeat match goal with |- context [if ?c then _ else _] => destruct c end;
    cbn [app]; repeat constructor; try apply wf_CH; try (apply wf_sess_init, H).
Qed.

Lemma wf_rej m : wf_frame (FMsg (MReject (msg_id m) REJ_UNEXPECTED)).
Proof. destruct m; cbn; split; reflexivity. Qed.

Definition datalen (m : msg) : nat := match m with MXferSeg _ _ _ d => length d | _ => 0%nat end.

Lemma acc_bound fl xid data s acc : seg_acc fl xid data s = Some acc ->
  (length acc <= acc_len s + length data)%nat.
Proof.
  unfold seg_acc, acc_len. destruct (has_start fl); [intros H; inversion H; lia|].
  destruct (rx_tmp s) as [[cur a]|]; [|discriminate]. destruct (cur =? xid); [|discriminate].
  intros H. inversion H. rewrite app_length. lia.
Qed.

Lemma wf_out_msg m s B : cfg_ok (cf s) -> wf_msg m -> (acc_len s + datalen m <= B)%nat -> N.of_nat B < 2^64 ->
  Forall wf_frame (out_msg m s).
Proof.
  intros Hc Hm Hb HB. destruct m as [fl xid ext data|fl xid len|r xid| |fl r|a b|ka smru xmru nid ext];
    cbn [out_msg datalen] in *.
  - destruct (in_sess s); [|repeat constructor; apply wf_rej].
    destruct (seg_acc fl xid data s) as [acc|] eqn:Ea; [|repeat constructor; apply wf_rej].
    pose proof (acc_bound _ _ _ _ _ Ea). destruct Hm as (H1&H2&_).
    repeat constructor; cbn [wf_frame wf_msg]; repeat split; try assumption. lia.
  - repeat match goal with |- context [if ?c then _ else _] => destruct c
                      | |- context [match ?c with _ => _ end] => destruct c end;
      repeat constructor; apply wf_rej.
  - repeat match goal with |- context [if ?c then _ else _] => destruct c
                      | |- context [match ?c with _ => _ end] => destruct c end;
      repeat constructor; apply wf_rej.
  - constructor.
  - destruct Hm as [H1 H2]. unfold out_term.
    repeat match goal with |- context [if ?c then _ else _] => destruct c end;
      repeat constructor; try apply wf_rej; try exact H2.
  - constructor.
  - destruct (c_passive (cf s)); [constructor; [apply wf_sess_init, Hc|constructor]|constructor].
Qed.

Lemma total_ext_wf total : wf_region xfer_ext_len (total_length_ext total).
Proof.
  unfold total_length_ext. split; [|split].
  - unfold encode_ext. cbn [ei_flags ei_type ei_val]. rewrite !app_length, !be_length. reflexivity.
  - unfold encode_ext. cbn [ei_flags ei_type ei_val].
    apply wf_bytes_app. split; [apply be_wf|]. apply wf_bytes_app. split; [apply be_wf|].
    apply wf_bytes_app. split; apply be_wf.
  - unfold ext_count_ok.
    replace (encode_ext (mkExt 0 1 (be 8 total))) with (encode_exts [mkExt 0 1 (be 8 total)])
      by (unfold encode_exts; cbn [map concat]; apply app_nil_r).
    rewrite scapy_view_single; [reflexivity|].
    unfold wf_ext. cbn [ei_flags ei_type ei_val]. rewrite be_length. repeat split; try reflexivity. apply be_wf.
Qed.

Lemma nil_region_wf : wf_region xfer_ext_len [].
Proof. repeat split; try reflexivity. constructor. Qed.

Lemma wf_seg_of tmp len sz nid : (forall it, tmp = Some it -> tx_ok nid it) -> nid <= 2^64 ->
  Forall wf_frame (seg_of tmp len sz).
Proof.
  intros Ht Hn. unfold seg_of. destruct tmp as [[i d]|]; [|constructor]. cbv zeta.
  destruct (Ht _ eq_refl) as (H1&H2&H3). cbn [fst snd] in *.
  destruct ((len =? N.of_nat (length d)) && (0 <? len)); [constructor|].
  constructor; [|constructor]. cbn [wf_frame wf_msg].
  set (seg := firstn (N.to_nat sz) (skipn (N.to_nat len) d)).
  assert (Hl : (length seg <= length d)%nat).
  { unfold seg. rewrite firstn_length, skipn_length. lia. }
  split; [destruct (len =? 0), (len + N.of_nat (length seg) =? N.of_nat (length d)); reflexivity|].
  split; [lia|]. split; [destruct (len =? 0); [apply total_ext_wf|apply nil_region_wf]|].
  split; [destruct (len =? 0), (len + N.of_nat (length seg) =? N.of_nat (length d)); cbn; intros H; try discriminate H; reflexivity|].
  split; [lia|]. unfold seg. apply wf_bytes_firstn, wf_bytes_skipn, H2.
Qed.

Lemma wf_out_op o s : op_ok o ->
  Forall (tx_ok (next_id s)) (pend_start s) -> (forall it, tx_tmp s = Some it -> tx_ok (next_id s) it) ->
  next_id s <= 2^64 -> Forall wf_frame (out_op o s).
Proof.
  intros Ho Hp Ht Hn. destruct o; cbn [out_op op_ok] in *; try constructor.
  - destruct ((state s =? ST_CONNECTING) && negb (c_passive (cf s))); repeat constructor; try apply wf_CH.
  - unfold out_term. destruct (in_sess s && negb (in_term s)); repeat constructor; try exact Ho.
  - destruct (0 <? n_pq s)%nat; [|constructor]. unfold out_pq.
    destruct (tx_tmp s) as [it|] eqn:Et; [eapply wf_seg_of; [|exact Hn]; intros it' E; inversion E; subst; apply Ht; reflexivity|].
    destruct (in_sess s && negb (in_term s)); [|constructor].
    destruct (pend_start s) as [|[i d] r]; [constructor|]. inversion Hp as [|x y Hx Hy]. subst.
    eapply wf_seg_of; [|exact Hn]. intros it' E. inversion E. subst. exact Hx.
  - destruct (ka_due s) as [due|]; [|constructor]. destruct (due <=? now s); repeat constructor.
  - destruct (idle_due s) as [due|]; [|constructor]. destruct (due <=? now s); [|constructor].
    unfold out_term. destruct (in_sess s && negb (in_term s)); repeat constructor.
Qed.

Definition W (a : N) (b : nat) (s : ep) : Prop :=
  cfg_ok (cf s) /\ Forall wf_frame (sent s) /\ wf_bytes (rx_buf s)
  /\ (length (rx_buf s) + acc_len s <= b)%nat
  /\ next_id s <= a
  /\ Forall (tx_ok (next_id s)) (pend_start s)
  /\ (forall it, tx_tmp s = Some it -> tx_ok (next_id s) it).

Lemma tx_ok_mono n n' it : n <= n' -> tx_ok n it -> tx_ok n' it.
Proof. intros H (H1&H2&H3). split; [lia|]. split; assumption. Qed.

Lemma enc_seg_len fl xid ext data : (length data <= length (encode_msg (MXferSeg fl xid ext data)))%nat.
Proof. cbn [encode_msg]. rewrite !app_length. lia. Qed.

Lemma acc_len_recv_msg m s : (acc_len (fst (recv_frame (FMsg m) s)) <= acc_len s + datalen m)%nat.
Proof.
  unfold acc_len at 1. rewrite rx_tmp_recv_msg.
  destruct m as [fl xid ext data|fl xid len|r xid| |fl r|a b|ka smru xmru nid ext]; cbn [datalen]; try (unfold acc_len; lia).
  destruct (in_sess s); [|unfold acc_len; lia].
  destruct (seg_acc fl xid data s) as [acc|] eqn:Ea; [|unfold acc_len; lia].
  pose proof (acc_bound _ _ _ _ _ Ea). destruct (has_end fl); lia.
Qed.

Lemma W_recv_frame a b fr rest s : a <= 2^64 -> N.of_nat b < 2^64 ->
  W a b s -> parse_frame (in_conn s) (rx_buf s) = Some (fr, rest) ->
  W a b (fst (recv_frame fr (s <| rx_buf := rest |> <| handled := handled s ++ [fr] |>))).
Proof.
  intros Ha Hb (W1&W2&W3&W4&W5&W6&W7) Hp.
  apply frame_parse_sound in Hp; [|exact W3]. destruct Hp as (Eb&[Hwf _]&Hr).
  assert (Hlen : length (rx_buf s) = (length (encode_frame fr) + length rest)%nat) by (rewrite Eb, app_length; reflexivity).
  unfold W. rewrite cf_recv_frame, rx_buf_recv_frame, next_id_recv_frame. ep_cbn.
  split; [exact W1|]. split; [|split; [exact Hr|]]; [|split; [|split; [exact W5|split]]].
  - (* sent *)
    destruct fr as [c|m].
    + rewrite sent_recv_contact. ep_cbn. apply Forall_app. split; [exact W2|]. apply wf_out_contact. ep_cbn. exact W1.
    + rewrite sent_recv_msg. ep_cbn. apply Forall_app. split; [exact W2|].
      apply (wf_out_msg m _ b); [ep_cbn; exact W1|exact Hwf| |exact Hb].
      unfold acc_len. ep_cbn. fold (acc_len s).
      destruct m; cbn [datalen]; try lia. cbn [encode_frame] in Hlen.
      pose proof (enc_seg_len flags xid ext data). lia.
  - (* potential *)
    destruct fr as [c|m].
    + unfold acc_len. rewrite rx_tmp_recv_contact. ep_cbn. fold (acc_len s). lia.
    + pose proof (acc_len_recv_msg m (s <| rx_buf := rest |> <| handled := handled s ++ [FMsg m] |>)) as Ha'.
      unfold acc_len at 2 in Ha'. ep_cbn_in Ha'. fold (acc_len s) in Ha'.
      destruct m; cbn [datalen] in Ha'; try lia. cbn [encode_frame] in Hlen.
      pose proof (enc_seg_len flags xid ext data). lia.
  - apply (pend_start_recv_frame (tx_ok (next_id s))). ep_cbn. exact W6.
  - intros it E. apply W7. destruct fr as [c|m].
    + rewrite tx_tmp_recv_contact in E. exact E.
    + destruct (tx_tmp_recv_msg m (s <| rx_buf := rest |> <| handled := handled s ++ [FMsg m] |>)) as [e|e];
        rewrite e in E; [exact E|discriminate E].
Qed.

Lemma W_step_o a b o s : a + 1 <= 2^64 -> W a b s -> op_ok o -> closed s = false -> not_rx o = true ->
  W (a + 1) b (step s o).
Proof.
  intros Ha (W1&W2&W3&W4&W5&W6&W7) Hok Hc Ho. unfold W.
  rewrite (cf_step_o o s Ho), (sent_step o s Hc Ho), (rx_buf_step_o o s Ho), (next_id_step_o o s Hc Ho).
  unfold acc_len. rewrite (rx_tmp_step_o o s Ho). fold (acc_len s).
  assert (Hn : next_id s <= match o with OSend _ => if in_term s then next_id s else next_id s + 1 | _ => next_id s end)
    by (destruct o; try lia; destruct (in_term s); lia).
  split; [exact W1|]. split; [|split; [exact W3|split; [exact W4|split; [destruct o; try lia; destruct (in_term s); lia|split]]]].
  - apply Forall_app. split; [exact W2|]. apply wf_out_op; try assumption. lia.
  - apply pend_start_step_o; [exact Ho| |].
    + eapply Forall_impl; [|exact W6]. intros it. apply tx_ok_mono, Hn.
    + intros d E Ht. subst o. rewrite Ht. cbn [op_ok] in Hok. destruct Hok as [H1 H2]. split; [cbn; lia|]. split; assumption.
  - intros it E. apply (tx_ok_mono (next_id s)); [exact Hn|].
    destruct (tx_tmp_step_o_origin o s it Ho E) as [E'|Hin]; [apply W7, E'|].
    rewrite Forall_forall in W6. apply W6, Hin.
Qed.

Lemma W_mono a b a' b' s : a <= a' -> (b <= b')%nat -> W a b s -> W a' b' s.
Proof.
  intros Ha Hb (W1&W2&W3&W4&W5&W6&W7). unfold W.
  split; [exact W1|]. split; [exact W2|]. split; [exact W3|]. split; [lia|]. split; [lia|]. split; assumption.
Qed.

Lemma W_upd a b s rb i t : W a b s -> wf_bytes rb -> (length rb + acc_len s <= b)%nat ->
  W a b (s <| t_recv := t |> <| idle_due := i |> <| rx_buf := rb |>).
Proof.
  intros (W1&W2&W3&W4&W5&W6&W7) H1 H2. unfold W, acc_len in *. ep_cbn.
  split; [exact W1|]. split; [exact W2|]. split; [exact H1|]. split; [exact H2|]. split; [exact W5|]. split; assumption.
Qed.

Lemma W_step a b o s : a + 1 <= 2^64 -> N.of_nat (b + rxlen o) < 2^64 ->
  W a b s -> op_ok o -> W (a + 1) (b + rxlen o) (step s o).
Proof.
  intros Ha Hb HW Hok.
  destruct (closed s) eqn:Hc.
  { rewrite step_closed by exact Hc. apply (W_mono a b); [lia|lia|]. destruct o; exact HW. }
  destruct (not_rx o) eqn:Ho.
  { apply (W_mono (a + 1) b); [lia|lia|]. apply W_step_o; assumption. }
  destruct o; try discriminate Ho. cbn [rxlen op_ok] in *. unfold step. rewrite Hc.
  destruct (is_nil data || negb (rx_alive s)); [apply (W_mono a b); [lia|lia|exact HW]|].
  assert (HP : W a (b + length data) (fst (recv_raw data s))).
  { unfold recv_raw. apply recv_loop_inv.
    - intros s1 fr rest H1 _ Hp. apply W_recv_frame; [lia|exact Hb|exact H1|exact Hp].
    - rewrite idle_reset_eq. ep_cbn.
      destruct HW as (W1&W2&W3&W4&W5&W6&W7). unfold W, acc_len in *. ep_cbn.
      split; [exact W1|]. split; [exact W2|]. split; [apply wf_bytes_app; split; assumption|].
      split; [rewrite app_length; lia|]. split; [exact W5|]. split; assumption. }
  apply (W_mono a (b + length data)); [lia|lia|].
  destruct (recv_raw data s) as [s' [k|]]; cbn [fst] in HP; [|exact HP]. exact HP.
Qed.

Lemma rx_total_snoc ops o : rx_total (ops ++ [o]) = (rx_total ops + rxlen o)%nat.
Proof. induction ops as [|x ops IH]; cbn [app rx_total fold_right]; [lia|]. fold (rx_total (ops ++ [o])). fold (rx_total ops). lia. Qed.

Lemma W_run c ops : cfg_ok c -> Forall op_ok ops ->
  1 + N.of_nat (length ops) <= 2^64 -> N.of_nat (rx_total ops) < 2^64 ->
  W (1 + N.of_nat (length ops)) (rx_total ops) (run c ops).
Proof.
  intros Hc. induction ops as [|o ops IH] using rev_ind; intros Hok Hl Hr.
  - unfold W, init, run. cbn. split; [exact Hc|]. repeat split; try constructor; try lia; try (intros; discriminate).
  - apply Forall_app in Hok. destruct Hok as [Hok Ho]. inversion Ho as [|x y Hox _]. subst.
    rewrite app_length, Nat.add_1_r, Nat2N.inj_succ in *. rewrite rx_total_snoc in *. rewrite run_snoc.
    replace (1 + N.succ (N.of_nat (length ops))) with (1 + N.of_nat (length ops) + 1) by lia.
    apply W_step; [lia|exact Hr| |exact Hox]. apply IH; [exact Hok|lia|lia].
Qed.

(** Every frame sent is well formed, provided the configuration fits the field
    widths (keepalive < 2^16, segment MRU < 2^64, node id shorter than 2^16
    octets), every read delivers octets (< 256), every terminate() reason is an
    octet, every bundle handed over is made of octets and shorter than 2^64,
    fewer than 2^64 operations are performed (transfer ids) and fewer than 2^64
    octets are received (acknowledged lengths). *)
Theorem sent_wf c ops : cfg_ok c -> Forall op_ok ops ->
  1 + N.of_nat (length ops) <= 2^64 -> N.of_nat (rx_total ops) < 2^64 ->
  Forall wf_frame (sent (run c ops)).
Proof. intros H1 H2 H3 H4. destruct (W_run c ops H1 H2 H3 H4) as (_&H&_). exact H. Qed.
