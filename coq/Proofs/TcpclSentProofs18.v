(** TCPCL endpoint model: closing the connection reports the transfers that were
    queued but never started; a closed endpoint has none left. *)
From Coq Require Import ZArith NArith List Bool Lia ZifyBool ZifyN ZifyNat Arith.
From RecordUpdate Require Import RecordSet.
From DTN Require Import Lib.Bytes Model.TcpclMsg Model.TcpclSess Proofs.TcpclSessBasics
  Proofs.TcpclSentProofs1 Proofs.TcpclSentProofs2 Proofs.TcpclSentProofs3 Proofs.TcpclSentProofs4
  Proofs.TcpclSentProofs5 Proofs.TcpclSentProofs6 Proofs.TcpclSentProofs7 Proofs.TcpclSentProofs12.
Import ListNotations RecordSetNotations.
Ltac Zify.zify_post_hook ::= Z.div_mod_to_equations.
Local Open Scope N_scope.

(** One close that takes effect: the queue of unstarted transfers is emptied,
    their ids leave the transmit map, and each gets SigSendFinished
    [id; 0; "session terminating"] before the socket-closed event. *)
Theorem close_reports_unstarted s : closed s = false ->
  pend_start (do_close s) = []
  /\ tx_map (do_close s) = fold_left (fun m it => dict_del (fst it) m) (pend_start s) (tx_map s)
  /\ trace (do_close s)
     = trace s ++ map (fun it => ESig SigSendFinished [PStrNum (fst it); PInt 0; PStr RES_TERMINATING]) (pend_start s)
               ++ [EClosed]
  /\ closed (do_close s) = true.
Proof.
  intros Hc. rewrite do_close_eq. ep_cbn. unfold close_pend, close_txmap, close_trace. rewrite Hc.
  repeat split; reflexivity.
Qed.

Lemma closed_pend_recv_frame f s : closed s = false ->
  closed (fst (recv_frame f s)) = true -> pend_start (fst (recv_frame f s)) = [].
Proof.
  intros Hc. hm_unfold. destruct f as [c|m]; [|destruct m]; p_split; unfold close_pend; p_split;
    rewrite ?Hc; intros H; try reflexivity; try congruence.
Qed.

Lemma closed_pend_step_o o s : closed s = false -> not_rx o = true ->
  closed (step s o) = true -> pend_start (step s o) = [].
Proof.
  intros Hc Ho. destruct o; try discriminate Ho; st_unfold; rewrite ?Hc; p_split; unfold close_pend; p_split;
    rewrite ?Hc; intros H; try reflexivity; try congruence.
Qed.

Definition Cz (s : ep) : Prop := closed s = true -> pend_start s = [].

Lemma Cz_step s o : Cz s -> Cz (step s o).
Proof.
  revert s o. apply (step_inv Cz).
  - intros s dt H. exact H.
  - intros s o _ Hc Ho. unfold Cz. apply closed_pend_step_o; assumption.
  - intros s fr rest _ Hc _. unfold Cz. apply closed_pend_recv_frame. ep_cbn. exact Hc.
  - intros s b i t H. exact H.
  - intros s k H. exact H.
Qed.

(** In every reachable closed state no transfer is left queued-but-unstarted,
    and every transfer id ever returned by send_bundle_data has a
    SigSendFinished in the trace or is still in the transmit map (its first
    segment was sent: it is not in the queue of unstarted transfers, which is
    empty). *)
Theorem closed_nothing_unstarted_unreported c ops : let s := run c ops in
  closed s = true ->
  pend_start s = []
  /\ forall id, In (ERet 1 (PStrNum id)) (trace s) ->
       (exists args, In (ESig SigSendFinished (PStrNum id :: args)) (trace s))
       \/ (In id (map fst (tx_map s)) /\ ~ In id (map fst (pend_start s))).
Proof.
  cbv zeta. intros Hc.
  assert (Hz : pend_start (run c ops) = []).
  { apply (run_invariant Cz); [intros H; discriminate H|intros s o; apply Cz_step|exact Hc]. }
  split; [exact Hz|]. intros id Hin. destruct (queued_never_dropped c ops id Hin) as [H|H]; [right|left; exact H].
  split; [exact H|]. rewrite Hz. intros [].
Qed.
