''' C06 -- Fragments reassemble to the original bundle once, in any arrival order.

  1. proofs: coq/Props/C06.v (no delivery while an octet is missing; at most one delivery and it is right; exactly
     one delivery for covers with pairwise distinct offsets; the `_refuted` witness for unrestricted overlapping
     covers; no mixing between identities; buffer invariant) re-checked by coqc on every run;
  2. correspondence of coq/Model/BpReasm.v with the real code: every generated arrival history is fed, fragment
     by fragment, as encoded bundle octets (independent cbor2 encoder of harness/bpdrive.py, valid CRCs) to the real
     `bp.agent.Agent.recv_bundle` under the virtual GLib loop (idle sources drained after every fragment) and, as a
     list of [Intact (mkf ..)] / [Damaged (mkf ..)] terms, to `BpReasm.run_render_arr` under vm_compute.  Histories also
     contain DAMAGED copies of fragments (payload octet flipped, extension-block CRC wrong, primary-block CRC wrong; the
     primary block's fields stay readable) before and after the intact copy: they must contribute nothing and suppress
     nothing ([C06_damaged_noop]).  Compared after EVERY fragment: the outcome
     class (ignored as already seen / absorbed / reassembled and delivered / reassembled but the whole bundle had been
     seen / error), the bundles that reached an application step of the receive chain (identity, payload octets,
     extension blocks) and the complete reassembly table (key, total, valid interval set, buffer octets, first
     fragment present);
  3. the property oracle, written from the property text over the implementation's observations only: at most one
     delivery per bundle, payload equal to the original, fragment flag cleared, extension blocks equal to those of the
     offset-0 fragment, nothing delivered before the arrived fragments cover the payload, exactly one delivery once
     they do, deliveries and table entries only for identities that arrived and every table buffer agreeing with its
     own bundle's payload on the offsets marked valid (no mixing).
'''
import env  # noqa: F401  (first)
env.shim_oscrypto()

import glob
import itertools
import json
import multiprocessing
import os
import re
import subprocess
import sys
import time

from common import BUILD, COQ, Check, CoqError, VERIF, coq_bytes, mkdata, parse_coq_value
import bpdrive

SIG_SAMEOFF = ('C06 / recv_bundle identity of a fragment omits its payload length: a fragment with the same offset and total '
               'but a different length is dropped as already seen and a covered bundle is never delivered')
# Genuine defect of the unchanged code, recorded in /verif/known_findings.json under exactly this signature (witness
# harness/corpus/C06_same_offset.json = Coq theorem C06_complete_once_refuted).  It goes through chk.fail(): while the
# entry is listed as known it prints KNOWN-FINDING, any other loss / duplication / mixing is a VIOLATION.  The oracle
# uses this signature only when the arrived fragments of the undelivered bundle contain two with the same offset and
# different lengths.

PHASES = []      # (phase, wall seconds) of this run, printed and written to the evidence
NODE = 'dtn://me/'
DEST = 'dtn://me/app'


def src_eid(idx):
    return 'dtn://s%d/' % idx


# ---------------------------------------------------------------------------------------------- cases
#
# case = dict(bundles=[dict(id=[src, time, seq], payload=hex)],
#             frags=[dict(b=bundle index, off, data=hex, total, blocks=[[type, num, hex]])],
#             hist=[arrival ...], kind=str)
# arrival = fragment index (an intact, CRC-valid copy)  or  [fragment index, damage] for a DAMAGED copy of it:
#   'p' an octet of the payload flipped (payload block CRC fails), 'x' CRC of the first extension block wrong,
#   'h' CRC of the primary block wrong; in all three the primary block's fields are still readable.

def hitem(item):
    ''' -> (fragment index, damage or None) '''
    if isinstance(item, (list, tuple)):
        return (item[0], item[1])
    return (item, None)


def intact(case):
    ''' fragment indices of the CRC-valid arrivals, in order '''
    return [item for item in case['hist'] if not isinstance(item, (list, tuple))]


def encode_arrival(case, item):
    (fidx, damage) = hitem(item)
    spec = frag_spec(case, fidx)
    if damage is None:
        return bpdrive.encode_bundle(spec)
    if damage == 'x' and not spec['blocks']:
        damage = 'p'
    if damage == 'p' and len(spec['payload']) == 0:
        return bpdrive.encode_bundle(dict(spec, bad_crc={1}))
    if damage == 'p':
        # ... payload bstr | 0x44 crc32 (4 octets) | 0xff : flip the last payload octet, leave the CRC as computed
        raw = bytearray(bpdrive.encode_bundle(spec))
        raw[len(raw) - 7] ^= 0x20
        return bytes(raw)
    if damage == 'x':
        return bpdrive.encode_bundle(dict(spec, bad_crc={spec['blocks'][0]['num']}))
    return bpdrive.encode_bundle(dict(spec, bad_crc={0}))


def frag_spec(case, fidx):
    frag = case['frags'][fidx]
    (src, time, seq) = case['bundles'][frag['b']]['id']
    return dict(dest=DEST, src=src_eid(src), time=time, seq=seq, frag=(frag['off'], frag['total']),
                payload=bytes.fromhex(frag['data']), crc=frag.get('crc', 2),
                blocks=[dict(type=blk[0], num=blk[1], data=bytes.fromhex(blk[2])) for blk in frag['blocks']])


def consistent(case, item):
    ''' The fragment is a true slice of its bundle's payload with the right total. '''
    frag = case['frags'][hitem(item)[0]]
    pay = bytes.fromhex(case['bundles'][frag['b']]['payload'])
    data = bytes.fromhex(frag['data'])
    return frag['total'] == len(pay) and frag['off'] + len(data) <= len(pay) and pay[frag['off']:frag['off'] + len(data)] == data


# ---------------------------------------------------------------------------------------------- real code

def run_impl(case):
    ''' One history through a fresh real agent. -> list of per-fragment observations. '''
    drv = bpdrive.BpDriver(node_id=NODE, rx_routes=[('^dtn://me/.*', 'deliver')], tx_routes=[], capture_order=None)
    log = []

    def app_step(ctr):
        # what an application handler sees (AbstractApplication._recv_for tests exactly this)
        if 'deliver' not in ctr.actions:
            return False
        pri = ctr.bundle.primary
        pay = ctr.block_num(1).getfieldval('btsd')
        log.append(dict(src=pri.source, time=int(pri.create_ts.getfieldval('dtntime')), seq=int(pri.create_ts.getfieldval('seqno')),
                        flags=int(pri.getfieldval('bundle_flags')), dest=pri.destination,
                        payload=bytes(pay if pay is not None else b'').hex(),
                        blocks=[[int(blk.getfieldval('type_code')), int(blk.getfieldval('block_num')),
                                 bytes(blk.getfieldval('btsd') or b'').hex()]
                                for blk in ctr.bundle.blocks if blk.getfieldval('block_num') != 1]))
        return False
    # order 30 = the application handlers' order; inserted first so that the stable sort keeps it ahead of them
    drv.agent._rx_chain.insert(0, drv.bp_util.ChainStep(order=30, name='C06 recording application', action=app_step))
    drv.agent._rx_chain.sort()
    srcnum = {src_eid(bun['id'][0]): bun['id'][0] for bun in case['bundles']}
    out = []
    def seen_size():
        # private state, used only to tell "ignored as already seen" from "absorbed"; None if it is not there any more
        seen = getattr(drv.agent, '_seen_bundle_ident', None)
        return len(seen) if seen is not None else None

    def table_now():
        # the reassembly table (the property's second observable); None if it cannot be read any more
        try:
            table = []
            for (key, ent) in drv.agent._app['fragment']._reassembly.items():
                first = ent.first_frag
                first_len = None
                if first is not None:
                    first_len = len(bytes(bpdrive_payload(first)))
                key = key if isinstance(key, tuple) else (key,)
                table.append([[srcnum.get(part, part if isinstance(part, int) else -1) for part in key], int(ent.total_length),
                              [[int(atom.lower), int(atom.upper)] for atom in ent.valid], bytes(ent.data).hex(), first_len])
            table.sort()
            return table
        except (AttributeError, KeyError, TypeError, ValueError):
            return None

    for item in case['hist']:
        seen_before = seen_size()
        mark = len(log)
        obs = drv.recv(encode_arrival(case, item))
        delivered = log[mark:]
        calls = obs['actions']
        if obs['decode_error'] or obs['recv_exc'] or obs['escaped']:
            code = 90
        elif seen_before is not None and seen_size() == seen_before:
            code = 0
        elif len(calls) >= 2:
            code = 2 if delivered else 3
        elif calls and 'deliver' in calls[0]:
            code = 4            # the reassembly step raised: chain aborted with the actions still recorded
        else:
            code = 1
        table = table_now()
        # the driver keeps every container / event of its lifetime: not needed here, and a long history would hoard them
        for keep in (drv.recv_calls, drv.events, drv.deliveries, drv.transmitted, drv.send_attempts):
            del keep[:]
        out.append(dict(code=code, no_seen=seen_before is None, exc=[obs['decode_error'], obs['recv_exc'], obs['escaped']] if code == 90 else None,
                        delivered=[dict(item, id=[srcnum.get(item['src'], -1), item['time'], item['seq']]) for item in delivered],
                        table=table))
    return out


def bpdrive_payload(bundle):
    for blk in bundle.blocks:
        if blk.getfieldval('block_num') == 1:
            return blk.getfieldval('btsd') or b''
    return b''


def _impl_worker(case):
    try:
        return run_impl(case)
    except Exception as err:  # a crash of the driver is reported, not swallowed
        return dict(harness_error='%s: %s' % (err.__class__.__name__, err))


def run_impl_many(cases):
    if len(cases) < 8:
        return [_impl_worker(case) for case in cases]
    # import the code under test once, before forking the workers
    bpdrive.BpDriver(node_id=NODE, rx_routes=[], tx_routes=[], capture_order=None)
    ctx = multiprocessing.get_context('fork')
    with ctx.Pool(16) as pool:
        return pool.map(_impl_worker, cases, chunksize=8)


# ---------------------------------------------------------------------------------------------- model

def coq_hex(data):
    data = bytes.fromhex(data)
    return '%d%%nat 0x%s' % (len(data), data.hex() or '0')


def coq_frag(case, fidx):
    # compact terms (mkf / bk of Model/BpReasm.v, `::` instead of list notation): parsing dominates the model run
    frag = case['frags'][fidx]
    (src, time, seq) = case['bundles'][frag['b']]['id']
    blocks = ''.join('(bk %d %d %s) :: ' % (blk[0], blk[1], coq_hex(blk[2])) for blk in frag['blocks'])
    return '(mkf %d %d %d %d %d %s (%snil))' % (src, time, seq, frag['off'], frag['total'], coq_hex(frag['data']), blocks)


def coq_case(case):
    return '(' + ''.join('(%s %s) :: ' % ('Intact' if hitem(item)[1] is None else 'Damaged', coq_frag(case, hitem(item)[0]))
                         for item in case['hist']) + '@nil arrival)'


MODEL_FUNC = '(BpReasm.run_render_arr BpReasm.init)'


def canon_entry(item):
    # (id, total, valid, buf, None)  or, because "Some n" is parsed as two items, (id, total, valid, buf, 'Some', n)
    (ident, total, valid, buf) = item[:4]
    first = item[5] if len(item) == 6 else None
    return [list(ident), total, [list(pair) for pair in valid], bytes(buf).hex(), first]


def canon_model(res):
    out = []
    for (code, dels, table) in res:
        out.append(dict(
            code=(0 if code == 5 else code),     # discarded for an invalid CRC: observed like "ignored" (no trace at all)
            delivered=[dict(id=list(ident), payload=bytes(pay).hex(), blocks=[[blk[0], blk[1], bytes(blk[2]).hex()] for blk in blocks])
                       for (ident, pay, blocks) in dels],
            table=sorted(canon_entry(item) for item in table)))
    return out


def canon_impl(obs):
    return [dict(code=step['code'],
                 delivered=[dict(id=item['id'], payload=item['payload'], blocks=item['blocks']) for item in step['delivered']],
                 table=step['table']) for step in obs]


def degrade(obs, want):
    """ If the implementation's private state could not be read (a refactoring renamed it), compare what is left:
    drop the table and/or merge the outcome classes 0 (ignored as seen) and 1 (absorbed) on the model side. """
    no_table = any(step['table'] is None for step in obs)
    no_seen = any(step.get('no_seen') for step in obs)
    if not (no_table or no_seen):
        return (want, False)
    out = []
    for step in want:
        step = dict(step)
        if no_table:
            step['table'] = None
        if no_seen and step['code'] == 0:
            step['code'] = 1
        out.append(step)
    return (out, True)


# ---------------------------------------------------------------------------------------------- oracle

def covered(ranges, total):
    ''' Do the half-open ranges cover [0, total)?  (plain sweep; independent of portion / Ivl) '''
    pos = 0
    for (lo, hi) in sorted(ranges):
        if lo > pos:
            break
        pos = max(pos, hi)
    return pos >= total


def oracle(case, obs):
    ''' -> list of (signature, what).  Only for histories of consistent fragments. '''
    bad = []
    bundles = case['bundles']
    by_id = {tuple(bun['id']): idx for (idx, bun) in enumerate(bundles)}
    arrived = {idx: [] for idx in range(len(bundles))}     # bundle -> fragment indices arrived so far
    count = {idx: 0 for idx in range(len(bundles))}
    for (pos, (item, step)) in enumerate(zip(case['hist'], obs)):
        (fidx, damage) = hitem(item)
        frag = case['frags'][fidx]
        if damage is None:
            arrived[frag['b']].append(fidx)       # only a CRC-valid copy counts as arrived
        elif step['delivered']:
            bad.append(('C06 / a damaged copy (invalid CRC) causes a delivery', 'step %d: %r' % (pos, [d['id'] for d in step['delivered']])))
        if step['code'] == 90:
            bad.append(('C06 / exception escapes while receiving a fragment', 'step %d: %r' % (pos, step['exc'])))
        for item in step['delivered']:
            bidx = by_id.get(tuple(item['id']))
            if bidx is None:
                bad.append(('C06 / delivery with an identity that never arrived', 'step %d delivers %r' % (pos, item['id'])))
                continue
            count[bidx] += 1
            pay = bundles[bidx]['payload']
            ranges = [(case['frags'][idx]['off'], case['frags'][idx]['off'] + len(case['frags'][idx]['data']) // 2) for idx in arrived[bidx]]
            if not arrived[bidx] or not covered(ranges, len(pay) // 2):
                bad.append(('C06 / delivered while payload octets are still missing',
                            'step %d: bundle %r delivered with arrived ranges %r of %d octets' % (pos, item['id'], sorted(set(ranges)), len(pay) // 2)))
            if item['payload'] != pay:
                bad.append(('C06 / reassembled payload differs from the original',
                            'step %d: bundle %r payload %s expected %s' % (pos, item['id'], item['payload'][:80], pay[:80])))
            if item['flags'] & bpdrive.FLAG_IS_FRAGMENT:
                bad.append(('C06 / delivered bundle still flagged as fragment', 'step %d: flags %#x' % (pos, item['flags'])))
            firsts = [case['frags'][idx]['blocks'] for idx in arrived[bidx] if case['frags'][idx]['off'] == 0]
            if item['blocks'] not in firsts:
                bad.append(('C06 / extension blocks are not those of the first fragment',
                            'step %d: bundle %r blocks %r, offset-0 fragment(s) arrived carry %r' % (pos, item['id'], item['blocks'], firsts)))
            if count[bidx] > 1:
                bad.append(('C06 / bundle delivered more than once', 'step %d: delivery number %d of %r' % (pos, count[bidx], item['id'])))
        for (key, total, valid, buf, _first) in (step['table'] or []):
            bidx = by_id.get(tuple(key))
            if bidx is None:
                continue        # table keyed in a way this oracle does not understand: judge by the deliveries alone
            if not arrived[bidx]:
                bad.append(('C06 / reassembly entry for an identity that never arrived', 'step %d: key %r' % (pos, key)))
                continue
            pay = bytes.fromhex(bundles[bidx]['payload'])
            data = bytes.fromhex(buf)
            have = set()
            for idx in arrived[bidx]:
                have.update(range(case['frags'][idx]['off'], case['frags'][idx]['off'] + len(case['frags'][idx]['data']) // 2))
            for (lo, hi) in valid:
                for off in range(lo, hi):
                    if off not in have:
                        bad.append(('C06 / reassembly marks an octet valid that no fragment of this bundle carried',
                                    'step %d: key %r offset %d' % (pos, key, off)))
                        break
                    if off >= len(data) or off >= len(pay) or data[off] != pay[off]:
                        bad.append(('C06 / reassembly buffer differs from the bundle payload on a valid offset',
                                    'step %d: key %r offset %d buffer %s' % (pos, key, off, buf[:80])))
                        break
    for (bidx, fidxs) in arrived.items():
        if not fidxs:
            continue
        pay_len = len(bundles[bidx]['payload']) // 2
        ranges = [(case['frags'][idx]['off'], case['frags'][idx]['off'] + len(case['frags'][idx]['data']) // 2) for idx in fidxs]
        if covered(ranges, pay_len) and count[bidx] == 0:
            shapes = set((case['frags'][idx]['off'], len(case['frags'][idx]['data']) // 2) for idx in fidxs)
            offs = [off for (off, _len) in shapes]
            if len(offs) != len(set(offs)):
                sig = SIG_SAMEOFF
            else:
                sig = 'C06 / arrived fragments cover the payload but the bundle is never delivered'
            bad.append((sig, 'bundle %r: fragments (offset,length) in arrival order %r cover %d octets, 0 deliveries' % (
                bundles[bidx]['id'], [(case['frags'][idx]['off'], len(case['frags'][idx]['data']) // 2) for idx in fidxs], pay_len)))
    return bad


# ---------------------------------------------------------------------------------------------- generators

def payload_of(seed, length):
    # no zero octets: the reassembly buffer is zero-initialised, a zero in the payload would hide a missing octet
    return bytes((octet % 255) + 1 for octet in mkdata(seed, length))


def blocks_for(rng, tag, first):
    ''' Distinct extension blocks per fragment (private-use type codes, raw data). '''
    out = [[192, 2, bytes([tag, 1 if first else 0]).hex()]]
    if first or rng.random() < 0.5:
        out.append([193 + (tag % 3), 3, bytes([tag] * (tag % 4)).hex()])
    return out


def split_uniform(length, count):
    size = -(-length // count)
    return [(off, min(size, length - off)) for off in range(0, length, size)]


def split_uneven(rng, length, count):
    cuts = sorted(rng.sample(range(1, length), count - 1)) if count > 1 else []
    edges = [0] + cuts + [length]
    return [(edges[idx], edges[idx + 1] - edges[idx]) for idx in range(count)]


def split_overlap(rng, length, count):
    ''' Distinct offsets, every piece extended to the right over its successor(s). '''
    base = split_uneven(rng, length, count)
    out = []
    for (off, size) in base:
        extra = rng.randint(0, max(0, min(4, length - off - size)))
        out.append((off, size + extra))
    return out


def make_case(kind, bundle_defs, hist_builder, rng):
    ''' bundle_defs = [(id, payload bytes, [(off, len)] pieces)] '''
    bundles = []
    frags = []
    per_bundle = []
    for (bidx, (ident, pay, pieces)) in enumerate(bundle_defs):
        bundles.append(dict(id=list(ident), payload=pay.hex()))
        mine = []
        for (off, size) in pieces:
            tag = len(frags) + 1
            frags.append(dict(b=bidx, off=off, data=pay[off:off + size].hex(), total=len(pay),
                              blocks=blocks_for(rng, tag, off == 0)))
            mine.append(len(frags) - 1)
        per_bundle.append(mine)
    return dict(kind=kind, bundles=bundles, frags=frags, hist=hist_builder(per_bundle))


def sprinkle(rng, hist, count):
    ''' Insert `count` damaged copies of fragments of the history at random positions (before or after the intact copy). '''
    hist = list(hist)
    pool = [item for item in hist if not isinstance(item, list)]
    for _ in range(count if pool else 0):
        hist.insert(rng.randrange(len(hist) + 1), [rng.choice(pool), rng.choice('pxh')])
    return hist


def interleave(rng, seqs):
    ''' Merge sequences keeping each one's internal order. '''
    seqs = [list(seq) for seq in seqs if seq]
    out = []
    while seqs:
        pick = rng.randrange(len(seqs))
        out.append(seqs[pick].pop(0))
        if not seqs[pick]:
            seqs.pop(pick)
    return out


IDS = [(1, 1000, 0), (1, 1000, 1), (2, 1000, 0), (1, 1001, 0)]   # same source other seq, other source, other time


def gen_cases(chk):
    rng = chk.rng
    cases = []
    quick = chk.quick()
    # A. exhaustive: every arrival order of <= 5 fragments (uniform, uneven, overlapping with distinct offsets)
    for count in range(1, 6 if quick else 8):
        length = 10 + count if count <= 5 else 3 * count
        pay = payload_of(count, length)
        variants = [('uniform', split_uniform(length, count)), ('uneven', split_uneven(rng, length, count)),
                    ('overlap', split_overlap(rng, length, count))]
        for (vname, pieces) in variants:
            if len(pieces) != count:
                continue
            for perm in itertools.permutations(range(count)):
                cases.append(make_case('perm/' + vname, [(IDS[0], pay, pieces)], lambda per, perm=perm: [per[0][idx] for idx in perm], rng))
                if count > 5:
                    continue        # thorough tier: 6 and 7 fragments, plain permutations only
                # one duplicate of a fragment chosen in turn, re-sent at a later position
                dup = perm[rng.randrange(count)]
                where = rng.randrange(perm.index(dup) + 1, count + 1)
                hist = list(perm[:where]) + [dup] + list(perm[where:])
                cases.append(make_case('perm+dup/' + vname, [(IDS[0], pay, pieces)], lambda per, hist=hist: [per[0][idx] for idx in hist], rng))
                if True:   # (kept as a block: every permutation is also interleaved)
                    # interleaved with a second bundle (same source, next sequence number / other source / other time)
                    other = IDS[1 + rng.randrange(3)]
                    pay2 = payload_of(100 + count, 9 + rng.randrange(4))
                    count2 = rng.randint(1, 3)
                    pieces2 = split_uneven(rng, len(pay2), count2)
                    order2 = list(range(count2))
                    rng.shuffle(order2)
                    cases.append(make_case('perm+2bundles/' + vname, [(IDS[0], pay, pieces), (other, pay2, pieces2)],
                                           lambda per, perm=perm, order2=order2: interleave(
                                               rng, [[per[0][idx] for idx in perm], [per[1][idx] for idx in order2]]), rng))
    # B. every single and double duplication pattern of all orders of 3 fragments
    pay = payload_of(7, 12)
    pieces = split_uneven(rng, 12, 3)
    for perm in itertools.permutations(range(3)):
        for dups in itertools.product(range(3), repeat=2):
            for places in ((1, 2), (2, 4), (3, 5), (5, 5)):
                hist = list(perm)
                for (dup, place) in zip(dups, places):
                    hist.insert(min(place, len(hist)), dup)
                cases.append(make_case('3frags+2dups', [(IDS[0], pay, pieces)], lambda per, hist=hist: [per[0][idx] for idx in hist], rng))
    # C. random larger histories: up to 4 bundles, up to 10 fragments each, overlaps with distinct offsets,
    #    duplicates, fragments arriving after completion
    for num in range(400 if quick else 6000):
        nb = rng.randint(1, 4)
        defs = []
        for bidx in range(nb):
            length = rng.choice([1, 2, 5, 17, 23, 24, 25, 40, 64])
            count = rng.randint(1, min(10, length))
            mode = rng.randrange(3)
            pieces = (split_uniform(length, count) if mode == 0 else split_uneven(rng, length, count) if mode == 1
                      else split_overlap(rng, length, count))
            if rng.random() < 0.2:
                pieces.append((length, 0))        # an empty fragment at the very end (its own offset)
            defs.append((IDS[bidx], payload_of(1000 + num * 7 + bidx, length), pieces))

        def build(per):
            seqs = []
            for mine in per:
                order = list(mine)
                rng.shuffle(order)
                for _ in range(rng.randint(0, 3)):
                    order.insert(rng.randrange(len(order) + 1), rng.choice(mine))
                if rng.random() < 0.15 and len(order) > 1:
                    order = order[:rng.randrange(1, len(order))]   # incomplete: must never be delivered
                seqs.append(order)
            merged = interleave(rng, seqs)
            return sprinkle(rng, merged, rng.randint(1, 4)) if rng.random() < 0.4 else merged
        cases.append(make_case('random', defs, build, rng))
    # G. damaged copies: every order of 3 fragments x a damaged copy of each fragment x kind of damage x position
    #    (first of all, right before the intact copy, right after it, last of all)
    pay = payload_of(11, 12)
    pieces = split_uneven(rng, 12, 3)
    for perm in itertools.permutations(range(3)):
        for victim in range(3):
            for damage in 'pxh':
                for place in range(4):
                    at = perm.index(victim)
                    where = [0, at, at + 1, 3][place]
                    hist = list(perm[:where]) + [[victim, damage]] + list(perm[where:])
                    cases.append(make_case('damaged-copy', [(IDS[0], pay, pieces)],
                                           lambda per, hist=hist: [[per[0][it[0]], it[1]] if isinstance(it, list) else per[0][it] for it in hist], rng))
    # D. same offset, different lengths (two fragmentations of one bundle mixed): the known-finding class
    for num in range(24 if quick else 300):
        length = rng.choice([10, 16, 30])
        pay = payload_of(5000 + num, length)
        cut_a = rng.randrange(2, length - 1)
        cut_b = rng.choice([cut for cut in range(1, length) if cut != cut_a])
        if num % 2:
            # both fragmentations complete
            pieces = [(0, cut_a), (cut_a, length - cut_a), (0, cut_b), (cut_b, length - cut_b)]
        else:
            # the rest of the fragmentation with the SHORTER first fragment was lost on the way
            (short, long) = sorted((cut_a, cut_b))
            pieces = [(0, short), (0, long), (long, length - long), (long, length - long)]
        order = list(range(4))
        rng.shuffle(order)
        cases.append(make_case('two-fragmentations', [(IDS[0], pay, pieces)], lambda per, order=order: [per[0][idx] for idx in order], rng))
    return cases


def make_long(count, seed, mids=6, dmg=97):
    """ One long history for ONE agent: a first fragmented bundle (3 fragments) is delivered, then `count` other
    two-fragment bundles (neighbours interleaved), then every fragment of the first bundle and of `mids` bundles spread
    over the history (the earliest ones included) is sent again.  Deterministic from (count, seed). """
    import random
    rng = random.Random(seed)
    defs = [((1, 900, 0), payload_of(seed, 12), split_uneven(rng, 12, 3))]
    for idx in range(1, count + 1):
        length = 6 + idx % 5
        defs.append(((1 + idx % 3, 2000 + idx // 64, idx), payload_of(seed + idx, length), split_uneven(rng, length, 2)))
    bundles = []
    frags = []
    per = []
    for (bidx, (ident, pay, pieces)) in enumerate(defs):
        bundles.append(dict(id=list(ident), payload=pay.hex()))
        mine = []
        for (off, size) in pieces:
            frags.append(dict(b=bidx, off=off, data=pay[off:off + size].hex(), total=len(pay),
                              blocks=[[192, 2, bytes([bidx % 251, 1 if off == 0 else 0]).hex()]]))
            mine.append(len(frags) - 1)
        per.append(mine)
    first = list(per[0])
    rng.shuffle(first)
    hist = list(first)
    idx = 1
    while idx <= count:
        group = [list(per[idx])]
        if idx + 1 <= count and rng.random() < 0.5:
            group.append(list(per[idx + 1]))
        for lst in group:
            rng.shuffle(lst)
        if dmg and idx % dmg == 5:
            hist.append([group[0][0], 'pxh'[(idx // dmg) % 3]])      # a damaged copy ahead of the intact one
        hist.extend(interleave(rng, group))
        idx += len(group)
    again = [0] + sorted(set([1, 2] + [1 + (count - 1) * step // max(1, mids - 2) for step in range(mids - 1)]))
    for bidx in again:
        if bidx <= count:
            resend = list(per[bidx])
            rng.shuffle(resend)
            hist.extend(resend)
    return dict(kind='long', long_spec=dict(count=count, seed=seed, mids=mids, dmg=dmg), bundles=bundles, frags=frags, hist=hist)


def gen_malformed(chk):
    ''' Inconsistent fragments: correspondence only (outside the property's quantifier). '''
    rng = chk.rng
    cases = []
    for num in range(60 if chk.quick() else 1500):
        length = rng.choice([6, 10, 16])
        pay = payload_of(9000 + num, length)
        frags = []
        for fnum in range(rng.randint(1, 5)):
            off = rng.randrange(0, length + 3)
            size = rng.randrange(0, 6)
            total = rng.choice([length, length, length + 2, max(0, length - 3), 0])
            data = (pay + bytes([0xEE] * 12))[off:off + size]
            frags.append(dict(b=0, off=off, data=data.hex(), total=total, blocks=blocks_for(rng, fnum + 1, off == 0)))
        hist = list(range(len(frags)))
        rng.shuffle(hist)
        hist += [rng.randrange(len(frags))]
        cases.append(dict(kind='malformed', bundles=[dict(id=list(IDS[0]), payload=pay.hex())], frags=frags, hist=hist))
    # fixed ones: zero total with and without offset, growth past the buffer
    pay = payload_of(1, 10)
    fixed = [
        [dict(off=0, data='', total=0)],
        [dict(off=3, data='', total=0)],
        [dict(off=0, data=pay[:5].hex(), total=6), dict(off=8, data=pay[8:].hex(), total=10), dict(off=4, data=pay[4:8].hex(), total=10)],
        [dict(off=0, data=pay[:5].hex(), total=10), dict(off=5, data=pay[5:].hex(), total=12)],
        # the same bundle announced with two totals: reassembled twice, the second one is suppressed as already seen
        [dict(off=0, data=pay[:5].hex(), total=10), dict(off=5, data=pay[5:].hex(), total=10),
         dict(off=0, data=pay[:6].hex(), total=12), dict(off=6, data=(pay[6:] + b'\x55\x66').hex(), total=12)],
    ]
    for frs in fixed:
        cases.append(dict(kind='malformed', bundles=[dict(id=list(IDS[0]), payload=pay.hex())],
                          frags=[dict(b=0, blocks=[], **item) for item in frs], hist=list(range(len(frs)))))
    return cases


# ---------------------------------------------------------------------------------------------- running

def nontrivial(case):
    ''' >= 2 distinct fragments of one bundle arrive intact, and the history is out of offset order, or repeats a
    fragment, or mixes identities, or contains a damaged copy. '''
    damaged = len(case['hist']) - len(intact(case))
    hist = intact(case)
    per = {}
    for fidx in hist:
        per.setdefault(case['frags'][fidx]['b'], []).append(fidx)
    if not any(len(set(lst)) >= 2 for lst in per.values()):
        return False
    offs = [case['frags'][fidx]['off'] for fidx in hist]
    return len(per) > 1 or len(set(hist)) < len(hist) or offs != sorted(offs) or damaged > 0


class LongRun(object):
    ''' The long histories run beside the other suites: the real agent in a forked worker, the model in a coqc process
    started here (same file format as Check.coq_eval); results are collected and judged at the end. '''

    def __init__(self, chk, cases_with_model, cases_oracle_only):
        self.chk = chk
        self.started = time.time()
        self.cases = list(cases_with_model) + list(cases_oracle_only)
        self.with_model = len(cases_with_model)
        bpdrive.BpDriver(node_id=NODE, rx_routes=[], tx_routes=[], capture_order=None)   # imports, before forking
        self.pool = multiprocessing.get_context('fork').Pool(max(1, len(self.cases)))
        self.impl = [self.pool.apply_async(_impl_worker, (case,)) for case in self.cases]
        self.procs = []
        shard_dir = os.path.join(BUILD, 'cases')
        os.makedirs(shard_dir, exist_ok=True)
        for (idx, case) in enumerate(cases_with_model):
            path = os.path.join(shard_dir, 'cases_C06_long_%d.v' % idx)
            with open(path, 'w') as out:
                out.write('From Coq Require Import List NArith.\nImport ListNotations.\n'
                          'From DTN Require Import Lib.Bytes Lib.Ivl Model.BpReasm.\n'
                          'Set Printing Depth 100000000.\nSet Printing Width 2000.\nLocal Open Scope N_scope.\n')
                out.write('Definition c0 := %s.\nEval vm_compute in (%s c0).\n' % (coq_case(case), MODEL_FUNC))
            outfile = open(path + '.out', 'w')
            cmd = ['timeout', '3000', 'coqc', '-Q', COQ, 'DTN', path]
            chk.checker_cmds.append('coqc -Q coq DTN build/cases/cases_C06_long_%d.v  (1 history of %d fragments, Eval vm_compute)' % (idx, len(case['hist'])))
            self.procs.append((subprocess.Popen(cmd, cwd=shard_dir, stdout=outfile, stderr=subprocess.STDOUT), outfile, path))

    def impl_only(self):
        impl = [item.get() for item in self.impl]
        self.pool.close()
        for (proc, outfile, _path) in self.procs:
            proc.kill()
            outfile.close()
        return impl

    def collect(self):
        ''' -> (impl observations, model results or None per case) '''
        impl = [item.get() for item in self.impl]
        self.pool.close()
        PHASES.append(('impl:long (beside the other suites)', round(time.time() - self.started, 1)))
        model = []
        for (proc, outfile, path) in self.procs:
            ret = proc.wait()
            outfile.close()
            with open(path + '.out') as infile:
                text = infile.read()
            if ret != 0:
                raise CoqError('model evaluation failed for %s: %s' % (os.path.basename(path), Check._first_error(text)))
            parts = re.split(r'^\s*= ', text, flags=re.M)[1:]
            if len(parts) != 1:
                raise CoqError('expected 1 result, got %d in %s' % (len(parts), path))
            model.append(parse_coq_value(parts[0]))
            for ext in ('.v', '.v.out', '.vo', '.glob', '.vok', '.vos'):
                try:
                    os.unlink(path[:-2] + ext)
                except OSError:
                    pass
            try:
                os.unlink(os.path.join(os.path.dirname(path), '.' + os.path.basename(path)[:-2] + '.aux'))
            except OSError:
                pass
        PHASES.append(('model:long (beside the other suites)', round(time.time() - self.started, 1)))
        return (impl, model + [None] * (len(self.cases) - self.with_model))


def evaluate(chk, cases, name, with_oracle=True, with_model=True):
    ''' Implementation, model and oracle on a list of cases. -> list of disagreement descriptions '''
    started = time.time()
    impl = run_impl_many(cases)
    PHASES.append(('impl:' + name, round(time.time() - started, 1)))
    model = None
    if with_model:
        started = time.time()
        model = chk.coq_eval(name, ['Lib.Ivl', 'Model.BpReasm'], [coq_case(case) for case in cases],
                             MODEL_FUNC, chunk=min(400, max(40, -(-len(cases) // 16))),
                             timeout=900 if chk.quick() else 3000)
        PHASES.append(('model:' + name, round(time.time() - started, 1)))
    return judge(chk, cases, impl, model, with_oracle)


def judge(chk, cases, impl, model, with_oracle=True):
    ''' Compare implementation and model (model None, or None per case = not evaluated) and run the oracle. '''
    crashed = [(case, obs) for (case, obs) in zip(cases, impl) if isinstance(obs, dict)]
    if crashed:
        raise RuntimeError('driver failure: %s on %s' % (crashed[0][1]['harness_error'], json.dumps(crashed[0][0])[:400]))
    diffs = []
    for (pos, (case, obs)) in enumerate(zip(cases, impl)):
        if 'long_spec' in case:
            chk.case(ident=('long', json.dumps(case['long_spec'], sort_keys=True)), nontrivial=True,
                     sample=dict(kind='long', long_spec=case['long_spec'], bundles=len(case['bundles']), fragments_received=len(case['hist']),
                                 deliveries=sum(len(step['delivered']) for step in obs),
                                 ignored_as_seen=sum(1 for step in obs if step['code'] == 0)))
            chk.count('long_history_fragments', len(case['hist']))
            if not any(isinstance(item, dict) and item.get('kind') == 'long' for item in chk.samples):
                chk.samples[-1] = dict(kind='long', long_spec=case['long_spec'], bundles=len(case['bundles']),
                                       fragments_received=len(case['hist']),
                                       deliveries=sum(len(step['delivered']) for step in obs),
                                       ignored_as_seen=sum(1 for step in obs if step['code'] == 0))
        else:
            chk.case(ident=json.dumps(case, sort_keys=True), nontrivial=nontrivial(case),
                 sample=dict(kind=case['kind'], bundles=case['bundles'],
                             arrival=[[case['frags'][hitem(f)[0]]['b'], case['frags'][hitem(f)[0]]['off'],
                                       len(case['frags'][hitem(f)[0]]['data']) // 2] + ([hitem(f)[1]] if hitem(f)[1] else [])
                                      for f in case['hist']],
                             delivered=[[step['code'], [d['id'] for d in step['delivered']]] for step in obs]) if (pos % 211 == 5 and nontrivial(case)) else None)
        chk.count('kind', case['kind'])
        replay_obj = dict(long_spec=case['long_spec']) if 'long_spec' in case else case
        chk.count('history_length', len(case['hist']) if len(case['hist']) < 12 else '>=12')
        chk.count('bundles_interleaved', len(set(case['frags'][hitem(f)[0]]['b'] for f in case['hist'])))
        for item in case['hist']:
            chk.count('arrival', {None: 'intact', 'p': 'damaged-payload-octet', 'x': 'damaged-extension-block-crc', 'h': 'damaged-primary-crc'}[hitem(item)[1]])
        for step in obs:
            chk.count('outcome', {0: 'ignored-seen', 1: 'absorbed', 2: 'delivered', 3: 'complete-but-whole-seen', 4: 'error', 90: 'exception'}[step['code']])
        want = got = None
        if model is not None and model[pos] is not None:
            (want, degraded) = degrade(obs, canon_model(model[pos]))
            got = canon_impl(obs)
            if degraded:
                got = [dict(step, table=None) if any(item['table'] is None for item in obs) else step for step in got]
                chk.count('private_state_unreadable', 'yes')
        if want is not None and got != want:
            first = next((idx for idx in range(min(len(want), len(got))) if want[idx] != got[idx]), min(len(want), len(got)))
            diffs.append('case %d (%s) step %d: implementation %s / model %s' % (
                pos, case['kind'], first, json.dumps(got[first] if first < len(got) else None)[:500],
                json.dumps(want[first] if first < len(want) else None)[:500]))
            if len(diffs) <= 3:
                with open(os.path.join(VERIF, 'build', 'replay', 'C06_disagree_%d.json' % len(diffs)), 'w') as out:
                    json.dump(dict(property='C06', what=diffs[-1], replay=replay_obj), out, indent=1)
        if with_oracle and all(consistent(case, fidx) for fidx in case['hist']):
            for (sig, what) in oracle(case, obs):
                chk.fail(sig, what, replay_obj)
    return diffs


def load_corpus():
    out = []
    for path in sorted(glob.glob(os.path.join(VERIF, 'harness', 'corpus', 'C06_*.json'))):
        with open(path) as infile:
            ent = json.load(infile)
        out.append((path, ent))
    return out


def replay(chk, path):
    with open(path) as infile:
        ent = json.load(infile)
    case = ent.get('replay', ent.get('case', ent))
    if isinstance(case, dict) and 'long_spec' in case and 'hist' not in case:
        case = make_long(**case['long_spec'])
    if not isinstance(case, dict) or 'hist' not in case:
        print('replay file names no input (broken obligation): %s' % json.dumps(ent)[:800])
        chk.obligation('replay', True, '')
        chk.case(('replay', path), nontrivial=False, sample=dict(replay=os.path.basename(path)))
        chk.finish(rule='replay of a record without an input')
        return
    obs = _impl_worker(case)
    if isinstance(obs, dict):
        raise RuntimeError(obs['harness_error'])
    for (pos, (item, step)) in enumerate(zip(case['hist'], obs)):
        (fidx, damage) = hitem(item)
        frag = case['frags'][fidx]
        if len(obs) > 60 and 20 <= pos < len(obs) - 30:
            if pos == 20:
                print('  ... (%d steps not shown)' % (len(obs) - 50))
            continue
        print('  %s bundle=%r off=%d len=%d total=%d -> code %d, delivered %s, table %s' % (
            'fragment' if damage is None else 'DAMAGED(%s) copy of fragment' % damage,
            case['bundles'][frag['b']]['id'], frag['off'], len(frag['data']) // 2, frag['total'], step['code'],
            [(d['id'], d['payload'][:40]) for d in step['delivered']], [(e[0], e[1], e[2]) for e in (step['table'] or [])]))
    why = []
    if all(consistent(case, fidx) for fidx in case['hist']):
        for (sig, what) in oracle(case, obs):
            why.append(what)
            chk.fail(sig, what, case)
    else:
        print('  (history contains inconsistent fragments: outside the property quantifier, oracle not applicable)')
    chk.case(('replay', path), nontrivial=nontrivial(case), sample=dict(replay=os.path.basename(path), failed=bool(why)))
    chk.obligation('replay', True, '')
    print('replay verdict: %s' % ('; '.join(why) if why else 'oracle satisfied'))
    chk.finish(rule='replay of one recorded arrival history through the real agent and the property oracle')


def main():
    chk = Check('C06', level='proof', description=__doc__)
    if chk.args.replay:
        replay(chk, chk.args.replay)
        return
    started = time.time()
    chk.coq_props()
    PHASES.append(('coq_props', round(time.time() - started, 1)))
    # translator tie: Gen/ReasmSteps.v regenerated from Fragment._reassemble by the run above (fail closed)
    (tr_ok, tr_err) = chk.translate_ok('reasmsteps')
    chk.obligation('translator:reasmsteps', tr_ok, tr_err)
    if not tr_ok:
        print('# translator target reasmsteps failed closed: %s' % tr_err[:400])
    diffs = {}
    long_run = None
    try:
        long_run = LongRun(chk, [make_long(1500, chk.seed % 100000)],
                           [] if chk.quick() else [make_long(20000, chk.seed % 100000 + 1)])
        # corpus first (witnesses of findings)
        corpus = load_corpus()
        if corpus:
            for (path, _ent) in corpus:
                chk.count('corpus', os.path.basename(path))
            diffs['corpus'] = evaluate(chk, [ent.get('replay', ent.get('case')) for (_p, ent) in corpus], 'corpus')
        cases = gen_cases(chk)
        diffs['histories'] = evaluate(chk, cases, 'hist')
        bad = gen_malformed(chk)
        diffs['inconsistent'] = evaluate(chk, bad, 'bad', with_oracle=False)
        # LONG history on one agent (the seen-identity set and the table live as long as the agent does): model and
        # oracle on 1500 bundles; thorough additionally 20000 bundles through the real agent and the oracle only
        # (the model's seen set is a list: evaluation is quadratic in the history length)
        (long_impl, long_model) = long_run.collect()
        diffs['long'] = judge(chk, long_run.cases, long_impl, long_model)
        for (suite, lst) in diffs.items():
            chk.obligation('correspondence:' + suite, not lst, '; '.join(lst[:3]))
        if any(diffs.values()) and not chk.violations:
            # broken tie: look harder for a failing input with the oracle alone (10x budget, no model needed)
            chk.tier = 'thorough'
            more = gen_cases(chk)
            chk.tier = chk.args.tier
            evaluate(chk, more, 'search', with_model=False)
    except CoqError as err:
        print('model evaluation failed: %s' % str(err)[:1500])
        chk.obligation('correspondence:model-evaluation', False, str(err)[:600])
        if long_run is not None:
            judge(chk, long_run.cases, long_run.impl_only(), None)
        if not chk.violations:
            chk.tier = 'thorough'
            more = gen_cases(chk)
            chk.tier = chk.args.tier
            evaluate(chk, more, 'search', with_model=False)
    if (getattr(chk, 'coq_failure', None) is not None or not tr_ok) and not chk.violations and not any(diffs.values()):
        # a proof no longer checks although the model still agrees with the code on the sample: search with the oracle
        chk.tier = 'thorough'
        more = gen_cases(chk)
        chk.tier = chk.args.tier
        evaluate(chk, more, 'search', with_model=False)
    for (name, okay, detail) in chk.obligations:
        if not okay:
            print('# broken: %s: %s' % (name, detail[:1200]))
    print('phases (wall s): %s' % ', '.join('%s %.1f' % item for item in PHASES))
    chk.finish(
        rule=('arrival histories of fragment bundles fed to a fresh real agent: (A) all permutations of 1..5 (thorough: 1..7) fragments of one '
              'bundle for a uniform, an uneven and an overlapping (distinct offsets) fragmentation, each also with one duplicate '
              're-sent later and interleaved with the fragments of a second bundle (same source next sequence number / other '
              'source / other creation time); (B) all orders of 3 fragments x all pairs of duplicated fragments x 4 placements; '
              '(C) random histories of up to 4 bundles x up to 10 fragments with overlaps, empty fragments, duplicates, late '
              'fragments after completion and truncated (incomplete) histories; (D) two different fragmentations of the same '
              'bundle mixed (same offset, different lengths); (E) inconsistent fragments (wrong totals, zero totals, data past '
              'the end: correspondence only, outside the quantifier); (G) all orders of 3 fragments x a damaged copy (invalid block '
              'CRC: payload octet flipped / extension block CRC / primary block CRC) of each fragment x 4 positions (first, just '
              'before the intact copy, just after it, last), damaged copies also sprinkled into 40% of the random histories and '
              'ahead of every 97th bundle of the long history; only CRC-valid copies count as arrived for the oracle; (F) one LONG history on a single agent: a 3-fragment bundle '
              'delivered, then 1500 (thorough: also 20000, oracle only) other two-fragment bundles with neighbours interleaved, then '
              'all fragments of the first bundle and of 6 bundles spread over the history sent again; every bundle must be '
              'delivered exactly once over the whole history. Non-trivial: at least two distinct fragments of one '
              'bundle arrive and the history is out of offset order, repeats a fragment or mixes identities. Distinct by the '
              'whole case (bundles, fragments, arrival order).'),
        extra_cov=dict(
            model='coq/Model/BpReasm.v', phases_wall_s=[list(item) for item in PHASES],
            refuted=['C06_complete_once_refuted (known finding: %s)' % SIG_SAMEOFF],
            partial=['C06_complete_once_partial (hypothesis: no two distinct fragments of the cover share an offset)'],
            notes=['a fragment arriving after its bundle was reassembled re-creates a reassembly entry that is never removed '
                   '(the second completion, if any, is suppressed by the seen-identity set): modelled and compared, not part of the verdict',
                   'a complete entry without a first fragment (only possible with total 0 and offset > 0) raises AttributeError '
                   'inside the chain runner: outcome class 4, modelled and compared',
                   'SAFE application handler (order 30) consumes every bundle regardless of destination; the recording '
                   'application step is therefore placed first among the order-30 steps']),
        assumptions=['harness stubs for dbus, gi.repository.GLib and portion (closed-open integer interval sets, same normal form '
                     'as Lib/Ivl.v) are trusted to behave as the real libraries',
                     'the Coq theorems quantify over every finite history for a model whose seen-identity set is an unbounded list; that the '
                     'implementation keeps its set for the whole life of the agent is exercised, not proved: by the long-history suite '
                     '(about 4500 identities in quick, 60000 in thorough)',
                     'fragments are received one at a time and the idle source re-injecting the reassembled bundle runs before the '
                     'next fragment (the harness drains idle sources after each recv_bundle)',
                     'intact fragments carry valid CRC-32C on every block, a foreign source and a destination that the RX route table '
                     'delivers locally; damaged copies have exactly one block whose CRC does not verify and a decodable primary block; '
                     'no BPSec policy is configured',
                     'the SAFE application handler (bp/app/safe.py, RX chain order 30) consumes every bundle whatever its '
                     'destination and then raises on foreign payloads; "bundles reaching an application step" are therefore observed '
                     'by a recording step of order 30 placed ahead of the built-in order-30 handlers',
                     'fragment bundles are encoded by the independent cbor2 encoder of harness/bpdrive.py and decoded by the real '
                     'bp.encoding.Bundle exactly as the CL receive callback does'])


if __name__ == '__main__':
    main()
