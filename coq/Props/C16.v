(** C16 - COSE confidentiality blocks encrypt, bind context and decrypt exactly.

    Statements over [Model/BpSec.v].  The AEAD, the key wrap and key
    resolution are explicit parameters; their properties are explicit premises:
      correctness   [dec k iv a (enc k iv a p) = Some p], [unwrap kek (wrap kek cek) = Some cek]
      idealisation  [dec k iv a c = Some p -> c = enc k iv a p]  (only genuine ciphertexts decrypt)
                    [enc k iv a p = enc k' iv' a' p' -> k = k' /\ iv = iv' /\ a = a' /\ p = p']
                    (NOT proved of AES-GCM / AES-KW: exercised by the harness with the real libraries).
    "The wire carries ciphertext, never the plaintext" is [C16_wire_is_ciphertext]
    (the BTSD on the wire IS the AEAD output); that an AEAD output differs from
    its input is a property of the cipher, checked by the harness (AES-GCM
    output is 16 octets longer).
    Non-vacuity: [BpSecProofs.Ex] ([dec_enc], [aead_auth], [enc_inj] for a
    concrete AEAD; [roundtrip_run] incl. the empty plaintext, a wrong key and
    an altered primary block).

    As for C03, "after ANY change to the authenticated context (primary
    block ... security source)" holds for the content as decoded
    ([C16_binding], [C16_sound]) and is refuted for the octets on the wire
    ([C16_wire_primary_refuted], [C16_wire_source_refuted]: EID normalisation). *)
From Coq Require Import List NArith.
From DTN Require Import Lib.Bytes Lib.Cbor Model.BpSec Proofs.BpSecProofs.
Import ListNotations.
Local Open Scope N_scope.

(** What [apply_bcb] puts on the wire as the target's BTSD is the AEAD output
    over (key, IV, Enc_structure, plaintext). *)
Theorem C16_wire_is_ciphertext :
  forall (key : Type) (enc : key -> bytes -> bytes -> bytes -> bytes) (wrap : key -> key -> bytes)
         (kind : ckind) (kg : keying key) (protected : bytes) (unprot : list (cbor * cbor))
         (b : bundle) (num : N) (source : cbor) (s : scope) (addl : bytes) (au : option bytes)
         (t : N) (iv : bytes) (b' : bundle) (tgt : cblock),
    let sec := mkCB bcb_type num 1 0 [] in
    apply_bcb key enc wrap kind kg protected unprot b num source s addl au [(t, iv)] = Some b' ->
    find_block b t = Some tgt -> num <> t ->
    exists ei : bytes,
      enc_input (mkOp kind protected b sec source s addl tgt) = Some ei /\
      option_map cb_btsd (find_block b' t) = Some (enc (content_key key kg) iv ei (cb_btsd tgt)).
Proof. exact bcb_wire_is_ciphertext. Qed.
Print Assumptions C16_wire_is_ciphertext.

(** AAD agreement: the acceptor, who sees the target with its BTSD replaced by
    the ciphertext and the BCB inserted, computes the Enc_structure the source
    computed (provided the scope does not bind the BTSD of the target or of
    the security block, and does not name the security block by number). *)
Theorem C16_aad_agreement :
  forall (kind : ckind) (protected : bytes) (b : bundle) (sec sec' : cblock) (source : cbor) (s : scope)
         (addl : bytes) (t : N) (tgt : cblock) (ct : bytes),
    meta_items sec' = meta_items sec ->
    find_block b t = Some tgt ->
    no_btsd_in_scope s t ->
    ~ In (CUint (cb_num sec)) (map fst s) ->
    cb_num sec <> t ->
    let tgt' := mkCB (cb_type tgt) (cb_num tgt) (cb_flags tgt) (cb_crct tgt) ct in
    enc_input (mkOp kind protected (insert_block (replace_btsd b t ct) sec') sec' source s addl tgt') =
    enc_input (mkOp kind protected b sec source s addl tgt).
Proof. exact enc_input_agreement. Qed.
Print Assumptions C16_aad_agreement.

(** Round trip: an ACCEPTOR (third argument of [verify_bcb_asb] = [true], i.e.
    config accept_after_verify on) whose key ring resolves the key recovers
    exactly the original plaintext - for every plaintext, the empty one
    included - and what it received as BTSD was the ciphertext.  A node that
    only verifies (accept_after_verify off, the agent's default) keeps the
    ciphertext in the block: [C16_verifier_only_keeps_bundle]. *)
Theorem C16_roundtrip :
  forall (key : Type) (enc : key -> bytes -> bytes -> bytes -> bytes)
         (dec : key -> bytes -> bytes -> bytes -> option bytes) (wrap : key -> key -> bytes)
         (unwrap : key -> bytes -> option key) (keyring : cbor -> option key),
    (forall kek cek, unwrap kek (wrap kek cek) = Some cek) ->
    (forall k iv a p, dec k iv a (enc k iv a p) = Some p) ->
    forall (kind : ckind) (kg : keying key) (protected : bytes) (unprot : list (cbor * cbor))
           (b : bundle) (num : N) (source : cbor) (s : scope) (addl : bytes) (au : option bytes)
           (t : N) (iv : bytes) (tgt : cblock) (rs : list (N * cbor)) (ct : bytes) (sec' : cblock),
      let sec := mkCB bcb_type num 1 0 [] in
      let uh := (CUint 5, CBstr iv) :: unprot in
      let b' := insert_block (replace_btsd b t ct) sec' in
      let a := mkASB [t] cose_ctx_id 1 source (sec_params s addl au) [rs] in
      enc_kind kind ->
      keys_resolve key keyring kind kg protected uh source (mkSP addl au s) ->
      enc_results_decodable key wrap kind kg protected uh ->
      scope_of_cbor (scope_map s) = Some s ->
      no_btsd_in_scope s t ->
      ~ In (CUint num) (map fst s) ->
      num <> t ->
      meta_items sec' = meta_items sec ->
      find_block b t = Some tgt ->
      apply_bcb_target key enc wrap kind kg protected unprot iv b sec source s addl t = Some (rs, ct) ->
      exists b'' : bundle,
        verify_bcb_asb key dec unwrap keyring true b' sec' a = (true, b'') /\
        option_map cb_btsd (find_block b'' t) = Some (cb_btsd tgt) /\
        option_map cb_btsd (find_block b' t) = Some ct.
Proof. exact bcb_roundtrip. Qed.
Print Assumptions C16_roundtrip.

(** The AEAD associated data (Enc_structure) is an injective function of
    exactly the authenticated context: COSE context string, protected header
    parameters, security source, AAD scope, the scoped block contents,
    additional protected parameters. *)
Theorem C16_binding :
  forall o o' : secop, wf_op_ctx o -> wf_op_ctx o' -> (enc_input o = enc_input o' <-> covered_ctx o = covered_ctx o').
Proof. exact enc_input_binding. Qed.
Print Assumptions C16_binding.

(** Soundness under the idealised AEAD: if decryption of the BTSD the acceptor
    received succeeds, that BTSD is a genuine ciphertext; if it is the one the
    source produced for [o], then authenticated context, IV, key and plaintext
    are the source's - so any change to ciphertext, context, IV or key makes
    decryption fail. *)
Theorem C16_sound :
  forall (key : Type) (enc : key -> bytes -> bytes -> bytes -> bytes)
         (dec : key -> bytes -> bytes -> bytes -> option bytes) (unwrap : key -> bytes -> option key)
         (keyring : cbor -> option key),
    (forall k iv a c p, dec k iv a c = Some p -> c = enc k iv a p) ->
    (forall k iv a p k' iv' a' p', enc k iv a p = enc k' iv' a' p' -> k = k' /\ iv = iv' /\ a = a' /\ p = p') ->
    forall (k : key) (iv : bytes) (o : secop) (ei pt : bytes) (b' : bundle) (sec' tgt' : cblock)
           (source' : cbor) (sp' : secparams) (kind' : ckind) (m' : cose) (pt' : bytes),
      let o' := mkOp kind' (c_protected m') b' sec' source' (sp_scope sp') (sp_addl sp') tgt' in
      wf_op_ctx o -> wf_op_ctx o' ->
      enc_input o = Some ei ->
      decrypt_msg key dec unwrap keyring b' sec' tgt' source' sp' kind' m' = Some pt' ->
      cb_btsd tgt' = enc k iv ei pt \/
      (forall k2 iv2 ei2 pt2, cb_btsd tgt' = enc k2 iv2 ei2 pt2 -> False) ->
      cb_btsd tgt' = enc k iv ei pt /\
      covered_ctx o' = covered_ctx o /\ msg_iv m' = Some iv /\
      In k (resolve_content_key key unwrap keyring kind' m' source' sp') /\ pt' = pt.
Proof. exact bcb_sound. Qed.
Print Assumptions C16_sound.

(** Failure releases nothing: when decryption of the target fails the result
    is failure and the bundle comes back unchanged (the target's BTSD is still
    the octets received) ... *)
Theorem C16_no_release_on_failure :
  forall (key : Type) (dec : key -> bytes -> bytes -> bytes -> option bytes)
         (unwrap : key -> bytes -> option key) (keyring : cbor -> option key) (accept : bool)
         (b : bundle) (sec : cblock) (a : asb) (t : N) (rs : list (N * cbor)) (tgt : cblock) (sp : secparams),
    a_targets a = [t] -> a_results a = [rs] ->
    extract_secblk a = Some sp ->
    find_block b t = Some tgt ->
    decrypt_result key dec unwrap keyring b sec tgt (a_source a) sp rs = None ->
    verify_bcb_asb key dec unwrap keyring accept b sec a = (false, b).
Proof. exact bcb_no_release_on_failure. Qed.
Print Assumptions C16_no_release_on_failure.

(** ... and a node that is not accepting ([accept_after_verify] off) never
    replaces any BTSD, whatever the outcome. *)
Theorem C16_verifier_only_keeps_bundle :
  forall (key : Type) (dec : key -> bytes -> bytes -> bytes -> option bytes)
         (unwrap : key -> bytes -> option key) (keyring : cbor -> option key) (b : bundle)
         (sec : cblock) (source : cbor) (sp : secparams) (ts : list N) (rss : list (list (N * cbor))),
    snd (decrypt_targets key dec unwrap keyring false b sec source sp ts rss) = b.
Proof. exact decrypt_targets_no_accept. Qed.
Print Assumptions C16_verifier_only_keeps_bundle.

(** Refuted at the wire level (genuine defect, witness replayed on the
    implementation by the harness). *)
Theorem C16_wire_primary_refuted :
  exists orig alt : bytes,
    wire_primary_raw orig <> wire_primary_raw alt /\ wire_primary_raw alt <> None /\ verdict orig alt = 1.
Proof. exists WitE.orig, WitE.alt_primary. exact WitE.primary_refuted. Qed.
Print Assumptions C16_wire_primary_refuted.

Theorem C16_wire_source_refuted :
  exists orig alt : bytes,
    wire_sources_raw orig <> wire_sources_raw alt /\ wire_sources_raw alt <> None /\
    length orig = length alt /\ verdict orig alt = 1.
Proof. exists WitE.orig, WitE.alt_source. exact WitE.source_refuted. Qed.
Print Assumptions C16_wire_source_refuted.
