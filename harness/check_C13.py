''' C13 -- UDPCL transfers arrive intact and no datagram exceeds the MTU.

  1. proofs: coq/Props/C13.v (termination, every datagram within the MTU for all
     lengths x MTUs x ids, single datagram when it fits, tiling, reassembly for
     every arrival permutation interleaved with other peers/transfers, repeated
     segments, several messages / padding per datagram, range round trip)
     re-checked by coqc over coq/Gen/UdpclBudget.v, which the translator
     regenerates from the current udpcl/agent.py,
  2. correspondence of coq/Model/Udpcl.v with the real code on the same inputs:
       send    Agent._send_transfer                       vs send_transfer
       xfers   Agent._recv_datagram on the sender's own datagrams (permutations,
               duplicates, second transfer, second peer),
               recv_bundle_finished, recv_bundle_get_queue / recv_bundle_pop_data
                                                          vs recv_datagram
       recv    peer-crafted datagrams (several messages, padding, DTLS/BPv6 first
               octets, inconsistent totals, out-of-range segments, truncation)
  3. the property oracle (written from the property text, with its own parser
     of the CBOR subset used on the wire, not from the code) on every
     observation of the real implementation.
'''
import env  # noqa: F401  (first: sys.path for stubs and the repo under test)
import glob
import collections
import datetime as dtmod
import ipaddress
import itertools
import json
import os
import socket
import sys
import time
from io import BytesIO

from common import Check, CoqError, coq_bytes, coq_list, coq_N, coq_nat, mkdata, VERIF

import cbor2
import dbus.bus
import dbus.service
from gi.repository import GLib
import udpcl.agent as uagent
import udpcl.config as uconfig

#: Signatures of genuine defects of the unchanged tree that have been reported to
#: the coordinator but are not (yet) listed in known_findings.json: an oracle
#: failure with one of these signatures is printed but does not fail the run.
PENDING_FINDINGS = []

BIG = 3000   # bundles longer than this go to their own (small) shards of Coq evaluation
SHARDS = 6   # coqc processes per suite (each pays the start-up of loading the libraries)
FULL = 200   # datagrams of bundles up to this length are compared octet for octet, longer ones by (length, first 24 octets, digest)

PEERS = {1: ('10.0.0.1', 4556), 2: ('10.0.0.1', 4557), 3: ('10.0.0.2', 4556)}


# ----------------------------------------------------------------------------------------------
# independent statement of the wire format (oracle side): the CBOR subset a segment uses

class Bad(Exception):
    pass


def spec_head(buf, pos):
    ''' (major, argument, next position) '''
    if pos >= len(buf):
        raise Bad('truncated')
    first = buf[pos]
    (major, info) = (first >> 5, first & 0x1F)
    pos += 1
    if info < 24:
        return (major, info, pos)
    width = {24: 1, 25: 2, 26: 4, 27: 8}.get(info)
    if width is None or pos + width > len(buf):
        raise Bad('bad head')
    return (major, int.from_bytes(buf[pos:pos + width], 'big'), pos + width)


def spec_head_len(val):
    return 1 if val < 24 else 2 if val < 256 else 3 if val < 65536 else 5 if val < 2 ** 32 else 9


def spec_parse_segment(dgram):
    ''' A datagram that is exactly one map {2: [uint, uint, uint, bstr]}:
    returns (xid, total, offset, fragment). '''
    (major, count, pos) = spec_head(dgram, 0)
    if (major, count) != (5, 1):
        raise Bad('not a one-entry map')
    (major, key, pos) = spec_head(dgram, pos)
    if (major, key) != (0, 2):
        raise Bad('key is not 2')
    (major, count, pos) = spec_head(dgram, pos)
    if (major, count) != (4, 4):
        raise Bad('value is not a four-element array')
    vals = []
    for _ in range(3):
        (major, val, pos) = spec_head(dgram, pos)
        if major != 0:
            raise Bad('field is not an unsigned integer')
        vals.append(val)
    (major, length, pos) = spec_head(dgram, pos)
    if major != 2 or pos + length != len(dgram):
        raise Bad('last field is not an octet string reaching the end of the datagram')
    return (vals[0], vals[1], vals[2], bytes(dgram[pos:]))


def feasible(mtu, xid, total):
    ''' A segment needs three heads of its own plus id, total, offset, length
    heads and at least one data octet. '''
    return mtu is None or 3 + spec_head_len(xid) + 3 * spec_head_len(total) < mtu


def digest(data):
    ''' Adler-32, as Model/Udpcl.v [digest] '''
    (s1, s2) = (1, 0)
    for octet in data:
        s1 += octet
        if s1 >= 65521:
            s1 -= 65521
        s2 += s1
        if s2 >= 65521:
            s2 -= 65521
    return s2 * 65536 + s1


def pattern(seed, length):
    ''' Same generator as Model/Udpcl.v [pattern]. '''
    (a, b, c) = (seed % 256, (seed // 256) % 256, (seed // 65536) % 256)
    out = bytearray()
    for _ in range(length):
        a = a + 7 if a + 7 < 256 else a + 7 - 256
        if a < 7:
            b = b + 13 if b + 13 < 256 else b + 13 - 256
            if b < 13:
                c = c + 29 if c + 29 < 256 else c + 29 - 256
        out.append(a ^ b ^ c)
    return bytes(out)


def gen_data(seed, length):
    return pattern(seed, length) if length > 64 else mkdata(seed, length)


# ----------------------------------------------------------------------------------------------
# driving the real code

class StepLimit(Exception):
    pass


def mk_agent(mtu):
    cfg = uconfig.Config(mtu_default=mtu)
    cfg._bus_conn = dbus.bus.BusConnection()
    return uagent.Agent(cfg, bus_kwargs=dict(conn=cfg._bus_conn, object_path='/udpcl'))


def real_send(mtu, xid, data, agent=None):
    ''' Octets of every datagram the agent yields for one send request, under
    a deterministic step limit (lines executed inside _send_transfer), because
    the segment list is built by a loop that does not end for an infeasible
    MTU.  ``agent``: a long-lived agent to send on (default: a fresh one);
    ``xid`` None: the id is assigned by the agent itself (_add_tx_item, the
    function send_bundle_data ends in), and returned.
    :return: (datagrams, terminated) or, for xid None, (datagrams, terminated, assigned id) '''
    if agent is None:
        agent = mk_agent(mtu)
    assigned = xid is None
    item = uagent.BundleItem(address='10.0.0.9', port=4556, file=BytesIO(data), transfer_id=xid,
                             total_length=len(data))
    if assigned:
        # the real id counter; the queued item is taken back so that no socket is ever opened
        agent._add_tx_item(item)
        if item in agent._tx_queue:
            agent._tx_queue.remove(item)
        GLib.CTX.reset()
        xid = item.transfer_id
    code = uagent.Agent._send_transfer.__code__
    budget = [40 * (len(data) + 10)]

    def tracer(frame, event, arg):
        if frame.f_code is not code:
            return None

        def local(frame, event, arg):
            if event == 'line':
                budget[0] -= 1
                if budget[0] < 0:
                    raise StepLimit()
            return local
        return local

    out = []
    old = sys.gettrace()
    sys.settrace(tracer)
    try:
        for dgram in agent._send_transfer(item):
            out.append(bytes(dgram))
        done = True
    except StepLimit:
        done = False
    finally:
        sys.settrace(old)
    if assigned:
        return (out, done, xid)
    return (out, done)


class PlainSock(object):
    ''' stands for the UDP socket a datagram arrived on (only its truth value is used
    on the paths exercised here) '''


def mk_conv(peer):
    (addr, port) = PEERS[peer]
    return uagent.Conversation(family=2, peer_address=ipaddress.ip_address(addr), peer_port=port,
                               local_address=ipaddress.ip_address('10.0.0.200'), local_port=4556)


def finished_signals():
    return [evt for evt in dbus.service.EVENT_LOG
            if evt['kind'] == 'signal' and evt['name'] == 'recv_bundle_finished']


def real_recv(arrival, plain=True):
    ''' Feed (peer, datagram octets) pairs to a fresh agent's receive function.
    Observations: after each datagram the number of recv_bundle_finished
    signals so far and whether an exception escaped; at the end the signals,
    the queue as listed and popped over the D-Bus methods and (best effort,
    private) the transfers still in progress. '''
    agent = mk_agent(None)
    del dbus.service.EVENT_LOG[:]
    GLib.CTX.reset()
    sock = PlainSock() if plain else None
    trace = []
    for (peer, dgram) in arrival:
        raised = 0
        try:
            agent._recv_datagram(sock, bytes(dgram), mk_conv(peer))
        except Exception:
            raised = 1
        trace.append((len(finished_signals()), raised))
    rev = dict((val, key) for (key, val) in PEERS.items())
    signals = []
    for evt in finished_signals():
        (bid, length, meta) = evt['args'][:3]
        signals.append((str(bid), int(length), rev.get((str(meta.get('address')), int(meta.get('port'))))))
    queue_ids = [str(bid) for bid in agent.recv_bundle_get_queue()]
    queue = [(bid, bytes(agent.recv_bundle_pop_data(bid))) for bid in queue_ids]
    left = [str(bid) for bid in agent.recv_bundle_get_queue()]
    progress = None
    raw = getattr(agent, '_rx_fragments', None)
    if isinstance(raw, dict):
        try:
            progress = []
            for ((addr, port, xid), xfer) in raw.items():
                progress.append((rev[(addr, port)], int(xid), int(xfer.total_length),
                                 [tuple(pair) for pair in xfer.valid._pairs], digest(bytes(xfer.data))))
            progress.sort()
        except Exception:
            progress = None
    return dict(trace=trace, signals=signals, queue=queue, left=left, progress=progress)


# ----------------------------------------------------------------------------------------------
# the whole send path: send_bundle_data -> _tx_queue -> conversation queue (TxSendWait, paced by a token
# bucket on a 10 ms tick) -> socket, under the virtual GLib clock, with non-transfer messages on the
# same conversation (polling, its reply, ECN feedback, PMTUD probes / confirm)

PEER_ADDR = ('10.0.0.9', 4556)


class FakeSock(object):
    ''' stands for socket.socket: records what is sent, hands out what the script injects '''
    made = []

    def __init__(self, family=socket.AF_INET, type=socket.SOCK_DGRAM, proto=0, fileno=None):
        (self.family, self.type, self.proto) = (family, type, proto)
        self.sent = []
        self.inbox = []
        self.bound = ('10.0.0.200', 4556)
        FakeSock.made.append(self)

    def setsockopt(self, *args):
        pass

    def bind(self, addr):
        if addr[0] not in ('0.0.0.0', '::'):
            self.bound = (addr[0], addr[1] or 4556)

    def connect(self, addr):
        pass

    def getsockname(self):
        return self.bound

    def sendmsg(self, buffers, ancdata=(), flags=0, address=None):
        FakeSock.log.append((bytes(b''.join(buffers)), address))

    def sendto(self, data, address):
        FakeSock.log.append((bytes(data), address))

    def recvmsg(self, bufsize, ancbufsize=0, flags=0):
        return self.inbox.pop(0)

    def close(self):
        pass

    def fileno(self):
        return 1000 + FakeSock.made.index(self)


FakeSock.log = []
VBASE = dtmod.datetime(2026, 1, 1, tzinfo=dtmod.timezone.utc)


class VDateTime(dtmod.datetime):
    @classmethod
    def now(cls, tz=None):
        return VBASE + dtmod.timedelta(milliseconds=GLib.CTX.now_ms)


def paced_payload(seed, length):
    ''' a bundle of exactly ``length`` octets that is one CBOR array (so that the receiver can queue it
    when it arrives unsegmented): [octet string] '''
    for inner in range(max(0, length - 12), length):
        data = cbor2.dumps([gen_data(seed, inner)])
        if len(data) == length:
            return data
    return cbor2.dumps([gen_data(seed, max(0, length - 4))])


def run_paced(scn):
    ''' scn: dict(mtu, poll_ms|None, bundles=[[at_ms, seed, length]], script=[[at_ms, kind, arg]]).
    Returns dict(emitted=[octets], signals, bundles={bid: data}, events=[queue events], done, now_ms). '''
    saved = (socket.socket, time.monotonic_ns, uagent.datetime)
    socket.socket = FakeSock
    time.monotonic_ns = lambda: GLib.CTX.now_ms * 1000000
    uagent.datetime = VDateTime
    FakeSock.made = []
    FakeSock.log = []
    ctx = GLib.CTX
    ctx.reset()
    del dbus.service.EVENT_LOG[:]
    try:
        mtu = scn['mtu']
        cfg = uconfig.Config(mtu_default=mtu, node_id='dtn://sender/')
        if scn.get('poll_ms'):
            cfg.polling.append(uconfig.PollConfig(address=PEER_ADDR[0], port=PEER_ADDR[1], interval_ms=scn['poll_ms']))
        cfg._bus_conn = dbus.bus.BusConnection()
        agent = uagent.Agent(cfg, bus_kwargs=dict(conn=cfg._bus_conn, object_path='/udpcl'))
        events = []       # ('pri'|'paced', [expected datagram octets]) | ('tick', number of paced datagrams emitted)
        track = True
        orig_process = getattr(agent, '_process_tx_queue', None)
        if orig_process is not None and hasattr(agent, '_tx_queue'):
            def process_wrapper():
                queue = agent._tx_queue
                if queue:
                    item = queue[0]
                    pos = item.file.tell()
                    item.file.seek(0)
                    octets = item.file.read()
                    item.file.seek(pos)
                    if item.transfer_id is None:
                        events.append(('pri', [octets]))
                    else:
                        (exp, term) = real_send(mtu, item.transfer_id, octets)
                        events.append(('paced', exp if term else []))
                return orig_process()
            agent._process_tx_queue = process_wrapper
        else:
            track = False
        todo = sorted([(at, 0, 'bundle', (seed, length)) for (at, seed, length) in scn['bundles']]
                      + [(at, 1, kind, arg) for (at, kind, arg) in scn.get('script', [])])
        bundles = {}
        last_at = max([at for (at, _o, _k, _a) in todo] + [0])
        cap = scn.get('cap_ms', 30000)
        steps = 0
        while steps < 400000:
            steps += 1
            idles = sorted([src for src in ctx.sources.values() if src.kind == 'idle'], key=lambda src: src.sid)
            if idles:
                ctx.run(idles[0])
                continue
            if todo and todo[0][0] <= ctx.now_ms:
                (_at, _o, kind, arg) = todo.pop(0)
                if kind == 'bundle':
                    data = paced_payload(*arg)
                    bid = agent.send_bundle_data(list(data), {'address': PEER_ADDR[0], 'port': PEER_ADDR[1]})
                    bundles[str(bid)] = data
                elif kind == 'pmtud':
                    agent.pmtud_start(PEER_ADDR[0], PEER_ADDR[1], arg)
                else:
                    ios = sorted([src for src in ctx.sources.values() if src.kind == 'io'], key=lambda src: src.sid)
                    if ios:
                        if kind == 'listen':
                            (octets, tos) = (cbor2.dumps({3: int(arg), 4: 'dtn://peer/'}), 0)
                        elif kind == 'ecn':
                            (octets, tos) = (b'\x00', int(arg))
                        else:   # 'probe': confirm after arg ms
                            (octets, tos) = (cbor2.dumps({6: [77, 1, int(arg)]}), 0)
                        ios[0].sock.inbox.append((octets, [(socket.IPPROTO_IP, socket.IP_TOS, bytes([tos]))], 0, PEER_ADDR))
                        ctx.run(ios[0])
                continue
            due = ctx.due_timeouts()
            if due:
                src = due[0]
                before = len(FakeSock.log)
                is_tick = src.name == 'tick'
                ctx.run(src)
                if is_tick and len(FakeSock.log) > before:
                    events.append(('tick', [octets for (octets, _a) in FakeSock.log[before:]]))
                continue
            finished = set(str(evt['args'][0]) for evt in dbus.service.EVENT_LOG
                           if evt['kind'] == 'signal' and evt['name'] == 'send_bundle_finished')
            if not todo and finished >= set(bundles) and ctx.now_ms >= last_at + 60:
                break
            if ctx.now_ms >= cap:
                break
            ctx.advance(1)
        signals = [(evt['name'], str(evt['args'][0]), [str(arg) for arg in evt['args'][1:]])
                   for evt in dbus.service.EVENT_LOG
                   if evt['kind'] == 'signal' and evt['name'] in ('send_bundle_started', 'send_bundle_finished')]
        return dict(emitted=[octets for (octets, _a) in FakeSock.log], signals=signals, bundles=bundles,
                    events=events if track else None, now_ms=ctx.now_ms, escaped=[repr(err) for err in ctx.escaped])
    finally:
        (socket.socket, time.monotonic_ns, uagent.datetime) = saved
        GLib.CTX.reset()


def is_non_transfer(dgram):
    ''' extension map without a TRANSFER entry (optionally padded: PMTUD probes) '''
    try:
        (major, count, pos) = spec_head(dgram, 0)
        if major != 5 or count < 1:
            return False
        (major, key, pos) = spec_head(dgram, pos)
        return major == 0 and key in (3, 4, 5, 6, 7, 8)
    except Bad:
        return False


def oracle_paced(scn, obs):
    ''' (reason, class) or None.  Property text over what went out on the socket: for every bundle handed
    to send_bundle_data the datagrams emitted for it are the bundle itself or segments that tile it, none
    above the MTU; success is reported only when that is the case; a receiver fed every emitted datagram
    once queues exactly the bundles, once each. '''
    mtu = scn['mtu']
    if obs['escaped']:
        return ('exception escaped an event-loop callback of the sender: %s' % obs['escaped'][0][:120], 'exception')
    per = dict((bid, []) for bid in obs['bundles'])
    transfer_dgrams = []
    for dgram in obs['emitted']:
        owner = None
        for (bid, data) in obs['bundles'].items():
            if dgram == data:
                owner = bid
        if owner is None:
            try:
                (gxid, _total, _off, _frag) = spec_parse_segment(dgram)
                owner = str(gxid) if str(gxid) in per else None
                if owner is None:
                    return ('segment of an unknown transfer %d emitted' % gxid, 'unknown-datagram')
            except Bad:
                if is_non_transfer(dgram):
                    continue
                return ('emitted datagram is neither a bundle, a segment nor a non-transfer message', 'unknown-datagram')
        per[owner].append(dgram)
        transfer_dgrams.append(dgram)
    finished = dict((bid, args) for (name, bid, args) in obs['signals'] if name == 'send_bundle_finished')
    for (bid, data) in sorted(obs['bundles'].items()):
        if bid not in finished:
            return ('bundle %s (%d octets) was never reported finished within %d ms' % (bid, len(data), obs['now_ms']), 'never-finished')
        res = oracle_send(mtu, int(bid), data, per[bid], True)
        if res is not None and finished[bid][-1] == 'success':
            return ('bundle %s reported success but the %d datagram(s) emitted for it do not carry it: %s' % (
                bid, len(per[bid]), res[0]), 'success-but-' + res[1])
    rx = real_recv([(1, dgram) for dgram in transfer_dgrams])
    if any(raised for (_n, raised) in rx['trace']):
        return ('a receiver fed the emitted datagrams raises', 'receiver-raises')
    got = sorted(data for (_b, data) in rx['queue'])
    if got != sorted(obs['bundles'].values()):
        return ('a receiver fed every emitted datagram once queues %d bundle(s) of lengths %s, expected exactly the %d sent' % (
            len(got), [len(d) for d in got], len(obs['bundles'])), 'receiver-queue')
    return None


def pq_case(obs):
    ''' The observed run as input of the queue model: events with datagrams numbered in enqueue order.
    :return: (coq term, emitted ids) or None when the run could not be tracked '''
    if obs['events'] is None:
        return None
    ids = collections.defaultdict(collections.deque)
    paced_ids = set()
    evs = []
    nxt = 1
    emitted = []
    for (kind, arg) in obs['events']:
        if kind in ('pri', 'paced'):
            mine = []
            for octets in arg:
                ids[octets].append(nxt)
                if kind == 'paced':
                    paced_ids.add(nxt)
                mine.append(nxt)
                nxt += 1
            evs.append((0 if kind == 'pri' else 1, mine))
        else:
            npaced = 0
            for octets in arg:
                num = ids[octets].popleft() if ids[octets] else 0
                emitted.append(num)
                if num in paced_ids:
                    npaced += 1
            evs.append((2, [npaced]))
    term = coq_list(['(%s, %s)' % (coq_N(kind), coq_list([coq_N(num) for num in nums], 'N')) for (kind, nums) in evs], '(N * list N)')
    return (term, emitted)


def gen_paced_cases(chk, scale=1):
    rng = chk.rng
    quick = chk.quick() and scale == 1
    cases = []
    base = [(200, 985), (200, 150), (200, 199), (200, 200), (100, 450), (1400, 4000), (None, 700)]
    # transfers only
    for (mtu, length) in base:
        cases.append(dict(mtu=mtu, poll_ms=None, bundles=[[0, rng.randrange(1, 2 ** 31), length]], script=[]))
    # polling of the same peer at several periods relative to the 10 ms pacing tick
    for period in ([25, 35, 70, 7, 10, 13] if quick else [25, 35, 70, 7, 10, 13, 3, 19, 50, 100, 210]):
        for (mtu, length) in ([(200, 985), (200, 150), (100, 450)] if quick else base):
            cases.append(dict(mtu=mtu, poll_ms=period, bundles=[[rng.randrange(0, 30), rng.randrange(1, 2 ** 31), length]], script=[]))
    # each other kind of non-transfer message, at several offsets from the start of the transfer
    for kind in ('listen', 'ecn', 'probe', 'pmtud'):
        for offset in ([3, 12, 25, 41] if quick else [1, 3, 9, 10, 11, 12, 19, 25, 31, 41, 77]):
            for (mtu, length) in [(200, 985), (200, 150)]:
                arg = dict(listen=500, ecn=rng.choice([1, 2, 3]), probe=rng.choice([5, 20]), pmtud=rng.choice([2, 3]))[kind]
                script = [[offset, kind, arg]]
                if kind in ('listen', 'ecn') and rng.random() < 0.5:
                    script.append([offset + rng.randrange(1, 40), kind, arg])
                cases.append(dict(mtu=mtu, poll_ms=None, bundles=[[0, rng.randrange(1, 2 ** 31), length]], script=script))
    # everything together, two bundles
    for _ in range((6 if quick else 60) * scale):
        mtu = rng.choice([100, 200, 300])
        bundles = [[0, rng.randrange(1, 2 ** 31), rng.choice([mtu - 1, mtu, 3 * mtu, 5 * mtu - 7])],
                   [rng.randrange(0, 120), rng.randrange(1, 2 ** 31), rng.choice([mtu // 2, 2 * mtu, 4 * mtu])]]
        script = [[rng.randrange(1, 150), rng.choice(['listen', 'ecn', 'probe']), rng.choice([1, 3, 20])]
                  for _ in range(rng.randrange(1, 5))]
        cases.append(dict(mtu=mtu, poll_ms=rng.choice([None, 9, 25, 40]), bundles=bundles, script=sorted(script)))
    return cases


# ----------------------------------------------------------------------------------------------
# oracles: the property text over the implementation's observable outputs

def oracle_send(mtu, xid, data, dgrams, terminated):
    ''' Returns (reason, class) or None. '''
    if not feasible(mtu, xid, len(data)) and mtu is not None and len(data) >= mtu:
        return None   # no implementation can send this: outside the quantifier
    if not terminated:
        return ('send request does not finish producing datagrams', 'nontermination')
    if mtu is not None:
        for dgram in dgrams:
            if len(dgram) > mtu:
                return ('datagram of %d octets exceeds the MTU %d' % (len(dgram), mtu), 'datagram-exceeds-mtu')
    if dgrams == [data]:
        return None
    if not dgrams:
        return ('no datagram produced for the bundle', 'nothing-sent')
    pieces = []
    for dgram in dgrams:
        try:
            (gxid, total, off, frag) = spec_parse_segment(dgram)
        except Bad as err:
            return ('datagram is neither the bundle nor one transfer segment: %s' % err, 'segment-shape')
        if gxid != xid:
            return ('segment carries transfer id %d, not %d' % (gxid, xid), 'segment-id')
        if total != len(data):
            return ('segment announces total length %d, bundle has %d' % (total, len(data)), 'segment-total')
        pieces.append((off, frag))
    pieces.sort()
    pos = 0
    for (off, frag) in pieces:
        if off != pos:
            return ('segments do not carry every octet once: offset %d where %d expected' % (off, pos), 'segment-coverage')
        if data[off:off + len(frag)] != frag:
            return ('segment at offset %d does not carry the bundle octets' % off, 'segment-data')
        pos += len(frag)
    if pos != len(data):
        return ('segments cover %d of %d octets' % (pos, len(data)), 'segment-coverage')
    return None


def oracle_xfers(xfers, arrival, dgram_lists, obs):
    ''' xfers: [(mtu, xid, seed, length)], arrival: [(peer, transfer index, datagram index)].
    Statement: every queued bundle is, octet for octet, the bundle of a transfer
    its peer was sending (never partial or corrupted); nothing is queued for a
    transfer while one of its datagrams has not arrived; a (peer, transfer)
    whose datagrams arrive exactly once each yields exactly one copy, queued by
    its last datagram; no exception escapes. '''
    datas = [gen_data(seed, length) for (_m, _x, seed, length) in xfers]
    if any(raised for (_n, raised) in obs['trace']):
        return 'exception escaped the receive function'
    if len(obs['signals']) != len(obs['queue']) or obs['left']:
        return 'recv_bundle_finished signals and the receive queue disagree'
    sig = dict((bid, (length, peer)) for (bid, length, peer) in obs['signals'])
    counts = [nsig for (nsig, _r) in obs['trace']]
    # when (by which arrival) each queue entry appeared
    born = []
    prev = 0
    for (step, cnt) in enumerate(counts):
        born += [step] * (cnt - prev)
        prev = cnt
    if len(born) != len(obs['queue']):
        return 'queue entries do not match the signals emitted during the arrivals'
    per_key = {}
    for (step, (peer, tix, dix)) in enumerate(arrival):
        per_key.setdefault((peer, tix), []).append((step, dix))
    seen_copies = {}
    for ((bid, got), step) in zip(obs['queue'], born):
        (length, peer) = sig.get(bid, (None, None))
        if length != len(got):
            return 'recv_bundle_finished length %s differs from the popped data (%d octets)' % (length, len(got))
        (apeer, atix, _adix) = arrival[step]
        if peer != apeer:
            return 'bundle attributed to peer %s but queued by a datagram of peer %s' % (peer, apeer)
        if got != datas[atix]:
            return ('bundle of %d octets queued by a datagram of transfer %d is not that transfer\'s bundle '
                    '(partial or corrupted)' % (len(got), atix))
        tix = atix
        arrived = set(dix for (stp, dix) in per_key[(peer, tix)] if stp <= step)
        if arrived != set(range(len(dgram_lists[tix]))):
            return 'bundle queued while datagram(s) %s of its transfer had not arrived' % sorted(
                set(range(len(dgram_lists[tix]))) - arrived)
        seen_copies.setdefault((peer, tix), []).append(step)
    for ((peer, tix), lst) in per_key.items():
        idxs = sorted(dix for (_s, dix) in lst)
        if idxs == list(range(len(dgram_lists[tix]))):
            last = max(stp for (stp, _d) in lst)
            if seen_copies.get((peer, tix), []) != [last]:
                return ('every datagram of transfer %d from peer %d arrived exactly once but the bundle was queued at '
                        'arrival(s) %s instead of exactly once at arrival %d' % (tix, peer, seen_copies.get((peer, tix), []), last))
    return None


def oracle_multi(peer, parts, pad, obs):
    ''' A datagram made of several messages (and padding) is handled per
    message: same queue as the messages arriving one datagram each. '''
    ref = real_recv([(peer, part) for part in parts], plain=False)
    if any(raised for (_n, raised) in ref['trace']):
        return None   # a message that raises on its own: nothing stated
    if any(raised for (_n, raised) in obs['trace']):
        return 'exception escaped for a datagram whose messages are all handled when sent separately'
    if [data for (_b, data) in obs['queue']] != [data for (_b, data) in ref['queue']]:
        return 'queue after the combined datagram differs from the queue after the same messages sent one per datagram'
    if [(ln, pr) for (_b, ln, pr) in obs['signals']] != [(ln, pr) for (_b, ln, pr) in ref['signals']]:
        return 'signals after the combined datagram differ from the messages sent one per datagram'
    return None


# ----------------------------------------------------------------------------------------------
# Coq renderings

def c_opt_list(val):
    return '(@nil N)' if val is None else '[%d]%%N' % val


def c_send(mtu, xid, seed, length):
    return '(%s, %s, %s, %s)' % (c_opt_list(mtu), coq_N(xid), coq_N(seed), coq_N(length))


def c_xfers(xfers, arrival):
    return '(%s, %s)' % (
        coq_list(['(%s, %s, %s, %s)' % (coq_N(m), coq_N(x), coq_N(s), coq_N(ln)) for (m, x, s, ln) in xfers], '(N * N * N * N)'),
        coq_list(['(%s, %s, %s)' % (coq_N(p), coq_nat(t), coq_nat(d)) for (p, t, d) in arrival], '(N * nat * nat)'))


def c_recv(arrival):
    return coq_list(['(%s, %s)' % (coq_N(peer), coq_bytes(dgram)) for (peer, dgram) in arrival], '(N * list N)')


def samp(chk, limit, obj):
    return obj if len(chk.samples) < limit else None


# ----------------------------------------------------------------------------------------------
# case generation

XIDS = [0, 1, 23, 24, 255, 256, 65535, 65536, 2 ** 32 - 1, 2 ** 32, 2 ** 64 - 1]


def load_corpus():
    out = []
    for path in sorted(glob.glob(os.path.join(VERIF, 'harness', 'corpus', 'C13_*.json'))):
        with open(path) as infile:
            ent = json.load(infile)
        for case in ent.get('send', []):
            out.append(('send', tuple(case), os.path.basename(path)))
        for case in ent.get('xfers', []):
            out.append(('xfers', case, os.path.basename(path)))
        for case in ent.get('paced', []):
            out.append(('paced', case, os.path.basename(path)))
    return out


def gen_send_cases(chk, scale=1):
    ''' (mtu|None, xid, seed, length) at every boundary of the fit test, of the
    segment size, of the CBOR head sizes of id / total / offset / fragment
    length (23/24, 255/256, 65535/65536). '''
    rng = chk.rng
    cases = []
    seen = set()
    quick = chk.quick() and scale == 1

    def add(mtu, length, xid=None):
        if length < 0 or (mtu is not None and mtu < 1):
            return
        if xid is None:
            xid = rng.choice(XIDS + [rng.randrange(2 ** 16), rng.randrange(2 ** 64)])
        if not feasible(mtu, xid, length) and length >= mtu:
            return    # the real loop never ends (observation, outside the quantifier): never run
        key = (mtu, length, spec_head_len(xid))
        if key in seen:
            return
        seen.add(key)
        cases.append((mtu, xid, rng.randrange(1, 2 ** 31), length))

    def around(mtu, xid):
        ''' lengths at the boundaries that matter for this MTU '''
        for length in [0, 1, mtu - 2, mtu - 1, mtu, mtu + 1, 23, 24, 25, 255, 256, 257]:
            add(mtu, length, xid)
        for total_class in (23, 255, 65535):
            rem = mtu - (3 + spec_head_len(xid) + 3 * spec_head_len(total_class))
            if rem <= 0:
                continue
            for mult in (1, 2, 3, 5):
                for delta in (-1, 0, 1):
                    length = rem * mult + delta
                    if length <= (1500 if quick else 40000):
                        add(mtu, length, xid)
            # offsets / fragment lengths crossing a head-size boundary
            for edge in (24, 256):
                for delta in (-1, 0, 1, rem - 1, rem, rem + 1):
                    add(mtu, edge + delta, xid)

    mtus = [8, 9, 10, 11, 12, 15, 20, 23, 24, 25, 26, 30, 33, 34, 35, 36, 40, 48, 64, 100, 128, 255, 256, 257,
            270, 300, 576, 1280, 1400, 1500]
    if quick:
        mtus = [8, 12, 24, 25, 36, 40, 256, 300, 1400]
    for mtu in mtus:
        around(mtu, 0)
        if not quick or mtu in (36, 300):
            around(mtu, rng.choice(XIDS))
    for xid in XIDS:
        for mtu in ((40, 300) if quick else (20, 40, 300)):
            for length in ((mtu - 1, mtu, 2 * mtu, 700) if quick else (mtu - 1, mtu, mtu + 7, 2 * mtu, 300, 700)):
                add(mtu, length, xid)
    # long bundles: total / offset heads of 3 and 5 octets
    longs = [(1400, 65535), (1400, 65536), (65536, 65536), (65535, 65536), (40000, 65537), (200, 9000)]
    if not quick:
        longs += [(1400, 65537), (9000, 70000), (65535, 65535), (65537, 65536), (65536, 65537), (65536, 131072),
                  (40000, 65535), (64, 9000), (300, 65536), (600, 65536), (200, 20000), (70000, 200000), (24, 65536), (30, 70000), (65537, 200000), (1280, 300000), (100, 66000)]
    for (mtu, length) in longs:
        add(mtu, length, 0)
        if not quick or mtu == 1400:
            add(mtu, length, 2 ** 32)
    for length in (0, 1, 23, 24, 255, 256, 1500, 65535, 65536, 100000):
        add(None, length, 3)
    count = (40 if quick else 2500) * scale
    for _ in range(count):
        mtu = rng.choice([rng.randrange(8, 40), rng.randrange(8, 300), rng.randrange(8, 2000)])
        add(mtu, rng.choice([rng.randrange(0, 3 * mtu), rng.randrange(0, 40 * mtu)]) % 12000)
    return cases


def gen_histories(chk, scale=1):
    ''' [(mtu, start id | None, [(seed, length)])]: MANY sends through ONE agent object, ids from
    the agent's own counter (preset near a head-size boundary via the _tx_id attribute when start id is
    not None), bundle lengths mixing the head-size classes of the total, including lengths whose full
    segments are exactly MTU octets long (no slack: offset and fragment-length heads as long as the
    head of the total). '''
    rng = chk.rng
    quick = chk.quick() and scale == 1
    out = []

    def hist(mtu, start, count, lengths):
        steps = []
        for num in range(count):
            length = lengths[num % len(lengths)] if num < 2 * len(lengths) else rng.choice(lengths)
            steps.append((rng.randrange(1, 2 ** 31), length))
        # every send of the history must be feasible for every id it can get
        top = (start or 0) + count
        steps = [(seed, ln) for (seed, ln) in steps if ln < mtu or feasible(mtu, top, ln)]
        out.append((mtu, start, steps))

    hist(1400, None, 34, [2800, 4000, 300, 2800, 2900])            # ids 0..33 across 23/24, full segments exactly MTU
    hist(40, None, 32, [100, 100, 39, 120, 23, 90])                # small MTU, tight at 100 (heads of 2 octets)
    hist(1400, 250, 8, [4000, 2800])                               # 255/256
    hist(300, 65530, 12, [900, 900, 600])                          # 65535/65536
    hist(1400, 65533, 6, [2800, 2800])
    hist(300, 2 ** 32 - 4, 8, [900, 900])                          # 2^32
    hist(300, 18, 14, [900, 100, 900, 600, 300])                   # mixing classes, tight at 900
    hist(300, 252, 8, [900, 900, 24, 255, 256])
    if not quick:
        hist(70000, 20, 8, [200000, 200000])                       # heads of 5 octets, tight
        hist(1400, None, 300, [4000, 100, 70000, 2900, 1399, 1400, 1401])
        hist(36, None, 70, [120, 60, 35, 36, 37, 300])
        hist(9000, 65500, 80, [70000, 20000, 9000, 8999])
        for _ in range(20 * scale):
            mtu = rng.choice([30, 40, 64, 300, 1400])
            hist(mtu, rng.choice([None, 20, 250, 65530]), 12, [rng.randrange(mtu, 5 * mtu) for _ in range(3)] + [mtu - 1])
    else:
        for _ in range(3 * scale):
            mtu = rng.choice([40, 64, 300])
            hist(mtu, rng.choice([None, 20, 250]), 8, [rng.randrange(mtu, 4 * mtu) for _ in range(2)] + [mtu - 1])
    return out


def run_history(mtu, start, steps):
    ''' All sends of one history on one agent: [(assigned id, datagrams, terminated)]. '''
    agent = mk_agent(mtu)
    if start is not None:
        agent._tx_id = start
    res = []
    for (seed, length) in steps:
        (dgrams, term, xid) = real_send(mtu, None, gen_data(seed, length), agent=agent)
        res.append((xid, dgrams, term))
    return res


def expand_orders(rng, count, limit):
    if count <= 5:
        perms = [list(perm) for perm in itertools.permutations(range(count))]
        if limit is not None and limit < len(perms):
            perms = rng.sample(perms, limit)
        return perms
    out = []
    for _ in range(limit or 3):
        order = list(range(count))
        rng.shuffle(order)
        out.append(order)
    return out


def pick_xfer(rng, nseg, xid=None, tight=False):
    ''' a transfer that the sender cuts into exactly nseg segments '''
    while True:
        mtu = rng.choice([8, 10, 12, 20, 24, 30, 36, 40, 64, 100, 270, 300])
        if xid is None:
            xid = rng.choice([0, 1, 24, 256, 65536, 2 ** 32, 2 ** 64 - 1])
        total_guess = max(mtu, nseg * 4)
        rem = mtu - (3 + spec_head_len(xid) + 3 * spec_head_len(total_guess))
        if rem <= 0:
            continue
        length = rem * nseg if tight else rem * (nseg - 1) + rng.randrange(1, rem + 1)
        if length < mtu or not feasible(mtu, xid, length):
            continue
        if mtu - (3 + spec_head_len(xid) + 3 * spec_head_len(length)) != rem:
            continue
        return (mtu, xid, rng.randrange(1, 2 ** 31), length)


def gen_xfer_cases(chk, scale=1):
    ''' [(xfers, arrival, kind)]: the sender's own datagrams, each exactly once in every
    order (<= 5 segments) / random orders (more), with duplicates, interleaved
    with a second transfer of the same peer and with a second / third peer. '''
    rng = chk.rng
    quick = chk.quick() and scale == 1
    cases = []
    # every permutation, one transfer
    for nseg in (2, 3, 4, 5):
        for rep in range((2 if quick else 6) * scale):
            xfer = pick_xfer(rng, nseg, tight=(rep == 0))
            limit = 24 if (quick and nseg == 5 and rep > 0) else None
            for order in expand_orders(rng, nseg, limit):
                cases.append(([xfer], [(1, 0, dix) for dix in order], 'perm'))
    # (a bundle that fits is one datagram that must itself be a CBOR array to be queued: suites multi / recv)
    # more segments, random orders
    for _ in range((6 if quick else 80) * scale):
        nseg = rng.choice([6, 7, 9, 12, 20])
        xfer = pick_xfer(rng, nseg)
        for order in expand_orders(rng, nseg, 2):
            cases.append(([xfer], [(1, 0, dix) for dix in order], 'perm'))
    # all permutations of one transfer interleaved with a second transfer (same peer, other id) and with
    # the same transfer id from a second and a third peer
    for nseg in (2, 3, 4):
        for rep in range((1 if quick else 4) * scale):
            own = pick_xfer(rng, nseg, xid=rng.choice([0, 5, 256]))
            other = pick_xfer(rng, rng.choice([2, 3]), xid=own[1] + 1)
            xfers = [own, other]
            nother = None
            for order in expand_orders(rng, nseg, 12 if quick else None):
                arr = [(1, 0, dix) for dix in order]
                # second transfer of peer 1 and the first transfer again from peers 2 and 3, shuffled in
                extra = [(2, 0, dix) for dix in range(nseg)] + [(3, 0, dix) for dix in rng.sample(range(nseg), nseg - 1)]
                if nother is None:
                    nother = len(real_send(*other[:2], gen_data(other[2], other[3]))[0])
                extra += [(1, 1, dix) for dix in range(nother)]
                rng.shuffle(extra)
                for item in extra:
                    arr.insert(rng.randrange(len(arr) + 1), item)
                cases.append((xfers, arr, 'interleaved'))
    # duplicates: before completion, after completion, the whole set twice
    for nseg in (2, 3, 4, 5):
        for rep in range((6 if quick else 40) * scale):
            xfer = pick_xfer(rng, nseg)
            order = list(range(nseg))
            rng.shuffle(order)
            arr = [(1, 0, dix) for dix in order]
            kind = rep % 3
            if kind == 0:      # repeats of already received segments before the last one arrives
                for _ in range(rng.randrange(1, 4)):
                    pos = rng.randrange(1, len(arr))
                    arr.insert(pos, arr[rng.randrange(pos)])
            elif kind == 1:    # repeats after completion
                arr += [(1, 0, rng.randrange(nseg)) for _ in range(rng.randrange(1, 4))]
            else:              # everything twice, second round in another order
                again = list(range(nseg))
                rng.shuffle(again)
                arr += [(1, 0, dix) for dix in again]
            cases.append(([xfer], arr, 'duplicates'))
    # a (peer, id) key REUSED after its transfer completed (the sending node restarted and its ids begin at 0
    # again): a different bundle of the same total length, or of another length, in order and permuted,
    # interleaved with other keys.  Each transfer INSTANCE must yield exactly one intact copy of ITS bundle.
    for nseg in (2, 3, 4):
        for rep in range((3 if quick else 12) * scale):
            first = pick_xfer(rng, nseg, xid=rng.choice([0, 0, 1, 300]))
            (mtu, xid, _seed, length) = first
            if rep % 3 == 2:
                while True:   # another total length under the same id
                    second = pick_xfer(rng, rng.choice([2, 3]), xid=xid)
                    if second[3] != length:
                        break
            else:
                second = (mtu, xid, rng.randrange(1, 2 ** 31), length)
            other = pick_xfer(rng, 2, xid=xid + 1)
            xfers = [first, second, other]
            counts = [len(real_send(m, x, gen_data(sd, ln))[0]) for (m, x, sd, ln) in xfers]
            for trial in range(2 if quick else 4):
                arr = []
                rounds = [0, 1] if trial % 2 == 0 else [0, 1, 0]     # ... and the first bundle once more
                for tix in rounds:
                    order = list(range(counts[tix]))
                    if trial > 0 or rep % 2 == 1:
                        rng.shuffle(order)
                    arr += [(1, tix, dix) for dix in order]
                # other keys anywhere in between: same id from peer 2 (first bundle), another id from peer 1
                extra = [(2, 0, dix) for dix in range(counts[0])] + [(1, 2, dix) for dix in range(counts[2])]
                rng.shuffle(extra)
                for item in extra:
                    arr.insert(rng.randrange(len(arr) + 1), item)
                cases.append((xfers, arr, 'key-reuse'))
    # a segment missing altogether: nothing may be queued
    for nseg in (2, 3, 5):
        for rep in range((2 if quick else 10) * scale):
            xfer = pick_xfer(rng, nseg)
            order = list(range(nseg))
            rng.shuffle(order)
            order.pop()
            cases.append(([xfer], [(1, 0, dix) for dix in order + order], 'missing'))
    return cases


def seg(xid, total, off, frag):
    return cbor2.dumps({2: [xid, total, off, bytes(frag)]})


def gen_multi_cases(chk, scale=1):
    ''' [(peer, parts, pad)]: datagrams that are the concatenation of several message
    encodings plus padding. '''
    rng = chk.rng
    quick = chk.quick() and scale == 1
    bundle_a = b'\x9f\x88\x07\x00\x00\x82\x01\x41\x61\x82\x01\x41\x62\x82\x01\x00\x82\x18\x64\x00\x19\x03\xe8\x85\x01\x01\x00\x00\x43abc\xff'
    bundle_b = cbor2.dumps([1, [2, b'xy'], 'dtn', {1: 2}])
    fixed = [
        (1, [seg(9, 6, 0, b'abc'), seg(9, 6, 3, b'def')], b''),
        (1, [seg(9, 6, 3, b'def'), seg(9, 6, 0, b'abc')], b'\x00'),
        (1, [seg(9, 6, 0, b'abc'), bundle_a, seg(9, 6, 3, b'def'), bundle_b], b'\x00\x00\x00'),
        (2, [bundle_a, bundle_a, bundle_b], b''),
        (1, [bundle_b], b'\x00' + seg(9, 6, 0, b'abc')),          # a message after padding is padding
        (1, [seg(9, 6, 0, b'abc'), seg(9, 6, 0, b'abc'), seg(9, 6, 3, b'def'), seg(9, 6, 3, b'def')], b'\x00'),
        (3, [cbor2.dumps({4: 'dtn://peer/'}), seg(1, 2, 0, b'hi'), cbor2.dumps({4: 'x', 2: [1, 3, 0, b'abc']})], b''),
        (1, [cbor2.dumps({}), cbor2.dumps([]), b'\x9f\xff'], b'\x00\xff\xff'),
        (1, [bundle_a] * 20, b''),
    ]
    cases = list(fixed)
    for _ in range((40 if quick else 500) * scale):
        total = rng.randrange(1, 12)
        data = rng.randbytes(total)
        cuts = sorted(set([0, total] + [rng.randrange(total + 1) for _ in range(rng.randrange(0, 4))]))
        parts = [seg(rng.choice([0, 7, 300]), total, lo, data[lo:hi]) for (lo, hi) in zip(cuts, cuts[1:])]
        rng.shuffle(parts)
        for _ in range(rng.randrange(0, 3)):
            parts.insert(rng.randrange(len(parts) + 1), rng.choice([bundle_a, bundle_b, cbor2.dumps([rng.randrange(1000)])]))
        pad = b'' if rng.random() < 0.4 else b'\x00' * rng.randrange(1, 5) + (rng.randbytes(3) if rng.random() < 0.3 else b'')
        cases.append((rng.choice([1, 2, 3]), parts, pad))
    return cases


def gen_recv_cases(chk, scale=1):
    ''' Peer-crafted arrivals [(peer, octets)]: quirks of the receive path, compared with the
    model (no verdict: the property's receiver clauses quantify over this sender's segments). '''
    rng = chk.rng
    quick = chk.quick() and scale == 1
    cases = [
        [(1, seg(9, 3, 0, b'abc'))],                                         # one segment covering everything
        [(1, seg(9, 3, 0, b'abc')), (1, seg(9, 3, 0, b'abc'))],                # and again: a second copy
        [(1, seg(9, 6, 0, b'abc')), (1, seg(9, 7, 3, b'def'))],                # inconsistent total: raises
        [(1, seg(9, 6, 0, b'abc')), (1, seg(9, 7, 3, b'def') + seg(9, 6, 3, b'def'))],   # ... and drops the rest of the datagram
        [(1, seg(9, 6, 0, b'abc')), (2, seg(9, 7, 3, b'def')), (1, seg(9, 6, 3, b'def'))],
        [(1, seg(9, 6, 4, b'abc'))],                                          # beyond the total: never completes
        [(1, seg(9, 6, 9, b'abc')), (1, seg(9, 6, 0, b'abcdef'))],             # offset beyond the buffer: appended
        [(1, seg(9, 6, 2, b'XY')), (1, seg(9, 6, 0, b'abc')), (1, seg(9, 6, 3, b'def'))],   # overlap: last writer wins
        [(1, seg(9, 6, 0, b'abcd')), (1, seg(9, 6, 2, b'cdef'))],
        [(1, seg(9, 0, 0, b''))],                                             # empty transfer completes at once
        [(1, seg(9, 0, 0, b'a'))],
        [(1, seg(9, 3, 1, b'')), (1, seg(9, 3, 0, b'abc'))],
        [(1, seg(2 ** 32, 70000, 69999, b'z'))],
        [(1, b'')], [(1, b'\x00')], [(1, b'\x00\x00\x9f\xff')],
        [(1, b'\x16\x03\x01\x00\x05hello')], [(1, b'\x17' + seg(9, 3, 0, b'abc'))],         # DTLS record first octets
        [(1, b'\x06\x81\x00' + seg(9, 3, 0, b'abc'))],                        # BPv6: rest ignored
        [(1, b'\x9f\x01\xff\x06\x9f\xff')],
        [(1, b'\x01' + seg(9, 3, 0, b'abc'))], [(1, b'\x41a\x9f\xff')], [(1, b'\x61a')], [(1, b'\xc1\x00')], [(1, b'\xf6\x9f\xff')],
        [(1, b'\x9f\x01')], [(1, b'\x9f\xff\x82\x01')], [(1, seg(9, 3, 0, b'abc')[:-1])],   # truncated: raises
        [(1, b'\x9f\xff' + seg(9, 3, 0, b'abc')[:-2])],
        [(1, cbor2.dumps({2: [1, 2, 3]}))], [(1, cbor2.dumps({2: [1, 2, 3, b'', 5]}))],       # wrong arity: raises
        [(1, cbor2.dumps({1: 2, 5: None, 9: [1, 2]}))], [(1, cbor2.dumps({'a': 1, b'b': 2, -1: 3}))],
        [(1, b'\xa2\x02\x84\x01\x03\x00\x41a\x02\x84\x01\x03\x00\x43abc')],   # duplicate key: the last one counts
        [(1, b'\x98\x01\x01\xb8\x01\x02\x84\x18\x09\x19\x00\x03\x1a\x00\x00\x00\x00\x58\x03abc')],   # non-shortest heads
    ]
    for _ in range((60 if quick else 800) * scale):
        arrival = []
        for _step in range(rng.randrange(1, 9)):
            total = rng.choice([4, 4, 4, 5, 6])
            off = rng.randrange(0, 7)
            frag = rng.randbytes(rng.randrange(0, 5))
            dgram = seg(rng.choice([1, 2]), total, off, frag)
            if rng.random() < 0.2:
                dgram += rng.choice([b'\x9f\xff', b'\x00', cbor2.dumps([7, b'q'])])
            if rng.random() < 0.1:
                dgram = dgram[:rng.randrange(len(dgram))]
            arrival.append((rng.choice([1, 1, 2, 3]), dgram))
        cases.append(arrival)
    return cases


# ----------------------------------------------------------------------------------------------
# suites

class Runner(object):

    def __init__(self, chk):
        self.chk = chk
        self.mismatch = {}
        self.pending = {}
        self.phases = {}
        self._mark = (time.time(), sum(os.times()[:4]))

    def phase(self, name):
        ''' wall / CPU seconds (this process and its children) since the previous mark '''
        now = (time.time(), sum(os.times()[:4]))
        self.phases[name] = dict(wall_s=round(now[0] - self._mark[0], 1), cpu_s=round(now[1] - self._mark[1], 1))
        self._mark = now

    def note_mismatch(self, suite, detail):
        self.mismatch.setdefault(suite, []).append(detail)

    def fail(self, signature, what, replay):
        if signature in PENDING_FINDINGS:
            self.pending.setdefault(signature, what)
            return False
        return self.chk.fail(signature, what, replay)

    # -- single-case checkers (also used by --replay and by the search) -------------------------
    def check_send(self, case, dgrams, terminated):
        (mtu, xid, seed, length) = case
        res = oracle_send(mtu, xid, gen_data(seed, length), dgrams, terminated)
        if res is None:
            return None
        (why, klass) = res
        self.fail('C13 / send / %s' % klass, 'mtu=%s xid=%d len=%d: %s' % (mtu, xid, length, why),
                  dict(suite='send', case=list(case)))
        return why

    def check_history(self, mtu, start, steps, res):
        ''' the send oracle on every send of a history; the replay is the whole history '''
        first = None
        for (pos, ((seed, length), (xid, dgrams, term))) in enumerate(zip(steps, res)):
            got = oracle_send(mtu, xid, gen_data(seed, length), dgrams, term)
            if got is not None and first is None:
                (why, klass) = got
                first = 'send #%d of the history (id %d, %d octets): %s' % (pos, xid, length, why)
                self.fail('C13 / send-history / %s' % klass,
                          'one agent, mtu=%s, ids from %s: %s' % (mtu, 'its own counter' if start is None else start, first),
                          dict(suite='history', mtu=mtu, start=start, steps=[list(st) for st in steps], failing_send=pos))
        return first

    def check_paced(self, scn, obs):
        res = oracle_paced(scn, obs)
        if res is None:
            return None
        (why, klass) = res
        self.fail('C13 / send-paced / %s' % klass,
                  'mtu=%s poll=%s bundles=%s script=%s: %s' % (scn['mtu'], scn.get('poll_ms'), scn['bundles'], scn.get('script'), why),
                  dict(suite='paced', scenario=scn))
        return why

    def impl_xfers(self, xfers, arrival):
        lists = []
        for (mtu, xid, seed, length) in xfers:
            (dgrams, term) = real_send(mtu, xid, gen_data(seed, length))
            self.check_send((mtu, xid, seed, length), dgrams, term)
            lists.append(dgrams)
        if any(dix >= len(lists[tix]) for (_p, tix, dix) in arrival):
            return (lists, None)
        return (lists, real_recv([(peer, lists[tix][dix]) for (peer, tix, dix) in arrival]))

    def check_xfers(self, xfers, arrival, lists, obs):
        if obs is None:
            return None
        why = oracle_xfers(xfers, arrival, lists, obs)
        if why:
            self.fail('C13 / recv / ' + why.split('(')[0].strip()[:70],
                      'transfers=%s arrival=%s: %s' % (xfers, arrival, why),
                      dict(suite='xfers', xfers=[list(x) for x in xfers], arrival=[list(a) for a in arrival]))
        return why

    def check_multi(self, peer, parts, pad, obs):
        why = oracle_multi(peer, parts, pad, obs)
        if why:
            self.fail('C13 / multi-message / ' + why[:60], 'peer=%d parts=%s pad=%s: %s' % (
                peer, [part.hex()[:40] for part in parts], pad.hex(), why),
                dict(suite='multi', peer=peer, parts=[part.hex() for part in parts], pad=pad.hex()))
        return why


def canon_prog(prog):
    return sorted((p, x, t, [tuple(pair) for pair in v], d) for (p, x, t, v, d) in prog)


def run_all(chk):
    run = Runner(chk)

    # ---- (a) send ------------------------------------------------------------------------------
    corpus = load_corpus()
    send_cases = [case for (kind, case, _name) in corpus if kind == 'send']
    for (_kind, _case, name) in corpus:
        chk.count('corpus', name)
    have = set(send_cases)
    send_cases += [case for case in gen_send_cases(chk) if case not in have]
    send_impl = []
    for case in send_cases:
        (mtu, xid, seed, length) = case
        (dgrams, term) = real_send(mtu, xid, gen_data(seed, length))
        send_impl.append((dgrams, term))
        run.check_send(case, dgrams, term)
        nseg = len(dgrams)
        tight = mtu is not None and nseg >= 1 and max(len(d) for d in dgrams) == mtu
        chk.case(('send', mtu, length, spec_head_len(xid)), nontrivial=nseg >= 2,
                 sample=samp(chk, 2, dict(suite='send', mtu=mtu, xid=xid, seed=seed, length=length, datagrams=nseg,
                                          sizes=[len(d) for d in dgrams][:6])) if nseg in (3, 4) else None)
        chk.count('send_datagrams', nseg if nseg < 6 else ('6-50' if nseg <= 50 else '>50'))
        chk.count('send_total_head', spec_head_len(length))
        chk.count('send_xid_head', spec_head_len(xid))
        chk.count('send_mtu', 'none' if mtu is None else ('<=24' if mtu <= 24 else ('25-256' if mtu <= 256 else ('257-65535' if mtu < 65536 else '>=65536'))))
        if mtu is not None and nseg >= 2:
            chk.count('send_boundary', 'largest datagram == mtu' if tight else 'largest datagram < mtu')
    # histories: many sends on one agent; each send is compared with the (stateless) model under its real id
    hist_pos = []
    for (mtu, start, steps) in gen_histories(chk):
        res = run_history(mtu, start, steps)
        run.check_history(mtu, start, steps, res)
        ids = [xid for (xid, _d, _t) in res]
        chk.count('history_sends', len(steps))
        for ((seed, length), (xid, dgrams, term)) in zip(steps, res):
            hist_pos.append(len(send_cases))
            send_cases.append((mtu, xid, seed, length))
            send_impl.append((dgrams, term))
            chk.case(('history', mtu, start, xid, seed, length), nontrivial=len(dgrams) >= 2,
                     sample=samp(chk, 3, dict(suite='send-history', mtu=mtu, first_id=ids[0], last_id=ids[-1], this_id=xid,
                                              length=length, sizes=[len(d) for d in dgrams][:5])) if xid in (24, 256, 65536) else None)
            chk.count('history_id_head', spec_head_len(xid))
            if len(dgrams) >= 2:
                chk.count('history_boundary', 'largest datagram == mtu' if max(len(d) for d in dgrams) == mtu else 'largest datagram < mtu')
    run.phase('send:real')
    # one evaluation for all send cases; the long bundles are spread evenly over the shards
    small = [pos for (pos, case) in enumerate(send_cases) if case[3] <= BIG]
    large = [pos for (pos, case) in enumerate(send_cases) if case[3] > BIG]
    order = list(small)
    stride = max(1, len(order) // (len(large) + 1))
    for (num, pos) in enumerate(large):
        order.insert(min(len(order), num * (stride + 1)), pos)
    model_send = chk.coq_eval('send', ['Model.Udpcl'], [c_send(*send_cases[pos]) for pos in order], 'run_send_view',
                              chunk=max(30, -(-len(order) // SHARDS)))
    run.phase('send:coq(%d, %d long)' % (len(order), len(large)))
    hist_set = set(hist_pos)
    for (pos, mod) in zip(order, model_send):
        (dgrams, term) = send_impl[pos]
        full = send_cases[pos][3] <= FULL
        got = [(ent[0], bytes(ent[1]), ent[2]) for ent in mod[0]] if mod else None
        want = [(len(d), d if full else d[:24], digest(d)) for d in dgrams] if term else None
        if got != want:
            run.note_mismatch('send', '%smtu=%s xid=%d len=%d: datagrams differ (model %s, real %s)' % (
                'in a history of sends on one agent: ' if pos in hist_set else '',
                send_cases[pos][0], send_cases[pos][1], send_cases[pos][3],
                'never ends' if got is None else '%d datagram(s)' % len(got),
                'never ends' if want is None else '%d datagram(s)' % len(want)))
    chk.obligation('correspondence:send', not run.mismatch.get('send'), '; '.join(run.mismatch.get('send', [])[:3]))

    # ---- (b) receive: the sender's own datagrams -----------------------------------------------
    xfer_cases = [(case['xfers'], case['arrival'], 'corpus') for (kind, case, _n) in corpus if kind == 'xfers']
    xfer_cases = [([tuple(x) for x in xf], [tuple(a) for a in arr], kind) for (xf, arr, kind) in xfer_cases]
    xfer_cases += gen_xfer_cases(chk)
    xfer_impl = []
    for (xfers, arrival, kind) in xfer_cases:
        (lists, obs) = run.impl_xfers(xfers, arrival)
        xfer_impl.append((lists, obs))
        run.check_xfers(xfers, arrival, lists, obs)
        if obs is None:
            # the sender produced fewer datagrams than the arrival refers to (only after a change of the sender)
            chk.count('recv_kind', 'skipped: arrival refers to a datagram the sender did not produce')
            continue
        order = [dix for (_p, _t, dix) in arrival]
        chk.case(('xfers', tuple(xfers), tuple(arrival)), nontrivial=(order != sorted(order) or kind != 'perm'),
                 sample=samp(chk, 5, dict(suite='recv', kind=kind, transfers=[list(x) for x in xfers], arrival=[list(a) for a in arrival],
                                          finished_counts=[n for (n, _r) in obs['trace']])) if kind in ('interleaved', 'duplicates', 'key-reuse') and len(arrival) <= 12 else None)
        chk.count('recv_kind', kind)
        chk.count('recv_arrivals', len(arrival) if len(arrival) <= 5 else ('6-12' if len(arrival) <= 12 else '>12'))
    run.phase('xfers:real(%d)' % len(xfer_cases))
    model = chk.coq_eval('xfers', ['Model.Udpcl'], [c_xfers(xf, arr) for (xf, arr, _k) in xfer_cases], 'run_xfers', chunk=max(30, -(-len(xfer_cases) // SHARDS)))
    for ((xfers, arrival, kind), (lists, obs), mod) in zip(xfer_cases, xfer_impl, model):
        if obs is None:
            continue
        (m_trace, m_queue, m_prog) = mod
        sig_peer = dict((bid, peer) for (bid, _l, peer) in obs['signals'])
        real = ([(n, r) for (n, r) in obs['trace']],
                [(sig_peer.get(bid), len(data), digest(data)) for (bid, data) in obs['queue']])
        modl = ([tuple(ent) for ent in m_trace], [tuple(ent) for ent in m_queue])
        if real != modl:
            run.note_mismatch('recv', '%s transfers=%s arrival=%s: model %s vs real %s' % (kind, xfers, arrival, modl, real))
        elif [bid for (bid, _d) in obs['queue']] != [str(num) for num in range(len(obs['queue']))]:
            run.note_mismatch('recv', '%s: bundle ids %s are not 0..n-1 in queue order' % (kind, [b for (b, _d) in obs['queue']]))
        elif obs['progress'] is not None and canon_prog(obs['progress']) != canon_prog(m_prog):
            run.note_mismatch('recv', '%s transfers=%s arrival=%s: transfers in progress differ: model %s real %s' % (
                kind, xfers, arrival, canon_prog(m_prog), canon_prog(obs['progress'])))

    run.phase('xfers:coq')
    # ---- (d) the paced conversation queue: send_bundle_data with non-transfer messages in between ------
    pq_terms = []
    pq_want = []
    for scn in [case for (kind, case, _n) in corpus if kind == 'paced'] + gen_paced_cases(chk):
        obs = run_paced(scn)
        run.check_paced(scn, obs)
        kinds = sorted(set(kind for (_a, kind, _g) in scn.get('script', []))) + (['polling'] if scn.get('poll_ms') else [])
        nontransfer = sum(1 for dgram in obs['emitted'] if is_non_transfer(dgram))
        chk.case(('paced', json.dumps(scn, sort_keys=True)), nontrivial=nontransfer > 0 and len(obs['emitted']) > nontransfer,
                 sample=samp(chk, 7, dict(suite='send-paced', scenario=scn, emitted_sizes=[len(d) for d in obs['emitted']][:14],
                                          finished=[sig for sig in obs['signals'] if sig[0] == 'send_bundle_finished'])) if kinds and len(obs['emitted']) > 6 else None)
        for kind in kinds or ['transfers only']:
            chk.count('paced_non_transfer_kind', kind)
        chk.count('paced_emitted', len(obs['emitted']) if len(obs['emitted']) < 4 else ('4-10' if len(obs['emitted']) <= 10 else '>10'))
        pqc = pq_case(obs)
        if pqc is not None:
            pq_terms.append(pqc[0])
            pq_want.append((scn, pqc[1], obs))
    run.phase('paced:real(%d)' % len(pq_terms))
    model = chk.coq_eval('pq', ['Model.Udpcl'], pq_terms, 'run_pq', chunk=max(20, -(-len(pq_terms) // 2)))
    for ((scn, emitted, obs), mod) in zip(pq_want, model):
        (m_emitted, m_pending) = (mod[0], mod[1])
        if list(m_emitted) != list(emitted):
            run.note_mismatch('paced', 'mtu=%s poll=%s bundles=%s script=%s: order of emission differs from the queue model: model %s real %s' % (
                scn['mtu'], scn.get('poll_ms'), scn['bundles'], scn.get('script'), list(m_emitted)[:30], list(emitted)[:30]))
        elif obs['now_ms'] < scn.get('cap_ms', 30000) and list(m_pending[1]):
            # every bundle was reported finished: the paced lane must be empty (a polling message may still wait for the next tick)
            run.note_mismatch('paced', 'mtu=%s bundles=%s: all bundles reported finished with transfer datagrams %s pending in the model' % (
                scn['mtu'], scn['bundles'], list(m_pending[1])))
    chk.obligation('correspondence:paced-queue', not run.mismatch.get('paced'), '; '.join(run.mismatch.get('paced', [])[:3]))
    run.phase('paced:coq')
    # ---- (c) several messages / padding per datagram -------------------------------------------
    multi_cases = gen_multi_cases(chk)
    recv_cases = []
    for (peer, parts, pad) in multi_cases:
        dgram = b''.join(parts) + pad
        obs = real_recv([(peer, dgram)], plain=False)
        run.check_multi(peer, parts, pad, obs)
        recv_cases.append(([(peer, dgram)], obs))
        chk.case(('multi', peer, dgram), nontrivial=len(parts) > 1 or bool(pad),
                 sample=samp(chk, 6, dict(suite='multi', peer=peer, parts=[p.hex()[:48] for p in parts], pad=pad.hex(),
                                          queued=[len(d) for (_b, d) in obs['queue']])) if len(parts) in (3, 4) else None)
        chk.count('multi_messages', len(parts) if len(parts) < 6 else '>=6')
        chk.count('multi_padding', 'none' if not pad else ('zeros' if not pad.strip(b'\x00') else 'zero then octets'))
    # peer-crafted arrivals
    for arrival in gen_recv_cases(chk):
        obs = real_recv(arrival, plain=False)
        recv_cases.append((arrival, obs))
        chk.case(('recv', tuple(arrival)), nontrivial=len(arrival) > 1, sample=None)
        chk.count('recv_crafted_outcome', 'raised' if any(r for (_n, r) in obs['trace']) else ('queued' if obs['queue'] else 'nothing-queued'))
    run.phase('recv:real(%d)' % len(recv_cases))
    model = chk.coq_eval('recv', ['Model.Udpcl'], [c_recv(arr) for (arr, _o) in recv_cases], 'run_recv', chunk=max(12, -(-len(recv_cases) // SHARDS)))
    for ((arrival, obs), mod) in zip(recv_cases, model):
        (m_trace, m_queue, m_prog) = mod
        if any(code == 2 for (_n, code) in m_trace):
            run.note_mismatch('recv', 'crafted %s: outside the model (generator error)' % [(p, d.hex()[:40]) for (p, d) in arrival])
            continue
        sig_peer = dict((bid, peer) for (bid, _l, peer) in obs['signals'])
        real = ([(n, r) for (n, r) in obs['trace']], [(sig_peer.get(bid), data) for (bid, data) in obs['queue']])
        modl = ([tuple(ent) for ent in m_trace], [(ent[0], bytes(ent[1])) for ent in m_queue])
        if real != modl:
            run.note_mismatch('recv', 'crafted %s: model %s vs real %s' % ([(p, d.hex()[:60]) for (p, d) in arrival], modl, real))
        elif [(bid, ln) for (bid, ln, _p) in obs['signals']] != [(bid, len(data)) for (bid, data) in obs['queue']]:
            run.note_mismatch('recv', 'crafted %s: signal arguments %s do not describe the queue' % (
                [(p, d.hex()[:40]) for (p, d) in arrival], obs['signals']))
        elif obs['progress'] is not None and canon_prog(obs['progress']) != canon_prog(m_prog):
            run.note_mismatch('recv', 'crafted %s: transfers in progress differ: model %s real %s' % (
                [(p, d.hex()[:40]) for (p, d) in arrival], canon_prog(m_prog), canon_prog(obs['progress'])))
    run.phase('recv:coq')
    chk.obligation('correspondence:recv', not run.mismatch.get('recv'), '; '.join(run.mismatch.get('recv', [])[:3]))
    return run


def search_more(chk):
    ''' A tie is broken and no case failed the oracle yet: look harder on the
    implementation alone (10x the boundary-directed budget). '''
    run = Runner(chk)
    found = False
    for case in gen_send_cases(chk, scale=10):
        (dgrams, term) = real_send(case[0], case[1], gen_data(case[2], case[3]))
        if run.check_send(case, dgrams, term):
            found = True
    for scn in gen_paced_cases(chk, scale=10):
        if run.check_paced(scn, run_paced(scn)):
            found = True
    for (mtu, start, steps) in gen_histories(chk, scale=10):
        if run.check_history(mtu, start, steps, run_history(mtu, start, steps)):
            found = True
    if found:
        return True
    for (xfers, arrival, _kind) in gen_xfer_cases(chk, scale=10):
        (lists, obs) = run.impl_xfers(xfers, arrival)
        if run.check_xfers(xfers, arrival, lists, obs):
            return True
    for (peer, parts, pad) in gen_multi_cases(chk, scale=10):
        obs = real_recv([(peer, b''.join(parts) + pad)], plain=False)
        if run.check_multi(peer, parts, pad, obs):
            return True
    return False


def replay(chk, path):
    with open(path) as infile:
        ent = json.load(infile)
    obj = ent.get('replay', ent)
    run = Runner(chk)
    suite = obj.get('suite')
    why = None
    if suite == 'send':
        case = tuple(obj['case'])
        (dgrams, term) = real_send(case[0], case[1], gen_data(case[2], case[3]))
        print('replay send mtu=%s xid=%d seed=%d len=%d -> %s, %d datagram(s) of sizes %s' % (
            case + ('finished' if term else 'DID NOT FINISH', len(dgrams), [len(d) for d in dgrams][:10])))
        why = run.check_send(case, dgrams, term)
    elif suite == 'history':
        steps = [tuple(st) for st in obj['steps']]
        res = run_history(obj['mtu'], obj['start'], steps)
        for (pos, ((seed, length), (xid, dgrams, term))) in enumerate(zip(steps, res)):
            print('replay history send #%d id=%d len=%d -> %s, sizes %s (mtu %s)' % (
                pos, xid, length, 'finished' if term else 'DID NOT FINISH', [len(d) for d in dgrams][:6], obj['mtu']))
        why = run.check_history(obj['mtu'], obj['start'], steps, res)
    elif suite == 'xfers':
        xfers = [tuple(x) for x in obj['xfers']]
        arrival = [tuple(a) for a in obj['arrival']]
        (lists, obs) = run.impl_xfers(xfers, arrival)
        print('replay recv transfers=%s arrival=%s -> finished counts %s, queue %s' % (
            xfers, arrival, [n for (n, _r) in obs['trace']], [len(d) for (_b, d) in obs['queue']]))
        why = run.check_xfers(xfers, arrival, lists, obs)
    elif suite == 'paced':
        scn = obj['scenario']
        obs = run_paced(scn)
        print('replay paced mtu=%s poll=%s bundles=%s script=%s -> emitted sizes %s, signals %s' % (
            scn['mtu'], scn.get('poll_ms'), scn['bundles'], scn.get('script'), [len(d) for d in obs['emitted']], obs['signals']))
        why = run.check_paced(scn, obs)
    elif suite == 'multi':
        parts = [bytes.fromhex(part) for part in obj['parts']]
        pad = bytes.fromhex(obj['pad'])
        obs = real_recv([(obj['peer'], b''.join(parts) + pad)], plain=False)
        print('replay multi-message datagram of %d message(s) -> queue %s' % (len(parts), [len(d) for (_b, d) in obs['queue']]))
        why = run.check_multi(obj['peer'], parts, pad, obs)
    else:
        print('replay file names no input (broken obligation): %s' % json.dumps(obj)[:600])
    chk.case(('replay', path), nontrivial=True, sample=dict(replay=os.path.basename(path), failed=bool(why)))
    chk.obligation('replay', True, '')
    print('replay verdict: %s' % (why or 'oracle satisfied'))
    chk.finish(rule='replay of one recorded input through the real code and the property oracle')


def main():
    chk = Check('C13', level='proof', description=__doc__)
    if chk.args.replay:
        replay(chk, chk.args.replay)
        return
    t_props = (time.time(), sum(os.times()[:4]))
    props_ok = chk.coq_props()
    t_props = dict(wall_s=round(time.time() - t_props[0], 1), cpu_s=round(sum(os.times()[:4]) - t_props[1], 1))
    (tr_ok, tr_err) = chk.translate_ok('udpclbudget')
    if not props_ok:
        # the model must keep evaluating when a proof broke
        try:
            chk.coq_make(['Model/Udpcl.vo'])
        except CoqError:
            pass
    run = None
    try:
        run = run_all(chk)
        agree = not any(run.mismatch.values())
    except CoqError as err:
        print('model evaluation failed: %s' % str(err)[:1500])
        chk.obligation('correspondence:model-evaluation', False, str(err)[:600])
        agree = False
    if tr_ok:
        chk.obligation('translator:udpclbudget', True, '')
    else:
        # fail-closed translator: the last generated file stays in place; the tie is then carried by the
        # differential run above (DESIGN 3.1) -- it holds only if every case agreed and the proofs still check
        chk.obligation('translator:udpclbudget (failed: %s) -> fallback: differential run against the last generated model' % tr_err[:300],
                       agree and props_ok, 'model and implementation disagree or proofs broken')
    broken = [name for (name, okay, _d) in chk.obligations if not okay]
    if broken and not any(not no_input for (_s, _w, _p, no_input) in chk.violations):
        search_more(chk)
    if run is not None:
        for (sig, what) in sorted(run.pending.items()):
            print('PENDING-FINDING (reported, not yet in known_findings.json): %s -- %s' % (sig, what[:300]))
    chk.coverage['translator'] = dict(ok=tr_ok, error=tr_err)
    chk.coverage['phase_seconds'] = dict(coq_props=t_props, **(run.phases if run is not None else {}))
    chk.finish(
        rule=('send-paced: send_bundle_data through the real _tx_queue and conversation queue (TxSendWait, token bucket on the 10 ms tick) '
              'under the virtual GLib clock with recording stand-in sockets, segmented and unsegmented bundles, alone and with every kind of '
              'non-transfer message the agent emits on that conversation in between (polling at periods 7..70 ms, the reply to an incoming '
              'SENDER_LISTEN, ECN feedback for an incoming marked datagram, PMTUD probes, PMTUD confirm) at several offsets from the tick; '
              'judged on what went out on the socket (tiling, MTU, success only if complete, a real receiver fed the emitted datagrams) and '
              'compared with the two-lane queue model fed the observed token budgets; send-history: MANY sends through ONE agent object with ids from the agent\'s own counter (0..33 across 23/24; counter preset to 250, '
              '65530, 2^32-4 to cross 255/256, 65535/65536, 2^32), bundle lengths mixing the head-size classes and including the no-slack '
              'lengths, each send judged by the datagram-size/tiling oracle and compared with the stateless model under its real id; '
              'send: grid of MTU x bundle length x transfer id at every boundary of the fit test (mtu-2..mtu+1), of the segment size '
              '(k*remain-1,0,+1 for each head-size class of the total), of offsets / fragment lengths crossing 23/24 and 255/256, '
              'totals and MTUs across 65535/65536, ids across every head size up to 2^64-1, MTU none, random; infeasible MTUs '
              '(3+|id|+3|total| >= mtu with a bundle that does not fit) are never run; recv: the real sender\'s datagrams through the '
              'real receive function in all permutations for 1-5 segments, random orders for 6-20, interleaved with a second transfer '
              'and the same id from two other peers, with duplicates before/after completion and the whole set twice, with a segment '
              'missing, and with a (peer, id) key reused after completion by a different bundle of the same / another total length '
              '(in order and permuted, interleaved with other keys; judged per transfer instance); multi: concatenations of segment / bundle / other extension-map messages with zero padding (and octets after '
              'it); crafted: inconsistent totals, out-of-range and overlapping segments, DTLS/BPv6/unknown first octets, truncation, '
              'duplicate keys, non-shortest heads.  Non-trivial: send case with >= 2 datagrams; recv case whose arrival order is not '
              'the index order or that has duplicates / interleaving / a missing segment; multi case with more than one message or '
              'padding; crafted case with more than one datagram.  Distinct by input.'),
        extra_cov=dict(
            model='coq/Model/Udpcl.v over coq/Gen/UdpclBudget.v',
            refuted=[],
            notes=['infeasible MTU (mtu <= 3+|id|+3|total| with a bundle of at least mtu octets): the while loop of _send_transfer never ends '
                   '(C13_infeasible_never_ends); unsatisfiable for any implementation, recorded as an observation, the real code is never run there '
                   '(and every send runs under a deterministic line-count limit)',
                   'a bundle of exactly mtu octets is segmented (strict "<" in the fit test): allowed by the property, every segment <= mtu',
                   'after completion the transfer entry is deleted: a repeated segment starts a new entry that stays in progress forever, and '
                   'the full set repeated queues a second intact copy; a different total for a key in progress raises ValueError out of '
                   '_recv_datagram and drops the rest of that datagram: modelled and compared, outside the property quantifier',
                   'datagrams of bundles longer than %d octets are compared by (length, first 24 octets, 32-bit digest over all octets) computed on both sides, shorter ones octet for octet' % FULL]),
        assumptions=['harness stubs for dbus, gi.repository.GLib, portion are trusted to behave as the real libraries (Lib/IvlProofs pins Lib/Ivl to the portion stub on examples)',
                     'cbor2 6.1.4 C encoder/decoder is mirrored by Lib/Cbor.v (shortest heads; subset without floats, indefinite-length strings/maps, tag semantics) and validated by correspondence only',
                     'translator translate/targets/udpclbudget.py is trusted; bounded by the octet-for-octet differential run of every translated definition through send_transfer',
                     'the receive function is driven directly (_recv_datagram with a stand-in socket object or None and a Conversation), sockets and DTLS are outside the model',
                     'item.total_length equals len(data) (what _add_tx_item sets)',
                     'send-paced: socket.socket, time.monotonic_ns and the datetime class of udpcl.agent are replaced by recording / virtual-clock stand-ins; '
                     'the token-bucket arithmetic is not modelled (each tick\'s budget is an observed input of the queue model, the oracle does not depend on it); '
                     'enqueue events are observed by wrapping Agent._process_tx_queue (private; without it the suite is oracle-only)',
                     'send histories drive the real id counter through Agent._add_tx_item (where send_bundle_data ends) and take the item back from _tx_queue so no socket is opened; '
                     'the counter is preset near 255/256, 65535/65536 and 2^32 through the private attribute _tx_id (sending 65536 bundles first is not affordable)'])


if __name__ == '__main__':
    main()
