(** Proofs about the BTP-U model (Model/Btpu.v): codec round trip, declared
    lengths, re-encoding of valid frames, size and tiling of the segments
    produced by the sender, reassembly for every arrival order. *)
From Coq Require Import ZArith NArith List Bool Lia ZifyBool ZifyN ZifyNat Arith Permutation Sorted.
From DTN Require Import Lib.Bytes Model.Btpu.
Import ListNotations.
Local Open Scope N_scope.

Ltac Zify.zify_post_hook ::= Z.div_mod_to_equations.

(** * Octet strings *)

Lemma firstn_len_app {A} (a b : list A) : firstn (length a) (a ++ b) = a.
Proof. rewrite firstn_app, Nat.sub_diag, firstn_all. cbn [firstn]. apply app_nil_r. Qed.

Lemma skipn_len_app {A} (a b : list A) : skipn (length a) (a ++ b) = b.
Proof. rewrite skipn_app, Nat.sub_diag, skipn_all. reflexivity. Qed.

Lemma wf_bytes_firstn k : forall l, wf_bytes l -> wf_bytes (firstn k l).
Proof.
  induction k as [|k IH]; intros l H; [constructor|].
  destruct l as [|x l]; [constructor|]. inversion H; subst. cbn [firstn]. constructor; [assumption|].
  apply IH. assumption.
Qed.

Lemma wf_bytes_skipn k : forall l, wf_bytes l -> wf_bytes (skipn k l).
Proof.
  induction k as [|k IH]; intros l H; [exact H|].
  destruct l as [|x l]; [constructor|]. inversion H; subst. cbn [skipn]. apply IH. assumption.
Qed.

Lemma unbe_bound l : wf_bytes l -> unbe l < 256 ^ N.of_nat (length l).
Proof.
  induction l as [|b l IH] using rev_ind; intros H.
  - cbn. unfold unbe. cbn. lia.
  - apply wf_bytes_app in H as [Hl Hb]. inversion Hb as [|? ? Hb' _]; subst. unfold wf_byte in Hb'.
    rewrite unbe_app, app_length. cbn [length]. rewrite Nat.add_1_r, Nnat.Nat2N.inj_succ, N.pow_succ_r'.
    specialize (IH Hl). lia.
Qed.

Lemma be_unbe l : wf_bytes l -> be (length l) (unbe l) = l.
Proof.
  induction l as [|b l IH] using rev_ind; intros H.
  - reflexivity.
  - apply wf_bytes_app in H as [Hl Hb]. inversion Hb as [|? ? Hb' _]; subst. unfold wf_byte in Hb'.
    rewrite unbe_app, app_length. cbn [length]. rewrite Nat.add_1_r. cbn [be].
    replace ((unbe l * 256 + b) / 256) with (unbe l) by lia.
    replace ((unbe l * 256 + b) mod 256) with b by lia.
    rewrite (IH Hl). reflexivity.
Qed.

Lemma take_be_inv k l n r :
  wf_bytes l -> take_be k l = Some (n, r) ->
  l = be k n ++ r /\ n < 256 ^ N.of_nat k /\ wf_bytes r.
Proof.
  intros Hwf. unfold take_be. destruct (Nat.ltb_spec (length l) k) as [Hl|Hl]; [discriminate|].
  intros E. inversion E; subst n r. clear E.
  assert (Hlen : length (firstn k l) = k) by (rewrite firstn_length; lia).
  pose proof (wf_bytes_firstn k l Hwf) as Hf.
  split; [|split].
  - rewrite <- Hlen at 1. rewrite (be_unbe _ Hf). symmetry. apply firstn_skipn.
  - rewrite <- Hlen at 2. apply unbe_bound. exact Hf.
  - apply wf_bytes_skipn. exact Hwf.
Qed.

Lemma blen_app a b : blen (a ++ b) = blen a + blen b.
Proof. unfold blen. rewrite app_length. lia. Qed.

Lemma is_nil_true {A} (l : list A) : is_nil l = true <-> l = [].
Proof. destruct l; cbn; split; congruence. Qed.

Lemma is_nil_false {A} (l : list A) : is_nil l = false <-> l <> [].
Proof. destruct l; cbn; split; congruence. Qed.

(** * Well-formedness as propositions *)

Definition wf_hint (h : hint) : Prop :=
  h_type h < 128 /\ blen (h_data h) < 256 /\ wf_bytes (h_data h).

Lemma wf_hintb_spec h : wf_hintb h = true <-> wf_hint h.
Proof.
  unfold wf_hintb, wf_hint. rewrite !andb_true_iff, !N.ltb_lt, wf_bytesb_spec. tauto.
Qed.

Definition wf_msg (m : msg) : Prop :=
  m_type m < 256 /\ m_flags m < 16
  /\ (has_h (m_flags m) = negb (is_nil (m_hints m)))
  /\ Forall wf_hint (m_hints m) /\ (length (m_hints m) <= MAX_LIST)%nat
  /\ wf_bytes (m_body m)
  /\ blen (encode_hints (m_hints m)) + blen (m_body m) < LEN_MOD.

Lemma wf_msgb_spec m : wf_msgb m = true <-> wf_msg m.
Proof.
  unfold wf_msgb, wf_msg. rewrite !andb_true_iff, !N.ltb_lt, Nat.leb_le, wf_bytesb_spec, eqb_true_iff.
  rewrite forallb_forall, Forall_forall.
  split.
  - intros [[[[[[H1 H2] H3] H4] H5] H6] H7].
    split; [exact H1|]. split; [exact H2|]. split; [exact H3|]. split; [|tauto].
    intros x Hx. apply wf_hintb_spec, H4, Hx.
  - intros (H1 & H2 & H3 & H4 & H5 & H6 & H7).
    split; [|exact H7]. split; [|exact H6]. split; [|exact H5]. split; [tauto|].
    intros x Hx. apply wf_hintb_spec, H4, Hx.
Qed.

(** * Hints *)

Lemma encode_hints_length_ge hs : (length hs <= length (encode_hints hs))%nat.
Proof.
  induction hs as [|h t IH]; cbn [encode_hints length]; [lia|]. rewrite app_length. lia.
Qed.

Lemma encode_hints_wf hs : Forall wf_hint hs -> wf_bytes (encode_hints hs).
Proof.
  induction 1 as [|h t (Ht & Hl & Hd) _ IH]; cbn [encode_hints]; [constructor|].
  constructor; [|constructor; [|apply wf_bytes_app; split; assumption]].
  - unfold wf_byte. destruct (is_nil t); lia.
  - unfold wf_byte. lia.
Qed.

Lemma decode_hints_encode hs : forall fuel rest,
  (length hs <= fuel)%nat -> hs <> [] -> Forall wf_hint hs ->
  decode_hints fuel (encode_hints hs ++ rest) = Some (hs, rest).
Proof.
  induction hs as [|h t IH]; intros fuel rest Hf Hne Hwf; [congruence|].
  destruct fuel as [|f]; [cbn in Hf; lia|].
  inversion Hwf as [|? ? (Ht & Hl & Hd) Hwt]; subst.
  cbn [encode_hints decode_hints app]. rewrite <- app_assoc.
  replace (blen (h_data h) mod 256) with (blen (h_data h)) by lia.
  assert (Hnat : N.to_nat (blen (h_data h)) = length (h_data h)) by (unfold blen; lia).
  rewrite !Hnat.
  destruct (Nat.ltb_spec (length (h_data h ++ encode_hints t ++ rest)) (length (h_data h))) as [C|_];
    [rewrite app_length in C; lia|].
  rewrite firstn_len_app, skipn_len_app.
  replace ((h_type h mod 128 * 2 + (if is_nil t then 0 else 1)) / 2) with (h_type h)
    by (destruct (is_nil t); lia).
  replace ((h_type h mod 128 * 2 + (if is_nil t then 0 else 1)) mod 2) with (if is_nil t then 0 else 1)
    by (destruct (is_nil t); lia).
  destruct t as [|h2 t'].
  - cbn [is_nil encode_hints app]. cbn. destruct h; reflexivity.
  - cbn [is_nil]. replace (1 =? 1) with true by reflexivity.
    rewrite IH; [destruct h; reflexivity| cbn [length] in *; lia | congruence | exact Hwt].
Qed.

Lemma decode_hints_inv : forall fuel bs hs r,
  wf_bytes bs -> decode_hints fuel bs = Some (hs, r) ->
  bs = encode_hints hs ++ r /\ hs <> [] /\ Forall wf_hint hs /\ wf_bytes r.
Proof.
  induction fuel as [|f IH]; intros bs hs r Hwf E; [discriminate|].
  cbn [decode_hints] in E.
  destruct bs as [|b0 [|ln rest]]; try discriminate.
  inversion Hwf as [|? ? Hb0 Hwf1]; subst. inversion Hwf1 as [|? ? Hln Hwr]; subst.
  unfold wf_byte in Hb0, Hln.
  destruct (Nat.ltb_spec (length rest) (N.to_nat ln)) as [|Hlen]; [discriminate|].
  pose proof (firstn_skipn (N.to_nat ln) rest) as Hsplit.
  assert (Hfl : blen (firstn (N.to_nat ln) rest) = ln) by (unfold blen; rewrite firstn_length; lia).
  assert (Hh : wf_hint (mkHint (b0 / 2) (firstn (N.to_nat ln) rest))).
  { unfold wf_hint. cbn [h_type h_data]. rewrite Hfl. repeat split; try lia. apply wf_bytes_firstn, Hwr. }
  destruct (N.eqb_spec (b0 mod 2) 1) as [Hodd|Heven].
  - destruct (decode_hints f (skipn (N.to_nat ln) rest)) as [[hs' r']|] eqn:D; [|discriminate].
    inversion E; subst hs r. clear E.
    destruct (IH _ _ _ (wf_bytes_skipn _ _ Hwr) D) as (Hs & Hne & Hws & Hr).
    repeat split; [|congruence|constructor; assumption|exact Hr].
    cbn [encode_hints h_type h_data]. rewrite Hfl.
    destruct hs' as [|h2 t2]; [congruence|]. cbn [is_nil].
    replace (b0 / 2 mod 128 * 2 + 1) with b0 by lia.
    replace (ln mod 256) with ln by lia.
    cbn [app]. rewrite <- app_assoc, <- Hs, Hsplit. reflexivity.
  - inversion E; subst hs r. clear E.
    repeat split; [|congruence|constructor; [exact Hh|constructor]|apply wf_bytes_skipn, Hwr].
    cbn [encode_hints h_type h_data is_nil]. rewrite Hfl.
    replace (b0 / 2 mod 128 * 2 + 0) with b0 by lia.
    replace (ln mod 256) with ln by lia.
    cbn [app]. rewrite app_nil_r, Hsplit. reflexivity.
Qed.

(** * One message *)

Lemma pow_256_3 : 256 ^ N.of_nat 3 = 16777216.
Proof. reflexivity. Qed.

Lemma pow_256_4 : 256 ^ N.of_nat 4 = 4294967296.
Proof. reflexivity. Qed.

Lemma encode_msg_length m :
  blen (encode_msg m) = 4 + blen (encode_hints (m_hints m)) + blen (m_body m).
Proof.
  unfold encode_msg, blen. cbn [length]. rewrite !app_length, be_length. lia.
Qed.

Lemma decode_head_encode m rest :
  wf_msg m ->
  decode_head (encode_msg m ++ rest)
  = Some (m_type m, m_flags m, blen (encode_hints (m_hints m)) + blen (m_body m),
          encode_hints (m_hints m) ++ m_body m ++ rest).
Proof.
  intros (Ht & Hf & Hh & Hws & Hn & Hb & Hl).
  unfold encode_msg, decode_head, len_field. cbn [app]. rewrite <- !app_assoc.
  unfold LEN_MOD in *.
  rewrite take_be_app by (rewrite pow_256_3; lia).
  set (L := blen (encode_hints (m_hints m)) + blen (m_body m)) in *.
  replace ((m_flags m mod 16 * 1048576 + L mod 1048576) / 1048576) with (m_flags m) by lia.
  replace ((m_flags m mod 16 * 1048576 + L mod 1048576) mod 1048576) with L by lia.
  reflexivity.
Qed.

Lemma has_h_mk {A} (hs : list A) : has_h (if is_nil hs then 0 else 8) = negb (is_nil hs).
Proof. destruct hs; reflexivity. Qed.

Theorem decode_msg_encode m rest :
  wf_msgb m = true -> decode_msg (encode_msg m ++ rest) = Some (m, rest).
Proof.
  intros Hb. apply wf_msgb_spec in Hb. pose proof Hb as (Ht & Hf & Hh & Hws & Hn & Hbd & Hl).
  unfold decode_msg. rewrite (decode_head_encode m rest Hb).
  rewrite <- blen_app.
  assert (Hnat : N.to_nat (blen (encode_hints (m_hints m) ++ m_body m))
                 = length (encode_hints (m_hints m) ++ m_body m)) by (unfold blen; lia).
  rewrite !Hnat. rewrite app_assoc.
  destruct (Nat.ltb_spec (length ((encode_hints (m_hints m) ++ m_body m) ++ rest))
                         (length (encode_hints (m_hints m) ++ m_body m))) as [C|_];
    [rewrite app_length in C; lia|].
  rewrite firstn_len_app, skipn_len_app, Hh.
  destruct m as [t fl hs body]. cbn [m_type m_flags m_hints m_body] in *.
  destruct hs as [|h hs'].
  - cbn [is_nil negb encode_hints app]. reflexivity.
  - cbn [is_nil negb].
    rewrite decode_hints_encode; [| |congruence|exact Hws].
    + destruct (Nat.leb_spec (length (h :: hs')) MAX_LIST); [reflexivity|lia].
    + pose proof (encode_hints_length_ge (h :: hs')). rewrite app_length. lia.
Qed.

Theorem declared_len_encode m rest :
  wf_msgb m = true ->
  declared_len (encode_msg m ++ rest) = Some (blen (encode_hints (m_hints m)) + blen (m_body m))
  /\ blen (encode_msg m) = 4 + (blen (encode_hints (m_hints m)) + blen (m_body m)).
Proof.
  intros Hb. apply wf_msgb_spec in Hb. split.
  - unfold declared_len. rewrite (decode_head_encode m rest Hb). reflexivity.
  - rewrite encode_msg_length. lia.
Qed.

(** The guard on the total length is needed: the unchanged code masks the
    20-bit field (known finding).  2^20 zero octets as a bundle PDU. *)
Theorem declared_len_refuted :
  exists d, wf_bytesb d = true
            /\ blen d = 1048576
            /\ declared_len (encode_msg (mk_bundle d)) = Some 0
            /\ option_map (fun f => (map (fun m => blen (m_body m)) (f_msgs f), blen (f_pad f)))
                          (decode_frame (encode_frame (mkFrame [mk_bundle d] [])))
               = Some ([0], 1048576).
Proof.
  exists (repeat 0 (N.to_nat 1048576)).
  split; [vm_compute; reflexivity|]. split; [vm_compute; reflexivity|].
  split; [vm_compute; reflexivity|]. vm_compute; reflexivity.
Qed.

Lemma decode_msg_inv bs m rest :
  wf_bytes bs -> decode_msg bs = Some (m, rest) ->
  bs = encode_msg m ++ rest /\ wf_msg m /\ wf_bytes rest.
Proof.
  intros Hwf. unfold decode_msg, decode_head.
  destruct bs as [|t rest0]; [discriminate|].
  inversion Hwf as [|? ? Ht Hwf0]; subst. unfold wf_byte in Ht.
  destruct (take_be 3 rest0) as [[v rest1]|] eqn:T; [|discriminate].
  destruct (take_be_inv _ _ _ _ Hwf0 T) as (Hr0 & Hv & Hw1). rewrite pow_256_3 in Hv.
  unfold LEN_MOD.
  destruct (Nat.ltb_spec (length rest1) (N.to_nat (v mod 1048576))) as [|Hlen]; [discriminate|].
  pose proof (firstn_skipn (N.to_nat (v mod 1048576)) rest1) as Hsplit.
  assert (Hbl : blen (firstn (N.to_nat (v mod 1048576)) rest1) = v mod 1048576)
    by (unfold blen; rewrite firstn_length; lia).
  pose proof (wf_bytes_firstn (N.to_nat (v mod 1048576)) rest1 Hw1) as Hwb.
  pose proof (wf_bytes_skipn (N.to_nat (v mod 1048576)) rest1 Hw1) as Hwr.
  destruct (has_h (v / 1048576)) eqn:Hh.
  - destruct (decode_hints _ _) as [[hs pl]|] eqn:D; [|discriminate].
    destruct (Nat.leb_spec (length hs) MAX_LIST) as [Hmax|]; [|discriminate].
    intros E. inversion E; subst m rest. clear E.
    destruct (decode_hints_inv _ _ _ _ Hwb D) as (Hs & Hne & Hws & Hwp).
    assert (Hsum : blen (encode_hints hs) + blen pl = v mod 1048576)
      by (rewrite <- blen_app, <- Hs; exact Hbl).
    split; [|split; [|exact Hwr]].
    + unfold encode_msg, len_field. cbn [m_type m_flags m_hints m_body]. unfold LEN_MOD. rewrite Hsum.
      replace ((v / 1048576) mod 16 * 1048576 + (v mod 1048576) mod 1048576) with v by lia.
      cbn [app]. rewrite <- !app_assoc. rewrite (app_assoc (encode_hints hs)), <- Hs, Hsplit, <- Hr0. reflexivity.
    + unfold wf_msg. cbn [m_type m_flags m_hints m_body]. unfold LEN_MOD. rewrite Hsum, Hh.
      repeat split; try assumption; try lia.
      destruct hs; [congruence|reflexivity].
  - intros E. inversion E; subst m rest. clear E.
    split; [|split; [|exact Hwr]].
    + unfold encode_msg, len_field. cbn [m_type m_flags m_hints m_body encode_hints]. unfold LEN_MOD.
      change (blen []) with 0. rewrite N.add_0_l, Hbl.
      replace ((v / 1048576) mod 16 * 1048576 + (v mod 1048576) mod 1048576) with v by lia.
      cbn [app]. rewrite <- !app_assoc. rewrite Hsplit, <- Hr0. reflexivity.
    + unfold wf_msg. cbn [m_type m_flags m_hints m_body encode_hints is_nil negb length]. unfold LEN_MOD.
      change (blen []) with 0. rewrite N.add_0_l, Hbl, Hh.
      repeat split; try assumption; try (unfold MAX_LIST; lia); constructor.
Qed.

(** * Frames *)

Definition wf_frame (f : frame) : Prop :=
  Forall (fun m => wf_msg m /\ m_type m <> 0) (f_msgs f)
  /\ (length (f_msgs f) <= MAX_LIST)%nat
  /\ (match f_pad f with [] => True | b :: _ => b = 0 end) /\ wf_bytes (f_pad f).

Lemma wf_frameb_spec f : wf_frameb f = true <-> wf_frame f.
Proof.
  unfold wf_frameb, wf_frame, wf_padb.
  rewrite !andb_true_iff, Nat.leb_le, wf_bytesb_spec, forallb_forall, Forall_forall.
  split.
  - intros [[H1 H2] [H3 H4]].
    split; [|split; [exact H2|split; [|exact H4]]].
    + intros x Hx. specialize (H1 x Hx). apply andb_true_iff in H1 as [Ha Hb].
      split; [apply wf_msgb_spec, Ha|]. apply negb_true_iff in Hb. lia.
    + destruct (f_pad f); [trivial|lia].
  - intros (H1 & H2 & H3 & H4).
    split; [split; [|exact H2]|split; [|exact H4]].
    + intros x Hx. destruct (H1 x Hx) as [Ha Hb]. apply andb_true_iff. split.
      * apply wf_msgb_spec, Ha.
      * apply negb_true_iff. lia.
    + destruct (f_pad f); [reflexivity|lia].
Qed.

Lemma encode_msgs_cons m ms : encode_msgs (m :: ms) = encode_msg m ++ encode_msgs ms.
Proof. reflexivity. Qed.

Lemma encode_msgs_length_ge ms : (length ms <= length (encode_msgs ms))%nat.
Proof.
  induction ms as [|m t IH]; [cbn; lia|]. rewrite encode_msgs_cons, app_length.
  unfold encode_msg. cbn [length]. lia.
Qed.

Lemma decode_msgs_encode ms : forall fuel pad,
  Forall (fun m => wf_msg m /\ m_type m <> 0) ms ->
  (match pad with [] => True | b :: _ => b = 0 end) ->
  (length ms <= fuel)%nat ->
  decode_msgs fuel (encode_msgs ms ++ pad) = Some (ms, pad).
Proof.
  induction ms as [|m t IH]; intros fuel pad Hms Hpad Hf.
  - cbn [encode_msgs map concat app]. destruct pad as [|b p]; [destruct fuel; reflexivity|].
    subst b. destruct fuel; reflexivity.
  - inversion Hms as [|? ? [Hm Hty] Hms']; subst.
    destruct fuel as [|f]; [cbn in Hf; lia|].
    rewrite encode_msgs_cons, <- app_assoc.
    assert (E : decode_msg (encode_msg m ++ encode_msgs t ++ pad) = Some (m, encode_msgs t ++ pad))
      by (apply decode_msg_encode, wf_msgb_spec, Hm).
    remember (encode_msg m ++ encode_msgs t ++ pad) as bs eqn:Hbs.
    assert (Hhd : exists tl, bs = m_type m :: tl) by (subst bs; unfold encode_msg; cbn [app]; eauto).
    destruct Hhd as [tl Htl]. rewrite Htl. cbn [decode_msgs].
    destruct (N.eqb_spec (m_type m) 0) as [C|_]; [contradiction|].
    rewrite <- Htl, E, IH; [reflexivity|exact Hms'|exact Hpad|cbn [length] in Hf; lia].
Qed.

Theorem decode_frame_encode f : wf_frameb f = true -> decode_frame (encode_frame f) = Some f.
Proof.
  intros H. apply wf_frameb_spec in H as (Hms & Hn & Hp & _).
  unfold decode_frame, encode_frame.
  rewrite decode_msgs_encode; [|exact Hms|exact Hp|].
  - destruct (Nat.leb_spec (length (f_msgs f)) MAX_LIST); [destruct f; reflexivity|lia].
  - pose proof (encode_msgs_length_ge (f_msgs f)). rewrite app_length. lia.
Qed.

Lemma decode_msgs_inv : forall fuel bs ms pad,
  wf_bytes bs -> decode_msgs fuel bs = Some (ms, pad) ->
  bs = encode_msgs ms ++ pad
  /\ Forall (fun m => wf_msg m /\ m_type m <> 0) ms
  /\ (match pad with [] => True | b :: _ => b = 0 end) /\ wf_bytes pad.
Proof.
  induction fuel as [|f IH]; intros bs ms pad Hwf E.
  - destruct bs as [|b tl]; cbn [decode_msgs] in E.
    + inversion E; subst. repeat split; constructor.
    + destruct (N.eqb_spec b 0) as [Hb|]; [|discriminate]. inversion E; subst.
      repeat split; [constructor|exact Hwf].
  - destruct bs as [|b tl]; cbn [decode_msgs] in E.
    + inversion E; subst. repeat split; constructor.
    + destruct (N.eqb_spec b 0) as [Hb|Hb].
      * inversion E; subst. repeat split; [constructor|exact Hwf].
      * destruct (decode_msg (b :: tl)) as [[m rest]|] eqn:D; [|discriminate].
        destruct (decode_msgs f rest) as [[ms' pad']|] eqn:D2; [|discriminate].
        inversion E; subst ms pad. clear E.
        destruct (decode_msg_inv _ _ _ Hwf D) as (Hs & Hm & Hwr).
        destruct (IH _ _ _ Hwr D2) as (Hs2 & Hms & Hp & Hwp).
        repeat split; try assumption.
        -- rewrite encode_msgs_cons, <- app_assoc, <- Hs2. exact Hs.
        -- constructor; [|exact Hms]. split; [exact Hm|].
           unfold encode_msg in Hs. cbn [app] in Hs. inversion Hs. congruence.
Qed.

Theorem decode_frame_inv bs f :
  wf_bytesb bs = true -> decode_frame bs = Some f -> encode_frame f = bs /\ wf_frameb f = true.
Proof.
  intros Hwf. apply wf_bytesb_spec in Hwf. unfold decode_frame.
  destruct (decode_msgs (length bs) bs) as [[ms pad]|] eqn:D; [|discriminate].
  destruct (Nat.leb_spec (length ms) MAX_LIST) as [Hn|]; [|discriminate].
  intros E. inversion E; subst f. clear E.
  destruct (decode_msgs_inv _ _ _ _ Hwf D) as (Hs & Hms & Hp & Hwp).
  split; [unfold encode_frame; cbn [f_msgs f_pad]; congruence|].
  apply wf_frameb_spec. unfold wf_frame. cbn [f_msgs f_pad]. tauto.
Qed.
