(* C05 -- BP fragmentation keeps every fragment within the route MTU and loses nothing.

   Model: Model/BpFrag.v (fragment step of the TX chain and one whole send request) over
   the bundle codec of Model/Bundle.v.  Every decision and all arithmetic of
   Fragment._create is Gen/FragBudget.v, regenerated from src/bp/app/fragment.py on every
   run, so the statements below are re-proved against what the code says now.

     tx b                 the octets handed to the convergence layer for bundle b
                          (CRCs recomputed, RFC 9171 encoding)
     fragment_step b mtu  Unchanged | Frags l | Nothing (infeasible: the step raises before
                          anything is scheduled) | NoPayload | Stuck
     send_request sec b mtu
                          the octet strings given to the convergence layer for ONE send
                          request: sec (BPSec apply steps, orders 10/11), fragment step
                          (order 20); every fragment re-enters the whole chain.
     no_sec               security policy off (identity)
     frag_allowed b       neither NO_FRAGMENT nor IS_FRAGMENT is set
     one_payload b        exactly one block carries the payload block number

   Security policy ON: every fragment re-enters send_bundle, so the security step runs
   again on it.  C05_within_mtu_sec_refuted: a step that only adds a block (and touches
   neither the primary block nor the payload) makes fragments exceed the MTU -- that is
   known finding "C05 / BPSec BIB policy on / fragments re-enter TX chain and grow past
   MTU (local send, own-source bundle)", witness harness/corpus/C05_secpolicy_oversize.json.
   C05_within_mtu_sec_partial: the bound holds for every security step that leaves
   bundles already marked as fragments alone.  C05_within_mtu is the policy-off instance. *)
From Coq Require Import List NArith ZArith Bool.
Import ListNotations.
From DTN Require Import Lib.Bytes Lib.Cbor Model.Bundle Gen.FragBudget Model.BpFrag Proofs.BpFragProofs.
Local Open Scope Z_scope.

(* ---- the size model: what is handed to the CL has exactly the size the budget uses *)
Theorem C05_tx_length : forall b : bundle, Z.of_nat (length (tx b)) = tx_size b.
Proof. exact tx_length. Qed.
Print Assumptions C05_tx_length.

(* ---- every bundle handed to the convergence layer encodes to at most the MTU: for ALL
        bundles (any payload length, CRC types, extension blocks) and ALL MTUs; policy off *)
Theorem C05_within_mtu : forall (b : bundle) (m : N),
  frag_allowed b -> one_payload b ->
  Forall (fun o : bytes => Z.of_nat (length o) <= Z.of_N m) (send_request no_sec b (Some m)).
Proof. exact within_mtu_plain. Qed.
Print Assumptions C05_within_mtu.
Example C05_within_mtu_nonvacuous :
  frag_allowed (sample 300) /\ one_payload (sample 300) /\
  map (@length N) (send_request no_sec (sample 300) (Some 150%N)) = [149; 149; 149; 149; 149; 89]%nat /\
  length (tx (sample 300)) = 401%nat.
Proof. repeat split; vm_compute; reflexivity. Qed.

(* ---- lifted to a HISTORY of sends of the same bundle while the route MTU changes: every octet string
        handed to the convergence layer at any send is within the MTU in force at THAT send
        (send_history sec b mtus = map (send_request sec b) mtus: what a container carries over from
        an earlier send -- route, sender -- has no influence; checked against the real agent by re-sending
        the same container in harness/check_C05.py) *)
Theorem C05_history_within_mtu : forall (b : bundle) (ms : list N),
  frag_allowed b -> one_payload b ->
  Forall (fun p : N * list bytes => Forall (fun o : bytes => Z.of_nat (length o) <= Z.of_N (fst p)) (snd p))
         (combine ms (send_history no_sec b (map Some ms))).
Proof. exact history_within_mtu. Qed.
Print Assumptions C05_history_within_mtu.
Example C05_history_within_mtu_nonvacuous :
  map (map (@length N)) (send_history no_sec (sample 300) [None; Some 150%N; Some 105%N; Some 401%N])
  = [[401]; [149; 149; 149; 149; 149; 89]; []; [401]]%nat.
Proof. vm_compute. reflexivity. Qed.

(* the same for the fragment list of the step itself *)
Theorem C05_within_mtu_frags : forall (b : bundle) (m : N) (l : list bundle),
  one_payload b -> fragment_step b (Some m) = Frags l ->
  Forall (fun f => Z.of_nat (length (tx f)) <= Z.of_N m) l.
Proof. exact frags_within_mtu. Qed.
Print Assumptions C05_within_mtu_frags.

(* ---- with a security step: FULL statement (for every step sec that touches neither the
        primary block nor the payload) is FALSE for the unchanged code:
          forall sec b m, (forall f, prim (sec f) = prim f /\ payload_of (sec f) = payload_of f) ->
            frag_allowed (sec b) -> one_payload (sec b) ->
            Forall (fun o => Z.of_nat (length o) <= Z.of_N m) (send_request sec b (Some m))      *)
Theorem C05_within_mtu_sec_refuted :
  exists (sec : bundle -> bundle) (b : bundle) (m : N),
    (forall f, prim (sec f) = prim f /\ payload_of (sec f) = payload_of f) /\
    frag_allowed (sec b) /\ one_payload (sec b) /\
    ~ Forall (fun o : bytes => Z.of_nat (length o) <= Z.of_N m) (send_request sec b (Some m)).
Proof. exact sec_refuted. Qed.
Print Assumptions C05_within_mtu_sec_refuted.
Example C05_within_mtu_sec_refuted_witness :
  map (@length N) (send_request (add_bib 71) (sample 600) (Some 250%N)) = [327; 327; 327; 327; 210]%nat.
Proof. vm_compute. reflexivity. Qed.

(* what remains true: a security step that leaves fragments alone (missing: nothing in the code
   makes the BPSec apply steps skip bundles that are already fragments) *)
Theorem C05_within_mtu_sec_partial : forall (sec : bundle -> bundle),
  (forall f, flag_set (flags (prim f)) flag_is_fragment = true -> sec f = f) ->
  forall (b : bundle) (m : N),
  frag_allowed (sec b) -> one_payload (sec b) ->
  Forall (fun o : bytes => Z.of_nat (length o) <= Z.of_N m) (send_request sec b (Some m)).
Proof. exact within_mtu_sec. Qed.
Print Assumptions C05_within_mtu_sec_partial.

(* ---- the fragments' payload ranges tile the original payload exactly: contiguous from 0,
        non-overlapping, complete; every fragment carries the total payload length *)
Theorem C05_tiling : forall (b : bundle) (m : N) (l : list bundle) (pd : bytes),
  one_payload b -> fragment_step b (Some m) = Frags l -> payload_of b = Some pd ->
  concat (map frag_data l) = pd /\ offsets_from 0 l /\ Forall (fun f => frag_total f = Some (olen pd)) l.
Proof. exact frags_tiling. Qed.
Print Assumptions C05_tiling.
Example C05_tiling_nonvacuous :
  one_payload (sample 300) /\
  (exists l, fragment_step (sample 300) (Some 150%N) = Frags l /\
             map frag_off l = [0; 45; 108; 171; 234; 297]%N /\
             map (fun f => length (frag_data f)) l = [45; 63; 63; 63; 63; 3]%nat).
Proof. split; [reflexivity|]. eexists. split; [vm_compute; reflexivity|]. split; vm_compute; reflexivity. Qed.

(* ---- progress: when the step produces fragments every one carries at least one payload octet,
        so there are at most |payload| of them; and the loop never runs out of fuel
        (S |payload| rounds): the model's Stuck is unreachable, i.e. _create terminates *)
Theorem C05_progress : forall (b : bundle) (m : N) (l : list bundle) (pd : bytes),
  one_payload b -> fragment_step b (Some m) = Frags l -> payload_of b = Some pd ->
  Forall (fun f => (1 <= length (frag_data f))%nat) l /\ (length l <= length pd)%nat.
Proof. exact frags_progress. Qed.
Print Assumptions C05_progress.

Theorem C05_terminates : forall (b : bundle) (mtu : option N), fragment_step b mtu <> Stuck.
Proof. exact fragment_step_not_stuck. Qed.
Print Assumptions C05_terminates.

(* ---- each fragment carries the original identity (and every other primary field) with the
        fragment flag or-ed in; the fragment at offset 0 carries all blocks of the original, the
        others exactly the ones marked replicate-in-every-fragment plus the payload block
        (strip: type, number, flags, CRC type and, except for the payload block, the data) *)
Theorem C05_identity_blocks : forall (b : bundle) (m : N) (l : list bundle),
  one_payload b -> fragment_step b (Some m) = Frags l ->
  Forall (fun f =>
            version (prim f) = version (prim b) /\ crc_type (prim f) = crc_type (prim b) /\
            dest (prim f) = dest (prim b) /\ src (prim f) = src (prim b) /\ report_to (prim f) = report_to (prim b) /\
            create_time (prim f) = create_time (prim b) /\ create_seq (prim f) = create_seq (prim b) /\
            lifetime (prim f) = lifetime (prim b) /\
            flags (prim f) = N.lor (flags (prim b)) flag_is_fragment /\
            flag_set (flags (prim f)) flag_is_fragment = true /\
            map strip (blocks f) =
            map strip (if (frag_off f =? 0)%N then blocks b
                       else filter (fun k => replicated k || is_pay k) (blocks b))) l.
Proof. exact frags_identity_blocks. Qed.
Print Assumptions C05_identity_blocks.
Example C05_identity_blocks_nonvacuous :
  exists l, fragment_step (sample 300) (Some 150%N) = Frags l /\
            map (fun f => map bnum (blocks f)) l = [[2; 3; 1]; [2; 1]; [2; 1]; [2; 1]; [2; 1]; [2; 1]]%N.
Proof. eexists. split; vm_compute; reflexivity. Qed.

(* the first fragment of the list is the one at offset 0, all later ones start further on *)
Theorem C05_first_fragment : forall (b : bundle) (m : N) (f : bundle) (l : list bundle) (pd : bytes),
  one_payload b -> fragment_step b (Some m) = Frags (f :: l) -> payload_of b = Some pd ->
  frag_off f = 0%N /\ Forall (fun g => (0 < frag_off g)%N) l.
Proof. exact frags_first_offset. Qed.
Print Assumptions C05_first_fragment.

(* ---- a bundle marked do-not-fragment, an existing fragment, a bundle that fits, or a route
        without MTU: exactly the bundle itself is sent (for any security step) *)
Theorem C05_unchanged : forall (sec : bundle -> bundle) (b : bundle) (mtu : option N),
  mtu = None \/ flag_set (flags (prim (sec b))) flag_no_fragment = true
  \/ flag_set (flags (prim (sec b))) flag_is_fragment = true
  \/ (exists m, mtu = Some m /\ tx_size (sec b) <= Z.of_N m) ->
  send_request sec b mtu = [tx (sec b)].
Proof. exact send_unchanged. Qed.
Print Assumptions C05_unchanged.
Example C05_unchanged_nonvacuous :
  send_request no_sec (sample 300) (Some 401%N) = [tx (sample 300)] /\
  map (@length N) (send_request no_sec (sample 300) (Some 400%N)) <> [401%nat].
Proof. split; vm_compute; [reflexivity|discriminate]. Qed.

(* ---- a bundle that has to be split goes out as the complete fragment list or not at all:
        never the original, never a part of the fragments *)
Theorem C05_all_or_nothing : forall (sec : bundle -> bundle) (b : bundle) (m : N),
  (forall f, flag_set (flags (prim f)) flag_is_fragment = true -> sec f = f) ->
  frag_allowed (sec b) -> one_payload (sec b) -> Z.of_N m < tx_size (sec b) ->
  send_request sec b (Some m) = [] \/
  exists l, fragment_step (sec b) (Some m) = Frags l /\ send_request sec b (Some m) = map tx l.
Proof. exact send_all_or_nothing. Qed.
Print Assumptions C05_all_or_nothing.

(* ---- when fragmentation is impossible -- not even one payload octet fits next to the blocks of
        the first fragment under the budget rule -- nothing is transmitted (for any security step) *)
Theorem C05_infeasible_sends_nothing : forall (sec : bundle -> bundle) (b : bundle) (m : N) (pd : bytes),
  frag_allowed (sec b) -> payload_of (sec b) = Some pd -> Z.of_N m < tx_size (sec b) ->
  Z.of_N m < tx_size (template (sec b) 0 (olen pd)) + pyld_size_enc pd ->
  send_request sec b (Some m) = [].
Proof. exact send_infeasible. Qed.
Print Assumptions C05_infeasible_sends_nothing.
Example C05_infeasible_sends_nothing_nonvacuous :
  frag_allowed (sample 300) /\ payload_of (sample 300) = Some (gdata 7 300) /\
  tx_size (template (sample 300) 0 300) + pyld_size_enc (gdata 7 300) = 106 /\
  send_request no_sec (sample 300) (Some 105%N) = [] /\
  map (@length N) (send_request no_sec (sample 300) (Some 110%N)) <> [].
Proof. repeat split; vm_compute; (reflexivity || discriminate). Qed.
