(** Property C08 - Block CRCs are always valid on output and always checked on input.

    Model: [Model/Bundle.v] ([with_crc_primary] / [with_crc_block] / [with_crc_bundle] = the model of
    [AbstractBlock.update_crc] / [Bundle.update_all_crc]; [crc_ok_primary] / [crc_ok_block] /
    [crc_ok_bundle] = [check_crc] / [check_all_crc] on a STRICTLY decoded block), [Model/BundleCrc.v]
    (octet-level vocabulary; the LAX reading of canonical blocks that the implementation really
    performs), [Model/BpAgent.v] ([recv] = [Agent.recv_bundle], CRC verdict as the input [b_crc_ok]),
    [Gen/CrcTable.v] (translated from [AbstractBlock.CRC_DEFN] on every run).  CRC algorithms:
    [Lib/Crc.v]; "independent implementation" = the polynomial-division definitions [crc_spec_x25] /
    [crc_spec_32c], which share no code with the executable shift-register definitions the model uses.

    FULL-STRENGTH receive-side statement (NOT provable for the unchanged implementation, refuted below):

      C08_detect : for every received octet string that differs from a valid encoded bundle by a
                   single-bit flip or a burst of at most 16 (CRC-16) / 32 (CRC-32C) bits inside a
                   CRC-protected block, the implementation's verdict is "dropped".

    Why it fails: [check_crc] recomputes the CRC over the RE-ENCODING of the decoded block
    ([cbor2.dumps(self.build())]), not over the received octets.  Decoding is lax ([cbor2] accepts
    non-shortest heads; [UintField.m2i = int(x)], [BstrField.m2i = bytes(x)] coerce or fall back to
    None), so corrupted octets can decode to a block whose re-encoding is a DIFFERENT octet string
    (even of a different length); the burst theorem says nothing about that string, and the check passes
      (a) always, when the decoded values equal the original ones (a re-spelling such as
          0x01 -> 0xf5: CBOR true read as 1) - [C08_detect_refuted_same_value];
      (a') when only an EID differs and the implementation's EID text conversion maps the altered
          text back to the original octets ('/' -> '?': urlsplit drops the query) -
          [C08_detect_refuted_eid];
      (b) when the CRC of the re-encoding collides with the stored value (1 in 2^16 / 2^32 corruptions
          of that kind; a CRC-16 instance found by search) - [C08_detect_refuted]: one bit turns the
          BTSD head from bstr into tstr, the BTSD is read as None, and the bundle is accepted and
          delivered without its payload.
    What is proved instead ([C08_detect_burst_partial], [C08_detect_field_corruption] and the primary
    block versions) carries the hypothesis that the decoded block re-encodes to exactly the received
    octets ([encode_cblock b' = pre' ++ v]; automatic when the octets decode strictly,
    [C08_detect_burst_decoded]) and that the CRC type item itself is unchanged.  The second hypothesis
    is not a gap of the implementation but of RFC 9171: the CRC type is part of the protected data, so
    a burst that turns type 1 into type 2 (and moves the block boundaries accordingly) makes ANY
    receiver check a different polynomial over a different field.  Likewise not covered by any
    theorem (and by no receiver): bursts that straddle the boundary between the protected part and the
    CRC value (the value is stored big-endian, not in polynomial bit order). *)
From Coq Require Import List NArith Bool.
From DTN Require Import Lib.Bytes Lib.Cbor Lib.Crc Model.Bundle Model.BundleCrc Proofs.BundleCrcProofs.
From DTN Require Model.BpAgent Gen.CrcTable.
Import ListNotations.
Local Open Scope N_scope.

(** * Output *)

(** [crc_valid_octets ct enc] unfolds to
      (ct = 1 -> exists pre, enc = pre ++ be 2 (crc_spec_x25 (pre ++ [0; 0]))) /\
      (ct = 2 -> exists pre, enc = pre ++ be 4 (crc_spec_32c (pre ++ [0; 0; 0; 0])))
    i.e. the last 2 / 4 octets of the encoded block are the big-endian CRC-16/X.25 / CRC-32C, by
    polynomial division, of the whole encoded block with those octets replaced by zeros - what an
    independent receiver recomputes from the octets on the wire. *)
Theorem C08_tx_valid : forall b : bundle,
  encode_bundle (with_crc_bundle b) =
    159 :: encode_primary (with_crc_primary (prim b))
        ++ concat (map (fun blk => encode_cblock (with_crc_block blk)) (blocks b)) ++ [255]
  /\ crc_valid_octets (crc_type (prim b)) (encode_primary (with_crc_primary (prim b)))
  /\ Forall (fun blk => crc_valid_octets (bcrc_type blk) (encode_cblock (with_crc_block blk))) (blocks b).
Proof. exact tx_valid_bundle. Qed.
Print Assumptions C08_tx_valid.

(** the same, spelled out for one canonical block *)
Theorem C08_tx_valid_block : forall b : cblock,
  (bcrc_type b = 1 -> exists pre, encode_cblock (with_crc_block b) = pre ++ be 2 (crc_spec_x25 (pre ++ [0; 0]))) /\
  (bcrc_type b = 2 -> exists pre, encode_cblock (with_crc_block b) = pre ++ be 4 (crc_spec_32c (pre ++ [0; 0; 0; 0]))).
Proof. exact tx_valid_block. Qed.
Print Assumptions C08_tx_valid_block.

(** ... and the message the CRC was computed over ([pre] ++ zeros) is the encoding of the block with a
    zero-filled CRC field of the right width *)
Theorem C08_tx_zeroed : forall (b : cblock) (pre v : bytes),
  bcrc_type b = 1 \/ bcrc_type b = 2 ->
  encode_cblock (with_crc_block b) = pre ++ v -> length v = crc_width (bcrc_type b) ->
  encode_cblock (zero_block b) = pre ++ repeat 0 (crc_width (bcrc_type b)).
Proof. exact tx_zeroed_block. Qed.
Print Assumptions C08_tx_zeroed.

Example C08_tx_zeroed_nonvacuous :
  bcrc_type ex_block = 1 /\ exists pre v, encode_cblock (with_crc_block ex_block) = pre ++ v /\ length v = 2%nat.
Proof. split; [reflexivity|]. exists ex_pre, (ren_crc (bcrc ex_block)). vm_compute. split; reflexivity. Qed.

(** CRC type 0: the encoded block array has no CRC item (5 items, head 0x85; primary 8, or 10 for a fragment) *)
Theorem C08_type0_no_field :
  (forall b : cblock, bcrc_type b = 0 ->
     bcrc (with_crc_block b) = None
     /\ length (cblock_items (with_crc_block b)) = 5%nat
     /\ hd_error (encode_cblock (with_crc_block b)) = Some 133)
  /\ (forall p : primary, crc_type p = 0 ->
     crc (with_crc_primary p) = None
     /\ length (primary_items (with_crc_primary p)) = match frag p with Some _ => 10%nat | None => 8%nat end).
Proof. split; [exact type0_block | exact type0_primary]. Qed.
Print Assumptions C08_type0_no_field.

(** non-zero CRC type: exactly one more item, a byte string of 2 / 4 octets *)
Theorem C08_typeN_field : forall b : cblock, bcrc_type b = 1 \/ bcrc_type b = 2 ->
  length (cblock_items (with_crc_block b)) = 6%nat
  /\ exists v, bcrc (with_crc_block b) = Some v /\ length v = crc_width (bcrc_type b).
Proof. exact typeN_block. Qed.
Print Assumptions C08_typeN_field.

(** the table in [blocks.py] (algorithm names, pack formats, enum values) is the one modelled *)
Theorem C08_gen_table :
  (forall (ct : N) (bs : bytes), CrcTable.gen_crc_field ct bs = crc_field ct bs)
  /\ (forall ct : N, In ct CrcTable.crc_type_values <-> crc_type_ok ct = true)
  /\ (forall ct : N, In ct CrcTable.crc_type_values ->
        CrcTable.gen_crc_zero ct = crc_zero ct /\ CrcTable.gen_crc_width ct = crc_width ct).
Proof. split; [exact gen_table_field|]. split; [exact gen_table_types | exact gen_table_zero]. Qed.
Print Assumptions C08_gen_table.

(** * Input *)

Theorem C08_check_accepts_valid :
  (forall b : cblock, crc_ok_block (with_crc_block b) = true)
  /\ (forall p : primary, crc_ok_primary (with_crc_primary p) = true)
  /\ (forall b : bundle, crc_ok_bundle (with_crc_bundle b) = true).
Proof. split; [exact check_accepts_block|]. split; [exact check_accepts_primary | exact check_accepts_bundle]. Qed.
Print Assumptions C08_check_accepts_valid.

(** [pre ++ v]: encoding of a block [b] with a correct CRC, [v] its CRC value octets (the last 2 / 4).
    [pre' ++ v]: received octets, differing from it by a non-zero burst of at most 16 / 32 bits
    ([burst_apart]: equal lengths, bit order as fed to the CRC) lying in front of the CRC value.
    HYPOTHESES forced by the code: the block [b'] that the receiver decoded re-encodes to exactly the
    received octets, and its CRC type is that of [b].  Then the check fails. *)
Theorem C08_detect_burst_partial : forall (b b' : cblock) (pre pre' v : bytes),
  crc_ok_block b = true ->
  encode_cblock b = pre ++ v ->
  encode_cblock b' = pre' ++ v ->
  bcrc_type b' = bcrc_type b ->
  (bcrc_type b = 1 /\ length v = 2%nat /\ burst_apart 16 pre pre') \/
  (bcrc_type b = 2 /\ length v = 4%nat /\ burst_apart 32 pre pre') ->
  crc_ok_block b' = false.
Proof. exact detect_burst_block. Qed.
Print Assumptions C08_detect_burst_partial.

Example C08_detect_burst_partial_nonvacuous :
  crc_ok_block ex_block = true
  /\ (exists v, encode_cblock ex_block = ex_pre ++ v /\ encode_cblock ex_block' = ex_pre' ++ v /\ length v = 2%nat)
  /\ bcrc_type ex_block' = bcrc_type ex_block /\ bcrc_type ex_block = 1
  /\ burst_apart 16 ex_pre ex_pre'
  /\ crc_ok_block ex_block' = false.
Proof. exact detect_burst_block_hyps. Qed.

(** when the received octets are accepted by the strict (shortest-form, definite-length, exact CBOR
    types) decoder the re-encoding hypothesis holds by itself *)
Corollary C08_detect_burst_decoded : forall (b b' : cblock) (pre pre' v : bytes) (c : cbor),
  crc_ok_block b = true ->
  encode_cblock b = pre ++ v ->
  decode_one_strict (pre' ++ v) = Some c -> cblock_of_cbor c = Some b' ->
  bcrc_type b' = bcrc_type b ->
  (bcrc_type b = 1 /\ length v = 2%nat /\ burst_apart 16 pre pre') \/
  (bcrc_type b = 2 /\ length v = 4%nat /\ burst_apart 32 pre pre') ->
  crc_ok_block b' = false.
Proof. exact detect_burst_block_decoded. Qed.
Print Assumptions C08_detect_burst_decoded.

(** any change of the stored CRC octets themselves is detected (same hypotheses) *)
Theorem C08_detect_field_corruption : forall (b b' : cblock) (pre v v' : bytes),
  crc_ok_block b = true ->
  encode_cblock b = pre ++ v ->
  encode_cblock b' = pre ++ v' ->
  bcrc_type b' = bcrc_type b ->
  length v' = length v -> v' <> v ->
  (bcrc_type b = 1 /\ length v = 2%nat) \/ (bcrc_type b = 2 /\ length v = 4%nat) ->
  crc_ok_block b' = false.
Proof. exact detect_field_block. Qed.
Print Assumptions C08_detect_field_corruption.

(** the primary block, both clauses *)
Theorem C08_detect_burst_primary_partial : forall (p p' : primary) (pre pre' v : bytes),
  crc_ok_primary p = true ->
  encode_primary p = pre ++ v ->
  encode_primary p' = pre' ++ v ->
  crc_type p' = crc_type p ->
  (crc_type p = 1 /\ length v = 2%nat /\ burst_apart 16 pre pre') \/
  (crc_type p = 2 /\ length v = 4%nat /\ burst_apart 32 pre pre') ->
  crc_ok_primary p' = false.
Proof. exact detect_burst_primary. Qed.
Print Assumptions C08_detect_burst_primary_partial.

Theorem C08_detect_field_corruption_primary : forall (p p' : primary) (pre v v' : bytes),
  crc_ok_primary p = true ->
  encode_primary p = pre ++ v ->
  encode_primary p' = pre ++ v' ->
  crc_type p' = crc_type p ->
  length v' = length v -> v' <> v ->
  (crc_type p = 1 /\ length v = 2%nat) \/ (crc_type p = 2 /\ length v = 4%nat) ->
  crc_ok_primary p' = false.
Proof. exact detect_field_primary. Qed.
Print Assumptions C08_detect_field_corruption_primary.

Example C08_detect_primary_nonvacuous :
  crc_ok_primary (prim BundleProofs.real_bundle) = true /\ crc_type (prim BundleProofs.real_bundle) = 2
  /\ Forall (fun b => crc_ok_block b = true) (blocks BundleProofs.real_bundle)
  /\ map bcrc_type (blocks BundleProofs.real_bundle) = [1; 0; 2].
Proof. exact detect_hyps_real_bundle. Qed.

(** The CRC gate is the first step of [recv_bundle]: a bundle with a failing block is dropped with the
    agent state (seen set, reassembly store, clock) unchanged and no event (delivery, transmission,
    report) at all.  [ab] is the agent model's view of the decoded bundle [bu]. *)
Theorem C08_gate_first :
  forall (matches : N -> BpAgent.eid -> bool) (a : BpAgent.agent) (ab : BpAgent.bundle) (bu : bundle),
    BpAgent.b_crc_ok ab = crc_ok_bundle bu ->
    crc_ok_primary (prim bu) = false \/ (exists blk, In blk (blocks bu) /\ crc_ok_block blk = false) ->
    BpAgent.recv matches a ab = (a, [(ab, [])]).
Proof. exact gate_first. Qed.
Print Assumptions C08_gate_first.

(** Left-over items after a canonical block's declared fields (e.g. the whole following block, after a
    one-bit change of the array head 0x86 -> 0x87) or a CRC item left over after the CRC type became 0:
    [arity_verdict bs = 1] says that some canonical block array of the received octets has an item count
    other than 5 (CRC type 0) / 6 (otherwise).  No reading of the model - strict or lax - decodes such
    octets: the bundle is undecodable, hence dropped.  (The implementation relies for this on an exception
    out of scapy's payload dissection; the check compares on every structural corruption.) *)
Theorem C08_leftover_items_rejected : forall bs : bytes,
  arity_verdict bs = 1 -> decode_bundle bs = None /\ lax_decode_bundle bs = None.
Proof. exact arity_bad_rejected. Qed.
Print Assumptions C08_leftover_items_rejected.

Example C08_leftover_items_nonvacuous :
  arity_verdict arity_witness_octets = 2 /\ strict_verdict arity_witness_octets = (2, true)
  /\ arity_verdict (xor_at 54 [1] arity_witness_octets) = 1
  /\ arity_verdict (xor_at 60 [2] arity_witness_octets) = 1.
Proof. exact arity_bad_nonvacuous. Qed.

(** * The full statement is false for the implementation as it is *)

(** A valid bundle (all blocks CRC-16, payload " 0e") and ONE flipped bit (0x20 of octet 44, the head of
    the payload block's BTSD, inside the protected block and in front of its CRC value): an independent
    receiver finds the CRC wrong, the implementation's check - modelled by the lax reading - passes, the
    payload has become None, and the re-encoding it checked is not what was received. *)
Theorem C08_detect_refuted :
  wf_bundle witness_bundle /\ crc_ok_bundle witness_bundle = true
  /\ crc_type (prim witness_bundle) = 1 /\ map bcrc_type (blocks witness_bundle) = [1]
  /\ encode_bundle witness_bundle = witness_octets
  /\ (exists pre blk, witness_octets = pre ++ blk ++ [255]
                      /\ blk = encode_cblock (with_crc_block (mkCBlock 1 1 0 1 [32; 48; 101] None))
                      /\ length pre = 39%nat /\ length blk = 12%nat)
  /\ crc16_x25 (firstn 10 (skipn 39 witness_corrupted) ++ [0; 0]) <> unbe (firstn 2 (skipn 49 witness_corrupted))
  /\ lax_verdict witness_corrupted = 2
  /\ (exists p lb, lax_decode_bundle witness_corrupted = Some (p, [lb]) /\ l_btsd lb = None
                   /\ lax_crc_ok_block lb = true /\ lblock_reencode lb <> firstn 12 (skipn 39 witness_corrupted)).
Proof. exact detect_refuted. Qed.
Print Assumptions C08_detect_refuted.

(** A 6-bit burst (0x01 -> 0xf5 in the block type code) that re-spells the same value: accepted, the
    re-encoding is the ORIGINAL block, not the received one. *)
Theorem C08_detect_refuted_same_value :
  lax_verdict (xor_at 40 [244] witness_octets) = 2
  /\ (exists p lb, lax_decode_bundle (xor_at 40 [244] witness_octets) = Some (p, [lb])
                   /\ lblock_reencode lb = firstn 12 (skipn 39 witness_octets)
                   /\ lblock_reencode lb <> firstn 12 (skipn 39 (xor_at 40 [244] witness_octets))).
Proof. exact detect_refuted_same_value. Qed.
Print Assumptions C08_detect_refuted_same_value.

(** One bit in the source EID of a CRC-16 protected primary block (//a/ -> //a?): the strict reading
    fails the check, but the implementation re-encodes the EID through its text conversion (urlsplit
    drops the query, the empty path becomes "/") - the re-encoding is the ORIGINAL primary block, the
    check passes, and the bundle is processed under the altered source. *)
Theorem C08_detect_refuted_eid :
  strict_verdict eid_witness_octets = (2, true)
  /\ lax_verdict (xor_at 26 [16] eid_witness_octets) = 2
  /\ (exists b, decode_bundle (xor_at 26 [16] eid_witness_octets) = Some b
                /\ src (prim b) = EidDtn [47; 47; 97; 63]
                /\ crc_ok_primary (prim b) = false
                /\ crc_ok_primary (impl_norm_primary (prim b)) = true
                /\ encode_primary (impl_norm_primary (prim b)) = firstn 49 (skipn 1 eid_witness_octets)).
Proof. exact detect_refuted_eid. Qed.
Print Assumptions C08_detect_refuted_eid.
