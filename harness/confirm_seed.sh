#!/bin/sh
# confirm_seed.sh <Cxx> [suffix]: confirm a seeded change in /tmp/seed/<Cxx>: demo passes on the original, fails on the change;
# the pinned test suite gives the same result on both; then store it under /verif/seeded/<Cxx>[suffix]/.
P="$1"; SUF="$2"; WT="/tmp/seed/$P$SUF"; OUT="/verif/seeded/$P$SUF"
cd "$WT" || exit 2
git diff -- src > /tmp/seed/$P$SUF.patch.tmp
[ -s /tmp/seed/$P$SUF.patch.tmp ] || cp seeded.patch /tmp/seed/$P$SUF.patch.tmp
git apply -R /tmp/seed/$P$SUF.patch.tmp 2>/dev/null
git diff --quiet -- src || { echo "could not revert"; exit 2; }
/venv/bin/python demo_seeded.py > /tmp/seed/$P$SUF.demo_orig.out 2>&1; RO=$?
TO=$(/venv/bin/python -m pytest -q -p no:cacheprovider --timeout=900 --continue-on-collection-errors 2>&1 | tail -1)
git apply /tmp/seed/$P$SUF.patch.tmp || { echo "could not re-apply"; exit 2; }
/venv/bin/python demo_seeded.py > /tmp/seed/$P$SUF.demo_chg.out 2>&1; RC=$?
TC=$(/venv/bin/python -m pytest -q -p no:cacheprovider --timeout=900 --continue-on-collection-errors 2>&1 | tail -1)
echo "$P$SUF: demo original rc=$RO, changed rc=$RC; tests original: $TO | changed: $TC"
if [ "$RO" = 0 ] && [ "$RC" != 0 ] && echo "$TO" | grep -q "59 passed" && echo "$TC" | grep -q "59 passed"; then
  mkdir -p "$OUT"
  cp /tmp/seed/$P$SUF.patch.tmp "$OUT/patch.diff"
  cp demo_seeded.py "$OUT/demo_seeded.py"
  cp seeded_meta.json "$OUT/agent_meta.json"
  echo "confirmed"
else
  echo "NOT confirmed"
fi
