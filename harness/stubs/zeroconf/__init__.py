class IPVersion(object):
    All = 0
    V4Only = 1
    V6Only = 2


class ServiceStateChange(object):
    Added = 1
    Removed = 2
    Updated = 3


class ServiceBrowser(object):
    def __init__(self, *args, **kwargs):
        pass


class ServiceInfo(object):
    def __init__(self, *args, **kwargs):
        pass


class ServiceListener(object):
    pass


class Zeroconf(object):
    def __init__(self, *args, **kwargs):
        pass
