''' Stand-in for the `portion` interval library, restricted to what
dtn-demo-agent uses: unions of integer-bounded closed-open intervals
(continuous domain) and a discrete integer interval API.

Normal form: sorted list of disjoint, non-adjacent half-open pairs [lo, hi).
For the integer bounds used by the agents the half-open representation is
exact for both the continuous closed-open intervals and the discrete closed
intervals (closed(a, b) == [a, b+1)).
'''


def _norm(pairs):
    out = []
    for (lo, hi) in sorted(p for p in pairs if p[0] < p[1]):
        if out and lo <= out[-1][1]:
            if hi > out[-1][1]:
                out[-1] = (out[-1][0], hi)
        else:
            out.append((lo, hi))
    return tuple(out)


class _Atomic(object):
    def __init__(self, lo, hi, discrete):
        self.lower = lo
        self.upper = hi - 1 if discrete else hi
        self._pair = (lo, hi)

    def __repr__(self):
        return '[%s,%s)' % self._pair


class Interval(object):
    _discrete = False

    def __init__(self, pairs=()):
        self._pairs = _norm(pairs)

    @property
    def empty(self):
        return not self._pairs

    @property
    def atomic(self):
        return len(self._pairs) <= 1

    @property
    def lower(self):
        return self._pairs[0][0]

    @property
    def upper(self):
        hi = self._pairs[-1][1]
        return hi - 1 if self._discrete else hi

    def __or__(self, other):
        return type(self)(self._pairs + other._pairs)

    def __and__(self, other):
        out = []
        for (a, b) in self._pairs:
            for (c, d) in other._pairs:
                out.append((max(a, c), min(b, d)))
        return type(self)(out)

    def __eq__(self, other):
        return isinstance(other, Interval) and self._pairs == other._pairs

    def __ne__(self, other):
        return not self == other

    def __hash__(self):
        return hash(self._pairs)

    def __contains__(self, item):
        if isinstance(item, Interval):
            return (self & item) == item
        return any(lo <= item < hi for (lo, hi) in self._pairs)

    def __iter__(self):
        return iter([_Atomic(lo, hi, self._discrete) for (lo, hi) in self._pairs])

    def __len__(self):
        return len(self._pairs)

    def __bool__(self):
        return bool(self._pairs)

    def __repr__(self):
        if not self._pairs:
            return '()'
        return ' | '.join('[%s,%s)' % p for p in self._pairs)


class AbstractDiscreteInterval(Interval):
    _step = 1
    _discrete = True


def closedopen(lower, upper):
    return Interval([(lower, upper)])


def closed(lower, upper):
    return Interval([(lower, upper + 1)])


def singleton(value):
    return Interval([(value, value + 1)])


def empty():
    return Interval()


def iterate(interval, step=1, **kwargs):
    for (lo, hi) in interval._pairs:
        val = lo
        while val < hi:
            yield val
            val += step


class _Api(object):
    def __init__(self, cls):
        self._cls = cls

    def closedopen(self, lower, upper):
        return self._cls([(lower, upper)])

    def closed(self, lower, upper):
        return self._cls([(lower, upper + 1)])

    def singleton(self, value):
        return self._cls([(value, value + 1)])

    def empty(self):
        return self._cls()

    def iterate(self, interval, step=1, **kwargs):
        return iterate(interval, step)


def create_api(cls):
    return _Api(cls)
