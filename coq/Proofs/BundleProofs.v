(** Proofs about the BPv7 bundle codec model [Model/Bundle.v]: per-field
    round trips (EID, primary block, canonical block), the tree-level and
    octet-level bundle round trip, re-encoding of decoded canonical octets, the
    RFC 9171 shape of the output, item counts, status reports. *)
From Coq Require Import List NArith ZArith Arith Bool Lia ZifyBool ZifyN ZifyNat.
From DTN Require Import Lib.Bytes Lib.Cbor Lib.CborProofs Lib.Crc Model.Bundle.
Import ListNotations.
Local Open Scope N_scope.

Ltac Zify.zify_post_hook ::= Z.div_mod_to_equations.

Notation two64 := 18446744073709551616%N (only parsing).

(** * Small facts *)

Lemma bytes_eqb_refl a : bytes_eqb a a = true.
Proof. apply bytes_eqb_eq. reflexivity. Qed.

Lemma bytes_eqb_neq a b : a <> b -> bytes_eqb a b = false.
Proof. intros H. destruct (bytes_eqb a b) eqn:E; [|reflexivity]. apply bytes_eqb_eq in E. contradiction. Qed.

Lemma uints_of_map l : uints_of (map CUint l) = Some l.
Proof. induction l as [|x l IH]; cbn [map uints_of uint_of]; [reflexivity|]. rewrite IH. reflexivity. Qed.

Lemma uints_of_inv : forall l ps, uints_of l = Some ps -> l = map CUint ps.
Proof.
  induction l as [|c l IH]; intros ps H; cbn [uints_of] in H.
  - injection H as <-. reflexivity.
  - destruct c; cbn [uint_of] in H; try discriminate.
    destruct (uints_of l) as [r|] eqn:E; [|discriminate]. injection H as <-.
    cbn [map]. f_equal. apply IH. reflexivity.
Qed.

Lemma ipn_len_ok_spec n : ipn_len_ok n = true <-> (n = 2 \/ n = 3)%nat.
Proof. unfold ipn_len_ok. rewrite orb_true_iff, !Nat.eqb_eq. reflexivity. Qed.

(** * Endpoint IDs *)

Lemma eid_roundtrip e : wf_eid e -> eid_of_cbor (cbor_of_eid e) = Some e.
Proof.
  destruct e as [|ssp|parts]; cbn [wf_eid cbor_of_eid eid_of_cbor eid_of_ssp].
  - intros _. reflexivity.
  - intros (_ & _ & Hne). cbn. rewrite bytes_eqb_neq by exact Hne. reflexivity.
  - intros [Hlen _]. cbn. rewrite uints_of_map.
    apply ipn_len_ok_spec in Hlen. rewrite Hlen. reflexivity.
Qed.

Lemma eid_of_cbor_inv c e : eid_of_cbor c = Some e -> cbor_of_eid e = c.
Proof.
  unfold eid_of_cbor.
  destruct c as [| | | |l| | |]; try discriminate.
  destruct l as [|h l]; [discriminate|]. destruct h as [scheme| | | | | | |]; try discriminate.
  destruct l as [|ssp l]; [discriminate|]. destruct l; [|discriminate].
  unfold eid_of_ssp.
  destruct (N.eqb_spec scheme 1) as [->|H1].
  - destruct ssp as [z| | |s| | | |]; try discriminate.
    + destruct (N.eqb_spec z 0) as [->|]; [|discriminate]. intros H. injection H as <-. reflexivity.
    + destruct (bytes_eqb s text_none); [discriminate|]. intros H. injection H as <-. reflexivity.
  - destruct (N.eqb_spec scheme 2) as [->|H2]; [|discriminate].
    destruct ssp as [| | | |parts| | |]; try discriminate.
    destruct (uints_of parts) as [ps|] eqn:E; [|discriminate].
    destruct (ipn_len_ok (length ps)); [|discriminate].
    intros H. injection H as <-. apply uints_of_inv in E. subst parts. reflexivity.
Qed.

(** what the strict conversion accepts is a well-formed EID *)
Lemma eid_of_cbor_wf c e : Cbor.wf c -> eid_of_cbor c = Some e -> wf_eid e.
Proof.
  intros Hwf H. pose proof (eid_of_cbor_inv c e H) as <-.
  destruct e as [|ssp|parts]; cbn [wf_eid]; [exact I| |].
  - cbn [cbor_of_eid] in *. apply wf_CArr in Hwf as [_ Hf].
    inversion Hf as [|? ? _ Hf2]; subst. inversion Hf2 as [|? ? Hs _]; subst.
    cbn [Cbor.wf] in Hs. destruct Hs as [Hl Hb]. split; [exact Hl|]. split; [exact Hb|].
    intros ->. cbn in H. discriminate.
  - cbn [cbor_of_eid] in *. cbn [eid_of_cbor eid_of_ssp] in H. cbn in H.
    rewrite uints_of_map in H. destruct (ipn_len_ok (length parts)) eqn:E; [|discriminate].
    split; [apply ipn_len_ok_spec, E|].
    apply wf_CArr in Hwf as [_ Hf]. inversion Hf as [|? ? _ Hf2]; subst. inversion Hf2 as [|? ? Hs _]; subst.
    apply wf_CArr in Hs as [_ Hs]. rewrite Forall_map in Hs. exact Hs.
Qed.

Lemma cbor_of_eid_wf e : wf_eid e -> Cbor.wf (cbor_of_eid e).
Proof.
  destruct e as [|ssp|parts]; cbn [wf_eid cbor_of_eid].
  - intros _. cbn. lia.
  - intros (Hl & Hb & _). apply wf_CArr. split; [cbn; lia|].
    constructor; [cbn; lia|]. constructor; [|constructor]. cbn [Cbor.wf]. split; assumption.
  - intros [Hlen Hf]. apply wf_CArr. split; [cbn; lia|].
    constructor; [cbn; lia|]. constructor; [|constructor].
    apply wf_CArr. rewrite map_length. split; [lia|]. rewrite Forall_map. exact Hf.
Qed.

Lemma depth_uints l : (fold_right (fun x acc => Nat.max (depth x) acc) O (map CUint l) <= 1)%nat.
Proof. induction l as [|x l IH]; cbn [map fold_right depth]; lia. Qed.

Lemma cbor_of_eid_depth e : (depth (cbor_of_eid e) <= 3)%nat.
Proof.
  destruct e as [|ssp|parts]; cbn [cbor_of_eid depth fold_right]; try lia.
  pose proof (depth_uints parts). lia.
Qed.

Lemma wf_eidb_spec e : wf_eidb e = true <-> wf_eid e.
Proof.
  destruct e as [|ssp|parts]; cbn [wf_eidb wf_eid].
  - split; auto.
  - rewrite !andb_true_iff, negb_true_iff, N.ltb_lt, wf_bytesb_spec. split.
    + intros [[Hl Hb] Hn]. repeat split; try assumption. intros ->. rewrite bytes_eqb_refl in Hn. discriminate.
    + intros (Hl & Hb & Hn). repeat split; try assumption. apply bytes_eqb_neq, Hn.
  - rewrite andb_true_iff, ipn_len_ok_spec, forallb_forall, Forall_forall.
    split; intros [Hl Hf]; (split; [exact Hl|]); intros x Hx; specialize (Hf x Hx); lia.
Qed.

(** * Item-list parsers *)

Lemma pop_uint_inv l n t : pop_uint l = Some (n, t) -> l = CUint n :: t.
Proof. destruct l as [|c l]; [discriminate|]. destruct c; try discriminate. cbn. intros H. injection H as <- <-. reflexivity. Qed.

Lemma pop_bstr_inv l b t : pop_bstr l = Some (b, t) -> l = CBstr b :: t.
Proof. destruct l as [|c l]; [discriminate|]. destruct c; try discriminate. cbn. intros H. injection H as <- <-. reflexivity. Qed.

Lemma pop_eid_inv l e t : pop_eid l = Some (e, t) -> l = cbor_of_eid e :: t.
Proof.
  destruct l as [|c l]; [discriminate|]. cbn [pop_eid].
  destruct (eid_of_cbor c) as [e'|] eqn:E; [|discriminate].
  intros H. injection H as <- <-. apply eid_of_cbor_inv in E. rewrite E. reflexivity.
Qed.

Lemma pop_eid_ok e t : wf_eid e -> pop_eid (cbor_of_eid e :: t) = Some (e, t).
Proof. intros H. cbn [pop_eid]. rewrite eid_roundtrip by exact H. reflexivity. Qed.

Lemma pop_ts_inv l a b t : pop_ts l = Some (a, b, t) -> l = CArr [CUint a; CUint b] :: t.
Proof.
  destruct l as [|c l]; [discriminate|]. destruct c as [| | | |l0| | |]; try discriminate.
  destruct l0 as [|x l0]; [discriminate|]. destruct x; try discriminate.
  destruct l0 as [|y l0]; [discriminate|]. destruct y; try discriminate.
  destruct l0; [|discriminate]. cbn. intros H. injection H as <- <- <-. reflexivity.
Qed.

Lemma end_crc_inv ct l c : end_crc ct l = Some c -> l = crc_items c /\ (c = None <-> ct = 0).
Proof.
  unfold end_crc. destruct (N.eqb_spec ct 0) as [->|Hne].
  - destruct l; [|discriminate]. intros H. injection H as <-. split; [reflexivity|]. split; reflexivity.
  - destruct l as [|x l]; [discriminate|]. destruct x; try discriminate. destruct l; [|discriminate].
    intros H. injection H as <-. split; [reflexivity|]. split; [discriminate|contradiction].
Qed.

Lemma end_crc_ok ct c :
  match c with Some _ => ct <> 0 | None => ct = 0 end -> end_crc ct (crc_items c) = Some c.
Proof.
  unfold end_crc. destruct c as [v|]; cbn [crc_items].
  - intros H. destruct (N.eqb_spec ct 0); [contradiction|reflexivity].
  - intros ->. reflexivity.
Qed.

Lemma pop_frag_inv isf l fr t :
  pop_frag isf l = Some (fr, t) -> l = frag_items fr ++ t /\ (fr = None <-> isf = false).
Proof.
  unfold pop_frag. destruct isf.
  - destruct l as [|x l]; [discriminate|]. destruct x; try discriminate.
    destruct l as [|y l]; [discriminate|]. destruct y; try discriminate.
    intros H. injection H as <- <-. split; [reflexivity|]. split; discriminate.
  - intros H. injection H as <- <-. split; [reflexivity|]. split; reflexivity.
Qed.

Lemma pop_frag_ok isf fr t :
  match fr with Some _ => isf = true | None => isf = false end ->
  pop_frag isf (frag_items fr ++ t) = Some (fr, t).
Proof.
  unfold pop_frag. destruct fr as [[o tt]|]; intros ->; reflexivity.
Qed.

(** * Primary block *)

Lemma primary_roundtrip p : wf_primary p -> primary_of_items (primary_items p) = Some p.
Proof.
  destruct p as [v f ct d s r t q lt fr c].
  unfold wf_primary, is_fragment. cbn [version flags crc_type dest src report_to create_time create_seq lifetime frag crc].
  intros (_ & _ & Hct & Hd & Hs & Hr & _ & _ & _ & Hfr & Hc).
  unfold primary_of_items, primary_items.
  cbn [version flags crc_type dest src report_to create_time create_seq lifetime frag crc app pop_uint].
  rewrite (pop_eid_ok d) by exact Hd. rewrite (pop_eid_ok s) by exact Hs. rewrite (pop_eid_ok r) by exact Hr.
  cbn [pop_ts pop_uint].
  unfold crc_type_ok. destruct (N.ltb_spec ct 3) as [_|]; [|lia].
  rewrite pop_frag_ok.
  - rewrite end_crc_ok; [reflexivity|]. destruct c as [cv|]; [apply Hc|exact Hc].
  - destruct fr as [[o tt]|]; [apply Hfr|exact Hfr].
Qed.

Lemma primary_of_items_inv l p : primary_of_items l = Some p -> primary_items p = l.
Proof.
  unfold primary_of_items.
  destruct (pop_uint l) as [[v l1]|] eqn:E1; [|discriminate]. apply pop_uint_inv in E1.
  destruct (pop_uint l1) as [[f l2]|] eqn:E2; [|discriminate]. apply pop_uint_inv in E2.
  destruct (pop_uint l2) as [[ct l3]|] eqn:E3; [|discriminate]. apply pop_uint_inv in E3.
  destruct (pop_eid l3) as [[d l4]|] eqn:E4; [|discriminate]. apply pop_eid_inv in E4.
  destruct (pop_eid l4) as [[s l5]|] eqn:E5; [|discriminate]. apply pop_eid_inv in E5.
  destruct (pop_eid l5) as [[r l6]|] eqn:E6; [|discriminate]. apply pop_eid_inv in E6.
  destruct (pop_ts l6) as [[[t q] l7]|] eqn:E7; [|discriminate]. apply pop_ts_inv in E7.
  destruct (pop_uint l7) as [[lt l8]|] eqn:E8; [|discriminate]. apply pop_uint_inv in E8.
  destruct (crc_type_ok ct); [|discriminate].
  destruct (pop_frag (N.testbit f 0) l8) as [[fr l9]|] eqn:E9; [|discriminate]. apply pop_frag_inv in E9 as [E9 _].
  destruct (end_crc ct l9) as [c|] eqn:E10; [|discriminate]. apply end_crc_inv in E10 as [E10 _].
  intros H. injection H as <-. subst. reflexivity.
Qed.

(** the strict conversion only yields records with consistent conditional fields *)
Lemma primary_of_items_consistent l p :
  primary_of_items l = Some p ->
  crc_type p < 3 /\ (frag p = None <-> is_fragment p = false) /\ (crc p = None <-> crc_type p = 0).
Proof.
  unfold primary_of_items.
  destruct (pop_uint l) as [[v l1]|]; [|discriminate].
  destruct (pop_uint l1) as [[f l2]|]; [|discriminate].
  destruct (pop_uint l2) as [[ct l3]|]; [|discriminate].
  destruct (pop_eid l3) as [[d l4]|]; [|discriminate].
  destruct (pop_eid l4) as [[s l5]|]; [|discriminate].
  destruct (pop_eid l5) as [[r l6]|]; [|discriminate].
  destruct (pop_ts l6) as [[[t q] l7]|]; [|discriminate].
  destruct (pop_uint l7) as [[lt l8]|]; [|discriminate].
  unfold crc_type_ok. destruct (N.ltb_spec ct 3) as [Hct|]; [|discriminate].
  destruct (pop_frag (N.testbit f 0) l8) as [[fr l9]|] eqn:E9; [|discriminate]. apply pop_frag_inv in E9 as [_ E9].
  destruct (end_crc ct l9) as [c|] eqn:E10; [|discriminate]. apply end_crc_inv in E10 as [_ E10].
  intros H. injection H as <-. unfold is_fragment. cbn. repeat split; try assumption; try apply E9; try apply E10.
Qed.

Lemma frag_items_length fr : length (frag_items fr) = match fr with Some _ => 2%nat | None => 0%nat end.
Proof. destruct fr as [[? ?]|]; reflexivity. Qed.
Lemma crc_items_length c : length (crc_items c) = match c with Some _ => 1%nat | None => 0%nat end.
Proof. destruct c; reflexivity. Qed.

Lemma primary_items_length p :
  length (primary_items p) =
  (8 + (match frag p with Some _ => 2 | None => 0 end) + (match crc p with Some _ => 1 | None => 0 end))%nat.
Proof.
  unfold primary_items. rewrite !app_length, frag_items_length, crc_items_length. cbn [length]. lia.
Qed.

Lemma primary_items_length_bounds p : (8 <= length (primary_items p) <= 11)%nat.
Proof. rewrite primary_items_length. destruct (frag p), (crc p); lia. Qed.

(** exact case split in terms of the flag and the CRC type *)
Lemma primary_items_length_wf p :
  wf_primary p ->
  length (primary_items p) =
  (8 + (if is_fragment p then 2 else 0) + (if N.eqb (crc_type p) 0%N then 0 else 1))%nat.
Proof.
  intros (_ & _ & _ & _ & _ & _ & _ & _ & _ & Hfr & Hc). rewrite primary_items_length.
  destruct (frag p) as [[o t]|].
  - destruct Hfr as [-> _]. destruct (crc p).
    + destruct Hc as [Hc _]. destruct (N.eqb_spec (crc_type p) 0); [contradiction|reflexivity].
    + rewrite Hc. reflexivity.
  - rewrite Hfr. destruct (crc p).
    + destruct Hc as [Hc _]. destruct (N.eqb_spec (crc_type p) 0); [contradiction|reflexivity].
    + rewrite Hc. reflexivity.
Qed.

Lemma frag_items_wf fr :
  match fr with Some (o, t) => o < two64 /\ t < two64 | None => True end -> Forall Cbor.wf (frag_items fr).
Proof. destruct fr as [[o t]|]; cbn [frag_items]; [intros [? ?]; repeat constructor; assumption|constructor]. Qed.

Lemma crc_items_wf c : opt_bytes_ok c -> Forall Cbor.wf (crc_items c).
Proof. destruct c; cbn [crc_items opt_bytes_ok]; [intros [? ?]; repeat constructor; assumption|constructor]. Qed.

Lemma primary_items_wf p : wf_primary p -> Cbor.wf (CArr (primary_items p)).
Proof.
  intros (Hv & Hf & Hct & Hd & Hs & Hr & Ht & Hq & Hl & Hfr & Hc).
  apply wf_CArr. split.
  - pose proof (primary_items_length_bounds p). lia.
  - unfold primary_items. apply Forall_app. split.
    + repeat constructor; cbn [Cbor.wf]; try lia; try (apply cbor_of_eid_wf; assumption).
    + apply Forall_app. split.
      * apply frag_items_wf. destruct (frag p) as [[o t]|]; [tauto|exact I].
      * apply crc_items_wf. destruct (crc p); cbn [opt_bytes_ok]; [tauto|exact I].
Qed.

Lemma depth_list_le (l : list cbor) n :
  Forall (fun v => (depth v <= n)%nat) l -> (depth (CArr l) <= S n)%nat.
Proof. apply depth_CArr_le. Qed.

Lemma frag_items_depth fr : Forall (fun v => (depth v <= 3)%nat) (frag_items fr).
Proof. destruct fr as [[o t]|]; cbn [frag_items]; repeat constructor; cbn [depth]; lia. Qed.
Lemma crc_items_depth c : Forall (fun v => (depth v <= 3)%nat) (crc_items c).
Proof. destruct c; cbn [crc_items]; repeat constructor; cbn [depth]; lia. Qed.

Lemma primary_items_depth p : (depth (CArr (primary_items p)) <= 4)%nat.
Proof.
  apply depth_list_le. unfold primary_items. apply Forall_app. split.
  - repeat (apply Forall_cons; [first [apply cbor_of_eid_depth | cbn [depth fold_right]; lia]|]). apply Forall_nil.
  - apply Forall_app. split; [apply frag_items_depth|apply crc_items_depth].
Qed.
