''' Correspondence between the real tcpcl.session.ContactHandler (driven by
tcpcl_drive.System) and the Coq model Model/TcpclSess.v.

A *schedule* is a list of driver ops over the two endpoints 'A' (active) and
'B' (passive).  Running it on the real code yields, per endpoint, the list of
model ops that endpoint experienced (ORx carries exactly the octets the real
read returned) and the observable state after each of its ops.  The same op
list is evaluated by the model inside Coq (render_full) and compared.
'''
import env  # noqa: F401
from common import coq_bytes, coq_list, coq_N, coq_bool, coq_opt, mkdata
from tcpcl_drive import System, GLib
import dbus.service

STATE_TAG = {'connecting': 10, 'contact-negotiating': 11, 'session-negotiating': 12, 'established': 13, 'ending': 14}
SIG_NUM = {'session_state_changed': 1, 'send_bundle_started': 2, 'send_bundle_intermediate': 3,
           'send_bundle_finished': 4, 'recv_bundle_started': 5, 'recv_bundle_intermediate': 6,
           'recv_bundle_finished': 7}
EXC_KIND = {'RuntimeError': 1, 'KeyError': 2, 'UnicodeDecodeError': 3, 'AttributeError': 4}
CHUNK = 10240


def coq_cfg(passive, conf):
    req = conf.get('require_tls')
    return '(mkCfg %s %s %s %s %s %s %s)' % (
        coq_bool(passive), coq_bytes(conf['node_id'].encode('utf-8')), coq_N(conf['keepalive_time']),
        coq_N(conf['idle_time']), coq_N(conf['segment_size_mru']), coq_N(conf['segment_size_tx_initial']),
        '(@None bool)' if req is None else '(Some %s)' % coq_bool(req))


PRELUDE = '''Fixpoint pat (n : nat) (x : N) : list N :=
  match n with O => nil | S k => (x mod 251) :: pat k (x + 31) end.
'''


def data_term(spec):
    ''' Bundle/stream data is ('lit', bytes) or ('gen', seed, length): a cheap
    arithmetic pattern defined identically in the case files (PRELUDE). '''
    if spec[0] == 'lit':
        return coq_bytes(spec[1])
    return '(pat %d %d)' % (spec[2], spec[1])


def data_bytes(spec):
    if spec[0] == 'lit':
        return bytes(spec[1])
    return bytes((spec[1] + 31 * idx) % 251 for idx in range(spec[2]))


def coq_op(mop):
    kind = mop[0]
    if kind == 'OStart':
        return 'OStart'
    if kind == 'OSend':
        return '(OSend %s)' % data_term(mop[1])
    if kind == 'OTerm':
        return '(OTerm %s)' % coq_N(mop[1])
    if kind == 'OClose':
        return 'OClose'
    if kind == 'OPop':
        return '(OPop %s)' % coq_N(mop[1])
    if kind == 'OTxPump':
        return '(OTxPump %s %s)' % (coq_bool(mop[1]), coq_N(mop[2]))
    if kind == 'ORx':
        return '(ORx %s)' % coq_bytes(mop[1])
    if kind == 'ORxEof':
        return 'ORxEof'
    if kind == 'OPQ':
        return 'OPQ'
    if kind == 'OFireKa':
        return 'OFireKa'
    if kind == 'OFireIdle':
        return 'OFireIdle'
    if kind == 'OAdvance':
        return '(OAdvance %s)' % coq_N(mop[1])
    raise ValueError(mop)


def render_pyval(arg):
    (typ, val) = arg
    if typ == 'str':
        if val.isdigit():
            return [2, int(val)]
        if val in STATE_TAG:
            return [1, STATE_TAG[val]]
        if val == 'success':
            return [1, 0]
        if val == 'session terminating':
            return [1, 1]
        if val.startswith('refused with code '):
            return [1, 100 + int(val.rsplit(' ', 1)[1])]
        return [1, 999]
    if typ == 'int':
        return [3, val]
    if typ == 'String' and val == '':
        return [4, 0]
    return [99, 0]


def render_events(sysm, e):
    ''' The real trace of endpoint e in the model's rendering. '''
    out = []
    for evt in dbus.service.EVENT_LOG:
        if evt['obj'] != '/' + e:
            continue
        from tcpcl_drive import canon_args
        if evt['kind'] == 'signal' and evt['name'] in SIG_NUM:
            out.append([1, SIG_NUM[evt['name']]])
            out.extend(render_pyval(arg) for arg in canon_args(evt['args']))
        elif evt['kind'] == 'return' and evt['name'] == 'send_bundle_data':
            out.append([2, 1])
            out.append(render_pyval(canon_args(evt['args'])[0]))
        elif evt['kind'] == 'return' and evt['name'] == 'recv_bundle_pop_data':
            out.append([3, int(evt['call_args'][0])])
            out.append(list(evt['args'][0]))
        elif evt['kind'] == 'exc':
            out.append([4, EXC_KIND.get(evt['name'], 99)])
        elif evt['kind'] == 'closed':
            out.append([5])
    return out


def opt(val):
    return [0] if val is None else [1, val]


def digest(data):
    ''' Same as Model.TcpclSess.digest. '''
    acc = 7
    for octet in bytes(data):
        acc = (acc * 31 + octet) % 4294967296
    return [len(data), acc]


def render_snapshot(snap):
    ''' Same layout as Model.TcpclSess.render_state. '''
    flags = [STATE_TAG.get(snap['state'], 0), int(snap['in_conn']), int(snap['in_sess']), int(snap['in_term']),
             int(snap['closed']), int(snap['rx_alive'] or snap['closed'])]
    return [
        flags,
        digest(snap['rx_buf']), digest(snap['msg_tx_buf']), digest(snap['conn_tx_buf']),
        list(snap['n_src']),
        [snap['seg_size'], snap['keepalive']],
        opt(snap['ka_due']), opt(snap['idle_due']),
        [int(x) for x in snap['tx_queue']], [int(x) for x in snap['rx_queue']],
        list(snap['tx_pend_start']), list(snap['tx_pend_ack']),
        opt(snap['tx_tmp']), opt(snap['rx_tmp']),
        [int(snap['idle'])],
    ]


def norm_state(st):
    ''' Canonical form for comparison: pend_ack is a set in the code. '''
    st = [list(x) for x in st]
    st[11] = sorted(st[11])
    return st


class Runner(object):
    ''' Run a schedule on the real code, recording per-endpoint model ops and
    the real observations after each of them. '''

    def __init__(self, cfg_a=None, cfg_b=None):
        # socket addresses other than the default IPv4 pair travel inside cfg_a (key '_addrs') so that replays keep them
        addrs = (cfg_a or {}).get('_addrs')
        self.sysm = System(cfg_a={k: v for (k, v) in (cfg_a or {}).items() if k != '_addrs'}, cfg_b=cfg_b, addrs=addrs)
        self.conf = {}
        for (e, passive) in (('A', False), ('B', True)):
            cfg = self.sysm.cfg[e]
            self.conf[e] = dict(node_id=cfg.node_id, keepalive_time=cfg.keepalive_time, idle_time=cfg.idle_time,
                                segment_size_mru=cfg.segment_size_mru,
                                segment_size_tx_initial=cfg.segment_size_tx_initial,
                                require_tls=cfg.require_tls, passive=passive)
        self.mops = {'A': [], 'B': []}
        self.accepted = {'A': [], 'B': []}   # data of every send_bundle_data call that returned a transfer id
        self.snaps = {'A': [], 'B': []}
        self.opres = []
        self.applied = []   # every driver op, for exact replay
        self.escaped_ops = []  # (index into applied, op, exception class) for ops whose callback/method raised
        self.cfg_a = dict(cfg_a or {})
        self.cfg_b = dict(cfg_b or {})

    def _record(self, e, mop):
        self.mops[e].append(mop)
        self.snaps[e].append(norm_state(render_snapshot(self.sysm.snapshot(e))))

    def is_closed(self, e):
        return self.sysm.ep[e].h.get_app_socket() is None

    def apply(self, oper):
        ''' Apply a driver op; ops aimed at a closed endpoint are skipped. '''
        sysm = self.sysm
        kind = oper[0]
        self.applied.append(oper)
        if kind == 'advance':
            sysm.ctx.advance(oper[1])
            for e in ('A', 'B'):
                self._record(e, ('OAdvance', oper[1]))
            return None
        e = oper[1]
        if self.is_closed(e) and kind != 'inject':
            return None
        res = None
        if kind == 'start':
            res = sysm.apply(oper)
            self._record(e, ('OStart',))
        elif kind == 'send':
            res = sysm.apply(('send', e, data_bytes(oper[2])))
            if res is not None and not res.get('exc'):
                self.accepted[e].append(data_bytes(oper[2]))
            self._record(e, ('OSend', oper[2]))
        elif kind == 'term':
            res = sysm.apply(oper)
            self._record(e, ('OTerm', oper[2]))
        elif kind == 'close':
            res = sysm.apply(oper)
            self._record(e, ('OClose',))
        elif kind == 'pop':
            res = sysm.apply(oper)
            self._record(e, ('OPop', oper[2]))
        elif kind == 'txpump':
            (_k, _e, which, accept) = oper
            res = sysm.apply(oper)
            self._record(e, ('OTxPump', which == 'idle', accept))
        elif kind == 'rxpump':
            sock = sysm.ep[e].sock
            size = min(oper[2], CHUNK, len(sock.inbox))
            if size == 0:
                if not sock.eof:
                    return None
                res = sysm.apply(oper)
                self._record(e, ('ORxEof',))
            else:
                data = bytes(sock.inbox[:size])
                res = sysm.apply(oper)
                if not res['ran']:
                    data = b''  # the IO_IN watch is gone: nothing was read
                self._record(e, ('ORx', data))
        elif kind == 'pq':
            res = sysm.apply(oper)
            self._record(e, ('OPQ',))
        elif kind == 'fire':
            res = sysm.apply(('fire', e, oper[2], 'due'))
            self._record(e, ('OFireKa',) if oper[2] == 'keepalive' else ('OFireIdle',))
        elif kind == 'inject':
            sysm.apply(oper)
        elif kind == 'eof':
            sysm.apply(oper)
        elif kind == 'params':
            res = sysm.apply(oper)  # a pure query: no model operation
        else:
            raise ValueError(oper)
        self.opres.append((oper[0], e, res))
        if res is not None and res.get('exc'):
            self.escaped_ops.append((len(self.applied) - 1, oper, res['exc']))
        return res

    def model_term(self, e):
        ''' Coq term evaluating the model on this endpoint's op list. '''
        return '(render_full %s %s)' % (coq_cfg(self.conf[e]['passive'], self.conf[e]),
                                        coq_list([coq_op(m) for m in self.mops[e]], 'op'))

    def finish(self):
        ''' Capture the final observations (the D-Bus event log is global and
        is reset by the next System). '''
        self.final = {}
        for e in ('A', 'B'):
            self.final[e] = self.snaps[e] + [[list(self.sysm.ep[e].sock.sent)], render_events(self.sysm, e)]
        return self

    def real_full(self, e):
        ''' The real observations in render_full layout. '''
        return self.final[e]


def compare(real_full, model_full):
    ''' First difference between real and model observations, or None. '''
    if len(real_full) != len(model_full):
        return ('length', len(real_full), len(model_full))
    nstates = len(real_full) - 2
    for idx in range(nstates):
        rst = real_full[idx]
        mst = norm_state(model_full[idx])
        closed = rst[0][4] == 1 and mst[0][4] == 1
        if closed:
            mst[0][5] = rst[0][5]  # the watch flag is meaningless once closed
        for (fidx, (rfield, mfield)) in enumerate(zip(rst, mst)):
            if closed and fidx == 4:
                continue  # live source counts are not compared once closed
            if list(rfield) != list(mfield):
                return ('state', idx, fidx, rfield if len(repr(rfield)) < 300 else repr(rfield)[:300],
                        mfield if len(repr(mfield)) < 300 else repr(mfield)[:300])
    if real_full[-2] != model_full[-2]:
        return ('wire', len(real_full[-2][0]), len(model_full[-2][0]))
    if real_full[-1] != model_full[-1]:
        for (idx, (rev, mev)) in enumerate(zip(real_full[-1], model_full[-1])):
            if rev != mev:
                return ('event', idx, rev, mev)
        return ('event-count', len(real_full[-1]), len(model_full[-1]))
    return None


# ---------------------------------------------------------------------- generators
def gen_config(rng, small=True):
    ''' Configuration pair; small segment sizes so multi-segment transfers are cheap. '''
    def one():
        return dict(
            keepalive_time=rng.choice([0, 0, 1, 2, 5, 30]),
            idle_time=rng.choice([0, 0, 0, 3, 10]),
            segment_size_mru=rng.choice([1, 2, 3, 5, 8, 64, 1000, 10 * 1024 ** 2]),
            segment_size_tx_initial=rng.choice([1, 2, 3, 4, 7, 16, 100, 102400]),
        )
    return (one(), one())


def gen_data(rng):
    kind = rng.random()
    if kind < 0.15:
        return ('lit', b'')
    if kind < 0.3:
        return ('lit', bytes([rng.randrange(256)]))
    if kind < 0.8:
        return ('lit', bytes(rng.randrange(256) for _ in range(rng.choice([2, 3, 5, 8, 13, 21, 40]))))
    return ('gen', rng.randrange(1 << 30), rng.choice([100, 257, 1000]))


def enabled_ops(runner, rng):
    ''' Driver ops that would do something right now. '''
    out = []
    sysm = runner.sysm
    for e in ('A', 'B'):
        if runner.is_closed(e):
            continue
        hdl = sysm.ep[e].h
        sock = sysm.ep[e].sock
        if sysm.ctx.find(kind='idle', name='_avail_tx_notls', owner=hdl):
            out.append(('txpump', e, 'idle'))
        if sysm.ctx.find(kind='io', name='_avail_tx_notls', owner=hdl) and (
                hdl._Messenger__tx_buf or hdl._Connection__tx_buf):
            out.append(('txpump', e, 'io'))
        if sock.inbox or sock.eof:
            out.append(('rxpump', e))
        if sysm.ctx.find(kind='idle', name='_process_queue', owner=hdl) and (
                hdl._in_sess or (rng is not None and rng.random() < 0.1)):
            # before the session exists _process_queue only re-arms itself (busy wait)
            out.append(('pq', e))
    return out


def random_schedule(runner, rng, nops, workload, accept_choices=(1, 2, 3, 7, 64, 1 << 30),
                    read_choices=(1, 2, 3, 7, 64, 1 << 30), user_rate=0.15, term_rate=0.02, timers=False):
    ''' Drive the real system with a random fair-ish schedule; user ops come
    from ``workload`` (list of driver ops) interleaved at random. '''
    runner.apply(('start', 'A'))
    runner.apply(('start', 'B'))
    pending = list(workload)
    count = 0
    while count < nops:
        ena = enabled_ops(runner, rng)
        roll = rng.random()
        if pending and (roll < user_rate or not ena):
            runner.apply(pending.pop(0))
        elif timers and roll < user_rate + 0.05:
            runner.apply(('advance', rng.choice([500, 1000, 2000, 5000])))
            for e in ('A', 'B'):
                for tmr in ('keepalive', 'idle'):
                    runner.apply(('fire', e, tmr))
        elif ena:
            pick = rng.choice(ena)
            if pick[0] == 'txpump':
                runner.apply(('txpump', pick[1], pick[2], rng.choice(accept_choices)))
            elif pick[0] == 'rxpump':
                runner.apply(('rxpump', pick[1], rng.choice(read_choices)))
            else:
                runner.apply(('pq', pick[1]))
        else:
            break
        count += 1
    return runner


def drain(runner, limit=20000, accept=1 << 30, nread=1 << 30):
    ''' Fair round-robin scheduler with full reads/writes until quiescent. '''
    steps = 0
    while steps < limit:
        ena = enabled_ops(runner, None)
        if not ena:
            break
        for pick in ena:
            if pick[0] == 'txpump':
                runner.apply(('txpump', pick[1], pick[2], accept))
            elif pick[0] == 'rxpump':
                runner.apply(('rxpump', pick[1], nread))
            else:
                runner.apply(('pq', pick[1]))
            steps += 1
    return steps


def replay(cfg_a, cfg_b, applied):
    ''' Re-run exactly a recorded list of driver ops. '''
    runner = Runner(cfg_a=cfg_a, cfg_b=cfg_b)
    for oper in applied:
        runner.apply(tuple(oper))
    return runner.finish()


def jsonable_ops(applied):
    out = []
    for oper in applied:
        item = []
        for part in oper:
            if isinstance(part, (bytes, bytearray)):
                item.append({'hex': bytes(part).hex()})
            elif isinstance(part, tuple):
                item.append({'data': [p.hex() if isinstance(p, (bytes, bytearray)) else p for p in part]})
            else:
                item.append(part)
        out.append(item)
    return out


def unjson_ops(items):
    out = []
    for item in items:
        oper = []
        for part in item:
            if isinstance(part, dict) and 'hex' in part:
                oper.append(bytes.fromhex(part['hex']))
            elif isinstance(part, dict) and 'data' in part:
                dat = part['data']
                if dat[0] == 'lit':
                    oper.append(('lit', bytes.fromhex(dat[1])))
                else:
                    oper.append(tuple(dat))
            else:
                oper.append(part)
        out.append(tuple(oper))
    return out
