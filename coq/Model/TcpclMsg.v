(** TCPCLv4 (RFC 9174) contact header and messages as the scapy classes of
    /repo/src/tcpcl/{contact,messages,extend,formats}.py encode and dissect
    them.  Definitions only.

    [encode_msg] is what [bytes(MessageHead()/X(...))] produces.
    [parse_msg] is the *probe* of [Messenger.recv_raw]: dissect the receive
    buffer, and if (and only if) a complete, length-consistent message is at
    its front return it with the remaining octets ([None] = "partial":
    scapy falls back to a Raw payload or raises VerifyError, and recv_raw
    leaves the buffer untouched).

    Extension items.  In the real dissector (scapy 2.7.0 PacketListField +
    TlvHead) the *framing* of XFER_SEGMENT/SESS_INIT never depends on what
    the extension region contains: the region is the next [ext_size] octets,
    an item that fails to dissect is kept as a Raw blob, and the message-level
    check only compares the re-encoded length with [ext_size].  The message
    therefore carries the region as opaque octets ([ext]).  What is *in* the
    region is described separately:
      [spec_exts]  -- the RFC 9174 TLV reading (section 4.8 / 5.2.5 layout);
      [scapy_exts] -- what the implementation's dissector reports as
                      [ext_items], including its quirk: TlvHead has no
                      extract_padding, so an item dissects only if its length
                      field equals *all* that is left of the region; any list
                      of two or more well-formed items comes out as one Raw.
    One dependency remains and is modelled: scapy refuses a PacketListField of
    more than [conf.max_list_count] = 100 entries (the exception escapes the
    item loop, the message body falls back to Raw and the probe says
    "partial" for ever); [ext_count_ok]. *)
From Coq Require Import List NArith ZArith Arith Bool Lia.
From DTN Require Import Lib.Bytes.
Import ListNotations.
Local Open Scope N_scope.

(** Extension item (TLV): flags(1) type(2) length(2) value. *)
Record extitem := mkExt { ei_flags : N; ei_type : N; ei_val : bytes }.

Inductive msg :=
| MXferSeg (flags xid : N) (ext : bytes) (data : bytes)           (* 0x01; [ext] = raw extension region *)
| MXferAck (flags xid len : N)                                    (* 0x02 *)
| MXferRefuse (reason xid : N)                                    (* 0x03 *)
| MKeepalive                                                      (* 0x04 *)
| MSessTerm (flags reason : N)                                    (* 0x05 *)
| MReject (rej_id reason : N)                                     (* 0x06 *)
| MSessInit (keepalive seg_mru xfer_mru : N) (nodeid : bytes) (ext : bytes). (* 0x07 *)

(** The six-octet contact header: magic(4) version(1) flags(1). *)
Record contact := mkContact { ch_magic : bytes; ch_version : N; ch_flags : N }.

Inductive frame := FContact (c : contact) | FMsg (m : msg).

Definition FLAG_END : N := 1.
Definition FLAG_START : N := 2.
Definition has_end (flags : N) : bool := N.testbit flags 0.
Definition has_start (flags : N) : bool := N.testbit flags 1.

Definition MAGIC : bytes := [100; 116; 110; 33].   (* "dtn!" *)

(** Which extension types are bound to fixed-size classes (extend.py). *)
Definition xfer_ext_len (ty : N) : option nat :=
  if ty =? 1 then Some 8%nat else if ty =? 255 then Some 10%nat else None.
Definition sess_ext_len (ty : N) : option nat :=
  if ty =? 255 then Some 10%nat else None.

Definition ext_len_ok (known : N -> option nat) (ty : N) (len : nat) : bool :=
  match known ty with Some k => (len =? k)%nat | None => true end.

Definition take_n (n : nat) (l : bytes) : option (bytes * bytes) :=
  if (length l <? n)%nat then None else Some (firstn n l, skipn n l).

(** ** Extension items inside a region *)

Definition encode_ext (e : extitem) : bytes :=
  be 1 (ei_flags e) ++ be 2 (ei_type e) ++ be 2 (N.of_nat (length (ei_val e))) ++ ei_val e.

Definition encode_exts (l : list extitem) : bytes := concat (map encode_ext l).

Definition wf_ext (known : N -> option nat) (e : extitem) : Prop :=
  ei_flags e < 256 /\ ei_type e < 65536 /\ N.of_nat (length (ei_val e)) < 65536
  /\ wf_bytes (ei_val e) /\ ext_len_ok known (ei_type e) (length (ei_val e)) = true.

Definition wf_extb (known : N -> option nat) (e : extitem) : bool :=
  (ei_flags e <? 256) && (ei_type e <? 65536) && (N.of_nat (length (ei_val e)) <? 65536)
  && wf_bytesb (ei_val e) && ext_len_ok known (ei_type e) (length (ei_val e)).

(** RFC 9174 reading: TLVs filling the region exactly; a type bound to a
    fixed-size definition must carry exactly that many value octets. *)
Fixpoint parse_exts (known : N -> option nat) (fuel : nat) (l : bytes) : option (list extitem) :=
  match l with
  | [] => Some []
  | _ =>
    match fuel with
    | O => None
    | S f =>
      match take_be 1 l with
      | None => None
      | Some (fl, l1) =>
        match take_be 2 l1 with
        | None => None
        | Some (ty, l2) =>
          match take_be 2 l2 with
          | None => None
          | Some (len, l3) =>
            match take_n (N.to_nat len) l3 with
            | None => None
            | Some (val, l4) =>
              if ext_len_ok known ty (N.to_nat len) then
                match parse_exts known f l4 with
                | Some items => Some (mkExt fl ty val :: items)
                | None => None
                end
              else None
            end
          end
        end
      end
    end
  end.

Definition spec_exts (known : N -> option nat) (region : bytes) : option (list extitem) :=
  parse_exts known (S (length region)) region.

(** What the implementation's dissector reports as [ext_items]:
    [XItem fl ty len val] -- a TlvHead whose payload (after padding removal) is
    [val]; [XRaw b] -- the fallback Raw entry holding everything that was left.
    An item dissects only if its length field equals the size of all that is
    left of the region after its header.  For a bound type with more than its
    fixed size left, the first [k] octets are its fields and the rest is
    "padding" that re-enters the item loop. *)
Inductive extview := XItem (fl ty len : N) (val : bytes) | XRaw (b : bytes).

Fixpoint scapy_exts (known : N -> option nat) (fuel : nat) (l : bytes) : list extview :=
  match l with
  | [] => []
  | _ :: _ =>
    match fuel with
    | O => [XRaw l]
    | S f =>
      match take_be 1 l with None => [XRaw l] | Some (fl, l1) =>
      match take_be 2 l1 with None => [XRaw l] | Some (ty, l2) =>
      match take_be 2 l2 with None => [XRaw l] | Some (len, rest) =>
        if N.of_nat (length rest) =? len then
          match known ty with
          | None => [XItem fl ty len rest]
          | Some k =>
              if (length rest <=? k)%nat then [XItem fl ty len rest]
              else XItem fl ty len (firstn k rest) :: scapy_exts known f (skipn k rest)
          end
        else [XRaw l]
      end end end
    end
  end.

Definition scapy_view (known : N -> option nat) (region : bytes) : list extview :=
  scapy_exts known (S (length region)) region.

(** scapy's [conf.max_list_count]. *)
Definition MAX_LIST_COUNT : nat := 100.
Definition ext_count_ok (known : N -> option nat) (region : bytes) : bool :=
  (length (scapy_view known region) <=? MAX_LIST_COUNT)%nat.

(** ** Encoding *)

Definition encode_msg (m : msg) : bytes :=
  match m with
  | MXferSeg flags xid ext data =>
      [1] ++ be 1 flags ++ be 8 xid
      ++ (if has_start flags
          then be 4 (N.of_nat (length ext)) ++ ext
          else [])
      ++ be 8 (N.of_nat (length data)) ++ data
  | MXferAck flags xid len => [2] ++ be 1 flags ++ be 8 xid ++ be 8 len
  | MXferRefuse reason xid => [3] ++ be 1 reason ++ be 8 xid
  | MKeepalive => [4]
  | MSessTerm flags reason => [5] ++ be 1 flags ++ be 1 reason
  | MReject rej_id reason => [6] ++ be 1 rej_id ++ be 1 reason
  | MSessInit ka smru xmru nodeid ext =>
      [7] ++ be 2 ka ++ be 8 smru ++ be 8 xmru
      ++ be 2 (N.of_nat (length nodeid)) ++ nodeid
      ++ be 4 (N.of_nat (length ext)) ++ ext
  end.

Definition encode_contact (c : contact) : bytes :=
  ch_magic c ++ be 1 (ch_version c) ++ be 1 (ch_flags c).

Definition encode_frame (f : frame) : bytes :=
  match f with FContact c => encode_contact c | FMsg m => encode_msg m end.

(** ** Well-formedness: every field fits its width *)

Definition wf_region (known : N -> option nat) (ext : bytes) : Prop :=
  N.of_nat (length ext) < 2^32 /\ wf_bytes ext /\ ext_count_ok known ext = true.

Definition wf_msg (m : msg) : Prop :=
  match m with
  | MXferSeg flags xid ext data =>
      flags < 256 /\ xid < 2^64 /\ wf_region xfer_ext_len ext
      /\ (has_start flags = false -> ext = [])
      /\ N.of_nat (length data) < 2^64 /\ wf_bytes data
  | MXferAck flags xid len => flags < 256 /\ xid < 2^64 /\ len < 2^64
  | MXferRefuse reason xid => reason < 256 /\ xid < 2^64
  | MKeepalive => True
  | MSessTerm flags reason => flags < 256 /\ reason < 256
  | MReject rej_id reason => rej_id < 256 /\ reason < 256
  | MSessInit ka smru xmru nodeid ext =>
      ka < 65536 /\ smru < 2^64 /\ xmru < 2^64
      /\ N.of_nat (length nodeid) < 65536 /\ wf_bytes nodeid
      /\ wf_region sess_ext_len ext
  end.

Definition wf_contact (c : contact) : Prop :=
  length (ch_magic c) = 4%nat /\ wf_bytes (ch_magic c) /\ ch_version c < 256 /\ ch_flags c < 256.

Definition wf_frame (f : frame) : Prop :=
  match f with FContact c => wf_contact c | FMsg m => wf_msg m end.

(** Boolean versions (for the generated case files and non-vacuity examples). *)
Definition wf_regionb (known : N -> option nat) (ext : bytes) : bool :=
  (N.of_nat (length ext) <? 2^32) && wf_bytesb ext && ext_count_ok known ext.

Definition wf_msgb (m : msg) : bool :=
  match m with
  | MXferSeg flags xid ext data =>
      (flags <? 256) && (xid <? 2^64) && wf_regionb xfer_ext_len ext
      && (has_start flags || match ext with [] => true | _ => false end)
      && (N.of_nat (length data) <? 2^64) && wf_bytesb data
  | MXferAck flags xid len => (flags <? 256) && (xid <? 2^64) && (len <? 2^64)
  | MXferRefuse reason xid => (reason <? 256) && (xid <? 2^64)
  | MKeepalive => true
  | MSessTerm flags reason => (flags <? 256) && (reason <? 256)
  | MReject rej_id reason => (rej_id <? 256) && (reason <? 256)
  | MSessInit ka smru xmru nodeid ext =>
      (ka <? 65536) && (smru <? 2^64) && (xmru <? 2^64)
      && (N.of_nat (length nodeid) <? 65536) && wf_bytesb nodeid
      && wf_regionb sess_ext_len ext
  end.

(** ** Parsing (the probe) *)

(** The extension region: a four-octet size and that many octets, whatever
    they are (subject only to scapy's list-count limit). *)
Definition parse_ext_region (known : N -> option nat) (l : bytes) : option (bytes * bytes) :=
  match take_be 4 l with
  | None => None
  | Some (size, l1) =>
    match take_n (N.to_nat size) l1 with
    | None => None
    | Some (region, l2) => if ext_count_ok known region then Some (region, l2) else None
    end
  end.

Definition parse_body (id : N) (l : bytes) : option (msg * bytes) :=
  if id =? 1 then
    match take_be 1 l with None => None | Some (flags, l1) =>
    match take_be 8 l1 with None => None | Some (xid, l2) =>
    match (if has_start flags then parse_ext_region xfer_ext_len l2 else Some ([], l2)) with
    | None => None
    | Some (ext, l3) =>
      match take_be 8 l3 with None => None | Some (len, l4) =>
      match take_n (N.to_nat len) l4 with None => None | Some (data, l5) =>
        Some (MXferSeg flags xid ext data, l5)
      end end
    end end end
  else if id =? 2 then
    match take_be 1 l with None => None | Some (flags, l1) =>
    match take_be 8 l1 with None => None | Some (xid, l2) =>
    match take_be 8 l2 with None => None | Some (len, l3) =>
      Some (MXferAck flags xid len, l3)
    end end end
  else if id =? 3 then
    match take_be 1 l with None => None | Some (reason, l1) =>
    match take_be 8 l1 with None => None | Some (xid, l2) =>
      Some (MXferRefuse reason xid, l2)
    end end
  else if id =? 4 then Some (MKeepalive, l)
  else if id =? 5 then
    match take_be 1 l with None => None | Some (flags, l1) =>
    match take_be 1 l1 with None => None | Some (reason, l2) =>
      Some (MSessTerm flags reason, l2)
    end end
  else if id =? 6 then
    match take_be 1 l with None => None | Some (rej, l1) =>
    match take_be 1 l1 with None => None | Some (reason, l2) =>
      Some (MReject rej reason, l2)
    end end
  else if id =? 7 then
    match take_be 2 l with None => None | Some (ka, l1) =>
    match take_be 8 l1 with None => None | Some (smru, l2) =>
    match take_be 8 l2 with None => None | Some (xmru, l3) =>
    match take_be 2 l3 with None => None | Some (nlen, l4) =>
    match take_n (N.to_nat nlen) l4 with None => None | Some (nodeid, l5) =>
    match parse_ext_region sess_ext_len l5 with None => None | Some (ext, l6) =>
      Some (MSessInit ka smru xmru nodeid ext, l6)
    end end end end end end
  else None.  (* unknown message type: never complete (the stream stalls) *)

Definition parse_msg (l : bytes) : option (msg * bytes) :=
  match l with
  | [] => None
  | id :: rest => parse_body id rest
  end.

(** Contact header: fixed six octets (recv_raw waits for all of them). *)
Definition parse_contact (l : bytes) : option (contact * bytes) :=
  match take_n 4 l with None => None | Some (magic, l1) =>
  match take_be 1 l1 with None => None | Some (ver, l2) =>
  match take_be 1 l2 with None => None | Some (flags, l3) =>
    Some (mkContact magic ver flags, l3)
  end end end.

(** The probe, by phase ([in_conn = false]: expecting the contact header). *)
Definition parse_frame (in_conn : bool) (l : bytes) : option (frame * bytes) :=
  if in_conn
  then match parse_msg l with Some (m, r) => Some (FMsg m, r) | None => None end
  else match parse_contact l with Some (c, r) => Some (FContact c, r) | None => None end.

(** Rendering for the correspondence files: a message as a flat list of
    numbers and octet strings the Python side can compare with scapy's
    dissection.  The extension region is one octet string (last entry). *)
Definition render_msg (m : msg) : list bytes :=
  match m with
  | MXferSeg flags xid ext data => [[1]; [flags]; [xid]; data; ext]
  | MXferAck flags xid len => [[2]; [flags]; [xid]; [len]]
  | MXferRefuse reason xid => [[3]; [reason]; [xid]]
  | MKeepalive => [[4]]
  | MSessTerm flags reason => [[5]; [flags]; [reason]]
  | MReject rej reason => [[6]; [rej]; [reason]]
  | MSessInit ka smru xmru nodeid ext => [[7]; [ka]; [smru]; [xmru]; nodeid; ext]
  end.
Definition render_frame (f : frame) : list bytes :=
  match f with
  | FContact c => [[0]; ch_magic c; [ch_version c]; [ch_flags c]]
  | FMsg m => render_msg m
  end.

(** Item-level renderings. *)
Definition render_ext (e : extitem) : list bytes := [[ei_flags e]; [ei_type e]; ei_val e].
Definition render_exts (l : list extitem) : list (list bytes) := map render_ext l.
Definition render_extview (v : extview) : list bytes :=
  match v with
  | XItem fl ty len val => [[1]; [fl]; [ty]; [len]; val]
  | XRaw b => [[0]; b]
  end.
Definition render_view (l : list extview) : list (list bytes) := map render_extview l.

(** ** Helper definitions for the C07 statements and the correspondence run *)

(** How an RFC 9174 item would be reported if the dissector saw it as an item. *)
Definition item_view (e : extitem) : extview :=
  XItem (ei_flags e) (ei_type e) (N.of_nat (length (ei_val e))) (ei_val e).

(** The receive loop of [Messenger.recv_raw] over [parse_frame], for any
    handler state [St], phase projection (the [_in_conn] flag), liveness
    projection ([get_app_socket() is not None]: the loop stops handling
    buffered octets once the handler has closed the connection) and handler
    ([recv_message]).  Same text as the generic [loop]/[recv] of
    Proofs/FrameProofs.v (proved equal there by conversion). *)
Section RxLoop.
  Variable St : Type.
  Variable phase : St -> bool.
  Variable alive : St -> bool.
  Variable handle : St -> frame -> St.

  Fixpoint rx_loop (fuel : nat) (s : St) (buf : bytes) : St * bytes :=
    match fuel with
    | O => (s, buf)
    | S fuel' =>
      match buf with
      | [] => (s, buf)
      | _ :: _ =>
        if alive s then
          match parse_frame (phase s) buf with
          | None => (s, buf)
          | Some (f, r) => rx_loop fuel' (handle s f) r
          end
        else (s, buf)
      end
    end.

  Definition rx_recv (st : St * bytes) (chunk : bytes) : St * bytes :=
    rx_loop (S (length (snd st ++ chunk))) (fst st) (snd st ++ chunk).
End RxLoop.

(** The logging handler: state = (([_in_conn], connection open), frames acted
    on so far).  As in [Messenger.recv_message], a contact header with the
    right magic and version 4 sets [_in_conn]; any other contact header closes
    the connection (and leaves the receiver in the contact phase).  Messages
    are only logged. *)
Definition contact_ok (c : contact) : bool := bytes_eqb (ch_magic c) MAGIC && (ch_version c =? 4).
Definition log_state := ((bool * bool) * list frame)%type.
Definition log_phase (s : log_state) : bool := fst (fst s).
Definition log_alive (s : log_state) : bool := snd (fst s).
Definition log_flags (fl : bool * bool) (f : frame) : bool * bool :=
  match f with
  | FContact c => if contact_ok c then (true, snd fl) else (fst fl, false)
  | FMsg _ => fl
  end.
Definition log_handle (s : log_state) (f : frame) : log_state := (log_flags (fst s) f, snd s ++ [f]).
Definition rx_log_recv := rx_recv log_state log_phase log_alive log_handle.
Definition rx_init : log_state * bytes := (((false, true), []), []).

(** Cut a stream into reads of the given sizes (the last read takes what is left). *)
Fixpoint split_at (lens : list nat) (l : bytes) : list bytes :=
  match lens with
  | [] => match l with [] => [] | _ => [l] end
  | n :: lens' => firstn n l :: split_at lens' (skipn n l)
  end.

(** After each read: (number of frames acted on so far, octets kept). *)
Fixpoint rx_trace (st : log_state * bytes) (chunks : list bytes) : list (nat * nat) * (log_state * bytes) :=
  match chunks with
  | [] => ([], st)
  | c :: cs =>
      let st' := rx_log_recv st c in
      let (t, fin) := rx_trace st' cs in
      ((length (snd (fst st')), length (snd st')) :: t, fin)
  end.

Definition rx_run (chunks : list bytes) : list (nat * nat) * (list (list bytes) * bytes) :=
  let (t, fin) := rx_trace rx_init chunks in
  (t, (map render_frame (snd (fst fin)), snd fin)).

Definition rx_run_cut (stream : bytes) (lens : list nat) := rx_run (split_at lens stream).

(** Codec entry points for the correspondence files. *)
Definition render_parse (b : bytes) : option (list bytes * bytes) :=
  match parse_msg b with Some (m, r) => Some (render_msg m, r) | None => None end.
Definition render_spec_exts (known : N -> option nat) (region : bytes) : option (list (list bytes)) :=
  match spec_exts known region with Some items => Some (render_exts items) | None => None end.
