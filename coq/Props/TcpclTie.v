(** Tie of the hand-written TCPCL session model to the fragments of
    tcpcl/session.py regenerated on every run (Gen/SessParams.v), plus the
    clamp of the adaptive segment-size controller.  Used by the checks of
    C04, C09, C14 and C18. *)
From Coq Require Import List NArith Bool.
From DTN Require Import Lib.Bytes Model.TcpclMsg Model.TcpclSess Gen.SessParams Proofs.TcpclGenTie.
Local Open Scope N_scope.

(** The model's idle predicate is the code's two is_sess_idle conjunctions. *)
Theorem Tie_idle_predicate : forall s,
  is_sess_idle s =
  gen_idle_handler (gen_idle_messenger (is_nil (rx_buf s)) (is_nil (msg_tx s)))
                   (none_b (rx_tmp s)) (none_b (tx_tmp s)) (is_nil (pend_start s)) (is_nil (pend_ack s)).
Proof. exact tie_idle. Qed.
Print Assumptions Tie_idle_predicate.

(** ... and "idle" as the code computes it means: nothing queued, in progress or
    awaiting acknowledgement, no received octets awaiting processing, nothing
    left to send at message level. *)
Theorem Tie_idle_sound : forall rx_empty tx_empty rx_tmp_none tx_tmp_none ps_empty pa_empty,
  gen_idle_handler (gen_idle_messenger rx_empty tx_empty) rx_tmp_none tx_tmp_none ps_empty pa_empty = true ->
  rx_empty = true /\ tx_empty = true /\ rx_tmp_none = true /\ tx_tmp_none = true /\ ps_empty = true /\ pa_empty = true.
Proof.
  intros a b c d e f. unfold gen_idle_handler, gen_idle_messenger.
  destruct a, b, c, d, e, f; cbn; intros H; try discriminate H; repeat split; reflexivity.
Qed.
Print Assumptions Tie_idle_sound.

Theorem Tie_close_when_terminating : forall s,
  check_sess_term s = if gen_close_when (in_term s) (is_sess_idle s) then do_close s else s.
Proof. exact tie_check_sess_term. Qed.
Print Assumptions Tie_close_when_terminating.

Theorem Tie_refill_trigger : forall buf_use s,
  send_buffer_decreased buf_use s = if gen_buf_trigger buf_use (seg_size s) then pq_trigger s else s.
Proof. exact tie_send_buffer_decreased. Qed.
Print Assumptions Tie_refill_trigger.

Theorem Tie_negotiation : forall s s' this peer,
  sessinit_this s = Some this -> sessinit_peer s = Some peer ->
  merge_session_params s = (s', None) ->
  keepalive_time s' = gen_keepalive (si_keepalive this) (si_keepalive peer)
  /\ seg_size s' = gen_seg_size (c_seg_init (cf s)) (si_seg_mru peer).
Proof. exact tie_merge. Qed.
Print Assumptions Tie_negotiation.

(** Whatever the adaptive controller computes, the clamp the code applies
    keeps the segment size within the peer's segment MRU. *)
Theorem C14_clamp_le_mru : forall next floor mru, gen_clamp next floor mru <= mru.
Proof. exact clamp_le_mru. Qed.
Print Assumptions C14_clamp_le_mru.

Theorem C14_initial_seg_le_mru : forall init mru, gen_seg_size init mru <= mru.
Proof. exact seg_size_le_mru. Qed.
Print Assumptions C14_initial_seg_le_mru.

Theorem C14_keepalive_is_min : forall a b, gen_keepalive a b = N.min a b.
Proof. exact keepalive_is_min. Qed.
Print Assumptions C14_keepalive_is_min.

(** Agent.shutdown() and Agent.stop() walk a snapshot of the handler list
    (regenerated from tcpcl/agent.py): every session is asked to terminate /
    is closed, although closing a handler removes it from the live list. *)
From DTN Require Import Gen.AgentLoops Proofs.TcpclAgentLoops.
Theorem C09_agent_shutdown_walks_snapshot : shutdown_iterates_snapshot = true /\ stop_iterates_snapshot = true.
Proof. split; reflexivity. Qed.
Print Assumptions C09_agent_shutdown_walks_snapshot.

Theorem C09_snapshot_visits_every_handler : forall (H : Type) (l : list H) (h : H), In h l -> In h (walk_snapshot H l).
Proof. exact snapshot_visits_all. Qed.
Print Assumptions C09_snapshot_visits_every_handler.

Theorem C09_live_iteration_skips_refuted : exists (l : list nat) (closes : nat -> bool) (h : nat),
  In h l /\ ~ In h (walk_live nat closes (length l) 0 l).
Proof. exact live_skips. Qed.
Print Assumptions C09_live_iteration_skips_refuted.
