''' Translator target: processing-chain step orders  ->  coq/Gen/Chain.v

Sources (``ast``, fail closed): every ``<chain>.append(ChainStep(order=<number>, name=<str>, action=self.<method>))``
in ``Agent.__init__`` (bp/agent.py) and in the ``add_chains`` method of each application module imported by
bp/app/__init__.py, in that import order (= registration order of ``APPLICATIONS``, = order in which
``Agent.__init__`` lets the applications append their steps before the stable sort).
'''
import ast
import os


class TranslateError(Exception):
    pass


def _parse(path):
    with open(path, 'r') as infile:
        return ast.parse(infile.read(), filename=path)


def _number(node):
    if isinstance(node, ast.UnaryOp) and isinstance(node.op, ast.USub):
        return -_number(node.operand)
    if isinstance(node, ast.Constant) and isinstance(node.value, int) and not isinstance(node.value, bool):
        return node.value
    raise TranslateError('ChainStep order is not an integer literal: %s' % ast.dump(node)[:60])


def _steps_in(func, rx_names, tx_names, where):
    ''' [(chain, order, name, method)] in source order. '''
    out = []
    for node in ast.walk(func):
        if isinstance(node, ast.Call) and isinstance(node.func, ast.Name) and node.func.id == 'ChainStep':
            pass
    for stmt in ast.walk(func):
        if not (isinstance(stmt, ast.Expr) and isinstance(stmt.value, ast.Call)):
            continue
        call = stmt.value
        if not (isinstance(call.func, ast.Attribute) and call.func.attr == 'append' and len(call.args) == 1
                and isinstance(call.args[0], ast.Call) and isinstance(call.args[0].func, ast.Name)
                and call.args[0].func.id == 'ChainStep'):
            continue
        target = call.func.value
        if isinstance(target, ast.Attribute):
            tname = target.attr
        elif isinstance(target, ast.Name):
            tname = target.id
        else:
            raise TranslateError('%s: ChainStep appended to an unknown target' % where)
        if tname in rx_names:
            chain = 'rx'
        elif tname in tx_names:
            chain = 'tx'
        else:
            raise TranslateError('%s: ChainStep appended to %s' % (where, tname))
        step = call.args[0]
        kws = {kw.arg: kw.value for kw in step.keywords}
        if step.args or sorted(kws) != ['action', 'name', 'order']:
            raise TranslateError('%s: ChainStep(...) is not (order=, name=, action=)' % where)
        if not (isinstance(kws['name'], ast.Constant) and isinstance(kws['name'].value, str)):
            raise TranslateError('%s: step name is not a string literal' % where)
        act = kws['action']
        if not (isinstance(act, ast.Attribute) and isinstance(act.value, ast.Name) and act.value.id == 'self'):
            raise TranslateError('%s: step action is not self.<method>' % where)
        out.append((stmt.lineno, chain, _number(kws['order']), kws['name'].value, act.attr))
    # every ChainStep(...) call must have been consumed by the pattern above
    total = sum(1 for node in ast.walk(func) if isinstance(node, ast.Call) and isinstance(node.func, ast.Name) and node.func.id == 'ChainStep')
    if total != len(out):
        raise TranslateError('%s: %d ChainStep calls, %d in the expected append(...) shape' % (where, total, len(out)))
    return [item[1:] for item in sorted(out)]


def _find(node, kind, name):
    for item in node.body:
        if isinstance(item, kind) and item.name == name:
            return item
    raise TranslateError('%s not found' % name)


def collect(repo_src):
    steps = []
    agent = _parse(os.path.join(repo_src, 'bp', 'agent.py'))
    init = _find(_find(agent, ast.ClassDef, 'Agent'), ast.FunctionDef, '__init__')
    steps += [('agent',) + item for item in _steps_in(init, {'_rx_chain'}, {'_tx_chain'}, 'Agent.__init__')]
    # the sort must be a plain (stable) list.sort() on both chains
    sorts = [node for node in ast.walk(init) if isinstance(node, ast.Call) and isinstance(node.func, ast.Attribute)
             and node.func.attr == 'sort' and not node.args and not node.keywords]
    if len(sorts) != 2:
        raise TranslateError('Agent.__init__ does not sort both chains with a plain .sort()')
    app_init = _parse(os.path.join(repo_src, 'bp', 'app', '__init__.py'))
    mods = []
    for node in app_init.body:
        if isinstance(node, ast.ImportFrom) and node.level == 1 and node.module is None:
            mods += [alias.name for alias in node.names]
        elif isinstance(node, ast.Expr) and isinstance(node.value, ast.Constant):
            continue
        else:
            raise TranslateError('bp/app/__init__.py: unexpected statement')
    for mod in mods:
        tree = _parse(os.path.join(repo_src, 'bp', 'app', mod + '.py'))
        for cls in tree.body:
            if not isinstance(cls, ast.ClassDef):
                continue
            for func in cls.body:
                if isinstance(func, ast.FunctionDef) and func.name == 'add_chains':
                    args = [arg.arg for arg in func.args.args]
                    if len(args) != 3:
                        raise TranslateError('%s.add_chains signature' % mod)
                    steps += [(mod,) + item for item in _steps_in(func, {args[1]}, {args[2]}, mod + '.add_chains')]
    return steps


def generate(repo_src):
    steps = collect(repo_src)
    lines = []
    out = lines.append
    out('(* GENERATED by translate/targets/chain.py from bp/agent.py (Agent.__init__) and the add_chains methods of')
    out('   the applications imported by bp/app/__init__.py, in registration order.  Do not edit. *)')
    out('From Coq Require Import ZArith List String.')
    out('Import ListNotations.')
    out('Local Open Scope Z_scope.')
    out('Local Open Scope string_scope.')
    out('')
    out('(* (order, module, method) *)')
    for chain in ('rx', 'tx'):
        items = ['(%d, "%s", "%s")' % (order, mod, meth) for (mod, ch, order, _name, meth) in steps if ch == chain]
        out('Definition %s_steps : list (Z * string * string) :=' % chain)
        out('  [' + ';\n   '.join(items) + '].')
        out('')
    return {'Gen/Chain.v': '\n'.join(lines) + '\n'}


if __name__ == '__main__':
    print(generate('/repo/src')['Gen/Chain.v'])
