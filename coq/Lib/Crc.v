(** CRC-16/X.25 and CRC-32C (Castagnoli) as used by BPv7 blocks (RFC 9171 4.2.1).

    Two layers, both defined here (theorems are in [Lib/CrcProofs.v]):

    1. The *executable* model [crc16_x25], [crc32c] : [bytes -> N].  A bit-serial
       reflected shift register over [N], exactly the loop
         [crc := if (crc xor bit) odd then (crc >> 1) xor POLY_REFLECTED else crc >> 1]
       fed with the bits of every octet LSB first, register preset to all ones,
       final value xored with all ones.  This is what
       [crcmod.predefined.mkPredefinedCrcFun('x-25' | 'crc-32c')] computes (the
       table-driven harness stand-in [harness/stubs/crcmod/predefined.py] is the
       octet-at-a-time unrolling of the same loop).

    2. An independent *specification*: the CRC as a remainder of polynomial
       long division over GF(2), generic in the generator [g] (a bit list,
       highest-degree coefficient first, degree [w = length g - 1]):
         message bits (LSB first per octet) ++ w zeros      (multiply by x^w)
         xor the first w bits with ones                     (init = all ones)
         remainder modulo g                                 ([pmod])
         xor with ones                                      (xorout = all ones)
         read with the x^(w-1) coefficient as bit 0         (reflected output)

    [CrcProofs.v] proves that the two layers agree on every octet string, that
    [pmod] is linear, and the burst-error detection theorem. *)
From Coq Require Import List NArith Bool.
From DTN Require Import Lib.Bytes.
Import ListNotations.
Local Open Scope N_scope.

(** * 1. Executable model *)

(** One register step for one message bit [b]. *)
Definition crc_bit (poly crc : N) (b : bool) : N :=
  let s := N.shiftr crc 1 in
  if xorb (N.odd crc) b then N.lxor s poly else s.

(** The eight bits of an octet, least significant first. *)
Definition octet_bits (x : N) : list bool :=
  map (N.testbit x) [0; 1; 2; 3; 4; 5; 6; 7].

Definition crc_octet (poly crc x : N) : N :=
  fold_left (crc_bit poly) (octet_bits x) crc.

(** [poly] is the reflected generator (without the x^w term), [init] the register
    preset, [xorout] the final xor. *)
Definition crc_run (poly init xorout : N) (bs : bytes) : N :=
  N.lxor (fold_left (crc_octet poly) bs init) xorout.

Definition crc16_x25 (bs : bytes) : N := crc_run 0x8408 0xFFFF 0xFFFF bs.
Definition crc32c (bs : bytes) : N := crc_run 0x82F63B78 0xFFFFFFFF 0xFFFFFFFF bs.

(** The CRC field contents: big-endian, 2 resp. 4 octets. *)
Definition crc16_x25_field (bs : bytes) : bytes := be 2 (crc16_x25 bs).
Definition crc32c_field (bs : bytes) : bytes := be 4 (crc32c bs).

(** Catalogue check values on "123456789" and the empty string. *)
Example crc16_x25_check : crc16_x25 [49;50;51;52;53;54;55;56;57] = 0x906E.
Proof. vm_compute; reflexivity. Qed.
Example crc32c_check : crc32c [49;50;51;52;53;54;55;56;57] = 0xE3069283.
Proof. vm_compute; reflexivity. Qed.
Example crc16_x25_empty : crc16_x25 [] = 0.
Proof. vm_compute; reflexivity. Qed.
Example crc32c_empty : crc32c [] = 0.
Proof. vm_compute; reflexivity. Qed.

(** Vectors obtained from [harness/stubs/crcmod/predefined.py]
    ([f('x-25')(x)], [f('crc-32c')(x)]). *)
Definition range_bytes (n : nat) : bytes := map N.of_nat (seq 0 n).
Definition affine_bytes (n : nat) : bytes :=
  map (fun i => (N.of_nat i * 37 + 11) mod 256) (seq 0 n).

(* bytes(range(20)) *)
Example crc16_x25_v1 : crc16_x25 (range_bytes 20) = 17173.
Proof. vm_compute; reflexivity. Qed.
Example crc32c_v1 : crc32c (range_bytes 20) = 3430542310.
Proof. vm_compute; reflexivity. Qed.
(* bytes([0]) *)
Example crc16_x25_v2 : crc16_x25 [0] = 61560.
Proof. vm_compute; reflexivity. Qed.
Example crc32c_v2 : crc32c [0] = 1383945041.
Proof. vm_compute; reflexivity. Qed.
(* bytes([255]*7) *)
Example crc16_x25_v3 : crc16_x25 (repeat 255 7) = 63804.
Proof. vm_compute; reflexivity. Qed.
Example crc32c_v3 : crc32c (repeat 255 7) = 1617208197.
Proof. vm_compute; reflexivity. Qed.
(* bytes((i*37+11)%256 for i in range(300)) *)
Example crc16_x25_v4 : crc16_x25 (affine_bytes 300) = 1033.
Proof. vm_compute; reflexivity. Qed.
Example crc32c_v4 : crc32c (affine_bytes 300) = 3693503159.
Proof. vm_compute; reflexivity. Qed.

(** * 2. Polynomial specification over GF(2) *)

(** A polynomial is the list of its coefficients, highest degree first (the
    order in which message bits enter the divider).  Leading zeros are allowed. *)
Definition poly := list bool.

Definition zeros (n : nat) : poly := repeat false n.
Definition ones (n : nat) : poly := repeat true n.

(** Coefficient-wise sum (xor).  The result has the length of [a]; a shorter [b]
    is treated as if extended by zeros at the low end, a longer one is cut.  All
    uses in the theorems are on equal-length lists. *)
Fixpoint xorl (a b : poly) : poly :=
  match a with
  | [] => []
  | x :: a' => match b with
               | [] => a
               | y :: b' => xorb x y :: xorl a' b'
               end
  end.

(** [xor_prefix a l]: add [a] into the leading [length a] coefficients of [l]. *)
Fixpoint xor_prefix (a l : poly) : poly :=
  match a, l with
  | x :: a', y :: l' => xorb x y :: xor_prefix a' l'
  | _, _ => l
  end.

(** One step of schoolbook long division by the monic generator x^w + [glow]
    ([glow] = the [w] low coefficients).  The running remainder [r] has [w]
    coefficients; bring down the next dividend coefficient [b] (r*x + b) and, if
    a term x^w appeared, subtract the generator. *)
Definition pstep (glow r : poly) (b : bool) : poly :=
  match r with
  | [] => []
  | top :: rest => if top then xorl (rest ++ [b]) glow else rest ++ [b]
  end.

(** [pmod m g]: remainder of [m] modulo the monic [g] (head of [g] is its
    leading coefficient, taken to be 1), as a list of exactly [length g - 1]
    coefficients.  Structural (left fold) over the dividend. *)
Definition pmod (m g : poly) : poly :=
  match g with
  | [] => []
  | _ :: glow => fold_left (pstep glow) m (zeros (length glow))
  end.

(** The number whose bit [i] is the [i]-th element of the list (head = bit 0).
    Applied to a remainder (highest degree first) this is the "reflected"
    register read-out. *)
Fixpoint of_bits (l : list bool) : N :=
  match l with
  | [] => 0
  | b :: l' => if b then N.succ_double (of_bits l') else N.double (of_bits l')
  end.

(** Message bit stream of an octet string: LSB first within each octet. *)
Definition bits_of_bytes (bs : bytes) : list bool := flat_map octet_bits bs.

(** CRC of a bit stream with all-ones init and xorout, as a coefficient list. *)
Definition crc_spec_bits (g : poly) (msg : list bool) : poly :=
  let w := (length g - 1)%nat in
  xorl (pmod (xor_prefix (ones w) (msg ++ zeros w)) g) (ones w).

Definition crc_spec (g : poly) (bs : bytes) : N :=
  of_bits (crc_spec_bits g (bits_of_bytes bs)).

(** The [len] low bits of [n], most significant first. *)
Definition poly_of_N (len : nat) (n : N) : poly :=
  rev (map (fun i => N.testbit n (N.of_nat i)) (seq 0 len)).

(** x^16 + x^12 + x^5 + 1 *)
Definition g_x25 : poly := poly_of_N 17 0x11021.
(** x^32 + x^28 + x^27 + x^26 + x^25 + x^23 + x^22 + x^20 + x^19 + x^18 + x^14
    + x^13 + x^11 + x^10 + x^9 + x^8 + x^6 + 1 *)
Definition g_32c : poly := poly_of_N 33 0x11EDC6F41.

Definition crc_spec_x25 (bs : bytes) : N := crc_spec g_x25 bs.
Definition crc_spec_32c (bs : bytes) : N := crc_spec g_32c bs.

Example g_x25_terms :
  map (fun i => nth (16 - i) g_x25 false) [16; 12; 5; 0]%nat = [true; true; true; true]
  /\ length (filter (fun b => b) g_x25) = 4%nat /\ length g_x25 = 17%nat.
Proof. vm_compute. auto. Qed.
Example g_32c_terms :
  map (fun i => nth (32 - i) g_32c false)
      [32; 28; 27; 26; 25; 23; 22; 20; 19; 18; 14; 13; 11; 10; 9; 8; 6; 0]%nat
  = repeat true 18
  /\ length (filter (fun b => b) g_32c) = 18%nat /\ length g_32c = 33%nat.
Proof. vm_compute. auto. Qed.

(** The specification on the same vectors (independent of section 1). *)
Example crc_spec_x25_check : crc_spec_x25 [49;50;51;52;53;54;55;56;57] = 0x906E.
Proof. vm_compute; reflexivity. Qed.
Example crc_spec_32c_check : crc_spec_32c [49;50;51;52;53;54;55;56;57] = 0xE3069283.
Proof. vm_compute; reflexivity. Qed.
Example crc_spec_x25_empty : crc_spec_x25 [] = 0.
Proof. vm_compute; reflexivity. Qed.
Example crc_spec_32c_empty : crc_spec_32c [] = 0.
Proof. vm_compute; reflexivity. Qed.
Example crc_spec_x25_v1 : crc_spec_x25 (range_bytes 20) = 17173.
Proof. vm_compute; reflexivity. Qed.
Example crc_spec_32c_v1 : crc_spec_32c (range_bytes 20) = 3430542310.
Proof. vm_compute; reflexivity. Qed.
Example crc_spec_x25_v2 : crc_spec_x25 [0] = 61560.
Proof. vm_compute; reflexivity. Qed.
Example crc_spec_32c_v2 : crc_spec_32c [0] = 1383945041.
Proof. vm_compute; reflexivity. Qed.
Example crc_spec_x25_v3 : crc_spec_x25 (repeat 255 7) = 63804.
Proof. vm_compute; reflexivity. Qed.
Example crc_spec_32c_v3 : crc_spec_32c (repeat 255 7) = 1617208197.
Proof. vm_compute; reflexivity. Qed.
Example crc_spec_x25_v4 : crc_spec_x25 (affine_bytes 300) = 1033.
Proof. vm_compute; reflexivity. Qed.
Example crc_spec_32c_v4 : crc_spec_32c (affine_bytes 300) = 3693503159.
Proof. vm_compute; reflexivity. Qed.

(** * 3. Vocabulary for the burst theorem *)

(** [e] is a burst of span at most [w]: zero outside a window of at most [w]
    consecutive positions, and not zero inside it. *)
Definition is_burst (w : nat) (e : list bool) : Prop :=
  exists i b j, e = zeros i ++ b ++ zeros j /\ (length b <= w)%nat /\ In true b.

(** Octet strings [m], [m'] of equal length differ by a burst of span <= [w]
    bits (bit order as transmitted into the CRC: LSB first per octet). *)
Definition burst_apart (w : nat) (m m' : bytes) : Prop :=
  length m = length m' /\ is_burst w (xorl (bits_of_bytes m) (bits_of_bytes m')).
