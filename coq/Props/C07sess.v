(* C07 at the level of the session model (Model/TcpclSess.v): the framing
   development of Props/C07.v tied to the real session handler, and the
   reliable-FIFO-channel lemma (layer L2 of DESIGN.md) that the C01/C04 proofs
   use.

   Vocabulary (Proofs/TcpclChannelProofs.v):
     received s0 ops   the concatenation of the [data] of those [ORx data]
                       operations of [ops] that take effect along the run from
                       [s0] (endpoint not closed and still listening, [rx_alive],
                       at that moment);
     enc fs            concat (map encode_frame fs);
     handled, rx_buf, sent, wire, conn_tx, msg_tx, closed, rx_alive, in_conn
                       fields / ghosts of the endpoint state.

   FULL-STRENGTH session-level statement of "two reads are one":

     forall s d1 d2, closed s = false -> rx_alive s = true -> d1 <> [] -> d2 <> [] ->
       snd (recv_raw d1 s) = None ->
       step (step s (ORx d1)) (ORx d2) = step s (ORx (d1 ++ d2))

   is FALSE for the session handler (C07_session_two_reads_refuted): when the
   endpoint is terminating, [check_sess_term] closes the connection as soon as
   the session is idle, and "idle" includes "receive buffer empty" -- so
   whether the connection closes after the peer's SESS_TERM depends on whether
   the octets of the following message arrived in the same read (the witness:
   SESS_TERM reply [5;1;0] then KEEPALIVE [4]: two reads act on 3 frames and
   close; one read acts on 4 frames and stays open).  What holds for every
   reachable state, every interleaving and every chunking:
   C07_session_stream_only / C07_session_two_reads_partial (frames acted on and
   octets kept are a function of the octets read, as long as the endpoint is
   open and listening), on top of the unconditional consumption invariant. *)
From Coq Require Import List NArith Bool.
Import ListNotations.
From DTN Require Import Lib.Bytes Model.TcpclMsg Model.TcpclSess Proofs.TcpclMsgProofs Proofs.TcpclChannelProofs
  Proofs.TcpclChannelSent.
Local Open Scope N_scope.

(* ---- consumption: every octet read is part of a frame that was acted on
        (the frames acted on re-encode to exactly the octets consumed) or is
        still in the receive buffer; for every operation list *)
Theorem C07_session_consumption :
  forall (c : cfg) (ops : list op),
    wf_bytes (received (init c) ops) ->
    received (init c) ops
    = concat (map encode_frame (handled (run c ops))) ++ rx_buf (run c ops).
Proof. exact consumption. Qed.
Print Assumptions C07_session_consumption.

(* ---- what was acted on: well-formed frames; nothing, or one contact header
        followed by messages only; an endpoint still in the contact phase has
        acted on nothing unless it closed or went deaf (escaped exception) on
        its first frame; the kept octets are octets *)
Theorem C07_session_handled_shape :
  forall (c : cfg) (ops : list op),
    wf_bytes (received (init c) ops) ->
    let s := run c ops in
    Forall wf_frame (handled s)
    /\ (handled s = [] \/ exists h ms, handled s = FContact h :: map FMsg ms)
    /\ (in_conn s = true -> handled s <> [])
    /\ (in_conn s = false -> handled s = [] \/ closed s = true \/ rx_alive s = false)
    /\ wf_bytes (rx_buf s).
Proof. exact handled_shape. Qed.
Print Assumptions C07_session_handled_shape.

(* ---- sender-side accounting: every octet the socket accepted or that is
        still in one of the two transmit buffers comes from the encoding of a
        sent frame, in order; for every operation list *)
Theorem C07_sent_accounting :
  forall (c : cfg) (ops : list op),
    wire (run c ops) ++ conn_tx (run c ops) ++ msg_tx (run c ops)
    = concat (map encode_frame (sent (run c ops))).
Proof. exact sent_accounting. Qed.
Print Assumptions C07_sent_accounting.

(* ---- the channel lemma: for ALL operation lists of both endpoints (every
        schedule, chunking, back-pressure pattern), if what B has read is a
        prefix of what A's socket accepted, then the frames B acted on are a
        prefix of the frames A sent.
        Two premises about the sender A are left explicit (facts of the
        transmit side of the model that are not proved here):
          sent well-formed  Forall wf_frame (sent sA)   (holds under bounds on the
                            configuration and the operations: node id < 2^16 octets,
                            keepalive < 2^16, seg_mru < 2^64, OSend data < 2^64 octets,
                            fewer than 2^64 sends, OTerm reason < 256, ...)
          contact first     sent sA is empty or one contact header followed by messages *)
Theorem C07_channel :
  forall (cA : cfg) (opsA : list op) (cB : cfg) (opsB : list op),
    (exists rest, wire (run cA opsA) = received (init cB) opsB ++ rest) ->
    Forall wf_frame (sent (run cA opsA)) ->
    (sent (run cA opsA) = [] \/ exists h ms, sent (run cA opsA) = FContact h :: map FMsg ms) ->
    exists more, sent (run cA opsA) = handled (run cB opsB) ++ more.
Proof. exact channel_acc. Qed.
Print Assumptions C07_channel.
Example C07_channel_nonvacuous :
  (* A (active) starts and its socket takes the contact header; B (passive)
     reads it in two pieces *)
  let cA := mkCfg false [97] 30 60 1000 1000 None in
  let cB := mkCfg true [98] 30 60 1000 1000 None in
  let opsA := [OStart; OTxPump true 100] in
  let opsB := [OStart; ORx [100;116;110]; ORx [33;4;0]] in
  wire (run cA opsA) = received (init cB) opsB ++ []
  /\ wire (run cA opsA) ++ conn_tx (run cA opsA) ++ msg_tx (run cA opsA)
     = concat (map encode_frame (sent (run cA opsA)))
  /\ sent (run cA opsA) = FContact (mkContact MAGIC 4 0) :: map FMsg []
  /\ handled (run cB opsB) = [FContact (mkContact MAGIC 4 0)].
Proof. cbv zeta. repeat split; vm_compute; reflexivity. Qed.

(* ---- C07 for the actual session handler: any two operation lists (any
        interleaving with sends, pumps, timers, any chunking of the reads) that
        have read the same octets and left the endpoint open and listening
        have acted on the same frames and keep the same octets *)
Theorem C07_session_stream_only :
  forall (c : cfg) (ops1 ops2 : list op),
    received (init c) ops1 = received (init c) ops2 ->
    wf_bytes (received (init c) ops1) ->
    closed (run c ops1) = false -> rx_alive (run c ops1) = true ->
    closed (run c ops2) = false -> rx_alive (run c ops2) = true ->
    handled (run c ops1) = handled (run c ops2) /\ rx_buf (run c ops1) = rx_buf (run c ops2).
Proof. exact session_stream_only. Qed.
Print Assumptions C07_session_stream_only.

(* ---- two reads are one (frames acted on, octets kept) from every reachable state *)
Theorem C07_session_two_reads_partial :
  forall (c : cfg) (ops : list op) (d1 d2 : bytes),
    let s := run c ops in
    let a := step (step s (ORx d1)) (ORx d2) in
    let b := step s (ORx (d1 ++ d2)) in
    wf_bytes (received (init c) ops) -> wf_bytes d1 -> wf_bytes d2 ->
    closed a = false -> rx_alive a = true -> closed b = false -> rx_alive b = true ->
    handled a = handled b /\ rx_buf a = rx_buf b.
Proof. exact session_two_reads. Qed.
Print Assumptions C07_session_two_reads_partial.
Example C07_session_two_reads_nonvacuous :
  let c := mkCfg true [98] 30 60 1000 1000 None in
  let s := run c [OStart] in
  let a := step (step s (ORx [100;116;110;33;4;0;4])) (ORx [4;5]) in
  let b := step s (ORx [100;116;110;33;4;0;4;4;5]) in
  closed a = false /\ rx_alive a = true /\ closed b = false /\ rx_alive b = true
  /\ handled a = [FContact (mkContact MAGIC 4 0); FMsg MKeepalive; FMsg MKeepalive] /\ rx_buf b = [5].
Proof. cbv zeta. repeat split; vm_compute; reflexivity. Qed.

(* ---- the full-state version is false: whether a terminating endpoint closes
        depends on where the read boundary falls *)
Theorem C07_session_two_reads_refuted :
  exists (c : cfg) (ops : list op) (d1 d2 : bytes),
    let s := run c ops in
    closed s = false /\ rx_alive s = true /\ d1 <> [] /\ d2 <> [] /\ wf_bytes (d1 ++ d2)
    /\ snd (recv_raw d1 s) = None
    /\ handled (step (step s (ORx d1)) (ORx d2)) <> handled (step s (ORx (d1 ++ d2)))
    /\ closed (step (step s (ORx d1)) (ORx d2)) = true
    /\ closed (step s (ORx (d1 ++ d2))) = false.
Proof. exact session_two_reads_refuted. Qed.
Print Assumptions C07_session_two_reads_refuted.

(* ---- unique decodability of accepted frame sequences (the list-level core
        of the channel lemma) *)
Theorem C07_frames_prefix :
  forall (l1 l2 : list frame) (ph : bool) (x : bytes),
    wfseq ph l1 -> wfseq ph l2 ->
    concat (map encode_frame l1) ++ x = concat (map encode_frame l2) ->
    exists m, l2 = l1 ++ m.
Proof. exact frames_prefix. Qed.
Print Assumptions C07_frames_prefix.
