(** C14: the endpoint model [Model/TcpclSess.v] negotiates its session
    settings correctly and keeps its keepalive and idle timers armed. *)
From Coq Require Import ZArith NArith List Bool Lia ZifyBool ZifyN ZifyNat Arith.
From RecordUpdate Require Import RecordSet.
From DTN Require Import Lib.Bytes Model.TcpclMsg Model.TcpclSess Proofs.TcpclSessBasics
  Proofs.TcpclRobustLib.
Import ListNotations RecordSetNotations.
Local Open Scope N_scope.
Ltac Zify.zify_post_hook ::= Z.div_mod_to_equations.

Ltac has_end_split :=
  try match goal with |- context[seg_result ?f _ _ _] =>
    let He := fresh "He" in
    destruct (has_end f) eqn:He; [rewrite seg_result_end by exact He|rewrite seg_result_more by exact He]
  end.

(** * The configuration never changes *)

Lemma hm_cf m s r : hm_spec m s r -> cf (fst r) = cf s.
Proof. intros H; destruct H; has_end_split; ep_cbn; reflexivity. Qed.

Lemma rf_cf f s r : rf_spec f s r -> cf (fst r) = cf s.
Proof.
  intros H; destruct H; try (apply hm_cf in H; ep_cbn_all); ep_cbn; try assumption; reflexivity.
Qed.

Lemma cf_step s o : cf (step s o) = cf s.
Proof.
  destruct o; cbn [step].
  7:{ destruct (closed s); [reflexivity|].
      destruct (is_nil data || negb (rx_alive s)); [reflexivity|]. unfold recv_raw.
      match goal with |- context[recv_loop ?f ?x] =>
        pose proof (recv_loop_inv (fun s' => cf s' = cf s)) as L; specialize (L) with (fuel := f) (s := x);
        destruct (recv_loop f x) as [s' r] end.
      cbn [fst] in L. assert (E : cf s' = cf s).
      { apply L; [|ep_unf; ep_cbn; reflexivity]. intros s0 fr rest E0 _ _.
        rewrite (rf_cf _ _ _ (recv_frame_spec fr _)). ep_cbn. exact E0. }
      destruct r; ep_unf; ep_cbn; exact E. }
  all: try (unfold tx_proxy); try (unfold process_queue, send_next); try (unfold send_sess_term).
  all: brk; reflexivity.
Qed.

Lemma cf_run c ops : cf (run c ops) = c.
Proof. apply run_invariant; [reflexivity|]. intros s o H. rewrite cf_step. exact H. Qed.

(** * Negotiation *)

Record neg (s : ep) : Prop := {
  n_conn : in_sess s = true -> in_conn s = true;
  n_this : forall a, sessinit_this s = Some a -> a = si_of (cf s);
  n_merge : forall a b, in_sess s = true -> sessinit_this s = Some a -> sessinit_peer s = Some b ->
            ascii (si_nodeid b) = true ->
            keepalive_time s = N.min (si_keepalive a) (si_keepalive b)
            /\ seg_size s = N.min (c_seg_init (cf s)) (si_seg_mru b)
            /\ idle_time s = c_idle (cf s);
  n_seg : seg_size s <= c_seg_init (cf s)
}.

Ltac neg_go :=
  repeat first [ progress ep_cbn_all | progress intros | progress subst
               | match goal with
                 | H : Some _ = Some _ |- _ => injection H as H
                 | H : None = Some _ |- _ => discriminate H
                 | H : Some _ = None |- _ => discriminate H
                 | |- _ /\ _ => split
                 end ];
  cbn [si_keepalive si_seg_mru si_xfer_mru si_nodeid si_of] in *;
  try congruence; try lia; eauto.

Lemma neg_hm m s r : hm_spec m s r -> neg s -> in_conn s = true -> neg (fst r).
Proof.
  intros H [A B C D] Hc. destruct H; has_end_split.
  all: split; ep_cbn; try assumption.
  all: neg_go.
Qed.

Lemma neg_rf f s r :
  rf_spec f s r -> neg s ->
  (forall m, f = FMsg m -> in_conn s = true) -> (forall c, f = FContact c -> in_conn s = false) ->
  neg (fst r).
Proof.
  intros H N Hm Hc. destruct H.
  7-9: (apply neg_hm in H; [|exact N|eapply Hm; reflexivity]; destruct H as [A B C D];
        split; ep_cbn_all; ep_cbn; assumption).
  all: specialize (Hc _ eq_refl); destruct N as [A B C D];
       assert (Hs : in_sess s = false)
         by (destruct (in_sess s); [rewrite A in Hc by reflexivity; discriminate Hc|reflexivity]).
  all: split; ep_cbn; try assumption.
  all: neg_go.
Qed.

Lemma neg_recv_loop fuel s : neg s -> neg (fst (recv_loop fuel s)).
Proof.
  apply recv_loop_inv. intros s0 fr rest N _ Hp.
  apply (neg_rf fr _ _ (recv_frame_spec fr _)).
  - destruct N as [A B C D]. split; ep_cbn; assumption.
  - intros m ->. ep_cbn. eapply parse_frame_msg, Hp.
  - intros c ->. ep_cbn. eapply parse_frame_contact, Hp.
Qed.

Lemma neg_step s o : neg s -> neg (step s o).
Proof.
  intros N. destruct o; cbn [step].
  7:{ destruct (closed s); [exact N|].
      destruct (is_nil data || negb (rx_alive s)); [exact N|]. unfold recv_raw.
      match goal with |- context[recv_loop ?f ?x] =>
        pose proof (neg_recv_loop f x) as L; destruct (recv_loop f x) as [s' r] end.
      cbn [fst] in L.
      assert (N' : neg s').
      { apply L. destruct N as [A B C D]. split; ep_unf; ep_cbn; assumption. }
      destruct r; [|exact N']. destruct N' as [A B C D]. split; ep_unf; ep_cbn; assumption. }
  all: destruct N as [A B C D].
  all: try (unfold tx_proxy); try (unfold process_queue, send_next); try (unfold send_sess_term).
  all: brk.
  all: split; ep_cbn; assumption.
Qed.

Lemma neg_init c : neg (init c).
Proof. split; cbn; intros; try discriminate. lia. Qed.

Lemma neg_run c ops : neg (run c ops).
Proof. apply run_invariant; [apply neg_init|]. intros s o. apply neg_step. Qed.

(** ** 14a, 14b *)

(** The negotiated keepalive interval is the minimum of the two SESS_INIT
    values, and this endpoint's value is the configured one.  The hypothesis on
    the peer's node id is necessary: [keepalive_min_refuted] below. *)
Theorem keepalive_min_partial : forall c ops a b,
  let s := run c ops in
  in_sess s = true -> sessinit_this s = Some a -> sessinit_peer s = Some b ->
  ascii (si_nodeid b) = true ->
  keepalive_time s = N.min (si_keepalive a) (si_keepalive b) /\ si_keepalive a = c_keepalive c.
Proof.
  intros c ops a b s Hs Ha Hb Hasc. destruct (neg_run c ops) as [A B C D]. fold s in A, B, C, D.
  split; [apply (C a b); assumption|].
  rewrite (B a Ha). subst s. rewrite cf_run. reflexivity.
Qed.

Theorem seg_le_mru_partial : forall c ops p,
  let s := run c ops in
  in_sess s = true -> sessinit_peer s = Some p -> ascii (si_nodeid p) = true ->
  sessinit_this s <> None ->
  seg_size s <= si_seg_mru p /\ seg_size s = N.min (c_seg_init c) (si_seg_mru p).
Proof.
  intros c ops p s Hs Hp Hasc Hth. destruct (neg_run c ops) as [A B C D]. fold s in A, B, C, D.
  destruct (sessinit_this s) as [a|] eqn:Ha; [|congruence].
  destruct (C a p Hs eq_refl Hp Hasc) as (_ & E & _). subst s. rewrite cf_run in E.
  split; [rewrite E; apply N.le_min_r|exact E].
Qed.

Theorem seg_le_init : forall c ops, seg_size (run c ops) <= c_seg_init c.
Proof. intros c ops. destruct (neg_run c ops) as [A B C D]. rewrite cf_run in D. exact D. Qed.

(** Counterexamples for the statements without the node-id hypothesis: a
    SESS_INIT whose node id does not decode sets [in_sess] and [sessinit_peer]
    but raises before the negotiated values are merged. *)
Definition cfg_p : cfg := mkCfg true [97] 30 60 1000 500 None.
Definition ops_bad_nodeid : list op :=
  [OStart; ORx (MAGIC ++ [4; 0]); ORx (encode_msg (MSessInit 20 400 1000 [200] []))].
Theorem keepalive_min_refuted :
  exists c ops a b,
    let s := run c ops in
    in_sess s = true /\ sessinit_this s = Some a /\ sessinit_peer s = Some b
    /\ keepalive_time s <> N.min (si_keepalive a) (si_keepalive b).
Proof.
  exists cfg_p, ops_bad_nodeid, (mkSI 30 1000 (2^64 - 1) [97]), (mkSI 20 400 1000 [200]).
  vm_compute. repeat split; congruence.
Qed.

(** For the segment size two SESS_INITs are needed (the size starts at 0). *)
Definition ops_bad_nodeid2 : list op :=
  [OStart; ORx (MAGIC ++ [4; 0]); ORx (encode_msg (MSessInit 20 400 1000 [98] []));
   ORx (encode_msg (MSessInit 20 100 1000 [200] []))].
Theorem seg_le_mru_refuted :
  exists c ops p,
    let s := run c ops in
    in_sess s = true /\ sessinit_peer s = Some p /\ ~ seg_size s <= si_seg_mru p.
Proof.
  exists cfg_p, ops_bad_nodeid2, (mkSI 20 100 1000 [200]).
  vm_compute. split; [reflexivity|]. split; [reflexivity|]. intros H. apply H. reflexivity.
Qed.

(** * Timers *)

Record tim (s : ep) : Prop := {
  t_s : t_send s <= now s;
  t_r : t_recv s <= now s;
  t_idle_sess : 0 < idle_time s -> in_sess s = true;
  t_ka_some : forall d, ka_due s = Some d -> 0 < keepalive_time s;
  t_idle_some : forall d, idle_due s = Some d -> 0 < idle_time s;
  t_closed : closed s = true -> ka_due s = None /\ idle_due s = None;
  t_ka : closed s = false -> 0 < keepalive_time s ->
         exists t, ka_due s = Some (t + keepalive_time s * 1000) /\ t_send s <= t <= now s;
  t_ka_passive : c_passive (cf s) = true -> closed s = false -> 0 < keepalive_time s ->
         ka_due s = Some (t_send s + keepalive_time s * 1000);
  t_idle : closed s = false -> 0 < idle_time s ->
         idle_due s = Some (N.max (t_send s) (t_recv s) + idle_time s * 1000)
}.

Ltac ltb_prop :=
  repeat match goal with
         | H : (_ <? _) = true |- _ => apply N.ltb_lt in H
         | H : (_ <? _) = false |- _ => apply N.ltb_ge in H
         | H : (_ <=? _) = true |- _ => apply N.leb_le in H
         | H : (_ <=? _) = false |- _ => apply N.leb_gt in H
         end.

(** Finish one field of [tim] for a computed state; [A]..[I] are the fields for
    the state before. *)
Ltac tim_field :=
  intros;
  try match goal with H : ka_due _ = _ |- _ => rewrite H end;
  try match goal with H : idle_due _ = _ |- _ => rewrite H end;
  repeat brk_any; ltb_prop;
  repeat match goal with
         | H : Some _ = Some _ |- _ => injection H as H
         | H : None = Some _ |- _ => discriminate H
         | H : Some _ = None |- _ => discriminate H
         | H : true = false |- _ => discriminate H
         | H : false = true |- _ => discriminate H
         end;
  subst;
  first
    [ lia
    | congruence
    | assumption
    | solve [eauto]
    | split; reflexivity
    | eexists; split; [reflexivity|lia]
    | match goal with
      | H : _ -> _ -> exists t, _ |- exists t, _ =>
          let t := fresh "t" in let E := fresh "E" in let Bd := fresh "Bd" in
          destruct H as [t [E Bd]]; [assumption|lia|]; exists t; split; [exact E|lia]
      end
    | match goal with H : forall d, _ = Some d -> _ |- _ => eapply H; eassumption end
    | f_equal; lia
    | match goal with H : _ -> _ -> _ = Some _ |- _ = Some _ => rewrite H by (assumption || lia); f_equal; lia end
    | match goal with H : _ -> _ -> _ -> _ = Some _ |- _ = Some _ => rewrite H by (assumption || lia); f_equal; lia end
    | match goal with H : _ = true -> _ /\ _ |- _ => apply H; assumption end
    | match goal with
      | Hs : negb (in_sess ?s) = true, C : 0 < idle_time ?s -> in_sess ?s = true |- _ =>
          rewrite C in Hs by assumption; discriminate Hs
      end ].

Lemma tim_hm m s r :
  hm_spec m s r -> tim s -> closed s = false -> t_recv s = now s ->
  tim (fst r) /\ t_recv (fst r) = t_recv s /\ now (fst r) = now s.
Proof.
  intros H [A B C D E F G G' I] Hc Hr. destruct H; has_end_split.
  all: split; [|split; ep_cbn; reflexivity].
  all: split; ep_cbn; try assumption.
  all: tim_field.
Qed.

Lemma tim_rf f s r :
  rf_spec f s r -> tim s -> closed s = false -> t_recv s = now s ->
  tim (fst r) /\ t_recv (fst r) = t_recv s /\ now (fst r) = now s.
Proof.
  intros H T Hc Hr. destruct H.
  7-9: (pose proof (tim_hm _ _ _ H T Hc Hr) as X; cbn [fst] in X; destruct X as (T' & R' & N')).
  7,9: (split; [exact T'|split; assumption]).
  7:{ (* a MSG_REJECT is only sent by a handler that has not closed *)
      assert (Hc' : closed s' = false) by (inversion H; subst; ep_cbn; assumption).
      destruct T' as [A B C D E F G G' I].
      split; [|split; ep_cbn; assumption].
      assert (Hr' : t_recv s' = now s') by congruence.
      split; ep_cbn; try assumption. all: tim_field. }
  all: destruct T as [A B C D E F G G' I].
  all: split; [|split; ep_cbn; reflexivity].
  all: split; ep_cbn; try assumption.
  all: tim_field.
Qed.

Definition timr (s : ep) : Prop := tim s /\ t_recv s = now s.

Lemma tim_recv_loop fuel s : timr s -> timr (fst (recv_loop fuel s)).
Proof.
  apply recv_loop_inv. intros s0 fr rest [T Hr] Hc _.
  set (s1 := s0 <| rx_buf := rest |> <| handled := handled s0 ++ [fr] |>).
  assert (T1 : tim s1) by (destruct T as [A B C D E F G G' I]; split; assumption).
  destruct (tim_rf fr s1 _ (recv_frame_spec fr s1) T1 Hc Hr) as (T' & R' & N').
  split; [exact T'|]. rewrite R', N'. exact Hr.
Qed.

Lemma tim_step s o : tim s -> tim (step s o).
Proof.
  intros T. destruct o; cbn [step].
  7:{ destruct (closed s) eqn:Hc; [exact T|].
      destruct (is_nil data || negb (rx_alive s)); [exact T|]. unfold recv_raw.
      match goal with |- context[recv_loop ?f ?x] =>
        pose proof (tim_recv_loop f x) as L; destruct (recv_loop f x) as [s' r] end.
      cbn [fst] in L.
      assert (T' : timr s').
      { apply L. destruct T as [A B C D E F G G' I]. split; [|ep_unf; ep_cbn; reflexivity].
        split; ep_unf; ep_cbn; try assumption. all: tim_field. }
      destruct T' as [T' _].
      destruct r; [|exact T']. destruct T' as [A B C D E F G G' I]. split; ep_unf; ep_cbn; assumption. }
  all: destruct T as [A B C D E F G G' I].
  all: try (unfold tx_proxy); try (unfold process_queue, send_next); try (unfold send_sess_term).
  all: brk.
  all: split; ep_cbn; try assumption.
  all: tim_field.
Qed.

Lemma tim_init c : tim (init c).
Proof. split; cbn; intros; try discriminate; try lia; auto. Qed.

Lemma tim_run c ops : tim (run c ops).
Proof. apply run_invariant; [apply tim_init|]. intros s o. apply tim_step. Qed.

(** ** 14a (second half): a negotiated interval of 0 disables the keepalive timer *)
Theorem keepalive_zero_disables : forall c ops,
  let s := run c ops in keepalive_time s = 0 -> ka_due s = None.
Proof.
  intros c ops s H. destruct (tim_run c ops) as [A B C D E F G G' I]. fold s in D.
  destruct (ka_due s) as [d|] eqn:Hd; [|reflexivity]. specialize (D d eq_refl). lia.
Qed.

(** ** 14c: the keepalive timer is armed for one interval after the last send
    (after the merge of the negotiated values, which re-arms it, if that came later) *)
Theorem keepalive_armed : forall c ops,
  let s := run c ops in
  closed s = false -> 0 < keepalive_time s ->
  exists t, ka_due s = Some (t + keepalive_time s * 1000) /\ t_send s <= t <= now s.
Proof. intros c ops s. destruct (tim_run c ops) as [A B C D E F G G' I]. exact G. Qed.

(** On the passive side the merge happens in the step that sends SESS_INIT: exact. *)
Theorem keepalive_armed_passive : forall c ops,
  let s := run c ops in
  c_passive c = true -> closed s = false -> 0 < keepalive_time s ->
  ka_due s = Some (t_send s + keepalive_time s * 1000).
Proof.
  intros c ops s Hp. destruct (tim_run c ops) as [A B C D E F G G' I]. fold s in G'.
  apply G'. subst s. rewrite cf_run. exact Hp.
Qed.

(** The active side need not be exact: after the peer's SESS_INIT the timer runs
    from the merge, not from the (earlier) last send. *)
Definition cfg_a : cfg := mkCfg false [97] 30 60 1000 500 None.
Example keepalive_armed_active_not_exact :
  let s := run cfg_a [OStart; ORx (MAGIC ++ [4; 0]); OAdvance 5000;
                      ORx (encode_msg (MSessInit 20 400 1000 [98] []))] in
  closed s = false /\ keepalive_time s = 20 /\ t_send s = 0 /\ now s = 5000 /\ ka_due s = Some 25000.
Proof. vm_compute. repeat split. Qed.

Theorem keepalive_sent : forall s d,
  ka_due s = Some d -> d <= now s -> closed s = false ->
  sent (step s OFireKa) = sent s ++ [FMsg MKeepalive].
Proof.
  intros s d Hd Hle Hc. cbn [step]. rewrite Hc, Hd.
  apply N.leb_le in Hle. rewrite Hle. ep_unf. ep_pr. ep_cbn. reflexivity.
Qed.

(** Hence: whenever the negotiated interval has elapsed since the timer was
    armed -- at the latest [keepalive_time] after now -- the timer callback sends a
    KEEPALIVE. *)
Theorem keepalive_fires : forall c ops,
  let s := run c ops in
  closed s = false -> 0 < keepalive_time s ->
  exists d, ka_due s = Some d
    /\ t_send s + keepalive_time s * 1000 <= d <= now s + keepalive_time s * 1000
    /\ forall dt, d <= now s + dt ->
         sent (step (step s (OAdvance dt)) OFireKa) = sent s ++ [FMsg MKeepalive].
Proof.
  intros c ops s Hc Hk. destruct (keepalive_armed c ops Hc Hk) as [t [E Bd]]. fold s in E, Bd.
  exists (t + keepalive_time s * 1000). split; [exact E|]. split; [lia|].
  intros dt Hdt. erewrite keepalive_sent.
  - cbn [step]. ep_cbn. reflexivity.
  - cbn [step]. ep_cbn. exact E.
  - cbn [step]. ep_cbn. exact Hdt.
  - cbn [step]. ep_cbn. exact Hc.
Qed.

(** ** 14d: the idle timer is armed for one interval after the last send or receive *)
Theorem idle_armed : forall c ops,
  let s := run c ops in
  closed s = false -> 0 < idle_time s ->
  idle_due s = Some (N.max (t_send s) (t_recv s) + idle_time s * 1000).
Proof. intros c ops s. destruct (tim_run c ops) as [A B C D E F G G' I]. exact I. Qed.

Theorem idle_zero_disables : forall c ops,
  let s := run c ops in idle_time s = 0 -> idle_due s = None.
Proof.
  intros c ops s H. destruct (tim_run c ops) as [A B C D E F G G' I]. fold s in E.
  destruct (idle_due s) as [d|] eqn:Hd; [|reflexivity]. specialize (E d eq_refl). lia.
Qed.

(** A closed endpoint has no timer. *)
Theorem closed_no_timers : forall c ops,
  let s := run c ops in closed s = true -> ka_due s = None /\ idle_due s = None.
Proof. intros c ops s. destruct (tim_run c ops) as [A B C D E F G G' I]. exact F. Qed.

(** When the idle timer fires in an established, not yet terminating session
    the endpoint sends SESS_TERM with reason 1 (idle timeout). *)
Theorem idle_term : forall c ops d,
  let s := run c ops in
  idle_due s = Some d -> d <= now s -> in_term s = false -> in_sess s = true ->
  sent (step s OFireIdle) = sent s ++ [FMsg (MSessTerm 0 1)].
Proof.
  intros c ops d s Hd Hle Ht Hs.
  assert (Hc : closed s = false).
  { destruct (closed s) eqn:Hc; [|reflexivity].
    destruct (closed_no_timers c ops Hc) as [_ X]. fold s in X. congruence. }
  cbn [step]. rewrite Hc, Hd. apply N.leb_le in Hle. rewrite Hle. ep_cbn. rewrite Ht.
  unfold send_sess_term. ep_cbn. rewrite Hs, Ht. ep_unf. ep_pr. ep_cbn. reflexivity.
Qed.

(** The session is established whenever the idle timer is armed. *)
Theorem idle_armed_in_session : forall c ops d,
  let s := run c ops in idle_due s = Some d -> in_sess s = true /\ closed s = false.
Proof.
  intros c ops d s Hd. destruct (tim_run c ops) as [A B C D E F G G' I]. fold s in C, E, F.
  split; [apply C, (E d Hd)|].
  destruct (closed s); [destruct (F eq_refl); congruence|reflexivity].
Qed.

(** When it fires in a session that is already terminating the endpoint closes. *)
Theorem terminating_closes : forall s d,
  idle_due s = Some d -> d <= now s -> in_term s = true -> closed (step s OFireIdle) = true.
Proof.
  intros s d Hd Hle Ht. cbn [step]. destruct (closed s) eqn:Hc; [exact Hc|].
  rewrite Hd. apply N.leb_le in Hle. rewrite Hle. ep_cbn. rewrite Ht. ep_pr. ep_cbn. reflexivity.
Qed.
