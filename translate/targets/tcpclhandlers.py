''' tcpcl/session.py: the transfer-message handlers of class ContactHandler
(recv_xfer_ack, recv_xfer_refuse, recv_sess_term, recv_xfer_data), with the
Messenger base guards they call first, _tx_teardown, _rx_setup and _rx_teardown,
as Gallina functions over the abstract handler state of
coq/Model/TcpclHandlerSt.v -> coq/Gen/TcpclHandlers.v; and the control decisions
described further down -> coq/Gen/TcpclControl.v; and the report loop at the head of
ContactHandler.close (same statement forms; it must be followed by exactly the removal from
the bus and Messenger.close) -> coq/Gen/TcpclClose.v.

Fail closed: every statement and expression must have one of the shapes listed
below, anything else raises Shape.

Statements
  docstring, self._logger.<level>(...)                          skipped
  Messenger.<same handler>(self, <same parameter names>)        the base body is inlined
  if <cond>: ... [elif/else: ...]                               if/then/else (the rest of the block follows both)
  raise RejectError(messages.RejectMsg.Reason.<NAME>)           result (h, Some code)
  X = self._tx_map.get(<id>)                                    X : option ack_length; X is "in the map"
  X = self._tx_map.pop(<id>, None)                              same, and the entry is deleted
  self._tx_map.pop(<id>) / .pop(<id>, None)                     the entry is deleted
  X.ack_length = <int expr>                                     only for an item still in the map
  self._tx_pend_ack.remove(A) / .discard(A)                     A an item variable: its id is removed;
                                                                A an integer parameter: NO-OP (a set of items never
                                                                contains an int); anything else: Shape
  self._tx_pend_start.remove(X)                                 the entry of X's id is removed
  self.send_bundle_finished(str(<id>), <len>, <text>)           ESig SigSendFinished [PStrNum id; PInt len; PStr tag]
  self.send_bundle_intermediate(str(<id>), <len>)               ESig SigSendInter [PStrNum id; PInt len]
  self._tx_teardown()                                           gen_tx_teardown (translated from its body)
  self._rx_setup(<id>, None) / self._rx_teardown()              gen_rx_setup / gen_rx_teardown (bodies must match exactly)
  self._rx_tmp.file.write(data)                                 the received length grows by len(data) (the parameter
                                                                `data` of the generated function IS that length)
  L = self._rx_tmp.file.tell()                                  local integer L := received length
  X = self._rx_tmp                                              X is the item being received (its id is fixed here)
  self._rx_bundles.append(X)                                    skipped (no abstract counterpart)
  self._rx_map[X.transfer_id] = X                               rx_map: id -> received length
  self.send_xfer_ack(<id>, <len>, <flags>)                      h_sent ++ [MXferAck flags id len]
  self.recv_bundle_finished(str(<id>), <len>, <text>) / recv_bundle_intermediate(str(<id>), <len>)
                                                                ESig SigRecvFinished / SigRecvInter
  self._check_sess_term()                                       h_check := true
  while self._tx_pend_start: X = self._tx_pend_start.pop(0); <simple statements>
                                                                fold of the per-item function over the queue,
                                                                the queue becomes []
  if self._config.modulate_target_ack_time is not None: <the known controller block>
        The block must consist of assignments to locals / self._segment_last_ack_len,
        and calls of self._segment_tx_times.pop, datetime...now, self._modulate_tx_seg_size
        only; none of these touches a field of the abstract state, so it is emitted as
        "if h_modulate h then h else h" (identity), and the endpoint model runs with
        h_modulate = false.
Conditions
  not / and / or; X is None / is not None (item variable or self._tx_tmp);
  A in / not in self._tx_pend_ack / self._tx_pend_start (A not an item variable: false);
  flags & messages.TransferSegment.Flag.END / START;
  self._tx_tmp.transfer_id == <id> / != ; self._rx_tmp is None; self._rx_tmp.transfer_id == <id> / != ; <id> == <id>;
  self._in_sess, self._in_conn, self._do_send_ack_final, self._do_send_ack_inter.
'''
import ast
import os


class Shape(Exception):
    pass


REASONS = {'UNKNOWN': 1, 'UNSUPPORTED': 2, 'UNEXPECTED': 3}
FLAGS = {'messages.TransferSegment.Flag.END': 'has_end', 'messages.TransferSegment.Flag.START': 'has_start'}
BOOL_ATTRS = {
    'self._in_sess': 'h_in_sess h',
    'self._in_conn': 'h_in_conn h',
    'self._do_send_ack_final': 'h_ack_final h',
    'self._do_send_ack_inter': 'h_ack_inter h',
}
TEXT_TAGS = {'success': 'RES_SUCCESS', 'session terminating': 'RES_TERMINATING'}
MODULATE_TEST = 'self._config.modulate_target_ack_time is not None'


def find_func(tree, cls_name, func_name):
    for node in tree.body:
        if isinstance(node, ast.ClassDef) and node.name == cls_name:
            found = [sub for sub in node.body if isinstance(sub, ast.FunctionDef) and sub.name == func_name]
            if len(found) == 1:
                return found[0]
    raise Shape('%s.%s not found exactly once' % (cls_name, func_name))


class Env(object):
    ''' Translation environment of one function. '''

    def __init__(self, tree, params):
        self.tree = tree
        self.params = [name for name in params if name not in ('data', 'ext_items')]   # integer variables (type N)
        self.bytes = [name for name in params if name == 'data']   # octet strings, represented by their length
        self.aux = []                   # auxiliary definitions emitted before the function
        self.items = {}                 # python item variable -> dict(id=<coq>, opt=<coq option var or None>, in_map=bool, total=<coq>)

    def copy(self):
        other = Env(self.tree, self.params)
        other.bytes = list(self.bytes)
        other.aux = self.aux
        other.items = dict((key, dict(val)) for (key, val) in self.items.items())
        return other


def int_expr(node, env):
    ''' An integer-valued expression -> Coq term of type N. '''
    if isinstance(node, ast.Name):
        if node.id in env.params:
            return node.id
        raise Shape('integer name %s not a parameter' % node.id)
    if ast.unparse(node) == 'self._rx_tmp.transfer_id':
        return '(rx_id (h_rx_tmp h))'
    if isinstance(node, ast.Attribute) and isinstance(node.value, ast.Name) and node.value.id in env.items:
        item = env.items[node.value.id]
        if node.attr == 'transfer_id':
            return item['id']
        if node.attr == 'ack_length':
            if item['opt'] is None:
                raise Shape('ack_length of an item not fetched from the map')
            return '(item_ack %s)' % item['opt']
        raise Shape('item attribute %s' % node.attr)
    if isinstance(node, ast.BoolOp) and isinstance(node.op, ast.Or) and len(node.values) == 2 \
            and isinstance(node.values[1], ast.Constant) and node.values[1].value == 0:
        left = node.values[0]
        if isinstance(left, ast.Attribute) and left.attr == 'total_length' and isinstance(left.value, ast.Name) \
                and left.value.id in env.items and env.items[left.value.id].get('total'):
            return '(opt_or0 %s)' % env.items[left.value.id]['total']
    raise Shape('unexpected integer expression %s' % ast.unparse(node))


def id_expr(node, env):
    ''' A transfer id: a parameter or <item>.transfer_id. '''
    return int_expr(node, env)


def str_of_id(node, env):
    ''' str(<id>) '''
    if isinstance(node, ast.Call) and isinstance(node.func, ast.Name) and node.func.id == 'str' \
            and len(node.args) == 1 and not node.keywords:
        return id_expr(node.args[0], env)
    raise Shape('expected str(<id>), got %s' % ast.unparse(node))


def text_tag(node, env):
    if isinstance(node, ast.Constant) and isinstance(node.value, str):
        if node.value in TEXT_TAGS:
            return TEXT_TAGS[node.value]
        raise Shape('unknown result text %r' % node.value)
    if isinstance(node, ast.BinOp) and isinstance(node.op, ast.Mod) and isinstance(node.left, ast.Constant) \
            and node.left.value == 'refused with code %s':
        return '(RES_REFUSED %s)' % int_expr(node.right, env)
    raise Shape('unexpected result text %s' % ast.unparse(node))


def collection(node):
    text = ast.unparse(node)
    if text == 'self._tx_pend_ack':
        return 'ack'
    if text == 'self._tx_pend_start':
        return 'start'
    raise Shape('unexpected collection %s' % text)


def cond(node, env):
    ''' A condition -> Coq term of type bool (over the state variable h). '''
    if isinstance(node, ast.UnaryOp) and isinstance(node.op, ast.Not):
        return '(negb %s)' % cond(node.operand, env)
    if isinstance(node, ast.BoolOp):
        oper = ' && ' if isinstance(node.op, ast.And) else ' || '
        return '(' + oper.join(cond(val, env) for val in node.values) + ')'
    if isinstance(node, ast.BinOp) and isinstance(node.op, ast.BitAnd):
        flag = ast.unparse(node.right)
        if isinstance(node.left, ast.Name) and node.left.id == 'flags' and 'flags' in env.params and flag in FLAGS:
            return '(%s flags)' % FLAGS[flag]
        raise Shape('unexpected flag test %s' % ast.unparse(node))
    if isinstance(node, ast.Attribute):
        text = ast.unparse(node)
        if text in BOOL_ATTRS:
            return '(%s)' % BOOL_ATTRS[text]
        raise Shape('attribute %s not whitelisted as a condition' % text)
    if isinstance(node, ast.Compare) and len(node.ops) == 1:
        oper = node.ops[0]
        left = node.left
        right = node.comparators[0]
        if isinstance(oper, (ast.Is, ast.IsNot)) and isinstance(right, ast.Constant) and right.value is None:
            if isinstance(left, ast.Name) and left.id in env.items and env.items[left.id]['opt']:
                base = '(is_none %s)' % env.items[left.id]['opt']
            elif ast.unparse(left) == 'self._tx_tmp':
                base = '(is_none (h_tx_tmp h))'
            elif ast.unparse(left) == 'self._rx_tmp':
                base = '(is_none (h_rx_tmp h))'
            else:
                raise Shape('unexpected None test %s' % ast.unparse(node))
            return base if isinstance(oper, ast.Is) else '(negb %s)' % base
        if isinstance(oper, (ast.In, ast.NotIn)):
            coll = collection(right)
            if isinstance(left, ast.Name) and left.id in env.items:
                ident = env.items[left.id]['id']
                base = '(mem_N %s (h_pend_ack h))' % ident if coll == 'ack' else '(pend_has %s (h_pend_start h))' % ident
            elif isinstance(left, ast.Name) and left.id in env.params:
                base = 'false'   # an integer is never an element of a collection of items
            else:
                raise Shape('unexpected membership test %s' % ast.unparse(node))
            return base if isinstance(oper, ast.In) else '(negb %s)' % base
        if isinstance(oper, (ast.Eq, ast.NotEq)):
            if ast.unparse(left) == 'self._rx_tmp.transfer_id':
                base = '(rx_is %s (h_rx_tmp h))' % id_expr(right, env)
            elif ast.unparse(right) == 'self._rx_tmp.transfer_id':
                base = '(rx_is %s (h_rx_tmp h))' % id_expr(left, env)
            elif ast.unparse(left) == 'self._tx_tmp.transfer_id':
                base = '(tmp_is %s (h_tx_tmp h))' % id_expr(right, env)
            elif ast.unparse(right) == 'self._tx_tmp.transfer_id':
                base = '(tmp_is %s (h_tx_tmp h))' % id_expr(left, env)
            else:
                base = '(%s =? %s)' % (id_expr(left, env), id_expr(right, env))
            return base if isinstance(oper, ast.Eq) else '(negb %s)' % base
    raise Shape('unexpected condition %s' % ast.unparse(node))


def is_logger(stmt):
    return isinstance(stmt, ast.Expr) and isinstance(stmt.value, ast.Call) \
        and ast.unparse(stmt.value.func).startswith('self._logger.')


def is_doc(stmt):
    return isinstance(stmt, ast.Expr) and isinstance(stmt.value, ast.Constant) and isinstance(stmt.value.value, str)


def check_modulate_block(body):
    ''' The controller block may only touch state outside the abstract handler state. '''
    for stmt in body:
        if isinstance(stmt, ast.Assign) and len(stmt.targets) == 1:
            target = ast.unparse(stmt.targets[0])
            if target not in ('delta_b', 'delta_t', 'rx_time', 'tx_time', 'self._segment_last_ack_len'):
                raise Shape('controller block assigns %s' % target)
            for sub in ast.walk(stmt.value):
                if isinstance(sub, ast.Call):
                    func = ast.unparse(sub.func)
                    if func not in ('self._segment_tx_times.pop', 'datetime.datetime.now',
                                    '(rx_time - tx_time).total_seconds'):
                        raise Shape('controller block calls %s' % func)
        elif isinstance(stmt, ast.Expr) and isinstance(stmt.value, ast.Call) \
                and ast.unparse(stmt.value.func) == 'self._modulate_tx_seg_size':
            pass
        else:
            raise Shape('controller block statement %s' % ast.unparse(stmt))


def map_call(node):
    ''' self._tx_map.<method>(args) -> (method, args) or None '''
    if isinstance(node, ast.Call) and isinstance(node.func, ast.Attribute) \
            and ast.unparse(node.func.value) == 'self._tx_map' and not node.keywords:
        return (node.func.attr, node.args)
    return None


def block(stmts, env, func_name, final, allow_raise, indent):
    ''' Translate a statement list; the value of the block is final() when control falls off its end. '''
    pad = '  ' * indent
    if not stmts:
        return pad + final
    stmt = stmts[0]
    rest = stmts[1:]

    def cont(new_env=None):
        return block(rest, new_env or env, func_name, final, allow_raise, indent)

    if is_doc(stmt) or is_logger(stmt):
        return cont()
    # raise RejectError(...)
    if isinstance(stmt, ast.Raise):
        if not allow_raise:
            raise Shape('raise not allowed here')
        exc = stmt.exc
        if isinstance(exc, ast.Call) and ast.unparse(exc.func) == 'RejectError' and len(exc.args) == 1:
            text = ast.unparse(exc.args[0])
            prefix = 'messages.RejectMsg.Reason.'
            if text.startswith(prefix) and text[len(prefix):] in REASONS:
                return pad + '(h, Some %d)' % REASONS[text[len(prefix):]]
        raise Shape('unexpected raise %s' % ast.unparse(stmt))
    if isinstance(stmt, ast.If):
        if ast.unparse(stmt.test) == MODULATE_TEST:
            if stmt.orelse:
                raise Shape('controller block has an else branch')
            check_modulate_block(stmt.body)
            return pad + '(* segment-size controller block: outside the abstract state *)\n' \
                + pad + 'let h := if h_modulate h then h else h in\n' + cont()
        test = cond(stmt.test, env)
        then_text = block(list(stmt.body) + list(rest), env.copy(), func_name, final, allow_raise, indent + 1)
        else_text = block(list(stmt.orelse) + list(rest), env.copy(), func_name, final, allow_raise, indent + 1)
        return pad + 'if %s then\n%s\n' % (test, then_text) + pad + 'else\n%s' % else_text
    if isinstance(stmt, ast.While):
        if ast.unparse(stmt.test) != 'self._tx_pend_start' or stmt.orelse or not stmt.body:
            raise Shape('unexpected loop %s' % ast.unparse(stmt.test))
        first = stmt.body[0]
        if not (isinstance(first, ast.Assign) and len(first.targets) == 1 and isinstance(first.targets[0], ast.Name)
                and ast.unparse(first.value) == 'self._tx_pend_start.pop(0)'):
            raise Shape('loop does not start by popping the head of the queue')
        for sub in stmt.body[1:]:
            if 'self._tx_pend_start' in ast.unparse(sub):
                raise Shape('loop body touches the queue it iterates')
        loop_env = env.copy()
        loop_env.items[first.targets[0].id] = dict(id='(fst it)', opt=None, in_map=False, total='(snd it)')
        body = block(list(stmt.body[1:]), loop_env, func_name, 'h', False, 1)
        item_name = 'gen_%s_item' % func_name
        binder = '(%s : N) ' % ' '.join(env.params) if env.params else ''
        args = ''.join(name + ' ' for name in env.params)
        env.aux.append('Definition %s %s(it : N * option N) (h : hst) : hst :=\n%s.\n' % (item_name, binder, body))
        return pad + 'let h := fold_left (fun h it => %s %sit h) (h_pend_start h) (set_h_pend_start [] h) in\n' % (
            item_name, args) + cont()
    if isinstance(stmt, ast.Assign) and len(stmt.targets) == 1:
        target = stmt.targets[0]
        call = map_call(stmt.value)
        if isinstance(target, ast.Name) and call is not None:
            (method, args) = call
            new_env = env.copy()
            var = 'item_%s' % target.id
            if method == 'get' and len(args) == 1:
                ident = id_expr(args[0], env)
                new_env.items[target.id] = dict(id=ident, opt=var, in_map=True, total=None)
                return pad + 'let %s := dict_get %s (h_tx_map h) in\n' % (var, ident) + cont(new_env)
            if method == 'pop' and len(args) == 2 and isinstance(args[1], ast.Constant) and args[1].value is None:
                ident = id_expr(args[0], env)
                new_env.items[target.id] = dict(id=ident, opt=var, in_map=False, total=None)
                return pad + 'let %s := dict_get %s (h_tx_map h) in\n' % (var, ident) \
                    + pad + 'let h := set_h_tx_map (dict_del %s (h_tx_map h)) h in\n' % ident + cont(new_env)
        if isinstance(target, ast.Name) and ast.unparse(stmt.value) == 'self._rx_tmp.file.tell()':
            new_env = env.copy()
            new_env.params = env.params + [target.id]
            return pad + 'let %s := rx_len (h_rx_tmp h) in\n' % target.id + cont(new_env)
        if isinstance(target, ast.Name) and ast.unparse(stmt.value) == 'self._rx_tmp':
            new_env = env.copy()
            var = 'item_%s_id' % target.id
            new_env.items[target.id] = dict(id=var, opt=None, in_map=False, total=None, rx=True)
            return pad + 'let %s := rx_id (h_rx_tmp h) in\n' % var + cont(new_env)
        if isinstance(target, ast.Subscript) and ast.unparse(target.value) == 'self._rx_map' \
                and isinstance(stmt.value, ast.Name) and env.items.get(stmt.value.id, {}).get('rx') \
                and id_expr(target.slice, env) == env.items[stmt.value.id]['id']:
            return pad + 'let h := set_h_rx_map (dict_set %s (rx_len (h_rx_tmp h)) (h_rx_map h)) h in\n' \
                % env.items[stmt.value.id]['id'] + cont()
        if isinstance(target, ast.Attribute) and target.attr == 'ack_length' and isinstance(target.value, ast.Name) \
                and target.value.id in env.items:
            item = env.items[target.value.id]
            if not item['in_map']:
                raise Shape('ack_length assigned on an item that is no longer in the map')
            return pad + 'let h := set_h_tx_map (dict_set %s %s (h_tx_map h)) h in\n' % (
                item['id'], int_expr(stmt.value, env)) + cont()
        raise Shape('unexpected assignment %s' % ast.unparse(stmt))
    if isinstance(stmt, ast.Expr) and isinstance(stmt.value, ast.Call):
        call = stmt.value
        func = ast.unparse(call.func)
        if call.keywords:
            raise Shape('keyword arguments in %s' % ast.unparse(stmt))
        # base class guard
        if func == 'Messenger.%s' % func_name:
            base = find_func(env.tree, 'Messenger', func_name)
            names = [arg.arg for arg in base.args.args]
            given = [ast.unparse(arg) for arg in call.args]
            if names != given:
                raise Shape('base call arguments %s differ from parameters %s' % (given, names))
            return block(list(base.body) + list(rest), env, func_name, final, allow_raise, indent)
        mcall = map_call(call)
        if mcall is not None:
            (method, args) = mcall
            if method == 'pop' and (len(args) == 1 or (len(args) == 2 and isinstance(args[1], ast.Constant)
                                                       and args[1].value is None)):
                ident = id_expr(args[0], env)
                new_env = env.copy()
                for item in new_env.items.values():
                    if item['id'] == ident:
                        item['in_map'] = False
                return pad + 'let h := set_h_tx_map (dict_del %s (h_tx_map h)) h in\n' % ident + cont(new_env)
            raise Shape('unexpected map operation %s' % ast.unparse(stmt))
        if func in ('self._tx_pend_ack.remove', 'self._tx_pend_ack.discard') and len(call.args) == 1:
            arg = call.args[0]
            if isinstance(arg, ast.Name) and arg.id in env.items:
                return pad + 'let h := set_h_pend_ack (remove_N %s (h_pend_ack h)) h in\n' % env.items[arg.id]['id'] \
                    + cont()
            if isinstance(arg, ast.Name) and arg.id in env.params:
                return pad + '(* %s: an integer is never an element of the set of items -- no effect *)\n' \
                    % ast.unparse(stmt) + cont()
            raise Shape('unexpected argument of %s' % ast.unparse(stmt))
        if func == 'self._tx_pend_start.remove' and len(call.args) == 1:
            arg = call.args[0]
            if isinstance(arg, ast.Name) and arg.id in env.items:
                return pad + 'let h := set_h_pend_start (dict_del %s (h_pend_start h)) h in\n' \
                    % env.items[arg.id]['id'] + cont()
            raise Shape('unexpected argument of %s' % ast.unparse(stmt))
        if func == 'self.send_bundle_finished' and len(call.args) == 3:
            return pad + 'let h := h_emit (ESig SigSendFinished [PStrNum %s; PInt %s; PStr %s]) h in\n' % (
                str_of_id(call.args[0], env), int_expr(call.args[1], env), text_tag(call.args[2], env)) + cont()
        if func == 'self.send_bundle_intermediate' and len(call.args) == 2:
            return pad + 'let h := h_emit (ESig SigSendInter [PStrNum %s; PInt %s]) h in\n' % (
                str_of_id(call.args[0], env), int_expr(call.args[1], env)) + cont()
        if func == 'self._rx_setup' and len(call.args) == 2 and isinstance(call.args[1], ast.Constant) \
                and call.args[1].value is None:
            return pad + 'let h := gen_rx_setup %s h in\n' % id_expr(call.args[0], env) + cont()
        if func == 'self._rx_teardown' and not call.args:
            new_env = env.copy()
            for item in new_env.items.values():
                item['rx'] = False
            return pad + 'let h := gen_rx_teardown h in\n' + cont(new_env)
        if func == 'self._rx_tmp.file.write' and len(call.args) == 1 and isinstance(call.args[0], ast.Name) \
                and call.args[0].id in env.bytes:
            return pad + 'let h := set_h_rx_tmp (rx_write %s (h_rx_tmp h)) h in\n' % call.args[0].id + cont()
        if func == 'self.send_xfer_ack' and len(call.args) == 3:
            sig = [arg.arg for arg in find_func(env.tree, 'Messenger', 'send_xfer_ack').args.args]
            if sig != ['self', 'transfer_id', 'length', 'flg']:
                raise Shape('send_xfer_ack signature changed: %s' % sig)
            return pad + 'let h := h_send (MXferAck %s %s %s) h in\n' % (
                int_expr(call.args[2], env), id_expr(call.args[0], env), int_expr(call.args[1], env)) + cont()
        if func == 'self._rx_bundles.append' and len(call.args) == 1 and isinstance(call.args[0], ast.Name) \
                and env.items.get(call.args[0].id, {}).get('rx'):
            return pad + '(* %s: the list of received items has no abstract counterpart *)\n' % ast.unparse(stmt) \
                + cont()
        if func == 'self.recv_bundle_finished' and len(call.args) == 3:
            return pad + 'let h := h_emit (ESig SigRecvFinished [PStrNum %s; PInt %s; PStr %s]) h in\n' % (
                str_of_id(call.args[0], env), int_expr(call.args[1], env), text_tag(call.args[2], env)) + cont()
        if func == 'self.recv_bundle_intermediate' and len(call.args) == 2:
            return pad + 'let h := h_emit (ESig SigRecvInter [PStrNum %s; PInt %s]) h in\n' % (
                str_of_id(call.args[0], env), int_expr(call.args[1], env)) + cont()
        if func == 'self._tx_teardown' and not call.args:
            return pad + 'let h := gen_tx_teardown h in\n' + cont()
        if func == 'self._check_sess_term' and not call.args:
            return pad + 'let h := set_h_check true h in\n' + cont()
    raise Shape('unexpected statement %s' % ast.unparse(stmt))


def teardown(tree):
    func = find_func(tree, 'ContactHandler', '_tx_teardown')
    body = [ast.unparse(stmt) for stmt in func.body if not is_doc(stmt) and not is_logger(stmt)]
    if body != ['self._tx_tmp = None', 'self._tx_length = None', 'self._process_queue_trigger()']:
        raise Shape('_tx_teardown body changed: %s' % body)
    trig = find_func(tree, 'ContactHandler', '_process_queue_trigger')
    body = [ast.unparse(stmt) for stmt in trig.body if not is_doc(stmt) and not is_logger(stmt)]
    if body != ['if self._process_queue_pend is None:\n    self._process_queue_pend = glib.idle_add(self._process_queue)']:
        raise Shape('_process_queue_trigger body changed: %s' % body)
    return 'Definition gen_tx_teardown (h : hst) : hst :=\n  set_h_pq true (set_h_tx_len 0 (set_h_tx_tmp None h)).\n'


def rx_helpers(tree):
    func = find_func(tree, 'ContactHandler', '_rx_setup')
    if [arg.arg for arg in func.args.args] != ['self', 'transfer_id', 'total_length']:
        raise Shape('_rx_setup signature changed')
    body = [ast.unparse(stmt) for stmt in func.body if not is_doc(stmt) and not is_logger(stmt)]
    if body != ['self._rx_tmp = BundleItem()', 'self._rx_tmp.transfer_id = transfer_id', 'self._rx_tmp.file = BytesIO()',
                'self._rx_tmp.total_length = total_length',
                'self.recv_bundle_started(str(transfer_id), dbus.String() if total_length is None else total_length)']:
        raise Shape('_rx_setup body changed: %s' % body)
    func = find_func(tree, 'ContactHandler', '_rx_teardown')
    body = [ast.unparse(stmt) for stmt in func.body if not is_doc(stmt) and not is_logger(stmt)]
    if body != ['self._rx_tmp = None']:
        raise Shape('_rx_teardown body changed: %s' % body)
    return ('(* _rx_setup(transfer_id, None): a fresh item with an empty file; the total length is unknown *)\n'
            'Definition gen_rx_setup (transfer_id : N) (h : hst) : hst :=\n'
            '  h_emit (ESig SigRecvStarted [PStrNum transfer_id; PDbusStr]) (set_h_rx_tmp (Some (transfer_id, 0)) h).\n\n'
            'Definition gen_rx_teardown (h : hst) : hst :=\n  set_h_rx_tmp None h.\n')


def handler(tree, name):
    func = find_func(tree, 'ContactHandler', name)
    params = [arg.arg for arg in func.args.args]
    if params[0] != 'self' or func.args.vararg or func.args.kwarg or func.args.kwonlyargs or func.args.defaults:
        raise Shape('%s: unexpected signature' % name)
    params = params[1:]
    env = Env(tree, params)
    body = block(list(func.body), env, name, '(h, None)', True, 1)
    return ''.join(text + '\n' for text in env.aux) \
        + 'Definition gen_%s (%s : N) (h : hst) : hst * option N :=\n%s.\n' % (name, ' '.join(params), body)
    # note: an octet-string parameter (data) stands for its length; ext_items is not looked at


# ---------------------------------------------------------------------------
# Control decisions: _process_queue entry guards, _idle_timeout, terminate,
# the recv_raw loop condition  ->  Gen/TcpclControl.v
#
#   Boolean conditions over the named inputs only (not / and / or):
#     self._tx_tmp is None, self._in_sess, self._in_term, self._tx_pend_start (truthiness),
#     self.is_sess_idle(), self.__rx_buf (truthiness), self.get_app_socket() is not None
#   _process_queue: the statements before the "nothing more to send, waiting on ACK" test:
#     if/elif/else, return True / return False, and the block that starts the next transfer,
#     which must be exactly START_BLOCK (pop the head of the queue, measure the file, reset
#     _tx_length, emit send_bundle_started).  Conditions after the start block may not
#     mention the queue.
#   _idle_timeout / terminate: if/else over self.close(), self.send_sess_term(<reason>, <bool>), return.
#   _add_queue_item: leading `if <cond>: raise RuntimeError(...)` guards -> gen_add_queue_refused; the rest of the
#     body must be exactly the known five statements, and send_bundle_data must queue through it.
#   recv_raw: the test of its single while loop; get_app_socket must return the TLS socket if
#     set, else the plain socket, and Connection.close must clear both.

START_BLOCK = [
    'self._tx_tmp = self._tx_pend_start.pop(0)',
    'self._tx_tmp.file.seek(0, os.SEEK_END)',
    'self._tx_tmp.total_length = self._tx_tmp.file.tell()',
    'self._tx_tmp.file.seek(0)',
    'self._tx_length = 0',
    'self.send_bundle_started(str(self._tx_tmp.transfer_id), self._tx_tmp.total_length)',
]
WAIT_ACK_TEST = 'self._tx_length == self._tx_tmp.total_length and self._tx_length > 0'


def ctl_cond(node, names):
    # names: python text -> Coq bool term (None = may not be used at this point)
    if isinstance(node, ast.UnaryOp) and isinstance(node.op, ast.Not):
        return '(negb %s)' % ctl_cond(node.operand, names)
    if isinstance(node, ast.BoolOp):
        oper = ' && ' if isinstance(node.op, ast.And) else ' || '
        return '(' + oper.join(ctl_cond(val, names) for val in node.values) + ')'
    text = ast.unparse(node)
    if text in names:
        if names[text] is None:
            raise Shape('condition %s may not be used here' % text)
        return names[text]
    raise Shape('condition %s not whitelisted' % text)


def stmt_texts(stmts):
    return [ast.unparse(stmt) for stmt in stmts if not is_doc(stmt) and not is_logger(stmt)]


def pq_block(stmts, names, started, indent):
    pad = '  ' * indent
    stmts = [stmt for stmt in stmts if not is_doc(stmt) and not is_logger(stmt)]
    if not stmts:
        raise Shape('_process_queue: fell off the end before the waiting-on-ACK test')
    stmt = stmts[0]
    rest = stmts[1:]
    text = ast.unparse(stmt)
    if text == 'self._process_queue_pend = None':
        return pq_block(rest, names, started, indent)
    if isinstance(stmt, ast.Return):
        if isinstance(stmt.value, ast.Constant) and stmt.value.value in (True, False):
            return pad + 'PqReturn %s' % ('true' if stmt.value.value else 'false')
        raise Shape('_process_queue: unexpected return %s' % text)
    if isinstance(stmt, ast.If):
        if ast.unparse(stmt.test) == WAIT_ACK_TEST:
            return pad + ('PqStart' if started else 'PqContinue')
        test = ctl_cond(stmt.test, names)
        return pad + 'if %s then\n%s\n' % (test, pq_block(list(stmt.body) + rest, names, started, indent + 1)) \
            + pad + 'else\n%s' % pq_block(list(stmt.orelse) + rest, names, started, indent + 1)
    if text == START_BLOCK[0]:
        if started:
            raise Shape('_process_queue: a second transfer is started')
        got = [ast.unparse(sub) for sub in stmts[:len(START_BLOCK)]]
        if got != START_BLOCK:
            raise Shape('_process_queue: start block changed: %s' % got)
        after = dict(names)
        after['self._tx_tmp is None'] = 'false'
        after['self._tx_tmp is not None'] = 'true'
        after['self._tx_pend_start'] = None
        return pq_block(stmts[len(START_BLOCK):], after, True, indent)
    raise Shape('_process_queue: unexpected statement %s' % text)


def reason_value(repo_src, cls_name, member):
    with open(os.path.join(repo_src, 'tcpcl', 'messages.py'), 'r') as infile:
        tree = ast.parse(infile.read())
    for node in tree.body:
        if isinstance(node, ast.ClassDef) and node.name == cls_name:
            for sub in node.body:
                if isinstance(sub, ast.ClassDef) and sub.name == 'Reason':
                    for stmt in sub.body:
                        if isinstance(stmt, ast.Assign) and ast.unparse(stmt.targets[0]) == member \
                                and isinstance(stmt.value, ast.Constant) and isinstance(stmt.value.value, int):
                            return stmt.value.value
    raise Shape('messages.%s.Reason.%s not found' % (cls_name, member))


def act_block(stmts, names, ctor, repo_src, params, indent):
    # if/else over close / send_sess_term / return -> constructor of the decision type
    pad = '  ' * indent
    stmts = [stmt for stmt in stmts if not is_doc(stmt) and not is_logger(stmt)]
    if not stmts:
        return pad + ctor['nothing']
    stmt = stmts[0]
    rest = stmts[1:]
    text = ast.unparse(stmt)
    if text == 'self._idle_stop()':
        return act_block(rest, names, ctor, repo_src, params, indent)
    if isinstance(stmt, ast.Return):
        if stmt.value is None or (isinstance(stmt.value, ast.Constant) and stmt.value.value is False):
            return pad + ctor['nothing']
        raise Shape('unexpected return %s' % text)
    if isinstance(stmt, ast.If):
        if ast.unparse(stmt.test) == 'reason_code is None' and len(stmt.body) == 1 and not stmt.orelse \
                and ast.unparse(stmt.body[0]) == 'reason_code = messages.SessionTerm.Reason.UNKNOWN' \
                and 'reason_code' in params:
            # the D-Bus signature is 'y': the argument is always an integer
            return act_block(rest, names, ctor, repo_src, params, indent)
        test = ctl_cond(stmt.test, names)
        return pad + 'if %s then\n%s\n' % (test, act_block(list(stmt.body) + rest, names, ctor, repo_src, params,
                                                          indent + 1)) \
            + pad + 'else\n%s' % act_block(list(stmt.orelse) + rest, names, ctor, repo_src, params, indent + 1)
    if text == 'self.close()':
        tail = act_block(rest, names, ctor, repo_src, params, indent)
        if tail.strip() != ctor['nothing']:
            raise Shape('statements after close(): %s' % tail)
        return pad + ctor['close']
    if isinstance(stmt, ast.Expr) and isinstance(stmt.value, ast.Call) \
            and ast.unparse(stmt.value.func) == 'self.send_sess_term' and len(stmt.value.args) == 2 \
            and not stmt.value.keywords:
        (reason, reply) = stmt.value.args
        rtext = ast.unparse(reason)
        prefix = 'messages.SessionTerm.Reason.'
        if rtext.startswith(prefix):
            rcoq = str(reason_value(repo_src, 'SessionTerm', rtext[len(prefix):]))
        elif rtext in params:
            rcoq = rtext
        else:
            raise Shape('unexpected SESS_TERM reason %s' % rtext)
        if not (isinstance(reply, ast.Constant) and reply.value in (True, False)):
            raise Shape('unexpected reply flag %s' % ast.unparse(reply))
        tail = act_block(rest, names, ctor, repo_src, params, indent)
        if tail.strip() != ctor['nothing']:
            raise Shape('statements after send_sess_term(): %s' % tail)
        return pad + '%s %s %s' % (ctor['send'], rcoq, 'true' if reply.value else 'false')
    raise Shape('unexpected statement %s' % text)


def control(repo_src, tree):
    parts = [
        '(** GENERATED by translate/targets/tcpclhandlers.py from tcpcl/session.py -- do not edit. *)',
        'From Coq Require Import List NArith Bool.',
        'From DTN Require Import Lib.Bytes Model.TcpclMsg Model.TcpclSess Model.TcpclHandlerSt.',
        'Local Open Scope N_scope.',
        '',
    ]
    # _process_queue entry guards
    func = find_func(tree, 'ContactHandler', '_process_queue')
    names = {
        'self._tx_tmp is None': 'tmp_none', 'self._tx_tmp is not None': '(negb tmp_none)',
        'self._in_sess': 'in_sess', 'self._in_term': 'in_term', 'self._tx_pend_start': '(negb ps_empty)',
    }
    parts.append('Definition gen_pq_guard (tmp_none in_sess in_term ps_empty : bool) : pq_dec :=\n%s.\n'
                 % pq_block(list(func.body), names, False, 1))
    # _idle_timeout
    func = find_func(tree, 'Messenger', '_idle_timeout')
    names = {'self._in_term': 'in_term', 'self._in_sess': 'in_sess', 'self.is_sess_idle()': 'idle'}
    parts.append('Definition gen_idle_timeout (in_sess in_term idle : bool) : idle_dec :=\n%s.\n' % act_block(
        list(func.body), names, dict(nothing='IdleNothing', close='IdleClose', send='IdleTerm'), repo_src, [], 1))
    # terminate
    func = find_func(tree, 'ContactHandler', 'terminate')
    params = [arg.arg for arg in func.args.args][1:]
    if params != ['reason_code']:
        raise Shape('terminate: unexpected signature')
    parts.append('Definition gen_terminate (reason_code : N) (in_sess in_term idle : bool) : term_dec :=\n%s.\n'
                 % act_block(list(func.body), names, dict(nothing='TermNothing', close='TermClose', send='TermSend'),
                             repo_src, params, 1))
    # recv_raw loop condition
    func = find_func(tree, 'Messenger', 'recv_raw')
    loops = [node for node in ast.walk(func) if isinstance(node, (ast.While, ast.For))]
    if len(loops) != 1 or not isinstance(loops[0], ast.While):
        raise Shape('recv_raw: expected exactly one while loop')
    names = {'self.__rx_buf': 'rx_nonempty', 'self.get_app_socket() is not None': 'sock_open'}
    parts.append('Definition gen_rx_loop_guard (rx_nonempty sock_open : bool) : bool :=\n  %s.\n'
                 % ctl_cond(loops[0].test, names))
    # send_sess_term: the two RuntimeError guards, the state change, the REPLY flag
    func = find_func(tree, 'Messenger', 'send_sess_term')
    if [arg.arg for arg in func.args.args] != ['self', 'reason', 'is_reply']:
        raise Shape('send_sess_term: unexpected signature')
    body = [stmt for stmt in func.body if not is_doc(stmt) and not is_logger(stmt)]
    names = {'self._in_sess': 'in_sess', 'self._in_term': 'in_term'}
    guards = []
    while body and isinstance(body[0], ast.If) and not body[0].orelse and len(body[0].body) == 1 \
            and isinstance(body[0].body[0], ast.Raise) \
            and ast.unparse(body[0].body[0].exc).startswith('RuntimeError('):
        guards.append(ctl_cond(body[0].test, names))
        body = body[1:]
    texts = [ast.unparse(stmt) for stmt in body]
    expect = ['self._in_term = True', "self._update_state('ending')",
              'if self._in_term_func:\n    self._in_term_func()', 'flags = 0',
              'if is_reply:\n    flags |= messages.SessionTerm.Flag.REPLY',
              'options = dict(flags=flags, reason=reason)',
              'self.send_message(messages.MessageHead() / messages.SessionTerm(**options))']
    if texts != expect:
        raise Shape('send_sess_term body changed: %s' % texts)
    with open(os.path.join(repo_src, 'tcpcl', 'messages.py'), 'r') as infile:
        mtree = ast.parse(infile.read())
    reply = None
    for node in mtree.body:
        if isinstance(node, ast.ClassDef) and node.name == 'SessionTerm':
            for sub in node.body:
                if isinstance(sub, ast.ClassDef) and sub.name == 'Flag':
                    for stmt in sub.body:
                        if isinstance(stmt, ast.Assign) and ast.unparse(stmt.targets[0]) == 'REPLY' \
                                and isinstance(stmt.value, ast.Constant):
                            reply = stmt.value.value
    if not isinstance(reply, int):
        raise Shape('messages.SessionTerm.Flag.REPLY not found')
    parts.append('Definition gen_sst_raises (in_sess in_term : bool) : bool :=\n  %s.\n'
                 % (' || '.join(guards) if guards else 'false'))
    parts.append('Definition gen_sst_flags (is_reply : bool) : N :=\n  if is_reply then N.lor 0 %d else 0.\n' % reply)
    # recv_message: the SESS_TERM branch
    func = find_func(tree, 'Messenger', 'recv_message')
    branch = None
    for node in ast.walk(func):
        if isinstance(node, ast.If) and ast.unparse(node.test) == 'msgcls == messages.SessionTerm':
            branch = [stmt for stmt in node.body if not is_doc(stmt) and not is_logger(stmt)]
    if branch is None or len(branch) != 3:
        raise Shape('recv_message: SESS_TERM branch not found or changed')
    (first, second, third) = branch
    if not (isinstance(first, ast.If) and not first.orelse and len(first.body) == 1
            and ast.unparse(first.body[0]) == 'raise RejectError(messages.RejectMsg.Reason.UNEXPECTED)'):
        raise Shape('recv_message: SESS_TERM reject guard changed')
    if not (isinstance(second, ast.If) and not second.orelse and len(second.body) == 1
            and ast.unparse(second.body[0]) == 'self.send_sess_term(pkt.payload.reason, True)'):
        raise Shape('recv_message: SESS_TERM reply changed')
    if ast.unparse(third) != 'self.recv_sess_term(pkt.payload.reason)':
        raise Shape('recv_message: SESS_TERM handler call changed')
    parts.append('Definition gen_term_reject (in_sess in_term : bool) : bool :=\n  %s.\n' % ctl_cond(first.test, names))
    parts.append('Definition gen_term_reply (in_sess in_term : bool) : bool :=\n  %s.\n' % ctl_cond(second.test, names))
    # _add_queue_item (send_bundle_data / send_bundle_file / send_bundle_fileobj): the refusal guards
    func = find_func(tree, 'ContactHandler', '_add_queue_item')
    body = [stmt for stmt in func.body if not is_doc(stmt) and not is_logger(stmt)]
    names = {'self._in_sess': 'in_sess', 'self._in_term': 'in_term'}
    guards = []
    while body and isinstance(body[0], ast.If) and not body[0].orelse and len(body[0].body) == 1 \
            and isinstance(body[0].body[0], ast.Raise) \
            and ast.unparse(body[0].body[0].exc).startswith('RuntimeError('):
        guards.append(ctl_cond(body[0].test, names))
        body = body[1:]
    texts = [ast.unparse(stmt) for stmt in body]
    expect = ['if item.transfer_id is None:\n    item.transfer_id = self.next_id()',
              'self._tx_pend_start.append(item)', 'self._tx_map[item.transfer_id] = item',
              'self._process_queue_trigger()', 'return item.transfer_id']
    if texts != expect:
        raise Shape('_add_queue_item body changed: %s' % texts)
    data = find_func(tree, 'ContactHandler', 'send_bundle_data')
    if 'return str(self._add_queue_item(item))' not in stmt_texts(data.body):
        raise Shape('send_bundle_data no longer queues through _add_queue_item')
    parts.append('Definition gen_add_queue_refused (in_sess in_term : bool) : bool :=\n  %s.\n'
                 % (' || '.join(guards) if guards else 'false'))
    sock = find_func(tree, 'Connection', 'get_app_socket')
    if stmt_texts(sock.body) != ['if self.__s_tls:\n    return self.__s_tls', 'return self.__s_notls']:
        raise Shape('get_app_socket body changed')
    close = find_func(tree, 'Connection', 'close')
    texts = stmt_texts(close.body)
    if 'self.__s_notls = None' not in texts or 'self.__s_tls = None' not in texts:
        raise Shape('Connection.close no longer clears the sockets')
    return '\n'.join(parts)


# ---------------------------------------------------------------------------
# The segment-producing part of ContactHandler._process_queue (everything from the
# "waiting on ACK" test to the end)  ->  Gen/TcpclSendNext.v
#
# Inputs of the generated function: the segment size in use, _tx_length (which is also the
# position of the item's file: every octet read is counted), the item's total_length,
# _do_send_ack_final and whether the 'private_extensions' test switch is on.  Statement forms
# (in this order, fail closed otherwise):
#   if <cmp-cond>: return False                                   None (nothing is sent)
#   flg = 0 ; ext_items = []
#   if 'private_extensions' in self._config.enable_test: ext_items.append(<the dummy item>)
#   if <cmp-cond>: flg |= ...Flag.START ; ext_items.append(<TransferTotalLength(total_length=...)>)
#   data = self._tx_tmp.file.read(self._send_segment_size)        dlen := min seg_size (total - tx_length)
#   self._tx_length += len(data)
#   if <cmp-cond>: flg |= ...Flag.END
#   self.send_xfer_data(self._tx_tmp.transfer_id, data, flg, ext_items)
#   self._segment_tx_times[self._tx_length] = datetime...         skipped (controller bookkeeping)
#   if flg & ...Flag.END: [if not self._do_send_ack_final: <report 'unacknowledged' and drop from the map>]
#                         self._tx_pend_ack.add(self._tx_tmp) ; self._tx_teardown()
#   return False
# <cmp-cond>: ==, !=, <, <=, >, >= between self._tx_length, self._tx_tmp.total_length and
# integer constants, combined with not / and / or.

SN_NAMES = {'self._tx_length': 'tx_length', 'self._tx_tmp.total_length': 'total'}
SN_FLAG = {'messages.TransferSegment.Flag.START': 2, 'messages.TransferSegment.Flag.END': 1}


def sn_int(node):
    text = ast.unparse(node)
    if text in SN_NAMES:
        return SN_NAMES[text]
    if isinstance(node, ast.Constant) and isinstance(node.value, int) and not isinstance(node.value, bool) \
            and node.value >= 0:
        return str(node.value)
    raise Shape('send-next: unexpected integer %s' % text)


def sn_cond(node):
    if isinstance(node, ast.UnaryOp) and isinstance(node.op, ast.Not):
        return '(negb %s)' % sn_cond(node.operand)
    if isinstance(node, ast.BoolOp):
        oper = ' && ' if isinstance(node.op, ast.And) else ' || '
        return '(' + oper.join(sn_cond(val) for val in node.values) + ')'
    if isinstance(node, ast.Compare) and len(node.ops) == 1:
        (left, right) = (sn_int(node.left), sn_int(node.comparators[0]))
        oper = node.ops[0]
        table = {ast.Eq: '(%s =? %s)', ast.NotEq: '(negb (%s =? %s))', ast.Lt: '(%s <? %s)', ast.LtE: '(%s <=? %s)'}
        for (cls, fmt) in table.items():
            if isinstance(oper, cls):
                return fmt % (left, right)
        if isinstance(oper, ast.Gt):
            return '(%s <? %s)' % (right, left)
        if isinstance(oper, ast.GtE):
            return '(%s <=? %s)' % (right, left)
    raise Shape('send-next: unexpected condition %s' % ast.unparse(node))


def flag_or(stmt):
    if isinstance(stmt, ast.AugAssign) and isinstance(stmt.op, ast.BitOr) and ast.unparse(stmt.target) == 'flg' \
            and ast.unparse(stmt.value) in SN_FLAG:
        return SN_FLAG[ast.unparse(stmt.value)]
    return None


def sendnext(tree):
    func = find_func(tree, 'ContactHandler', '_process_queue')
    body = [stmt for stmt in func.body if not is_doc(stmt) and not is_logger(stmt)]
    idx = [num for (num, stmt) in enumerate(body) if isinstance(stmt, ast.If) and ast.unparse(stmt.test) == WAIT_ACK_TEST]
    start = None
    for (num, stmt) in enumerate(body):
        if isinstance(stmt, ast.If) and len(stmt.body) == 1 and ast.unparse(stmt.body[0]) == 'return False' \
                and not stmt.orelse and num + 1 < len(body) and ast.unparse(body[num + 1]) == 'flg = 0':
            start = num
    if start is None:
        raise Shape('send-next: the waiting-on-ACK test followed by flg = 0 was not found')
    if idx != [start]:
        raise Shape('send-next: the waiting-on-ACK test is not the one the guard translation stops at')
    stmts = body[start:]
    texts = [ast.unparse(stmt) for stmt in stmts]
    if len(stmts) != 12:
        raise Shape('send-next: expected 12 statements, found %d: %s' % (len(stmts), texts))
    lines = []
    wait = sn_cond(stmts[0].test)
    if texts[1] != 'flg = 0' or texts[2] != 'ext_items = []':
        raise Shape('send-next: initialisation changed')
    priv = stmts[3]
    if not (isinstance(priv, ast.If) and ast.unparse(priv.test) == "'private_extensions' in self._config.enable_test"
            and not priv.orelse and len(priv.body) == 1 and ast.unparse(priv.body[0]).startswith('ext_items.append(')
            and 'TransferPrivateDummy' in ast.unparse(priv.body[0])):
        raise Shape('send-next: private-extension block changed')
    first = stmts[4]
    if not (isinstance(first, ast.If) and not first.orelse and len(first.body) == 2 and flag_or(first.body[0]) == 2
            and ast.unparse(first.body[1]) == 'ext_items.append(messages.TransferExtendHeader() / '
            'extend.TransferTotalLength(total_length=self._tx_tmp.total_length))'):
        raise Shape('send-next: START block changed: %s' % texts[4])
    lines.append('let start := %s in' % sn_cond(first.test))
    lines.append('let flg := if start then N.lor 0 2 else 0 in')
    lines.append('let ext_total := if start then Some total else None in')
    if texts[5] != 'data = self._tx_tmp.file.read(self._send_segment_size)':
        raise Shape('send-next: read changed: %s' % texts[5])
    lines.append('let dlen := N.min seg_size (total - tx_length) in')
    if texts[6] != 'self._tx_length += len(data)':
        raise Shape('send-next: offset bookkeeping changed: %s' % texts[6])
    lines.append('let tx_length := tx_length + dlen in')
    last = stmts[7]
    if not (isinstance(last, ast.If) and not last.orelse and len(last.body) == 1 and flag_or(last.body[0]) == 1):
        raise Shape('send-next: END block changed: %s' % texts[7])
    lines.append('let flg := if %s then N.lor flg 1 else flg in' % sn_cond(last.test))
    if texts[8] != 'self.send_xfer_data(self._tx_tmp.transfer_id, data, flg, ext_items)':
        raise Shape('send-next: send_xfer_data call changed: %s' % texts[8])
    if not texts[9].startswith('self._segment_tx_times[self._tx_length] = datetime.datetime.now('):
        raise Shape('send-next: transmit-time bookkeeping changed: %s' % texts[9])
    fin = stmts[10]
    if not (isinstance(fin, ast.If) and not fin.orelse
            and ast.unparse(fin.test) == 'flg & messages.TransferSegment.Flag.END'):
        raise Shape('send-next: final block test changed: %s' % texts[10])
    fbody = [ast.unparse(stmt) for stmt in fin.body]
    unack = ("if not self._do_send_ack_final:\n    self.send_bundle_finished(str(self._tx_tmp.transfer_id), "
             "self._tx_tmp.file.tell(), 'unacknowledged')\n    self._tx_map.pop(self._tx_tmp.transfer_id)")
    if fbody == [unack, 'self._tx_pend_ack.add(self._tx_tmp)', 'self._tx_teardown()']:
        pass
    else:
        raise Shape('send-next: final block changed: %s' % fbody)
    if texts[11] != 'return False':
        raise Shape('send-next: trailing statements changed')
    lines.append('let at_end := has_end flg in')
    lines.append('Some (mkSegOut flg ext_total priv_ext dlen tx_length at_end (at_end && negb ack_final))')
    parts = [
        '(** GENERATED by translate/targets/tcpclhandlers.py from tcpcl/session.py -- do not edit. *)',
        'From Coq Require Import List NArith Bool.',
        'From DTN Require Import Lib.Bytes Model.TcpclMsg.',
        'Local Open Scope N_scope.',
        '',
        '(** What one pass of the segment-producing part of _process_queue does: the flags of the',
        '    segment sent, the total length carried by its transfer-length extension item (if any),',
        '    whether the private test extension is added, the number of octets read from the file,',
        '    the new _tx_length, whether the item moves to _tx_pend_ack with _tx_teardown(), and',
        '    whether it is reported "unacknowledged" and dropped from the map at once. *)',
        'Record seg_out := mkSegOut {',
        '  so_flags : N; so_ext_total : option N; so_priv : bool; so_dlen : N; so_newlen : N;',
        '  so_moved : bool; so_unack : bool }.',
        '',
        '(** None: nothing more to send, waiting for the final acknowledgement. *)',
        'Definition gen_send_next (seg_size tx_length total : N) (ack_final priv_ext : bool) : option seg_out :=',
        '  if %s then None' % wait,
        '  else',
    ] + ['    ' + line for line in lines]
    return '\n'.join(parts) + '.\n'


def close_flush(tree):
    # ContactHandler.close: the report loop over the unstarted transfers must come first, then the
    # removal from the bus and Messenger.close (nothing may be reported after the connection is down)
    func = find_func(tree, 'ContactHandler', 'close')
    if [arg.arg for arg in func.args.args] != ['self']:
        raise Shape('close: unexpected signature')
    body = [stmt for stmt in func.body if not is_doc(stmt) and not is_logger(stmt)]
    if len(body) != 3 or not isinstance(body[0], ast.While):
        raise Shape('close: expected the report loop, remove_from_connection and Messenger.close: %s'
                    % [ast.unparse(stmt) for stmt in body])
    if ast.unparse(body[1]) != 'if tuple(self.locations):\n    self.remove_from_connection()' \
            or ast.unparse(body[2]) != 'Messenger.close(self)':
        raise Shape('close: statements after the report loop changed: %s' % [ast.unparse(stmt) for stmt in body[1:]])
    env = Env(tree, [])
    text = block([body[0]], env, 'close', 'h', False, 1)
    return '\n'.join([
        '(** GENERATED by translate/targets/tcpclhandlers.py from tcpcl/session.py -- do not edit. *)',
        'From Coq Require Import List NArith Bool.',
        'From DTN Require Import Lib.Bytes Model.TcpclMsg Model.TcpclSess Model.TcpclHandlerSt.',
        'Import ListNotations.',
        'Local Open Scope N_scope.',
        '',
    ] + env.aux + ['(* ContactHandler.close, before the connection goes down *)',
                   'Definition gen_close_flush (h : hst) : hst :=\n%s.\n' % text])


def generate(repo_src):
    with open(os.path.join(repo_src, 'tcpcl', 'session.py'), 'r') as infile:
        tree = ast.parse(infile.read())
    parts = [
        '(** GENERATED by translate/targets/tcpclhandlers.py from tcpcl/session.py -- do not edit. *)',
        'From Coq Require Import List NArith Bool.',
        'From DTN Require Import Lib.Bytes Model.TcpclMsg Model.TcpclSess Model.TcpclHandlerSt.',
        'Import ListNotations.',
        'Local Open Scope N_scope.',
        '',
        teardown(tree),
        rx_helpers(tree),
    ]
    for name in ('recv_xfer_ack', 'recv_xfer_refuse', 'recv_sess_term', 'recv_xfer_data'):
        parts.append(handler(tree, name))
    return {'Gen/TcpclHandlers.v': '\n'.join(parts), 'Gen/TcpclControl.v': control(repo_src, tree),
            'Gen/TcpclClose.v': close_flush(tree),
            'Gen/TcpclSendNext.v': sendnext(tree)}
